"""C02 bounded stand-in: write_molecule_itp runs natively on many small molecules; the text is read back by an
independent mini ITP reader and compared with the molecule held in memory, clause by clause of the statement."""
import hashlib
import io
import itertools
import logging
import random
from collections import Counter

from .common import Collector, REPO, load_cli  # noqa: F401  (REPO/load_cli: sys.path handling lives in common)

FN = 'write_molecule_itp'

# --------------------------------------------------------------------------------------------------------------
# independent reader (GROMACS column conventions; knows nothing about vermouth)
# --------------------------------------------------------------------------------------------------------------
# number of leading atom columns of a line, per section. None = every token is an atom.
ARITY = {'bonds': 2, 'pairs': 2, 'constraints': 2, 'angles': 3, 'dihedrals': 4, 'position_restraints': 1,
         'settles': 1, 'virtual_sites2': 3, 'virtual_sites3': 4, 'exclusions': None, 'pairs_nb': 2,
         'distance_restraints': 2, 'dihedral_restraints': 4}
# in-memory interaction type -> section it has to be read back from
SECTION_OF = dict({name: name for name in ARITY}, impropers='dihedrals', virtual_sitesn='virtual_sitesn')
MEM_ARITY = dict(ARITY, impropers=4)


def canon(value):
    """a parameter / numeric field as a reader sees it: a number if it reads as one, else the bare word."""
    word = value if isinstance(value, str) else repr(value)
    try:
        return ('n', float(word))
    except ValueError:
        return ('s', word)


def read_itp(text):
    """-> (atom rows, interaction records, structural problems).
    atom row = list of white-space separated tokens; interaction record = (section, atom indices, parameters, guard)"""
    atoms, inters, problems = [], [], []
    section = None
    stack = []
    for raw in text.split('\n'):
        line = raw.split(';', 1)[0].strip()
        if not line:
            continue
        if line[0] == '#':
            toks = line.split()
            if toks[0] in ('#ifdef', '#ifndef'):
                if len(toks) != 2:
                    problems.append(('guard-syntax', raw))
                stack.append((toks[0][1:], toks[1] if len(toks) > 1 else None))
            elif toks[0] == '#endif':
                if stack:
                    stack.pop()
                else:
                    problems.append(('endif-without-guard', raw))
            elif toks[0] in ('#define', '#include', '#undef'):
                pass
            else:
                problems.append(('unknown-directive', raw))
            continue
        if line[0] == '[':
            if stack:
                problems.append(('guard-open-at-section-header', raw))
            section = line.strip('[]').strip()
            continue
        toks = line.split()
        guard = None if not stack else (stack[0] if len(stack) == 1 else tuple(stack))
        if section is None:
            problems.append(('line-outside-section', raw))
        elif section == 'moleculetype':
            pass
        elif section == 'atoms':
            if guard is not None:
                problems.append(('guarded-atom', raw))
            atoms.append(toks)
        else:
            try:
                if section == 'virtual_sitesn':
                    idx = (int(toks[0]),) + tuple(int(t) for t in toks[2:])
                    params = (canon(toks[1]),)
                elif section in ARITY:
                    n = len(toks) if ARITY[section] is None else ARITY[section]
                    if len(toks) < n:
                        raise ValueError('short line')
                    idx = tuple(int(t) for t in toks[:n])
                    params = tuple(canon(t) for t in toks[n:])
                else:
                    problems.append(('unknown-section', section))
                    continue
            except (ValueError, IndexError):
                problems.append(('unreadable-line-in-' + section, raw))
                continue
            inters.append((section, idx, params, guard))
    if stack:
        problems.append(('guard-open-at-end', repr(stack)))
    return atoms, inters, problems


# --------------------------------------------------------------------------------------------------------------
# the molecule in memory
# --------------------------------------------------------------------------------------------------------------
def build(spec):
    from vermouth.molecule import Molecule
    meta = {'moltype': spec.get('moltype', 'MOL')}
    for k in ('define', 'pre_section_lines', 'post_section_lines'):
        if spec.get(k):
            meta[k] = {a: (list(b) if isinstance(b, (list, tuple)) else b) for a, b in spec[k].items()}
    mol = Molecule(nrexcl=spec.get('nrexcl', 1), meta=meta)
    for key, attrs in spec['nodes']:
        mol.add_node(key, **attrs)
    for type_, atoms, params, imeta in spec['interactions']:
        mol.add_interaction(type_, atoms, list(params), dict(imeta))
    for type_ in spec.get('empty_types', ()):
        mol.interactions[type_] = []
    for key in spec.get('remove', ()):
        mol.remove_node(key)
    return mol


def snapshot(mol):
    """the molecule held in memory, through the plain graph / dict API only."""
    nodes = [(key, dict(mol.nodes[key])) for key in mol.nodes]
    inters = []
    for type_, lst in mol.interactions.items():
        for inter in lst:
            inters.append((type_, tuple(inter.atoms), list(inter.parameters), dict(inter.meta)))
    return nodes, inters


def expected_order(nodes):
    """atom-id order if every atom has a distinct atom id, node order if none has one, None = not specified."""
    ids = [attrs.get('atomid') for _, attrs in nodes]
    if all(i is None for i in ids):
        return list(range(len(nodes)))
    if any(i is None for i in ids) or len(set(ids)) != len(ids):
        return None
    rest = list(range(len(nodes)))
    order = []
    while rest:
        low = rest[0]
        for j in rest:
            if ids[j] < ids[low]:
                low = j
        order.append(low)
        rest.remove(low)
    return order


ATOM_FIELDS = ('atype', 'resid', 'resname', 'atomname', 'charge_group', 'charge', 'mass')


def expected_row(attrs):
    return tuple(None if attrs.get(f) is None and f in ('charge', 'mass') else canon(attrs[f]) for f in ATOM_FIELDS)


def loose(row):
    """an atom row with charge/mass taken position-insensitively."""
    return row[:5] + tuple(x for x in row[5:] if x is not None)


def observed_row(toks):
    """nr type resnr residue atom cgnr [charge [mass]] -> (nr, fields)"""
    if not 6 <= len(toks) <= 8:
        raise ValueError('wrong number of columns')
    nr = int(toks[0])
    fields = [canon(t) for t in toks[1:]] + [None] * (8 - len(toks))
    return nr, tuple(fields)


def expected_guard(meta):
    if meta.get('ifdef') is not None:
        return ('ifdef', meta['ifdef'])
    if meta.get('ifndef') is not None:
        return ('ifndef', meta['ifndef'])
    return None


def describe(spec):
    out = dict(nodes=[[repr(k), {a: (v if isinstance(v, (int, float, str)) else repr(v)) for a, v in at.items()}]
                      for k, at in spec['nodes']],
               interactions=[[t, [repr(a) for a in atoms], list(params), dict(meta)]
                             for t, atoms, params, meta in spec['interactions']])
    for k in ('remove', 'empty_types'):
        if spec.get(k):
            out[k] = [repr(x) for x in spec[k]]
    for k in ('define', 'pre_section_lines', 'post_section_lines', 'header'):
        if spec.get(k):
            out[k] = spec[k]
    return out


# --------------------------------------------------------------------------------------------------------------
# one evaluation: real writer -> independent reader -> clause-by-clause comparison
# --------------------------------------------------------------------------------------------------------------
def evaluate(spec):
    """-> (violations [(key, function, what, observed, expected)], info dict) ; info None if the input is excluded."""
    from vermouth.gmx.itp import write_molecule_itp
    out = []
    mol = build(spec)
    nodes, inters = snapshot(mol)
    n = len(nodes)
    if n == 0:
        return out, None
    order = expected_order(nodes)
    rows = [expected_row(attrs) for _, attrs in nodes]
    if order is None and len(set(map(loose, rows))) != n:
        return out, None  # atoms indistinguishable and order unspecified: nothing can be decided from the text
    keys = [k for k, _ in nodes]
    pos_of_key = {k: i for i, k in enumerate(keys)}

    # helpers of the writer, checked on their own so that a wrong order can be attributed
    sorted_nodes_ok = True
    try:
        got_sorted = list(mol.sorted_nodes)
        if Counter(map(repr, got_sorted)) != Counter(map(repr, keys)):
            sorted_nodes_ok = False
            out.append(('sorted_nodes/permutation', 'Molecule.sorted_nodes', 'not a permutation of the node keys',
                        [repr(k) for k in got_sorted], [repr(k) for k in keys]))
        elif order is not None and got_sorted != [keys[i] for i in order]:
            sorted_nodes_ok = False
            out.append(('sorted_nodes/order', 'Molecule.sorted_nodes',
                        'nodes not in atom-id order (node order when there are no atom ids)',
                        [repr(k) for k in got_sorted], [repr(keys[i]) for i in order]))
    except Exception as exc:  # pylint: disable=broad-except
        sorted_nodes_ok = False
        out.append(('sorted_nodes/raises-' + type(exc).__name__, 'Molecule.sorted_nodes', 'raised', repr(exc), 'no error'))
    nonempty = sorted({t for t, _, _, _ in inters})
    try:
        got_types = list(mol.sort_interactions(mol.interactions))
        if sorted(got_types) != nonempty:
            out.append(('sort_interactions/types', 'Molecule.sort_interactions',
                        'does not yield every non-empty interaction type exactly once', got_types, nonempty))
    except Exception as exc:  # pylint: disable=broad-except
        out.append(('sort_interactions/raises-' + type(exc).__name__, 'Molecule.sort_interactions', 'raised', repr(exc),
                    'no error'))

    buf = io.StringIO()
    try:
        write_molecule_itp(mol, buf, header=spec.get('header', ()))
    except Exception as exc:  # pylint: disable=broad-except
        if isinstance(exc, ValueError) and any(r[5] is None and r[6] is not None for r in rows):
            # a mass without a charge has no place in the column format; refusing to write states nothing wrong
            return out, None
        out.append(('write_molecule_itp/raises-' + type(exc).__name__, FN, 'writing a well-formed molecule raised',
                    repr(exc), 'ITP text'))
        return out, dict(n=n)
    text = buf.getvalue()
    atom_toks, got_inters, problems = read_itp(text)
    for kind, detail in problems:
        out.append(('text/' + kind, FN, 'the text is not a well-formed ITP for an independent reader', detail, 'none'))

    # ---- atoms
    index_of_pos = None  # memory position -> written index
    who = 'Molecule.sorted_nodes' if not sorted_nodes_ok else FN
    try:
        got_rows = [observed_row(t) for t in atom_toks]
    except ValueError:
        out.append(('atoms/unreadable', FN, 'an [ atoms ] line cannot be read column by column', atom_toks, 'nr type resnr residue atom cgnr [q [m]]'))
        got_rows = None
    if got_rows is not None:
        if len(got_rows) != n:
            out.append(('atoms/count', FN, 'number of atom lines differs from the number of atoms in memory '
                        '(dropped or duplicated)', len(got_rows), n))
        elif [nr for nr, _ in got_rows] != list(range(1, n + 1)):
            out.append(('atoms/numbering', FN, 'atoms are not numbered 1..N without gaps', [nr for nr, _ in got_rows],
                        list(range(1, n + 1))))
        else:
            if order is not None:
                index_of_pos = {p: i + 1 for i, p in enumerate(order)}
                # an atom with a mass but no charge cannot be told from (charge, no mass) by column position:
                # first compare with charge/mass taken position-insensitively, then strictly
                exp_rows = [rows[p] for p in order]
                for i, (exp, (_, got)) in enumerate(zip(exp_rows, got_rows)):
                    if loose(exp) == loose(got):
                        continue
                    if Counter(map(loose, exp_rows)) == Counter(loose(g) for _, g in got_rows):
                        out.append(('atoms/order', who, 'atoms are written in another order than atom-id order '
                                    '(node order without atom ids)', [_plain(g[3]) for _, g in got_rows],
                                    [_plain(r[3]) for r in exp_rows]))
                        index_of_pos = None
                        if len(set(map(loose, rows))) == n:  # wiring can still be judged by atom identity
                            where = {loose(g): nr for nr, g in got_rows}
                            index_of_pos = {p: where[loose(rows[p])] for p in range(n)}
                    else:
                        index_of_pos = None
                        bad = [f for f, a, b in zip(ATOM_FIELDS[:5], exp, got) if a != b]
                        bad = bad or (['charge'] if exp[5] != got[5] else ['mass'])
                        out.append(('atoms/field-' + bad[0], FN, 'atom %d reads back with another %s' % (i + 1, bad[0]),
                                    dict(zip(ATOM_FIELDS, map(_plain, got))), dict(zip(ATOM_FIELDS, map(_plain, exp)))))
                    break
                else:
                    for i, (exp, (_, got)) in enumerate(zip(exp_rows, got_rows)):
                        if exp != got:
                            out.append(('atoms/mass-without-charge', FN, 'atom %d has a mass but no charge; the text puts '
                                        'the mass in the charge column' % (i + 1),
                                        dict(zip(ATOM_FIELDS, map(_plain, got))), dict(zip(ATOM_FIELDS, map(_plain, exp)))))
                            break
            else:
                # order not specified by the statement: only demand a permutation, identified by the (unique) rows
                if Counter(map(loose, rows)) != Counter(loose(g) for _, g in got_rows):
                    out.append(('atoms/permutation', FN, 'the atom lines are not a permutation of the atoms in memory',
                                [_plain(g[3]) for _, g in got_rows], [_plain(r[3]) for r in rows]))
                else:
                    where = {loose(g): nr for nr, g in got_rows}
                    index_of_pos = {p: where[loose(rows[p])] for p in range(n)}

    # ---- interactions
    if index_of_pos is not None:
        exp_inters = []
        for type_, atoms, params, meta in inters:
            exp_inters.append((SECTION_OF[type_], tuple(index_of_pos[pos_of_key[a]] for a in atoms),
                               tuple(canon(p) for p in params), expected_guard(meta)))
        exp_c, got_c = Counter(exp_inters), Counter(got_inters)
        if exp_c != got_c:
            def proj(counter, drop):
                res = Counter()
                for rec, cnt in counter.items():
                    res[tuple(x for i, x in enumerate(rec) if i != drop)] += cnt
                return res
            missing = sorted((exp_c - got_c).elements(), key=repr)
            extra = sorted((got_c - exp_c).elements(), key=repr)
            if proj(exp_c, 1) == proj(got_c, 1):
                key, what = 'interactions/atoms', 'an interaction is attached to other atoms than in memory'
            elif proj(exp_c, 3) == proj(got_c, 3):
                key, what = 'interactions/guard', 'an interaction sits inside another #ifdef/#ifndef guard than in memory'
            elif proj(exp_c, 0) == proj(got_c, 0):
                key, what = 'interactions/section', 'an interaction sits in the wrong section'
            elif proj(exp_c, 2) == proj(got_c, 2):
                key, what = 'interactions/parameters', 'an interaction carries other parameters than in memory'
            elif all(rec[0] == 'virtual_sitesn' for rec in missing + extra) and len(got_inters) == len(exp_inters):
                key, what = 'interactions/virtual_sitesn-layout', 'an n-body virtual site does not read back as ' \
                    'site, function type, constructing atoms'
            elif len(got_inters) < len(exp_inters):
                key, what = 'interactions/dropped', 'an interaction in memory is not in the text'
            elif len(got_inters) > len(exp_inters):
                key, what = 'interactions/duplicated', 'the text holds more interactions than memory'
            else:
                key, what = 'interactions/mismatch', 'the interactions read back differ from memory in several respects'
            out.append((key, FN, what, dict(only_in_text=[list(map(_plain, r)) for r in extra[:6]]),
                        dict(only_in_memory=[list(map(_plain, r)) for r in missing[:6]])))
    identity = all(k == index_of_pos[i] for i, k in enumerate(keys)) if index_of_pos else False
    return out, dict(n=n, n_inter=len(inters), identity=identity, specified=order is not None, text=text)


def _plain(x):
    if isinstance(x, tuple):
        if len(x) == 2 and x[0] in ('n', 's') and not isinstance(x[1], tuple):
            return x[1]
        return [_plain(y) for y in x]
    return x


# --------------------------------------------------------------------------------------------------------------
# shrinking, reporting
# --------------------------------------------------------------------------------------------------------------
def _has(spec, key):
    try:
        vs, _ = evaluate(spec)
    except Exception:  # pylint: disable=broad-except
        return None
    for v in vs:
        if v[0] == key:
            return v
    return None


def shrink(spec, key):
    best = dict(spec)
    changed = True
    rounds = 0
    while changed and rounds < 6:
        changed = False
        rounds += 1
        for field in ('header', 'define', 'pre_section_lines', 'post_section_lines', 'empty_types'):
            if best.get(field):
                cand = dict(best)
                cand.pop(field)
                if _has(cand, key):
                    best, changed = cand, True
        i = 0
        while i < len(best['interactions']):
            cand = dict(best, interactions=best['interactions'][:i] + best['interactions'][i + 1:])
            if _has(cand, key):
                best, changed = cand, True
            else:
                i += 1
        used = {a for _, atoms, _, _ in best['interactions'] for a in atoms} | set(best.get('remove', ()))
        i = 0
        while i < len(best['nodes']):
            if best['nodes'][i][0] in used or len(best['nodes']) == 1:
                i += 1
                continue
            cand = dict(best, nodes=best['nodes'][:i] + best['nodes'][i + 1:])
            if _has(cand, key):
                best, changed = cand, True
            else:
                i += 1
        for i, (t, atoms, params, meta) in enumerate(best['interactions']):
            for mk in list(meta):
                m2 = {a: b for a, b in meta.items() if a != mk}
                cand = dict(best, interactions=best['interactions'][:i] + [(t, atoms, params, m2)] + best['interactions'][i + 1:])
                if _has(cand, key):
                    best, changed, meta = cand, True, m2
        for i, (k, attrs) in enumerate(best['nodes']):
            for ak in [a for a in attrs if a not in ATOM_FIELDS[:5] and a != 'atomid']:
                a2 = {a: b for a, b in attrs.items() if a != ak}
                cand = dict(best, nodes=best['nodes'][:i] + [(k, a2)] + best['nodes'][i + 1:])
                if _has(cand, key):
                    best, changed, attrs = cand, True, a2
    return best


def check_case(col, spec, tag):
    try:
        vs, info = evaluate(spec)
    except Exception as exc:  # pylint: disable=broad-except
        # the harness itself failed to build the molecule: not a statement about the writer
        col.violation('harness/' + type(exc).__name__, 'bounded.c02', 'could not build / evaluate the case (%s)' % tag,
                      describe(spec), repr(exc), 'a molecule')
        return
    if info is None:
        return
    fp = hashlib.md5(repr(describe(spec)).encode()).hexdigest()
    nontriv = bool(info.get('n_inter')) and not info.get('identity', False)
    sample = None
    if nontriv and len(col.samples) < 4 and info.get('n', 0) <= 5:
        sample = dict(input=describe(spec), text=info.get('text'))
    col.case(fp, nontriv, sample)
    seen = {v['key'] for v in col.violations}
    for key, function, what, observed, expected in vs:
        if key in seen:
            continue
        seen.add(key)
        small = shrink(spec, key)
        again = _has(small, key)
        if again is not None:
            key, function, what, observed, expected = again
        else:
            small = spec
        col.violation(key, function, '%s (%s)' % (what, tag), describe(small), observed, expected)


# --------------------------------------------------------------------------------------------------------------
# generation
# --------------------------------------------------------------------------------------------------------------
def atom(i, atomid=None, charge=0.0, mass=None, **extra):
    attrs = dict(atype='T%d' % (i % 3), resid=1 + i // 2, resname='RES', atomname='A%d' % i, charge_group=i + 1)
    if atomid is not None:
        attrs['atomid'] = atomid
    if charge is not None:
        attrs['charge'] = charge
    if mass is not None:
        attrs['mass'] = mass
    attrs.update(extra)
    return attrs


def full_interactions(keys):
    """one of everything the statement names, on the first atoms of `keys` (only what fits)."""
    k = keys
    n = len(k)
    out = [('position_restraints', (k[i],), [1, 1000 + i, 1000, 1000], {'ifdef': 'POSRES'}) for i in range(n)]
    if n >= 2:
        out += [('bonds', (k[0], k[1]), [1, 0.47, 1250], {}),
                ('bonds', (k[1], k[0]), [1, 0.33, 5000], {'ifdef': 'FLEXIBLE', 'comment': 'stiff'}),
                ('constraints', (k[1], k[0]), [1, 0.33], {'ifndef': 'FLEXIBLE', 'group': 'Backbone'}),
                ('exclusions', (k[1], k[0]), [], {})]
    if n >= 3:
        out += [('bonds', (k[2], k[1]), [1, 0.29, 7500], {'group': 'Side chain', 'version': 1}),
                ('bonds', (k[2], k[1]), [1, 0.31, 7500], {'group': 'Side chain', 'version': 2}),
                ('angles', (k[0], k[1], k[2]), [2, 127, 20], {}),
                ('angles', (k[2], k[0], k[1]), ['10', '100.0', '15'], {'ifndef': 'NOANG'}),
                ('virtual_sitesn', (k[2], k[0], k[1]), [1], {}),
                ('exclusions', (k[2], k[0], k[1]), [], {'comment': 'x'})]
    if n >= 4:
        out += [('dihedrals', (k[0], k[1], k[2], k[3]), [1, 180, 4.5, 2], {}),
                ('dihedrals', (k[0], k[1], k[2], k[3]), [1, 0, 1.5, 3], {'version': 2, 'ifdef': 'TORS'}),
                ('impropers', (k[3], k[1], k[0], k[2]), [2, 0, 50], {'comment': 'improper'}),
                ('virtual_sitesn', (k[3], k[2], k[0], k[1]), [2], {'ifdef': 'VS'}),
                ('virtual_sites3', (k[1], k[0], k[2], k[3]), [1, 0.5, 0.25], {})]
    return out


KEY_LAYOUTS = [
    ('plain0', lambda n: list(range(n))),
    ('plain1', lambda n: list(range(1, n + 1))),
    ('sparse-unordered', lambda n: [7, 2, 11, 5][:n]),
    ('reversed', lambda n: list(range(n - 1, -1, -1))),
    ('mixed-types', lambda n: ['b', 'a', (1, 2), -3][:n]),
]


def exhaustive_wiring():
    """every atom-id assignment (none, every permutation of 1..N, every permutation of a gapped id set) x key layout,
    N = 1..4, with one interaction of every kind."""
    gapped = [3, 7, 8, 20]
    for n in (1, 2, 3, 4):
        for lname, layout in KEY_LAYOUTS:
            keys = layout(n)
            id_sets = [None] + list(itertools.permutations(range(1, n + 1))) + list(itertools.permutations(gapped[:n]))
            for ids in id_sets:
                nodes = [(k, atom(i, None if ids is None else ids[i], charge=[0.0, -1.0, 1, 0.5][i], mass=[72, 72.0, 36, 54.5][i]))
                         for i, k in enumerate(keys)]
                yield dict(nodes=nodes, interactions=full_interactions(keys)), 'wiring %s' % lname


def exhaustive_guards():
    """three bonds, every guard in {none, ifdef A, ifndef A, ifdef B, ifndef B}^3 x three group patterns."""
    keys = [7, 2, 11]
    ids = [2, 3, 1]
    nodes = [(k, atom(i, ids[i])) for i, k in enumerate(keys)]
    pairs = [(7, 2), (2, 11), (11, 7)]
    guards = [{}, {'ifdef': 'A'}, {'ifndef': 'A'}, {'ifdef': 'B'}, {'ifndef': 'B'}]
    for combo in itertools.product(guards, repeat=3):
        for groups in ((None, None, None), ('g', 'g', None), ('g', 'h', 'g')):
            inters = []
            for j in range(3):
                meta = dict(combo[j])
                if groups[j]:
                    meta['group'] = groups[j]
                inters.append(('bonds', pairs[j], [1, 0.3 + j / 10, 1000 * (j + 1)], meta))
            yield dict(nodes=nodes, interactions=inters), 'guards'


def exhaustive_charge_mass():
    """two atoms, each with/without charge and with/without mass (16 combinations), permuted ids, sparse keys."""
    for (c0, m0, c1, m1) in itertools.product((None, 0.5), (None, 72.0), (None, -1), (None, 36)):
        nodes = [(9, atom(0, 2, charge=c0, mass=m0)), (4, atom(1, 1, charge=c1, mass=m1))]
        yield dict(nodes=nodes, interactions=[('bonds', (9, 4), [1, 0.4, 100], {})]), 'charge/mass presence'


MACROS = ['A', 'B', 'FLEXIBLE', 'POSRES', 'X1']
GROUPS = [None, None, None, '', 'g1', 'b group', 'zz', 'Backbone']
COMMENTS = [None, None, 'c', 'a ; b', 'see # note', '']
TYPES = ['bonds', 'bonds', 'bonds', 'angles', 'angles', 'dihedrals', 'impropers', 'constraints', 'pairs', 'exclusions',
         'position_restraints', 'virtual_sitesn', 'virtual_sites2', 'virtual_sites3', 'settles']


def random_key(rng, used):
    while True:
        kind = rng.random()
        if kind < 0.55:
            k = rng.randint(-5, 60)
        elif kind < 0.7:
            k = rng.randint(10 ** 5, 10 ** 6)
        elif kind < 0.9:
            k = rng.choice('abcdefghijklmnop') + str(rng.randint(0, 9))
        else:
            k = (rng.randint(0, 3), rng.choice('xyz'))
        if k not in used:
            used.add(k)
            return k


def random_param(rng):
    r = rng.random()
    if r < 0.3:
        return rng.randint(0, 12)
    if r < 0.6:
        return round(rng.uniform(-200, 2000), rng.randint(0, 4))
    if r < 0.7:
        return rng.choice([1e-05, 1.5e+20, 0.0, -0.0, 1250.0])
    if r < 0.9:
        return rng.choice(['1', '0.47', '1250', '180.0', 'gb_2', 'dist(BB,SC1)', '-3.5e-2'])
    return rng.choice(['C1', 'P5', 'ga_12'])


def random_spec(rng, big):
    n = rng.randint(1, 14 if big else 8)
    used = set()
    style = rng.random()
    if style < 0.1:
        keys = list(range(n))
    elif style < 0.2:
        keys = list(range(1, n + 1))
        rng.shuffle(keys)
    elif style < 0.6:
        keys = rng.sample(range(-3, 40), n)
    else:
        keys = [random_key(rng, used) for _ in range(n)]
    # atom ids
    r = rng.random()
    unspecified = False
    if r < 0.2:
        ids = [None] * n
    elif r < 0.45:
        ids = list(range(1, n + 1))
        rng.shuffle(ids)
    elif r < 0.75:
        ids = rng.sample(range(-4, 200), n)
    elif r < 0.85:
        ids = sorted(rng.sample(range(1, 300), n))
    elif r < 0.93:  # some atoms without id: the order is not specified, only the wiring is checked
        ids = [rng.choice([None, rng.randint(1, 50)]) for _ in range(n)]
        unspecified = True
    else:  # repeated ids
        ids = [rng.randint(1, max(1, n // 2)) for _ in range(n)]
        unspecified = True
    cm = rng.random()
    nodes = []
    for i, k in enumerate(keys):
        if cm < 0.35:
            charge, mass = rng.choice([0, 0.0, 1.0, -1.0, 0.5, -0.25]), rng.choice([72, 72.0, 36.0, 54, 45.5])
        elif cm < 0.6:
            charge, mass = rng.choice([0, 0.0, 1.0, -1.0]), None
        elif cm < 0.8:
            charge, mass = None, None
        elif cm < 0.97:  # per-atom mix of the representable shapes
            charge, mass = rng.choice([(0.0, 72.0), (1, None), (None, None)])
        else:
            charge, mass = None, rng.choice([72, 36.0])
        attrs = dict(atype=rng.choice(['P5', 'C1', 'Qd', 'SN0', 'TC5']), resid=rng.choice([1, 1, 2, 3, 10, 999, 12345]) + i // 3,
                     resname=rng.choice(['ALA', 'GLY', 'POPC', 'W']),
                     atomname=('N%d' % i) if unspecified or rng.random() < 0.5 else rng.choice(['BB', 'SC1', 'SC2']),
                     charge_group=rng.choice([i + 1, 1, 100 + i]))
        if ids[i] is not None:
            attrs['atomid'] = ids[i]
        if charge is not None:
            attrs['charge'] = charge
        if mass is not None:
            attrs['mass'] = mass
        if rng.random() < 0.3:
            attrs['chain'] = rng.choice('AB')
        if rng.random() < 0.2:
            attrs['position'] = (0.1 * i, 0.0, 1.0)
        nodes.append((k, attrs))
    spec = dict(nodes=nodes)
    # nodes removed afterwards through Molecule.remove_node (the state after node removal)
    alive = list(keys)
    if n >= 3 and rng.random() < 0.2:
        gone = rng.sample(keys, rng.randint(1, max(1, n // 3)))
        spec['remove'] = gone
    inters = []
    for _ in range(rng.randint(0, 14 if big else 8)):
        t = rng.choice(TYPES)
        if t == 'virtual_sitesn':
            na = rng.randint(2, 5)
        elif t == 'exclusions':
            na = rng.randint(2, 5)
        else:
            na = MEM_ARITY[t]
        if na > len(alive) and rng.random() < 0.8:
            continue
        atoms = tuple(rng.sample(alive, na)) if na <= len(alive) and rng.random() < 0.95 else tuple(rng.choice(alive) for _ in range(na))
        if t == 'virtual_sitesn':
            params = [rng.choice([1, 2, '1', '2'])]
        elif t == 'exclusions':
            params = []
        else:
            params = [random_param(rng) for _ in range(rng.randint(0, 5))]
        meta = {}
        g = rng.random()
        if g < 0.2:
            meta['ifdef'] = rng.choice(MACROS)
        elif g < 0.4:
            meta['ifndef'] = rng.choice(MACROS)
        elif g < 0.45:
            meta['ifdef'] = None
            meta['ifndef'] = rng.choice(MACROS)
        grp = rng.choice(GROUPS)
        if grp is not None:
            meta['group'] = grp
        com = rng.choice(COMMENTS)
        if com is not None:
            meta['comment'] = com
        if rng.random() < 0.3:
            meta['version'] = rng.randint(0, 3)
        if rng.random() < 0.1:
            meta['edge'] = False
        inters.append((t, atoms, params, meta))
        if rng.random() < 0.15:  # the same atoms again, another version / guard
            meta2 = dict(meta, version=rng.randint(4, 6))
            if rng.random() < 0.5:
                meta2.pop('ifdef', None)
                meta2.pop('ifndef', None)
                meta2[rng.choice(['ifdef', 'ifndef'])] = rng.choice(MACROS)
            inters.append((t, atoms, [random_param(rng) for _ in params], meta2))
    spec['interactions'] = inters
    if rng.random() < 0.1:
        spec['empty_types'] = [rng.choice(['cmap', 'angles_x', 'pairs_x'])]
    if rng.random() < 0.1:
        spec['header'] = ['written by the test', '; double', '']
    if rng.random() < 0.1:
        spec['define'] = {'POSRES_FC': 1000}
    if rng.random() < 0.08:
        spec['pre_section_lines'] = {'atoms': ['; id type resnr'], 'bonds': ['; i j funct'], 'foo': ['; nothing here']}
    if rng.random() < 0.08:
        spec['post_section_lines'] = {'atoms': ['; end of atoms'], 'angles': ['; end'], 'bar': ['; empty']}
    return spec


def bounded(tier, seed):
    logging.disable(logging.CRITICAL)
    try:
        return _bounded(tier, seed)
    finally:
        logging.disable(logging.NOTSET)


def _bounded(tier, seed):
    rng = random.Random(seed)
    quick = tier != 'thorough'
    col = Collector('real write_molecule_itp -> independent column reader (atoms: nr type resnr residue atom cgnr [q [m]]; '
                    'interactions by section arity, impropers under dihedrals, virtual_sitesn as site funct atoms; '
                    '#ifdef/#ifndef/#endif stack) compared with the molecule in memory: atom rows in atom-id order '
                    '(node order without ids) numbered 1..N, multiset of (section, atom indices, parameters, guard). '
                    'exhaustive: N=1..4 x 5 key layouts x {no ids, all permutations of 1..N, all permutations of a gapped '
                    'id set} with one interaction of every kind; 5^3 guard combinations x 3 group patterns on 3 bonds; '
                    '16 charge/mass presence combinations; then seeded random molecules (N<=14, sparse/mixed/tuple keys, '
                    'permuted/gapped/sorted/missing/repeated ids, removed nodes, versions, guards, groups, comments, '
                    'header/define/pre/post lines). non-trivial = has interactions and key->index map is not the identity',
                    max_violations=20)
    count = 0
    for gen in (exhaustive_wiring, exhaustive_guards, exhaustive_charge_mass):
        for spec, tag in gen():
            check_case(col, spec, 'exhaustive: ' + tag)
            count += 1
    col.exhaustive = True
    col.bound = ('%d molecules: N<=4 x 5 key layouts x all atom-id permutations (plain and gapped) and none; '
                 '125 guard combinations x 3 group patterns; 16 charge/mass shapes' % count)
    n_rand = 2500 if quick else 150000
    for i in range(n_rand):
        spec = random_spec(rng, big=(i % 3 == 0))
        check_case(col, spec, 'random')
    return col.result()


def replay_model(function, model):  # pylint: disable=unused-argument
    """counter-models of the C02 contracts live on a ghost write-trace; they are not replayed natively."""
    return None

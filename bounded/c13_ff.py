"""C13 bounded stand-in, .ff part: a generator that writes well-formed force-field files from a random
declaration (the declaration *is* the expectation; the surface syntax - prefix vs order attribute, name vs
index, delimiter, macros, spacing, comments - is chosen independently), an observer that flattens what
vermouth loaded, a clause-by-clause comparison, and the six listed faults injected at line level.

Nothing here calls a parser helper of /repo: the expectation is built from the semantic values the generator
chose, never from the text."""
import json
import re
import zlib

# documented interaction sections and their arity (doc/source/file_formats.rst "Known interactions")
ARITY = {'bonds': 2, 'angles': 3, 'dihedrals': 4, 'impropers': 4, 'constraints': 2, 'pairs': 2, 'pairs_nb': 2,
         'SETTLE': 1, 'virtual_sites2': 3, 'virtual_sites3': 4, 'virtual_sites4': 5, 'position_restraints': 1,
         'distance_restraints': 2, 'dihedral_restraints': 4, 'orientation_restraints': 2, 'angle_restraints': 4,
         'angle_restraints_z': 2}
VARIADIC = ('exclusions',)
# "bonds, angles, dihedrals, cmap, and constraints will automatically add the corresponding edges"
EDGE_SECTIONS = ('bonds', 'angles', 'dihedrals', 'constraints')

ATOMNAMES = ['BB', 'SC1', 'SC2', 'SC3', 'CA', 'N', 'C', 'O', 'HN', 'PO4', 'GL1', 'C1A']
ATYPES = ['P5', 'P2', 'C1', 'Qd', 'SC4', 'TN6d']
RESNAMES = ['ALA', 'GLY', 'LYS', 'POPC']
PARAMS = ['1', '2', '0.47', '5000', '1250', '0.0', '120', '-1.5', '1e3', '0.33']
ORDERS = [0, 0, 0, 0, 1, 1, -1, 2, -2, 3, '>', '<', '*', '>>', '<<', '**']
MACRO_VALUES = ['P2', '0.47', '5000', 'ALA', 'g1', '120', 'FLEX', '"ALA|GLY"', '"GLY"']


def prefix_of(order):
    """the documented prefix for an order: +,++ / -,-- for integers, the string itself for >,<,*."""
    if isinstance(order, str):
        return order
    return ('+' if order > 0 else '-') * abs(order)


# ------------------------------------------------------------------------------------------------- normal form
def norm(v):
    """JSON-able normal form of loaded or expected values (predicates tagged, tuples -> lists)."""
    cls = type(v).__name__
    if cls == 'Choice':
        return {'__choice__': norm(v.value)}
    if cls == 'NotDefinedOrNot':
        return {'__not__': norm(v.value)}
    if isinstance(v, dict):
        return {str(k): norm(x) for k, x in v.items()}
    if isinstance(v, (list, tuple)):
        return [norm(x) for x in v]
    if isinstance(v, (set, frozenset)):
        return sorted(norm(x) for x in v)
    if v is None or isinstance(v, (bool, int, float, str)):
        return v
    return {'__object__': cls, 'repr': repr(v)[:60]}


def canon(v):
    return json.dumps(norm(v), sort_keys=True)


# ------------------------------------------------------------------------------------------------- writer
class Writer:
    """collects tagged lines of one top-level section; knows the macros defined so far in the file."""

    def __init__(self, rng, macros, plain=False):
        self.rng = rng
        self.macros = macros          # name -> value, as defined by the [macros] sections written before
        self.lines = []
        self.plain = plain            # no stylistic noise (used for the exhaustive scaffolds)
        self.used_macro = False

    def emit(self, text, kind, **info):
        comment = ''
        if not self.plain and self.rng.random() < 0.12:
            comment = self.rng.choice([' ; note', ';x', '   ; { not a brace', ' ; [ bonds ]'])
        self.lines.append(dict(text=text, kind=kind, info=info, comment=comment))
        if not self.plain and self.rng.random() < 0.08:
            self.lines.append(dict(text=self.rng.choice(['', '; a comment line', '   ']), kind='blank', info={}, comment=''))

    def header(self, name, top=False, **info):
        fmt = '[ %s ]' if self.plain else self.rng.choice(['[ %s ]', '[ %s ]', '[%s]', '[ %s]', '[%s ]'])
        self.emit(fmt % name, 'header_top' if top else 'header_sub', name=name, **info)

    def tok(self, value):
        """a bare token, possibly written as a macro reference when a macro currently has that value."""
        names = [n for n, v in self.macros.items() if v == value]
        if names and self.rng.random() < 0.5:
            self.used_macro = True
            return '$' + self.rng.choice(names)
        return value

    def jstr(self, value):
        """a JSON string, possibly through a macro inside the quotes ('"' ends a macro name) or a macro that
        carries the quotes itself."""
        names = [n for n, v in self.macros.items() if v == value]
        if names and self.rng.random() < 0.4:
            self.used_macro = True
            return '"$%s"' % self.rng.choice(names)
        names = [n for n, v in self.macros.items() if v == json.dumps(value)]
        if names and self.rng.random() < 0.6:
            self.used_macro = True
            return '$' + self.rng.choice(names)
        return json.dumps(value)

    def jdump(self, obj):
        tight = (not self.plain) and self.rng.random() < 0.3
        colon, comma = (':', ',') if tight else (': ', ', ')
        if isinstance(obj, dict):
            cells = []
            for k, v in obj.items():
                cell = self.jdump(v)
                if cell.startswith('$'):
                    cell += ' '        # a macro name ends at one of ' \t\n{}$"' - not at a comma
                cells.append('%s%s%s' % (json.dumps(k), colon, cell))
            return '{' + comma.join(cells) + '}'
        if isinstance(obj, list):
            return '[' + comma.join(self.jdump(v) for v in obj) + ']'
        if isinstance(obj, str):
            return self.jstr(obj)
        return json.dumps(obj)


def render(lines):
    return [ln['text'] + ln['comment'] for ln in lines]


# ------------------------------------------------------------------------------------------------- top-level items
def gen_macros(rng, macros, plain=False):
    """a [macros] section; (re)defines 1-3 macros; mutates the running table *after* the section is written."""
    w = Writer(rng, macros, plain)
    w.header('macros', top=True)
    for _ in range(rng.randint(1, 3)):
        name = rng.choice(['m1', 'bb_type', 'k', 'rn', 'x_y', 'M2'])
        value = rng.choice(MACRO_VALUES)
        w.emit('%s %s' % (name, value), 'macro')
        macros[name] = value
    return dict(kind='macros', lines=w.lines, exp=None)


def gen_citations(rng, macros, plain=False):
    w = Writer(rng, macros, plain)
    w.header('citations', top=True)
    for _ in range(rng.randint(1, 2)):
        w.emit(' '.join(rng.sample(['Martini3', 'vermouth', 'M3_lipids'], rng.randint(1, 2))), 'citation')
    return dict(kind='citations', lines=w.lines, exp=None)


def gen_variables(rng, macros, used_keys, plain=False):
    w = Writer(rng, macros, plain)
    w.header('variables', top=True)
    exp = {}
    for _ in range(rng.randint(1, 3)):
        free = [k for k in ['elastic_network_bond_type', 'res_min_dist', 'bb_atomname', 'water_type', 'flag', 'opts', 'v7', 'v8',
                            'v9', 'v10'] if k not in used_keys]
        if not free:
            break
        key = rng.choice(free)
        used_keys.add(key)
        text, value = rng.choice([('1', 1), ('3', 3), ('0.5', 0.5), ('"BB"', 'BB'), ('hello', 'hello'), ('true', True),
                                  ('{"a": 1}', {'a': 1}), ('[1,2]', [1, 2]), ('null', None), ('-2', -2)])
        w.emit('%s %s' % (key, text), 'variable')
        exp[key] = value
    return dict(kind='variables', lines=w.lines, exp=exp)


def gen_params(w, rng, sec):
    params = []
    if sec == 'dihedrals':
        params.append(rng.choice(['1', '2', '9', '2', '4']))
        n = rng.randint(0, 3)
    else:
        n = rng.randint(0, 4)
    params += [rng.choice(PARAMS + ['P2', 'g1']) for _ in range(n)]
    return params, [w.tok(p) for p in params]


def line_meta_choice(rng, allow=True):
    if not allow or rng.random() < 0.6:
        return {}
    return rng.choice([{'version': 1}, {'version': 2}, {'comment': 'a b'}, {'edge': False}, {'version': 3, 'comment': 'c'}])


def join_interaction(parts):
    toks = list(parts['refs'])
    if parts['delim']:
        toks.append('--')
    toks += parts['params']
    if parts['meta']:
        toks.append(parts['meta'])
    return ' '.join(toks)


def target_section(sec, params):
    """improper dihedrals (function type 2) written under [dihedrals] are a separate interaction type."""
    if sec == 'dihedrals' and params and params[0] == '2':
        return 'impropers'
    return sec


def add_edges(exp, atoms):
    for a, b in zip(atoms[:-1], atoms[1:]):
        exp['edges'].add(frozenset((a, b)))


def gen_interaction_section(w, rng, ctx, sec, exp, pick, delete=False, allow_meta=True, implied_edges=True):
    """one interaction subsection. `pick(k)` returns k (key, written-reference) pairs and registers nodes."""
    w.header(('!' if delete else '') + sec, ctx=ctx)
    arity = ARITY.get(sec)
    section_meta = {}
    meta_keys = None
    used_meta = False
    n = rng.randint(1, 3)
    for j in range(n):
        if allow_meta and not delete and rng.random() < 0.22:
            if meta_keys is None:
                meta_keys = rng.sample(['group', 'ifdef', 'ifndef', 'edge'], rng.randint(1, 2))
            attrs = {k: (False if k == 'edge' else rng.choice(['g1', 'FLEX', 'Side chain', 'X'])) for k in meta_keys}
            section_meta = dict(attrs)      # same key set every time: 'replace' and 'update' readings coincide
            w.emit('#meta ' + w.jdump(attrs), 'meta', ctx=ctx, sec=sec)
            used_meta = True
            if j == n - 1 and rng.random() < 0.5:
                break
        k = arity if arity is not None else rng.randint(2, 4)
        picked = pick(k)
        if picked is None:
            continue
        keys = [p[0] for p in picked]
        refs = [p[1] for p in picked]
        raw_attrs = [p[2] for p in picked]
        params, params_txt = gen_params(w, rng, sec)
        if arity is None:
            params, params_txt = [], []
        lmeta = line_meta_choice(rng, allow=not (section_meta and 'edge' in section_meta))
        delim = arity is None and rng.random() < 0.5 or arity is not None and rng.random() < 0.3
        if lmeta and not params:
            delim = True
        if arity is None and lmeta:
            delim = True
        parts = dict(refs=refs, delim=delim, params=params_txt, meta=w.jdump(lmeta) if lmeta else None)
        w.emit(join_interaction(parts), 'del_interaction' if delete else 'interaction', ctx=ctx, sec=sec, arity=arity,
               parts=parts)
        meta = dict(section_meta)
        meta.update(lmeta)
        if delete:
            exp['removed'].setdefault(sec, []).append([keys, params, meta, raw_attrs])
        else:
            tgt = target_section(sec, params)
            exp['interactions'].setdefault(tgt, []).append([keys, params, meta])
            if implied_edges and tgt in EDGE_SECTIONS and meta.get('edge', True):
                add_edges(exp, keys)
    return used_meta


def gen_block(rng, macros, name, rich=True, plain=False, only_section=None, natoms=None):
    w = Writer(rng, macros, plain)
    nrexcl = rng.randint(0, 3)
    exp = dict(name=name, nrexcl=nrexcl, nodes=[], interactions={}, edges=set())
    w.header('moleculetype', top=True)
    w.emit('%s %d' % (name, nrexcl), 'block_name')
    if natoms is None:
        natoms = rng.randint(2, 6) if only_section is None else max(2, ARITY.get(only_section, 3))
    atomnames = rng.sample(ATOMNAMES, natoms)
    w.header('atoms', ctx='block')
    for i, an in enumerate(atomnames, 1):
        atype, resname, resid, cg = rng.choice(ATYPES), rng.choice(RESNAMES), rng.randint(1, 3), rng.randint(1, natoms)
        fields = [str(i), w.tok(atype), str(resid), w.tok(resname), an, str(cg)]
        attrs = dict(atomname=an, atype=atype, resname=resname, resid=resid, charge_group=cg)
        if rng.random() < 0.6:
            charge = rng.choice(['0', '0.0', '-1', '1.0', '0.5'])
            fields.append(charge)
            attrs['charge'] = float(charge)
            if rng.random() < 0.5:
                mass = rng.choice(['72', '36.0', '12.011'])
                fields.append(mass)
                attrs['mass'] = float(mass)
        if rng.random() < 0.3:
            extra = rng.choice([{'element': 'C'}, {'x': 1}, {'replace': {'charge': -1}}, {'stash': {'resid': 4}, 'flag': True}])
            fields.append(w.jdump(extra))
            attrs.update(extra)
        w.emit(' '.join(fields), 'block_atom', ctx='block', block=name, atomname=an)
        exp['nodes'].append([an, attrs])

    def pick(k):
        if k > natoms:
            return None
        out = []
        for an in rng.sample(atomnames, k):
            ref = an if plain or rng.random() < 0.6 else str(atomnames.index(an) + 1)
            out.append((an, ref, {}))
        return out

    fitting = [s for s in ARITY if ARITY[s] <= natoms]
    if only_section is not None:
        sections = [only_section]
    else:
        sections = [rng.choice(fitting + list(VARIADIC) * 2 + ['edges'] * 3 + ['bonds'] * 3)
                    for _ in range(rng.randint(0, 4 if rich else 2))]
    meta_used = set()
    for sec in sections:
        if sec in meta_used:
            continue
        if sec == 'edges':
            w.header('edges', ctx='block')
            for _ in range(rng.randint(1, 2)):
                a, b = rng.sample(atomnames, 2)
                w.emit('%s %s' % (a, b), 'edge', ctx='block')
                exp['edges'].add(frozenset((a, b)))
        elif gen_interaction_section(w, rng, 'block', sec, exp, pick):
            meta_used.add(sec)
    exp['n_atoms'] = natoms
    exp['atomnames'] = atomnames
    return dict(kind='block', lines=w.lines, exp=exp, used_macro=w.used_macro)


class LinkNodes:
    """the atoms of a link/modification: identity = (base name, order); every mention may be written with the
    order as prefix, as attribute, or both, and may show part of the atom's attributes."""

    def __init__(self, w, rng, link_attrs, fixed_pool=None, defaults=None):
        self.w, self.rng = w, rng
        self.link_attrs = link_attrs
        self.nodes = {}            # key -> expected attribute dict
        self.pool = []             # candidate identities: (base, order, full explicit attrs)
        self.defaults = defaults or {}
        if fixed_pool is None:
            bases = rng.sample(ATOMNAMES, rng.randint(2, 4))
            seen = set()
            for _ in range(rng.randint(3, 7)):
                base, order = rng.choice(bases), rng.choice(ORDERS)
                key = prefix_of(order) + base
                if key in seen:
                    continue
                seen.add(key)
                attrs = rng.choice([{}, {}, {}, {'a': 1}, {'element': 'H'}, {'replace': {'charge': -1}},
                                    {'mass': 12.5, 'b': 'ALA'}, {'c': None}, {'d': 'ALA|GLY'}])
                self.pool.append((base, order, attrs))
        else:
            self.pool = fixed_pool

    @staticmethod
    def expected_value(v):
        """attribute values with '|' are choices."""
        if isinstance(v, str) and '|' in v:
            return {'__choice__': v.split('|')}
        return v

    def mention(self, ident, show=None, form=None, register=True, force_braces=False):
        base, order, attrs = ident
        rng, w = self.rng, self.w
        key = prefix_of(order) + base
        if show is None:
            show = {k: v for k, v in attrs.items() if rng.random() < 0.5}
        if form is None:
            form = 'prefix' if w.plain else rng.choice(['prefix', 'prefix', 'attr', 'both'])
        written = dict(show)
        if form == 'prefix':
            name = key
        elif form == 'attr':
            name = base
            written['order'] = order
        else:
            name = key
            written['order'] = order
        if form != 'prefix' and rng.random() < 0.5:
            written = dict([('order', order)] + list(show.items()))
        text = name
        if written or force_braces:
            sep = '' if (not w.plain and rng.random() < 0.25) else ' '
            text = name + sep + w.jdump(written)
        if register:
            node = self.nodes.setdefault(key, dict(self.link_attrs, **self.defaults))
            for k, v in show.items():
                node[k] = self.expected_value(v)
            node['order'] = order
            node['atomname'] = base
        return key, text, written

    def pick(self, k, known_only=False, new_ok=True):
        cands = [i for i in self.pool if not known_only or prefix_of(i[1]) + i[0] in self.nodes]
        if len(cands) < k:
            return None
        return [self.mention(i) for i in self.rng.sample(cands, k)]


def gen_link(rng, macros, rich=True, plain=False, only_section=None, only_delete=False, bases=None):
    w = Writer(rng, macros, plain)
    exp = dict(nodes=None, interactions={}, removed={}, patterns=[], features=set(), non_edges=[], molmeta={}, edges=set())
    w.header('link', top=True)
    link_attrs = {}
    if only_section is None:
        for key in rng.sample(['resname', 'cgsecstruc', 'chain', 'modulo'], rng.randint(0, 2)):
            text, value = rng.choice([('"ALA"', 'ALA'), ('"GLY"', 'GLY'), ('"ALA|GLY"', {'__choice__': ['ALA', 'GLY']}),
                                      ('not("X")', {'__not__': 'X'}), ('3', 3), ('not(2)', {'__not__': 2}),
                                      ('"H|E|C"', {'__choice__': ['H', 'E', 'C']})])
            if text.startswith('"'):
                text = w.tok(text)
            w.emit('%s %s' % (key, text), 'link_attr')
            link_attrs[key] = value
    nodes = LinkNodes(w, rng, link_attrs, fixed_pool=[(b, 0, {}) for b in bases] if bases else None)
    exp['nodes'] = nodes.nodes
    if only_section is not None:
        subs = ['ia:' + only_section] if not only_delete else ['del:' + only_section]
    else:
        subs = []
        if rng.random() < 0.5:
            subs.append('atoms')
        pool = (['ia:' + s for s in ARITY] + ['ia:exclusions', 'ia:bonds', 'ia:bonds', 'ia:angles', 'ia:dihedrals'])
        subs += [rng.choice(pool) for _ in range(rng.randint(1, 3 if rich else 1))]
        extra = ['molmeta', 'features', 'patterns', 'edges', 'non-edges', 'atoms', 'del:' + rng.choice(list(ARITY)),
                 'del:bonds', 'features']
        subs += rng.sample(extra, rng.randint(0, 3 if rich else 1))
        head, tail = subs[:1], subs[1:]
        rng.shuffle(tail)
        subs = head + tail if rng.random() < 0.6 else tail + head
    meta_used = set()
    for sub in subs:
        if sub == 'atoms':
            w.header('atoms', ctx='link')
            for ident in rng.sample(nodes.pool, rng.randint(1, min(3, len(nodes.pool)))):
                key, text, _ = nodes.mention(ident, force_braces=True)
                w.emit(text, 'link_atom', ctx='link')
        elif sub.startswith('ia:') or sub.startswith('del:'):
            delete = sub.startswith('del:')
            sec = sub.split(':', 1)[1]
            if sec in meta_used:
                continue
            if gen_interaction_section(w, rng, 'link', sec, exp, nodes.pick, delete=delete):
                meta_used.add(sec)
        elif sub == 'molmeta':
            w.header('molmeta', ctx='link')
            for key in rng.sample(['mm', 'by', 'count'], rng.randint(1, 2)):
                text, value = rng.choice([('1', 1), ('"x"', 'x'), ('true', True), ('{"a": [1, 2]}', {'a': [1, 2]})])
                w.emit('%s %s' % (key, text), 'molmeta')
                exp['molmeta'][key] = value
        elif sub == 'features':
            w.header('features', ctx='link')
            for _ in range(rng.randint(1, 2)):
                feats = rng.sample(['scfix', 'disulfide', 'f1', 'f-2'], rng.randint(1, 3))
                w.emit(' '.join(feats), 'feature')
                exp['features'].update(feats)
        elif sub == 'patterns':
            w.header('patterns', ctx='link')
            for _ in range(rng.randint(1, 2)):
                pattern, texts = [], []
                for ident in rng.sample(nodes.pool, rng.randint(1, min(3, len(nodes.pool)))):
                    show = {k: v for k, v in ident[2].items() if rng.random() < 0.5}
                    key, text, written = nodes.mention(ident, show=show, form='prefix', register=False)
                    pattern.append([key, {k: nodes.expected_value(v) for k, v in written.items()}])
                    texts.append(text)
                w.emit(' '.join(texts), 'pattern')
                exp['patterns'].append(pattern)
        elif sub == 'edges':
            picked = None
            if len(nodes.nodes) >= 2:
                known = [i for i in nodes.pool if prefix_of(i[1]) + i[0] in nodes.nodes]
                picked = [nodes.mention(i, show={}) for i in rng.sample(known, 2)]
            if picked:
                w.header('edges', ctx='link')
                w.emit('%s %s' % (picked[0][1], picked[1][1]), 'edge', ctx='link')
                exp['edges'].add(frozenset((picked[0][0], picked[1][0])))
        elif sub == 'non-edges':
            known = [i for i in nodes.pool if prefix_of(i[1]) + i[0] in nodes.nodes]
            if known:
                w.header('non-edges', ctx='link')
                anchor = nodes.mention(rng.choice(known), show={}, form='prefix')
                base, order = rng.choice(['XX', 'SG', 'BB']), rng.choice([0, 1, -1, '>', '<', '*'])
                attrs = rng.choice([{}, {'p': 1}, {'resname': 'CYS'}]) if 'resname' not in link_attrs else rng.choice([{}, {'p': 1}])
                _, text, written = nodes.mention((base, order, attrs), show=dict(attrs), register=False)
                w.emit('%s %s' % (anchor[1], text), 'nonedge', ctx='link')
                partner = dict(link_attrs)
                partner.update(attrs)
                partner.update(order=order, atomname=base)
                exp['non_edges'].append([anchor[0], partner])
    return dict(kind='link', lines=w.lines, exp=exp, used_macro=w.used_macro)


def gen_modification(rng, macros, name, rich=True, plain=False, only_section=None):
    w = Writer(rng, macros, plain)
    exp = dict(name=name, nodes=None, interactions={}, removed={}, edges=set())
    w.header('modification', top=True)
    w.emit(name, 'mod_name')
    natoms = rng.randint(2, 5) if only_section is None else max(2, ARITY.get(only_section, 3))
    pool = []
    for base in rng.sample(ATOMNAMES, natoms):
        ptm = rng.random() < 0.5
        attrs = rng.choice([{'PTM_atom': True, 'element': 'H'}, {'PTM_atom': True, 'element': 'O', 'replace': {'atomname': None}}]) \
            if ptm else rng.choice([{}, {'PTM_atom': False}, {'replace': {'charge': 1}}, {'PTM_atom': False, 'replace': {'atype': 'Qd'}}])
        pool.append((base, rng.choice([0, 0, 0, 0, 1, -1]), attrs))
    seen, uniq = set(), []
    for ident in pool:
        if prefix_of(ident[1]) + ident[0] not in seen:
            seen.add(prefix_of(ident[1]) + ident[0])
            uniq.append(ident)
    nodes = LinkNodes(w, rng, {}, fixed_pool=uniq)
    exp['nodes'] = nodes.nodes
    w.header('atoms', ctx='modification')
    for ident in uniq:
        key, text, _ = nodes.mention(ident, show=dict(ident[2]), force_braces=True)
        w.emit(text, 'mod_atom', ctx='modification')

    def pick(k):
        if k > len(uniq):
            return None
        return [nodes.mention(i, show={}) for i in rng.sample(uniq, k)]

    fitting = [s for s in ARITY if ARITY[s] <= len(uniq)]
    sections = [only_section] if only_section is not None else \
        [rng.choice(fitting + ['edges', 'edges', 'bonds', 'bonds', 'exclusions']) for _ in range(rng.randint(0, 3 if rich else 1))]
    meta_used = set()
    for sec in sections:
        if sec in meta_used:
            continue
        if sec == 'edges':
            if len(uniq) >= 2:
                w.header('edges', ctx='modification')
                a, b = [nodes.mention(i, show={}) for i in rng.sample(uniq, 2)]
                w.emit('%s %s' % (a[1], b[1]), 'edge', ctx='modification')
                exp['edges'].add(frozenset((a[0], b[0])))
        elif gen_interaction_section(w, rng, 'modification', sec, exp, pick, implied_edges=False):
            meta_used.add(sec)
    return dict(kind='modification', lines=w.lines, exp=exp, used_macro=w.used_macro)


def gen_file(rng, kinds, rich=True, plain=False):
    """a whole file: the given sequence of top-level kinds ('B','L','M','macros','citations','variables')."""
    macros = {}
    items = []
    used_vars = set()
    names = iter(rng.sample(['ALA', 'GLY', 'LYS', 'POPC', 'W', 'CHOL', 'PO4X', 'ION'], 8))
    modnames = iter(rng.sample(['C-ter', 'N-ter', 'GLU-H', 'SEP', 'zwitter', 'M1', 'M2', 'M3'], 8))
    for kind in kinds:
        if kind == 'macros':
            items.append(gen_macros(rng, macros, plain))
        elif kind == 'citations':
            items.append(gen_citations(rng, macros, plain))
        elif kind == 'variables':
            items.append(gen_variables(rng, macros, used_vars, plain))
        elif kind == 'B':
            items.append(gen_block(rng, macros, next(names), rich, plain))
        elif kind == 'L':
            items.append(gen_link(rng, macros, rich, plain))
        elif kind == 'M':
            items.append(gen_modification(rng, macros, next(modnames), rich, plain))
    return items


def file_lines(items):
    out = []
    for it in items:
        out.extend(it['lines'])
    return out


# ------------------------------------------------------------------------------------------------- observation
def obs_interactions(inter, with_attrs=False):
    out = {}
    for sec, lst in dict(inter).items():
        if not lst:
            continue
        rows = []
        for i in lst:
            row = [list(i.atoms), list(i.parameters), dict(i.meta)]
            if with_attrs:
                row.append([{k: v for k, v in dict(a).items() if k != 'order'} for a in i.atom_attrs])
            rows.append(row)
        out[sec] = rows
    return out


def edges_of(graph):
    return {frozenset(e) for e in graph.edges}


def strip_order(rows):
    return [[r[0], r[1], r[2], [{k: v for k, v in a.items() if k != 'order'} for a in r[3]]] for r in rows]


def fingerprint(text):
    return zlib.crc32(text.encode())


LINE_RE = re.compile(r'line (\d+)')


def culprit(exc, lines):
    """a stable description of where a well-formed file was rejected: context[section] of the offending line."""
    m = LINE_RE.search(str(exc))
    if not m:
        return 'unknown:' + type(exc).__name__
    n = int(m.group(1))
    if not 1 <= n <= len(lines):
        return 'unknown:' + type(exc).__name__
    top, sub = None, None
    for ln in lines[:n]:
        if ln['kind'] == 'header_top':
            top, sub = ln['info']['name'], None
        elif ln['kind'] == 'header_sub':
            sub = ln['info']['name']
    if sub is None:
        return '[%s]' % top
    return '%s[%s]' % (top, sub)

"""C15 bounded stand-in: the real ApplyRubberBand processor runs natively on many small molecules and the set of
elastic bonds it adds is compared with a pair-by-pair recomputation written from the property statement.

Oracle (nothing of vermouth is called in it):
  a bond {u, v} is expected  <=>  u and v are both selected
                                  and the domain criterion holds for (u, v)
                                  and the residue-graph distance of their residues is > res_min_dist (no path = far)
                                  and d(u, v) <= upper_bound
                                  and min(base * exp(-a * (d - lower) ** p), base) > minimum_force
  with length round(d, 5) and force constant min(base * exp(-a * (d - lower) ** p), base), exactly once per pair;
  the set does not change under rigid motion or under a different insertion order of the atoms;
  a NaN in any coordinate of a selected atom => no bond at all, at least one warning, no exception.
Inputs the statement leaves open are not generated / are skipped: selected atoms without any position (ValueError
in the code), negative minimum force, non-positive base constant, negative decay factor/power, a negative (d - lower)
raised to a non-integer power (undefined), `_old_resid` different from `resid`, and pairs whose uncapped constant
exceeds a base constant that itself does not exceed the minimum force.
"""
import functools
import itertools
import json
import logging
import math
import random

import numpy as np

from .common import Collector, REPO, load_cli  # noqa: F401  (REPO/load_cli: sys.path handling lives in common)

FN = 'apply_rubber_band'
LOGGER_NAME = 'vermouth.processors.apply_rubber_band'
INF = float('inf')
RES_ATTRS = ('chain', 'resid', 'resname', 'insertion_code')


# --------------------------------------------------------------------------------------------------------------
# oracle
# --------------------------------------------------------------------------------------------------------------
def o_selected(selector, atom):
    kind = selector[0]
    if kind == 'backbone':
        return atom.get('atomname') == 'BB'
    if kind == 'names':
        return atom.get('atomname') in selector[1]
    if kind == 'flag':
        return bool(atom.get('flag'))
    return True


def o_same_domain(domain, left, right):
    kind = domain[0]
    if kind == 'molecule':
        return True
    if kind == 'chain':
        return left.get('chain') == right.get('chain')
    for low, high in domain[1]:
        if low <= left['resid'] <= high and low <= right['resid'] <= high:
            return True
    return False


def o_residue_distance(atoms, edges):
    """{(residue, residue): number of residue-graph edges on the shortest path}; absent = no path."""
    res_of = {a['key']: tuple(a.get(k) for k in RES_ATTRS) for a in atoms}
    adjacency = {r: set() for r in res_of.values()}
    for left, right in edges:
        if res_of[left] != res_of[right]:
            adjacency[res_of[left]].add(res_of[right])
            adjacency[res_of[right]].add(res_of[left])
    distances = {}
    for start in adjacency:
        seen = {start: 0}
        frontier = [start]
        while frontier:
            nxt = []
            for res in frontier:
                for other in adjacency[res]:
                    if other not in seen:
                        seen[other] = seen[res] + 1
                        nxt.append(other)
            frontier = nxt
        for other, dist in seen.items():
            distances[(start, other)] = dist
    return res_of, distances


def o_distance(pos_a, pos_b):
    dx, dy, dz = (pos_a[0] - pos_b[0]), (pos_a[1] - pos_b[1]), (pos_a[2] - pos_b[2])
    return math.sqrt(dx * dx + dy * dy + dz * dz)


def o_constant(dist, prm):
    """(uncapped, capped) force constant by the documented formula; None when the formula is undefined."""
    delta = dist - prm['lower']
    power = prm['p']
    if delta < 0 and power != int(power):
        return None
    if delta == 0 and power < 0:
        return None
    try:
        raised = delta ** power
    except OverflowError:
        return None
    try:
        raw = prm['base'] * math.exp(-prm['a'] * raised)
    except OverflowError:
        raw = INF
    return raw, min(raw, prm['base'])


def oracle(spec):
    """None = outside the statement.  Otherwise dict(nan=bool, pairs={frozenset: verdict}, selected=[keys])."""
    atoms = spec['atoms']
    prm = spec['params']
    selected = [a for a in atoms if o_selected(spec['selector'], a)]
    if any(a.get('pos') is None for a in selected):
        return None
    if any(math.isnan(c) for a in selected for c in a['pos']):
        return dict(nan=True, pairs={}, selected=[a['key'] for a in selected])
    res_of, resdist = o_residue_distance(atoms, spec['edges'])
    pairs = {}
    for left, right in itertools.combinations(selected, 2):
        dist = o_distance(left['pos'], right['pos'])
        consts = o_constant(dist, prm)
        separation = resdist.get((res_of[left['key']], res_of[right['key']]), INF)
        fails = []
        if not o_same_domain(spec['domain'], left, right):
            fails.append('domain')
        if not separation > prm['rmd']:
            fails.append('separation')
        if not dist <= prm['upper']:
            fails.append('upper-cutoff')
        if consts is None:
            if not fails:
                return None  # the decay is undefined for a pair that everything else admits
            raw = capped = None
            margin = abs(dist - prm['upper']) / max(1.0, abs(prm['upper'])) if prm['upper'] != INF else INF
        else:
            raw, capped = consts
            if raw > prm['base'] * (1 + 1e-9) and not prm['base'] > prm['minF'] and not fails:
                return None  # "decayed constant" vs "capped constant" disagree about the minimum-force clause
            if not capped > prm['minF']:
                fails.append('minimum-force')
            m_upper = abs(dist - prm['upper']) / max(1.0, abs(prm['upper'])) if prm['upper'] != INF else INF
            m_force = abs(capped - prm['minF']) / max(1.0, abs(prm['minF']))
            # exact lattice cases: the cut-off comparison is exact; the force comparison is exact when a == 0
            margin_exact = INF if prm['a'] == 0 else m_force
            margin = min(m_upper, m_force)
        pairs[frozenset((left['key'], right['key']))] = dict(
            bond=not fails, fails=fails, d=dist, k=capped, raw=raw, margin=margin,
            margin_exact=(margin_exact if consts is not None else margin))
    return dict(nan=False, pairs=pairs, selected=[a['key'] for a in selected])


# --------------------------------------------------------------------------------------------------------------
# the real thing
# --------------------------------------------------------------------------------------------------------------
class _Records(logging.Handler):
    def __init__(self):
        super().__init__(level=logging.DEBUG)
        self.records = []

    def emit(self, record):
        self.records.append(record)


def _flag_selector(atom):
    return bool(atom.get('flag'))


def real_selector(selector):
    from vermouth import selectors
    kind = selector[0]
    if kind == 'backbone':
        return selectors.select_backbone
    if kind == 'names':
        return functools.partial(selectors.proto_select_attribute_in, attribute='atomname', values=list(selector[1]))
    if kind == 'flag':
        return _flag_selector
    return selectors.select_all


def real_domain(domain):
    from vermouth.processors import apply_rubber_band as arb
    kind = domain[0]
    if kind == 'molecule':
        return arb.always_true
    if kind == 'chain':
        return arb.same_chain
    return arb.make_same_region_criterion([tuple(r) for r in domain[1]])


def build_molecule(spec, force_field, order=None, transform=None):
    import vermouth
    mol = vermouth.molecule.Molecule(force_field=force_field)
    mol.moltype = 'c15mol'
    atoms = spec['atoms']
    order = range(len(atoms)) if order is None else order
    for idx in order:
        atom = atoms[idx]
        attrs = {k: v for k, v in atom.items() if k not in ('key', 'pos', 'pos_absent')}
        if atom.get('pos') is not None:
            pos = np.array(atom['pos'], dtype=float)
            if transform is not None:
                pos = transform(pos)
            attrs['position'] = pos
        elif not atom.get('pos_absent'):
            attrs['position'] = None
        mol.add_node(atom['key'], **attrs)
    edges = spec['edges'] if order is None else [spec['edges'][i] for i in _edge_order(spec, order)]
    for left, right in edges:
        mol.add_edge(left, right)
    n_pre = 0
    if spec.get('prebonds'):
        for left, right in spec['edges']:
            mol.add_interaction('bonds', atoms=(left, right), parameters=[1, 0.35, 1250])
            n_pre += 1
    return mol, n_pre


def _edge_order(spec, order):
    idxs = list(range(len(spec['edges'])))
    return idxs[::-1] if list(order) != sorted(order) else idxs


def run_real(specs, order=None, transform=None, as_system=False):
    """run the processor on one molecule per spec (all specs share selector/domain/params of specs[0])."""
    import vermouth
    import vermouth.forcefield
    from vermouth.processors.apply_rubber_band import ApplyRubberBand
    first = specs[0]
    prm = first['params']
    force_field = vermouth.forcefield.ForceField(name='c15')
    built = [build_molecule(s, force_field, order=(order if i == 0 else None), transform=transform)
             for i, s in enumerate(specs)]
    processor = ApplyRubberBand(lower_bound=prm['lower'], upper_bound=prm['upper'], decay_factor=prm['a'],
                                decay_power=prm['p'], base_constant=prm['base'], minimum_force=prm['minF'],
                                res_min_dist=prm['rmd'], bond_type=6, selector=real_selector(first['selector']),
                                domain_criterion=real_domain(first['domain']))
    logger = logging.getLogger(LOGGER_NAME)
    handler = _Records()
    old = (logger.level, logger.propagate)
    logger.setLevel(logging.DEBUG)
    logger.propagate = False
    logger.addHandler(handler)
    error = None
    try:
        with np.errstate(all='ignore'):
            if as_system:
                system = vermouth.system.System(force_field=force_field)
                for mol, _ in built:
                    system.add_molecule(mol)
                processor.run_system(system)
                mols = list(system.molecules)
            else:
                mols = [processor.run_molecule(mol) for mol, _ in built]
    except Exception as exc:  # pylint: disable=broad-except
        error = '%s: %s' % (type(exc).__name__, exc)
        mols = []
    finally:
        logger.removeHandler(handler)
        logger.setLevel(old[0])
        logger.propagate = old[1]
    out = []
    for (mol0, n_pre), mol in zip(built, mols):
        bonds = []
        for inter in mol.interactions.get('bonds', [])[n_pre:]:
            bonds.append((tuple(inter.atoms), float(inter.parameters[1]), float(inter.parameters[2])))
        out.append(bonds)
    warnings = [r.getMessage() for r in handler.records if r.levelno >= logging.WARNING]
    return dict(error=error, bonds=out, warnings=warnings)


# --------------------------------------------------------------------------------------------------------------
# comparison
# --------------------------------------------------------------------------------------------------------------
def clean(value):
    """strict-JSON-able copy: NaN / infinities become strings, tuples lists, sets sorted lists."""
    if isinstance(value, float):
        if math.isnan(value):
            return 'nan'
        if math.isinf(value):
            return 'inf' if value > 0 else '-inf'
        return value
    if isinstance(value, dict):
        return {str(k): clean(v) for k, v in value.items()}
    if isinstance(value, (set, frozenset)):
        return [clean(v) for v in sorted(value)]
    if isinstance(value, (list, tuple)):
        return [clean(v) for v in value]
    if isinstance(value, (np.floating, np.integer)):
        return clean(value.item())
    return value


def small(spec):
    out = dict(atoms=[{k: v for k, v in a.items()} for a in spec['atoms']], edges=spec['edges'],
               selector=spec['selector'], domain=spec['domain'], params=spec['params'])
    if spec.get('prebonds'):
        out['prebonds'] = True
    return clean(out)


def length_ok(length, dist):
    if abs(length - round(dist, 5)) < 1e-9:
        return True
    scaled = length * 1e5
    return abs(length - dist) <= 0.5e-5 * (1 + 1e-6) + 1e-12 and abs(scaled - round(scaled)) < 1e-5


def judge(spec, exp, bonds, warnings, tol, exact, loose_length=False):
    """list of (clause, function, what, observed, expected) for one molecule."""
    problems = []
    if exp['nan']:
        if bonds:
            problems.append(('nan-no-network', FN, 'a selected atom has a NaN coordinate but a network was generated',
                             [list(b[0]) + [b[1], b[2]] for b in bonds[:6]], []))
        if not warnings:
            problems.append(('nan-warning', FN, 'a selected atom has a NaN coordinate but no warning was emitted',
                             warnings, 'at least one warning'))
        return problems
    seen = {}
    for atoms, length, const in bonds:
        seen.setdefault(frozenset(atoms), []).append((atoms, length, const))
    prm = spec['params']
    selected = set(exp['selected'])
    for pair, items in seen.items():
        if len(pair) != 2:
            problems.append(('extra-bond/self', FN, 'a bond from an atom to itself', [list(items[0][0])], []))
            continue
        if not pair <= selected:
            problems.append(('extra-bond/unselected', FN, 'a bond involves an atom that is not selected',
                             sorted(pair), 'no bond'))
            continue
        verdict = exp['pairs'][pair]
        fuzzy = (verdict['margin_exact'] if exact else verdict['margin']) <= tol
        if not verdict['bond'] and not fuzzy:
            clause = verdict['fails'][0]
            func = {'domain': 'build_pair_matrix', 'separation': 'build_connectivity_matrix',
                    'upper-cutoff': 'compute_force_constants', 'minimum-force': 'compute_force_constants'}[clause]
            problems.append(('extra-bond/' + clause, func,
                             'a bond was added for a pair that fails the %s criterion' % clause,
                             dict(pair=sorted(pair), length=items[0][1], constant=items[0][2]),
                             dict(bond=False, fails=verdict['fails'], d=verdict['d'], k=verdict['k'])))
            continue
        if len(items) > 1:
            problems.append(('duplicate-bond', FN, 'a pair got more than one elastic bond',
                             dict(pair=sorted(pair), count=len(items)), 1))
        for _, length, const in items:
            if loose_length:
                good = abs(length - verdict['d']) <= 1.6e-5
            else:
                good = length_ok(length, verdict['d'])
            if not good:
                problems.append(('bond-length', FN, 'bond length is not the distance rounded to 5 decimals',
                                 dict(pair=sorted(pair), length=length), round(verdict['d'], 5)))
            want = verdict['k']
            if want is not None and not abs(const - want) <= max(1e-9, 100 * tol) * max(1.0, abs(want)):
                if const > prm['base'] * (1 + 1e-9):
                    clause, what = 'force-constant/cap', 'force constant exceeds the base constant'
                else:
                    clause, what = 'force-constant/decay', 'force constant is not base*exp(-a(d-lower)^p) capped at base'
                problems.append((clause, 'compute_force_constants', what,
                                 dict(pair=sorted(pair), constant=const, d=verdict['d']), want))
    for pair, verdict in exp['pairs'].items():
        fuzzy = (verdict['margin_exact'] if exact else verdict['margin']) <= tol
        if verdict['bond'] and not fuzzy and pair not in seen:
            clause = 'missing-bond/below-lower-bound' if verdict['d'] < prm['lower'] else 'missing-bond'
            problems.append((clause, FN, 'a pair that meets every criterion got no bond', dict(pair=sorted(pair)),
                             dict(bond=True, length=round(verdict['d'], 5), constant=verdict['k'])))
    return problems


class _Lazy:
    """JSON-able description of a case, only built when a violation really needs it."""
    def __init__(self, specs):
        self._specs = specs

    def get_value(self):
        return describe(self._specs)


def describe(specs):
    return small(specs[0]) if len(specs) == 1 else dict(system=[small(s) for s in specs])


def _violation(col, key, function, what, inp, observed, expected):
    col.violation(key, function, what, clean(inp), clean(observed), clean(expected))


def fingerprint(specs):
    return repr([(s['atoms'], s['edges'], s['selector'], s['domain'], s['params'], s.get('prebonds')) for s in specs])


def is_nontrivial(exp):
    if exp['nan']:
        return len(exp['selected']) >= 2
    verdicts = [v['bond'] for v in exp['pairs'].values()]
    return any(verdicts) and not all(verdicts)


def rotation(rng):
    q = [rng.gauss(0, 1) for _ in range(4)]
    norm = math.sqrt(sum(c * c for c in q))
    w, x, y, z = (c / norm for c in q)
    rot = np.array([[1 - 2 * (y * y + z * z), 2 * (x * y - z * w), 2 * (x * z + y * w)],
                    [2 * (x * y + z * w), 1 - 2 * (x * x + z * z), 2 * (y * z - x * w)],
                    [2 * (x * z - y * w), 2 * (y * z + x * w), 1 - 2 * (x * x + y * y)]])
    shift = np.array([rng.uniform(-5, 5) for _ in range(3)])
    return lambda pos: rot @ pos + shift


def lattice_motion(rng):
    perm = list(range(3))
    rng.shuffle(perm)
    signs = np.array([rng.choice((-1.0, 1.0)) for _ in range(3)])
    shift = np.array([rng.randint(-8, 8) * 0.25 for _ in range(3)])
    return lambda pos: pos[perm] * signs + shift


def check(col, specs, rng, as_system=False, metamorphic=True, stage='direct'):
    """run one case (one or more molecules) through the real processor and through the oracle."""
    exps = [oracle(s) for s in specs]
    if any(e is None for e in exps):
        return False
    exact = all(s.get('exact') for s in specs)
    res = run_real(specs, as_system=as_system)
    nontrivial = any(is_nontrivial(e) for e in exps)
    sample = None
    if nontrivial and len(col.samples) < 4:
        sample = clean(dict(input=describe(specs), warnings=res['warnings'][:2], error=res['error'],
                            bonds=[[list(b[0]), b[1], b[2]] for b in (res['bonds'][0] if res['bonds'] else [])][:8]))
    fprint = fingerprint(specs)
    col.case(fprint + ('|system' if as_system else ''), nontrivial, sample)
    inp = _Lazy(specs)
    any_nan = any(e['nan'] for e in exps)
    if res['error'] is not None:
        key = 'nan-raises' if any_nan else 'raises'
        _violation(col, 'apply_rubber_band/' + key, FN, 'the processor raised on an input inside the statement (%s)' % stage,
                      inp.get_value(), res['error'], 'no exception')
        return True
    found = False
    for spec, exp, bonds in zip(specs, exps, res['bonds']):
        # with several molecules the warnings cannot be attributed; only demand one when exactly this molecule has NaN
        warnings = res['warnings'] if (len(specs) == 1 or sum(e['nan'] for e in exps) == 1) else ['?']
        for clause, func, what, observed, expected in judge(spec, exp, bonds, warnings, 1e-12, exact):
            found = True
            _violation(col, 'apply_rubber_band/' + clause, func, what + (' (run_system)' if as_system else ''),
                          inp.get_value(), observed, expected)
    if found or not metamorphic or len(specs) != 1:
        return True
    spec, exp = specs[0], exps[0]
    # atom order: same atoms, same keys, different insertion order (and edge insertion order)
    order = list(range(len(spec['atoms'])))
    rng.shuffle(order)
    if order == sorted(order):
        order.reverse()
    res2 = run_real(specs, order=order)
    col.case(fprint + '|order' + repr(order), False)
    if res2['error'] is not None:
        _violation(col, 'apply_rubber_band/atom-order', FN, 'raised after the atoms were inserted in another order',
                      dict(case=inp.get_value(), order=order), res2['error'], 'same network as in the original order')
    else:
        probs = judge(spec, exp, res2['bonds'][0], res2['warnings'], 1e-12, exact)
        if probs:
            _violation(col, 'apply_rubber_band/atom-order', FN,
                          'the network changes when the atoms are inserted in another order: ' + probs[0][2],
                          dict(case=inp.get_value(), order=order), probs[0][3], probs[0][4])
    # rigid motion
    if exp['nan']:
        return True
    for kind in (('lattice', 'rotation') if exact else ('rotation',)):
        move = lattice_motion(rng) if kind == 'lattice' else rotation(rng)
        res3 = run_real(specs, transform=move)
        col.case(fprint + '|' + kind, False)
        if res3['error'] is not None:
            _violation(col, 'apply_rubber_band/rigid-motion', FN, 'raised after a rigid motion of the coordinates',
                          dict(case=inp.get_value(), motion=kind), res3['error'], 'same network')
            continue
        if kind == 'lattice':
            probs = judge(spec, exp, res3['bonds'][0], res3['warnings'], 1e-12, True)
        else:
            probs = judge(spec, exp, res3['bonds'][0], res3['warnings'], 1e-7, False, loose_length=True)
        if probs:
            _violation(col, 'apply_rubber_band/rigid-motion', FN,
                          'the network changes under a rigid motion (%s): %s' % (kind, probs[0][2]),
                          dict(case=inp.get_value(), motion=kind), probs[0][3], probs[0][4])
    return True


# --------------------------------------------------------------------------------------------------------------
# generation
# --------------------------------------------------------------------------------------------------------------
def exhaustive_stage(col, rng, quick):
    """5 atoms / 4 residues with unordered sparse keys on a 0.25 lattice."""
    keys = [7, 2, 11, 4, 9]
    layout = [(1, 'BB'), (1, 'SC1'), (2, 'BB'), (3, 'BB'), (4, 'BB')]
    positions = [(0, 0, 0), (0, 1.0, 0), (0.75, 1.0, 0), (0.75, 0, 0), (0, 0, 1.0)]
    # distances: 7-2 1, 7-11 1.25, 7-4 .75, 7-9 1, 2-11 .75, 2-4 1.25, 2-9 sqrt2, 11-4 1, 11-9 sqrt(2.5625), 4-9 1.25
    chain_patterns = ['AAAAA', 'AAABB', 'AABAB']
    free_edges = [(7, 11), (11, 4), (4, 9), (7, 9)] if quick else [(7, 11), (11, 4), (4, 9), (7, 9), (2, 4)]
    domains = [('molecule',), ('chain',), ('regions', [[1, 2], [3, 4]]), ('regions', [[1, 3], [2, 4]])]
    if quick:  # the chain labelling only matters for the chain criterion (residue identity aside)
        combos = [('AAAAA', domains[0]), ('AAABB', domains[1]), ('AABAB', domains[1]), ('AAAAA', domains[2])]
    else:
        combos = list(itertools.product(chain_patterns, domains))
    params = [
        # cut-off exactly at a distance present in the molecule; constant exactly the base; strict minimum force
        dict(lower=0.0, upper=1.25, a=0, p=0, base=500, minF=0),
        # decay with an odd power and pairs below the lower bound (cap), minimum force in between
        dict(lower=1.0, upper=1.5, a=1.0, p=1, base=500, minF=400),
    ]
    if not quick:
        params += [dict(lower=0.0, upper=1.0, a=0, p=0, base=500, minF=500),
                   dict(lower=0.75, upper=2.0, a=2.0, p=2, base=700, minF=600),
                   dict(lower=1.25, upper=INF, a=0.5, p=3, base=500, minF=1)]
    rmds = [0, 1, 2]
    n_cases = 0
    for chains, domain in combos:
        for mask in range(1 << len(free_edges)):
            edges = [[7, 2]] + [list(e) for i, e in enumerate(free_edges) if mask >> i & 1]
            for base_prm in params:
                for rmd in rmds:
                    prm = dict(base_prm, rmd=rmd)
                    for flags in itertools.product((False, True), repeat=5):
                        if sum(flags) < 2:
                            continue
                        atoms = [dict(key=k, chain=c, resid=r, resname='R%d' % r, atomname=n,
                                      pos=[float(x) for x in p], flag=f)
                                 for k, c, (r, n), p, f in zip(keys, chains, layout, positions, flags)]
                        spec = dict(atoms=atoms, edges=edges, selector=('flag',), domain=domain, params=prm,
                                    exact=True)
                        check(col, [spec], rng, metamorphic=False, stage='exhaustive')
                        n_cases += 1
    col.exhaustive = True
    col.bound = ('5 atoms (keys 7,2,11,4,9 in that insertion order) in 4 residues on a 0.25 nm lattice: every selection '
                 'of >= 2 atoms x every subset of %d candidate edges (backbone, gaps, cross-links) x %d (chain '
                 'labelling, domain criterion) combinations %s x %d parameter sets (cut-off equal to a present distance, '
                 'minimum force equal to the constant, pairs below the lower bound with odd power) x '
                 'res_min_dist in {0,1,2} = %d cases; metamorphic and random stages are not exhaustive'
                 % (len(free_edges), len(combos), json.dumps(combos), len(params), n_cases))


def random_molecule(rng, key_pool, max_beads, lattice):
    """chains of residues with 1-3 beads, gaps, cross-links, repeated resids across chains, shuffled sparse keys."""
    n_chains = rng.choice((1, 1, 2, 3))
    atoms, edges = [], []
    chain_names = rng.sample(['A', 'B', 'C', None], n_chains)
    same_numbering = rng.random() < 0.5
    resid = rng.choice((1, 5, 98))
    budget = rng.randint(2, max_beads)
    for chain in chain_names:
        if same_numbering:
            resid = 1
        prev_bb = None
        n_res = rng.randint(1, 6)
        for _ in range(n_res):
            if len(atoms) >= budget:
                break
            resname = rng.choice(('ALA', 'GLY', 'LYS', 'TRP'))
            n_beads = min(rng.choice((1, 1, 2, 3)), budget - len(atoms))
            names = ['BB', 'SC1', 'SC2'][:n_beads]
            first = None
            before = None
            for name in names:
                key = key_pool.pop()
                atom = dict(key=key, resid=resid, resname=resname, atomname=name)
                if chain is not None:
                    atom['chain'] = chain
                if rng.random() < 0.15:
                    atom['_old_resid'] = resid
                atoms.append(atom)
                if first is None:
                    first = key
                else:
                    edges.append([before, key])
                before = key
            if prev_bb is not None and rng.random() < 0.85:  # else: a gap in the backbone
                edges.append([prev_bb, first] if rng.random() < 0.5 else [first, prev_bb])
            prev_bb = first
            resid += rng.choice((1, 1, 1, 2, 10))  # gaps in the numbering as well
    for _ in range(rng.choice((0, 0, 1, 2))):  # cross-links (any two atoms)
        if len(atoms) >= 2:
            left, right = rng.sample([a['key'] for a in atoms], 2)
            if [left, right] not in edges and [right, left] not in edges:
                edges.append([left, right])
    for atom in atoms:
        if lattice:
            atom['pos'] = [rng.randint(0, 6) * 0.25 for _ in range(3)]
        else:
            atom['pos'] = [round(rng.uniform(0, 1.5), rng.choice((3, 6, 15))) for _ in range(3)]
        atom['flag'] = rng.random() < 0.6
    if rng.random() < 0.15 and len(atoms) >= 2:  # coincident atoms
        left, right = rng.sample(atoms, 2)
        right['pos'] = list(left['pos'])
    rng.shuffle(atoms)  # insertion order unrelated to keys and to the chain order
    return atoms, edges


def random_params(rng, atoms):
    dists = [o_distance(a['pos'], b['pos']) for a, b in itertools.combinations(atoms, 2)
             if a.get('pos') is not None and b.get('pos') is not None
             and not any(math.isnan(c) for c in a['pos'] + b['pos'])]
    lower = rng.choice((0.0, 0.0, 0.5, 0.75, 1.0, 1.5))
    upper = rng.choice((0.9, 1.25, 1.5, 2.0, 3.0, INF, INF))
    if dists and rng.random() < 0.35:
        upper = rng.choice(dists)
    a = rng.choice((0, 0, 0, 0.5, 1.0, 2.0, 6.0))
    p = rng.choice((0, 1, 1, 2, 3, 6))
    if lower == 0.0 and rng.random() < 0.3:
        p = rng.choice((0.5, 1.5, 2.5))
    base = rng.choice((500, 700, 1.0, 1250.5))
    minf = rng.choice((0, 0, 0, 1, 1, 0.1 * base, 0.5 * base, 0.9 * base))
    if rng.random() < 0.1:
        minf = base
    if dists and rng.random() < 0.15:
        consts = o_constant(rng.choice(dists), dict(lower=lower, a=a, p=p, base=base))
        if consts is not None and consts[1] >= 0 and math.isfinite(consts[1]):
            minf = consts[1]
    return dict(lower=lower, upper=upper, a=a, p=p, base=base, minF=minf, rmd=rng.choice((0, 1, 1, 2, 2, 3)))


def random_selector(rng):
    return rng.choice([('backbone',), ('backbone',), ('names', ['BB', 'SC1']), ('names', ['SC1', 'SC2']),
                       ('flag',), ('flag',), ('all',)])


def random_domain(rng, atoms):
    kind = rng.choice(('molecule', 'molecule', 'chain', 'chain', 'regions', 'regions'))
    if kind != 'regions':
        return (kind,)
    resids = sorted({a['resid'] for a in atoms})
    regions = []
    for _ in range(rng.randint(1, 3)):
        low = rng.choice(resids) - rng.choice((0, 0, 1))
        high = low + rng.choice((0, 1, 2, 3, 5, 12))
        regions.append([low, high])
    return ('regions', regions)


def random_spec(rng, max_beads=15, nan=None, selector=None):
    lattice = rng.random() < 0.5
    key_pool = rng.sample(range(0, 60), 40)
    atoms, edges = random_molecule(rng, key_pool, max_beads, lattice)
    selector = random_selector(rng) if selector is None else selector
    for atom in atoms:  # unselected atoms may lack a position or have an undefined one
        if not o_selected(selector, atom) and rng.random() < 0.12:
            choice = rng.choice(('none', 'absent', 'nan'))
            if choice == 'nan':
                atom['pos'] = [float('nan')] * 3 if rng.random() < 0.5 else [atom['pos'][0], float('nan'), atom['pos'][2]]
            else:
                atom['pos'] = None
                if choice == 'absent':
                    atom['pos_absent'] = True
    if nan:
        chosen = [a for a in atoms if o_selected(selector, a)]
        if chosen:
            victim = rng.choice(chosen)
            comps = rng.choice(([0], [1], [2], [0, 1], [0, 2], [1, 2], [0, 1, 2]))
            victim['pos'] = [float('nan') if i in comps else c for i, c in enumerate(victim['pos'])]
    spec = dict(atoms=atoms, edges=edges, selector=selector, domain=random_domain(rng, atoms),
                params=random_params(rng, [a for a in atoms if o_selected(selector, a)]),
                exact=lattice, prebonds=rng.random() < 0.25)
    return spec


def nan_stage(col, rng, quick):
    """a selected atom with NaN in every non-empty subset of its components, at every place of the insertion order."""
    n_atoms = 6
    for victim in range(n_atoms):
        for comps in ([0], [1], [2], [0, 1], [0, 2], [1, 2], [0, 1, 2]):
            for prm in (dict(lower=0.0, upper=0.9, a=0, p=0, base=700, minF=1, rmd=2),
                        dict(lower=0.3, upper=1.5, a=6.0, p=2, base=500, minF=0, rmd=1)):
                for unselected in (False, True):
                    atoms = []
                    for idx in range(n_atoms):
                        pos = [0.25 * idx, 0.2 * math.sin(idx), 0.2 * math.cos(idx)]
                        if idx == victim:
                            pos = [float('nan') if i in comps else c for i, c in enumerate(pos)]
                        name = 'SC1' if (unselected and idx == victim) else 'BB'
                        atoms.append(dict(key=idx, chain='A', resid=idx + 1, resname='ALA', atomname=name, pos=pos))
                    edges = [[i, i + 1] for i in range(n_atoms - 1)]
                    spec = dict(atoms=atoms, edges=edges, selector=('backbone',), domain=('molecule',), params=prm,
                                exact=False)
                    check(col, [spec], rng, metamorphic=not quick and not unselected, stage='nan')


def bounded(tier, seed):
    rng = random.Random(seed)
    quick = tier != 'thorough'
    col = Collector('whole ApplyRubberBand processor (run_molecule / run_system) vs pair-by-pair recomputation of the '
                    'five criteria, bond length and force constant: exhaustive 5-atom scope; NaN patterns; seeded '
                    'random molecules <= 15 beads (multi-bead residues, 1-3 chains, gaps, cross-links, repeated '
                    'resids, shuffled sparse keys, lattice and float coordinates, coincident atoms, unselected atoms '
                    'without/with NaN position, pre-existing bonds) x 4 selector kinds x 3 domain criteria x random '
                    'parameter sets incl. exact boundaries; each random case re-run with another insertion order and '
                    'after a rigid motion. non-trivial = at least one expected bond and one rejected selected pair')
    logging.getLogger('vermouth').addHandler(logging.NullHandler())
    exhaustive_stage(col, rng, quick)
    nan_stage(col, rng, quick)
    n_random = 1500 if quick else 30000
    for _ in range(n_random):
        check(col, [random_spec(rng, nan=rng.random() < 0.08)], rng, stage='random')
    for _ in range(150 if quick else 3000):  # several molecules in one system, processed independently
        first = random_spec(rng, max_beads=8, nan=rng.random() < 0.05)
        others = []
        for _n in range(rng.randint(1, 2)):
            other = random_spec(rng, max_beads=8, selector=first['selector'])
            other.update(domain=first['domain'], params=first['params'])
            others.append(other)
        specs = [first] + others
        check(col, specs, rng, as_system=True, metamorphic=False, stage='system')
    return col.result()


def replay_model(function, model):  # pylint: disable=unused-argument
    return None

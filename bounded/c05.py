"""C05 bounded stand-in: DoLinks.run_molecule (and match_link, and the .ff order prefixes) run natively against a
brute-force placement oracle written from the property statement.

Everything is driven by plain JSON-able *specs*:

molecule spec   dict(nodes=[[key, attrs]], edges=[[k1, k2]], meta={}, interactions={type: [[atoms, params, meta]]})
link spec       dict(nodes=[[key, attrs]], edges=[[k1, k2]], non_edges=[[anchor, attrs]], patterns=[[[key, attrs]]],
                     molmeta={}, interactions=[[type, keys, params, meta]],
                     removed=[[type, keys, atom_attrs, params, meta]], all_nodes={})
   attribute values are literals or {'choice': [...]} or {'not': value}; node attrs may hold 'order' (int or a run
   of '>', '<', '*') and 'replace' ({attr: value}; {'atomname': None} deletes the atom); parameters are strings or
   {'fn': 'dist'|'angle'|'dihedral'|'dihphase', 'keys': [...], 'fmt': None|'.2f'}.

The real side builds vermouth objects from a spec (either by rendering the link to .ff text and parsing it with the
real parser, or programmatically); the oracle side never touches vermouth.
"""
import copy
import hashlib
import itertools
import json
import logging
import math
import random
import time
from collections import OrderedDict

from .common import Collector, REPO, load_cli  # noqa: F401  (REPO/load_cli part of the layer's interface)

PROBE_SHIFTED_ANCHOR = True   # probe non-edges anchored on an atom outside the reference residue (own key)
IGNORED = ('order', 'replace', 'modifications')
EDGE_TYPES = ('bonds', 'angles', 'dihedrals', 'cmap', 'constraints')   # documented: these imply link edges in .ff
NATOMS = {'bonds': 2, 'angles': 3, 'dihedrals': 4, 'impropers': 4, 'constraints': 2, 'pairs': 2,
          'position_restraints': 1}
TOL = 1e-6


# --------------------------------------------------------------------------------------------------------------
# oracle: state, conditions, placements, application  (no vermouth in here)
# --------------------------------------------------------------------------------------------------------------
class State:
    def __init__(self, ms):
        self.nodes = OrderedDict((k, dict(a)) for k, a in ms['nodes'])
        self.edges = {frozenset(e) for e in ms['edges']}
        self.meta = dict(ms.get('meta', {}))
        self.inter = {t: [[tuple(a), list(p), dict(m)] for a, p, m in lst]
                      for t, lst in ms.get('interactions', {}).items() if lst}

    def copy(self):
        return State(self.spec())

    def spec(self, concrete=False):
        """concrete: geometry-derived expectations become plain values (a state to start a real run from)."""
        def conc(x):
            if concrete and isinstance(x, list) and x and x[0] == 'geom':
                return x[2] if x[3] is None else '{value:{format}}'.format(value=x[2], format=x[3])
            return x
        return dict(nodes=[[k, dict(a)] for k, a in self.nodes.items()],
                    edges=sorted(sorted(e) for e in self.edges), meta=dict(self.meta),
                    interactions={t: [[list(a), [conc(x) for x in p], dict(m)] for a, p, m in lst]
                                  for t, lst in self.inter.items() if lst})

    def neighbours(self, n):
        return [next(iter(e - {n})) for e in self.edges if n in e and len(e) == 2]


def o_value_ok(attrs, key, want):
    if isinstance(want, dict) and 'choice' in want:
        return attrs.get(key) in want['choice']
    if isinstance(want, dict) and 'not' in want:
        return key not in attrs or attrs[key] != want['not']
    return key in attrs and attrs[key] == want


def o_atom_ok(attrs, tmpl):
    return all(o_value_ok(attrs, k, v) for k, v in tmpl.items() if k not in IGNORED)


def o_kind(order):
    if isinstance(order, int):
        return 'n', order
    if order[0] == '>':
        return 's', len(order)
    if order[0] == '<':
        return 's', -len(order)
    return '*', len(order)


def o_kind_name(order):
    t, v = o_kind(order)
    return {'n': '0' if v == 0 else 'n', 's': '><', '*': '*'}[t]


def o_order_ok(o1, r1, o2, r2):
    """the documented comparison matrix; row = (o1, r1), column = (o2, r2)."""
    (t1, v1), (t2, v2) = o_kind(o1), o_kind(o2)
    d = r2 - r1
    if t1 == 'n' and t2 == 'n':
        return d == v2 - v1                                  # '?', '='
    if t1 == 'n' and v1 == 0:
        if t2 == 's':
            return d > 0 if v2 > 0 else d < 0               # row 0, columns > >> < <<
        return d != 0                                        # row 0, columns * **  ('/')
    if t2 == 'n' and v2 == 0:
        if t1 == 's':
            return d < 0 if v1 > 0 else d > 0               # column 0, rows > >> < <<
        return d != 0                                        # column 0, rows * **
    if t1 == 's' and t2 == 's':
        if v1 == v2:
            return d == 0
        return d > 0 if v2 > v1 else d < 0
    if t1 == '*' and t2 == '*':
        return d == 0 if v1 == v2 else d != 0
    return True                                              # '!'


def o_check(state, link, p):
    """first violated clause of the placement p (link key -> molecule key), None if p satisfies the link."""
    lnodes = OrderedDict((k, a) for k, a in link['nodes'])
    if set(p) != set(lnodes) or len(set(p.values())) != len(p) or any(v not in state.nodes for v in p.values()):
        return 'not-a-placement'
    for k, v in link.get('molmeta', {}).items():
        if not o_value_ok(state.meta, k, v):
            return 'molmeta'
    for k, a in lnodes.items():
        if not o_atom_ok(state.nodes[p[k]], a):
            return 'node-attributes'
    ledges = {frozenset(e) for e in link['edges']}
    for u, v in itertools.combinations(lnodes, 2):
        inl = frozenset((u, v)) in ledges
        inm = frozenset((p[u], p[v])) in state.edges
        if inl and not inm:
            return 'required-bond'
        if inm and not inl:
            return 'absent-bond'
    groups = OrderedDict()
    for k, a in lnodes.items():
        if 'order' in a:
            groups.setdefault(a['order'], []).append(state.nodes[p[k]]['resid'])
    for o, rs in groups.items():
        if len(set(rs)) != 1:
            return 'same-order-same-resid'
    for (o1, r1), (o2, r2) in itertools.permutations([(o, rs[0]) for o, rs in groups.items()], 2):
        if not o_order_ok(o1, r1, o2, r2):
            a, b = sorted((o_kind_name(o1), o_kind_name(o2)))
            return 'order(%s,%s)' % (a, b)
    for anchor, pattrs in link.get('non_edges', []):
        if anchor not in lnodes:
            continue
        a = p[anchor]
        shift = pattrs.get('order', 0) - lnodes[anchor].get('order', 0)
        for nb in state.neighbours(a):
            if state.nodes[nb]['resid'] == state.nodes[a]['resid'] + shift and o_atom_ok(state.nodes[nb], pattrs):
                return 'non-edge-shifted-anchor' if lnodes[anchor].get('order', 0) != 0 else 'non-edge'
    pats = link.get('patterns', [])
    if pats and not any(all(o_atom_ok(state.nodes[p[k]], a) for k, a in pat) for pat in pats):
        return 'pattern'
    return None


CLAUSE_COUNTS = {}   # how often each clause decided a candidate placement (None = accepted): generator coverage


def o_placements(state, link):
    """all injective maps of the link nodes into the molecule that satisfy every condition (brute force)."""
    lnodes = [(k, a) for k, a in link['nodes']]
    for k, v in link.get('molmeta', {}).items():
        if not o_value_ok(state.meta, k, v):
            return []
    cands = [[m for m, ma in state.nodes.items() if o_atom_ok(ma, a)] for k, a in lnodes]
    out = []
    for combo in itertools.product(*cands):
        if len(set(combo)) != len(combo):
            continue
        p = {k: m for (k, _), m in zip(lnodes, combo)}
        why = o_check(state, link, p)
        CLAUSE_COUNTS[why] = CLAUSE_COUNTS.get(why, 0) + 1
        if why is None:
            out.append(p)
    return out


def _sub(a, b):
    return [x - y for x, y in zip(a, b)]


def _dot(a, b):
    return sum(x * y for x, y in zip(a, b))


def _cross(a, b):
    return [a[1] * b[2] - a[2] * b[1], a[2] * b[0] - a[0] * b[2], a[0] * b[1] - a[1] * b[0]]


def _norm(a):
    return math.sqrt(_dot(a, a))


def o_geom(fn, pts):
    if fn == 'dist':
        return _norm(_sub(pts[1], pts[0]))
    if fn == 'angle':
        u, v = _sub(pts[0], pts[1]), _sub(pts[2], pts[1])
        return math.degrees(math.acos(max(-1.0, min(1.0, _dot(u, v) / (_norm(u) * _norm(v))))))
    # IUPAC dihedral: project a-b and d-c on the plane normal to b-c, signed angle between the projections
    a, b, c, d = pts
    axis = _sub(c, b)
    n = _norm(axis)
    axis = [x / n for x in axis]
    u, w = _sub(a, b), _sub(d, c)
    u = _sub(u, [_dot(u, axis) * x for x in axis])
    w = _sub(w, [_dot(w, axis) * x for x in axis])
    ang = math.degrees(math.atan2(_dot(_cross(u, w), axis), _dot(u, w)))
    if fn == 'dihedral':
        return ang
    ang -= 180.0                     # dihphase: shifted by -180 degrees, kept in [-180, 180]
    if ang < -180.0:
        ang += 360.0
    return ang


def o_param(state, p, param):
    if isinstance(param, dict):
        pts = [state.nodes[p[k]]['position'] for k in param['keys']]
        return ['geom', param['fn'], o_geom(param['fn'], pts), param.get('fmt')]
    return param


def _ang_close(a, b, tol):
    d = abs(a - b) % 360.0
    return min(d, 360.0 - d) <= tol


def param_equal(exp, got):
    """expected parameter (literal or ['geom', fn, value, fmt]) against an observed one."""
    if isinstance(exp, list) and exp and exp[0] == 'geom':
        _, fn, val, fmt = exp
        if fmt is None:
            if isinstance(got, str):
                return False
            tol = TOL
        else:
            if not isinstance(got, str):
                return False
            try:
                decimals = int(fmt.strip('.f'))
                if '.' in got and len(got.split('.')[1]) != decimals:
                    return False
                got = float(got)
            except ValueError:
                return False
            tol = 0.5 * 10 ** (-decimals) + 1e-6
        try:
            got = float(got)
        except (TypeError, ValueError):
            return False
        return abs(got - val) <= tol if fn == 'dist' else _ang_close(got, val, tol)
    if isinstance(got, list) and got and got[0] == 'geom':
        return param_equal(got, exp)
    return type(exp) == type(got) and exp == got


def params_equal(e, g):
    return len(e) == len(g) and all(param_equal(x, y) for x, y in zip(e, g))


def content_equal(e, g):
    return params_equal(e[1], g[1]) and e[2] == g[2]


def link_tested_keys(link):
    keys = set()
    for _, a in link['nodes']:
        keys |= {k for k in a if k not in IGNORED}
    for _, a in link.get('non_edges', []):
        keys |= {k for k in a if k not in IGNORED}
    for pat in link.get('patterns', []):
        for _, a in pat:
            keys |= {k for k in a if k not in IGNORED}
    for r in link.get('removed', []):
        for a in r[2]:
            keys |= set(a)
    return keys


def link_replaced_keys(link):
    keys = set()
    for _, a in link['nodes']:
        rep = a.get('replace')
        if rep and not ('atomname' in rep and rep['atomname'] is None):
            keys |= set(rep)
    return keys


def o_removal_matches(state, item, atoms, atom_attrs, params, meta):
    return (item[0] == atoms and (not params or list(params) == list(item[1]))
            and all(o_atom_ok(state.nodes[a], aa) for a, aa in zip(atoms, atom_attrs))
            and all(o_value_ok(item[2], k, v) for k, v in meta.items()))


def o_ambiguous(state, link, placements):
    """reason why the statement does not determine the outcome of this link on this state, else None.
    (the order in which placements are visited is not specified; inputs whose result depends on it are excluded)"""
    if link_replaced_keys(link) & (link_tested_keys(link) | {'position', 'resid'}):
        return 'a link replaces an attribute that its own conditions (or geometry) read'
    repl = {}
    for p in placements:
        for k, a in link['nodes']:
            rep = a.get('replace')
            if rep and not ('atomname' in rep and rep['atomname'] is None):
                for rk, rv in rep.items():
                    if repl.setdefault((p[k], rk), rv) != rv:
                        return 'two placements replace the same attribute differently'
    adds, rems = {}, {}
    for i, p in enumerate(placements):
        for typ, keys, params, meta in link['interactions']:
            atoms = tuple(p[k] for k in keys)
            content = [atoms, [o_param(state, p, x) for x in params], meta]
            adds.setdefault((typ, atoms, meta.get('version', 0)), []).append((i, content))
        for typ, keys, atom_attrs, params, meta in link.get('removed', []):
            atoms = tuple(p[k] for k in keys)
            rems.setdefault((typ, atoms), []).append((i, atom_attrs, params, meta))
    for key, lst in adds.items():
        for (i, c1), (j, c2) in itertools.combinations(lst, 2):
            if i != j and not content_equal(c1, c2):
                return 'two placements give the same atoms different parameters'
    for (typ, atoms), lst in rems.items():
        cands = [it for it in state.inter.get(typ, []) if it[0] == atoms]
        if len(cands) >= 2 and len(lst) >= 2:
            return 'several removals compete for several interactions on the same atoms'
        for i, atom_attrs, params, meta in lst:
            if sum(o_removal_matches(state, it, atoms, atom_attrs, params, meta) for it in cands) > 1:
                return 'a removal template matches more than one interaction'
            for (t2, a2, _v), alst in adds.items():
                if t2 == typ and a2 == atoms and any(j != i for j, _ in alst):
                    return 'a removal of one placement targets an interaction added by another placement'
    for typ, lst in state.inter.items():
        seen = set()
        for it in lst:
            k = (it[0], it[2].get('version', 0))
            if k in seen and any(a[0] == typ and a[1] == it[0] for a in adds):
                return 'pre-existing duplicate interaction on atoms a link writes to'
            seen.add(k)
    return None


def o_apply_link(state, link, placements):
    """effects of one link, placement by placement: replace attributes, removals, add-or-replace; atoms whose
    atomname is replaced by None are deleted (with their bonds and interactions) once the link is done."""
    doomed = []
    for p in placements:
        for k, a in link['nodes']:
            rep = a.get('replace')
            if rep is None:
                continue
            if 'atomname' in rep and rep['atomname'] is None:
                doomed.append(p[k])
            else:
                state.nodes[p[k]].update(rep)
        for typ, keys, atom_attrs, params, meta in link.get('removed', []):
            atoms = tuple(p[k] for k in keys)
            lst = state.inter.get(typ, [])
            for i, it in enumerate(lst):
                if o_removal_matches(state, it, atoms, atom_attrs, params, meta):
                    del lst[i]
                    break
        for typ, keys, params, meta in link['interactions']:
            atoms = tuple(p[k] for k in keys)
            new = [atoms, [o_param(state, p, x) for x in params], dict(meta)]
            lst = state.inter.setdefault(typ, [])
            for i, it in enumerate(lst):
                if it[0] == atoms and it[2].get('version', 0) == meta.get('version', 0):
                    lst[i] = new
                    break
            else:
                lst.append(new)
    for n in doomed:
        if n in state.nodes:
            del state.nodes[n]
            state.edges = {e for e in state.edges if n not in e}
            for typ in list(state.inter):
                state.inter[typ] = [it for it in state.inter[typ] if n not in it[0]]
    for typ in list(state.inter):
        if not state.inter[typ]:
            del state.inter[typ]


def o_run(ms, links):
    """(final state, per-link placements) or ('ambiguous', reason)."""
    state = State(ms)
    trace = []
    for link in links:
        pl = o_placements(state, link)
        why = o_ambiguous(state, link, pl)
        if why:
            return None, why
        trace.append(pl)
        o_apply_link(state, link, pl)
    return state, trace


# --------------------------------------------------------------------------------------------------------------
# real side: build vermouth objects from specs, run, read the result back
# --------------------------------------------------------------------------------------------------------------
def _prefix(order):
    if isinstance(order, int):
        return ('+' if order > 0 else '-') * abs(order)
    return order


def _jattrs(a):
    out = {}
    for k, v in a.items():
        if k == 'order':
            continue
        if isinstance(v, dict) and 'choice' in v:
            out[k] = '|'.join(v['choice'])
        else:
            out[k] = v
    return json.dumps(out)


def text_expressible(link):
    for k, a in link['nodes']:
        if 'order' not in a or not isinstance(a.get('atomname'), str) or k != _prefix(a['order']) + a['atomname']:
            return False
        if any(isinstance(v, dict) and 'not' in v for v in a.values()):
            return False
        if any(isinstance(v, dict) and 'choice' in v and len(v['choice']) < 2 for v in a.values()):
            return False
    implied = set()
    for typ, keys, params, meta in link['interactions']:
        if typ not in NATOMS or not params or (typ == 'dihedrals' and params[0] == '2'):
            return False
        if typ in EDGE_TYPES:
            implied |= {frozenset(x) for x in zip(keys[:-1], keys[1:])}
    if not implied <= {frozenset(e) for e in link['edges']}:
        return False
    for r in link.get('removed', []):
        if r[0] not in NATOMS or r[0] == 'dihedrals' or any(r[2]) or not r[3]:
            return False
    for anchor, pa in link.get('non_edges', []):
        if not isinstance(pa.get('atomname'), str) or not isinstance(pa.get('order'), int):
            return False
        if any(isinstance(v, dict) for v in pa.values()):
            return False
    for pat in link.get('patterns', []):
        for _, a in pat:
            if any(isinstance(v, dict) and ('not' in v or len(v.get('choice', [0, 0])) < 2) for v in a.values()):
                return False
    for v in list(link.get('molmeta', {}).values()) + list(link.get('all_nodes', {}).values()):
        if isinstance(v, dict) and 'choice' in v and len(v['choice']) < 2:
            return False
    return True


def _jvalue(v):
    if isinstance(v, dict) and 'choice' in v:
        return json.dumps('|'.join(v['choice']))
    if isinstance(v, dict) and 'not' in v:
        return 'not(%s)' % json.dumps(v['not'])
    return json.dumps(v)


def _param_text(x):
    if isinstance(x, dict):
        return '%s(%s%s)' % (x['fn'], ','.join(x['keys']), '|' + x['fmt'] if x.get('fmt') else '')
    return x


def render_ff(link):
    """the link in the documented .ff syntax (order written as a name prefix: + - > < *)."""
    shared = link.get('all_nodes', {})
    lines = ['[ link ]']
    for k, v in shared.items():
        lines.append('%s %s' % (k, _jvalue(v)))
    if link.get('molmeta'):
        lines.append('[ molmeta ]')
        for k, v in link['molmeta'].items():
            lines.append('%s %s' % (k, _jvalue(v)))
    lines.append('[ atoms ]')
    for k, a in link['nodes']:
        own = {x: y for x, y in a.items() if x != 'atomname' and not (x in shared and shared[x] == y)}
        lines.append('%s %s' % (k, _jattrs(own)))
    by_type = OrderedDict()
    for typ, keys, params, meta in link['interactions']:
        by_type.setdefault(typ, []).append((keys, params, meta))
    for typ, lst in by_type.items():
        lines.append('[ %s ]' % typ)
        for keys, params, meta in lst:
            lines.append(' '.join(list(keys) + [_param_text(x) for x in params] + ([json.dumps(meta)] if meta else [])))
    by_type = OrderedDict()
    for typ, keys, atom_attrs, params, meta in link.get('removed', []):
        by_type.setdefault(typ, []).append((keys, params, meta))
    for typ, lst in by_type.items():
        lines.append('[ !%s ]' % typ)
        for keys, params, meta in lst:
            lines.append(' '.join(list(keys) + list(params) + ([json.dumps(meta)] if meta else [])))
    if link['edges']:
        lines.append('[ edges ]')
        for u, v in link['edges']:
            lines.append('%s %s' % (u, v))
    if link.get('non_edges'):
        lines.append('[ non-edges ]')
        for anchor, pa in link['non_edges']:
            extra = {x: y for x, y in pa.items() if x not in ('order', 'atomname')}
            lines.append('%s %s%s' % (anchor, _prefix(pa['order']) + pa['atomname'],
                                      ' ' + json.dumps(extra) if extra else ''))
    if link.get('patterns'):
        lines.append('[ patterns ]')
        for pat in link['patterns']:
            lines.append(' '.join('%s %s' % (k, _jattrs(a)) if a else k for k, a in pat))
    return lines


def _real_value(v):
    from vermouth.molecule import Choice, NotDefinedOrNot
    if isinstance(v, dict) and 'choice' in v:
        return Choice(list(v['choice']))
    if isinstance(v, dict) and 'not' in v:
        return NotDefinedOrNot(v['not'])
    return v


def _real_attrs(a):
    return {k: (dict(v) if k == 'replace' else _real_value(v)) for k, v in a.items()}


def build_link_prog(link):
    from vermouth.molecule import Link, Interaction, DeleteInteraction
    from vermouth.molecule import ParamDistance, ParamAngle, ParamDihedral, ParamDihedralPhase
    eff = {'dist': ParamDistance, 'angle': ParamAngle, 'dihedral': ParamDihedral, 'dihphase': ParamDihedralPhase}
    lk = Link()
    for k, a in link['nodes']:
        lk.add_node(k, **_real_attrs(a))
    for u, v in link['edges']:
        lk.add_edge(u, v)
    inter = {}
    for typ, keys, params, meta in link['interactions']:
        ps = [eff[x['fn']](list(x['keys']), format_spec=x.get('fmt')) if isinstance(x, dict) else x for x in params]
        inter.setdefault(typ, []).append(Interaction(atoms=list(keys), parameters=ps, meta=dict(meta)))
    lk.interactions = inter
    rem = {}
    for typ, keys, atom_attrs, params, meta in link.get('removed', []):
        rem.setdefault(typ, []).append(DeleteInteraction(atoms=list(keys), atom_attrs=[_real_attrs(a) for a in atom_attrs],
                                                         parameters=list(params), meta=_real_attrs(meta)))
    lk.removed_interactions = rem
    lk.non_edges = [[anchor, _real_attrs(pa)] for anchor, pa in link.get('non_edges', [])]
    lk.patterns = [[(k, _real_attrs(a)) for k, a in pat] for pat in link.get('patterns', [])]
    lk.molecule_meta = _real_attrs(link.get('molmeta', {}))
    return lk


def build_link_text(link):
    from vermouth.forcefield import ForceField
    from vermouth.ffinput import read_ff
    ff = ForceField(name='c05parse')
    read_ff(render_ff(link), ff)
    if len(ff.links) != 1:
        raise RuntimeError('rendered link parsed into %d links' % len(ff.links))
    return ff.links[0]


def build_link(link, path):
    return build_link_text(link) if path == 'text' else build_link_prog(link)


def build_mol(ms, real_links):
    import numpy as np
    from vermouth.forcefield import ForceField
    from vermouth.molecule import Molecule
    ff = ForceField(name='c05')
    ff.links = list(real_links)
    mol = Molecule(force_field=ff, meta=dict(ms.get('meta', {})))
    for k, a in ms['nodes']:
        a = dict(a)
        if 'position' in a:
            a['position'] = np.array(a['position'], dtype=float)
        mol.add_node(k, **a)
    for u, v in ms['edges']:
        mol.add_edge(u, v)
    for typ, lst in ms.get('interactions', {}).items():
        for atoms, params, meta in lst:
            mol.add_interaction(typ, tuple(atoms), list(params), dict(meta))
    return mol


def _plain(x):
    try:
        import numpy as np
        if isinstance(x, np.generic):
            return x.item()
        if isinstance(x, np.ndarray):
            return [float(v) for v in x]
    except ImportError:
        pass
    return x


def read_back(mol):
    st = State(dict(nodes=[], edges=[], meta={}, interactions={}))
    for k in mol.nodes:
        st.nodes[k] = {a: _plain(v) for a, v in mol.nodes[k].items()}
    st.edges = {frozenset(e) for e in mol.edges}
    st.meta = dict(mol.meta)
    for typ, lst in mol.interactions.items():
        if lst:
            st.inter[typ] = [[tuple(it.atoms), [_plain(x) for x in it.parameters], dict(it.meta)] for it in lst]
    return st


def real_run(ms, real_links):
    from vermouth.processors.do_links import DoLinks
    mol = build_mol(ms, real_links)
    DoLinks().run_molecule(mol)
    return read_back(mol)


def real_matches(ms, real_link):
    from vermouth.processors.do_links import match_link
    mol = build_mol(ms, [real_link])
    return [dict(m) for m in match_link(mol, real_link)]


# --------------------------------------------------------------------------------------------------------------
# comparison and diagnosis
# --------------------------------------------------------------------------------------------------------------
def _attrs_equal(a, b):
    if set(a) != set(b):
        return False
    for k in a:
        x, y = a[k], b[k]
        if k == 'position':
            if len(x) != len(y) or any(abs(p - q) > 1e-9 for p, q in zip(x, y)):
                return False
        elif x != y or type(x) != type(y):
            return False
    return True


def _jsonable(x):
    if isinstance(x, dict):
        return {str(k): _jsonable(v) for k, v in x.items()}
    if isinstance(x, (list, tuple, set, frozenset)):
        return [_jsonable(v) for v in x]
    x = _plain(x)
    if isinstance(x, float):
        return round(x, 6)
    if isinstance(x, (int, str, bool)) or x is None:
        return x
    return repr(x)


def state_diff(pre, exp, got):
    """(symptom, observed, expected) of the first difference between the expected and the observed final state."""
    if list(got.nodes) != list(exp.nodes):
        return 'node-deletion', list(got.nodes), list(exp.nodes)
    for k in exp.nodes:
        if not _attrs_equal(exp.nodes[k], got.nodes[k]):
            keys = sorted(a for a in set(exp.nodes[k]) | set(got.nodes[k])
                          if a != 'position' and exp.nodes[k].get(a) != got.nodes[k].get(a))
            return ('replace-attributes', {str(k): {a: got.nodes[k].get(a) for a in keys}},
                    {str(k): {a: exp.nodes[k].get(a) for a in keys}})
    if got.edges != exp.edges:
        return 'edges', sorted(sorted(e) for e in got.edges), sorted(sorted(e) for e in exp.edges)
    if got.meta != exp.meta:
        return 'molecule-meta', got.meta, exp.meta
    for typ in sorted(set(exp.inter) | set(got.inter)):
        e_by, g_by = {}, {}
        for it in exp.inter.get(typ, []):
            e_by.setdefault((it[0], it[2].get('version', 0)), []).append(it)
        for it in got.inter.get(typ, []):
            g_by.setdefault((it[0], it[2].get('version', 0)), []).append(it)
        pre_keys = {(it[0], it[2].get('version', 0)) for it in pre.inter.get(typ, [])} if pre is not None else set()
        for key in sorted(set(e_by) | set(g_by), key=repr):
            e, g = e_by.get(key, []), g_by.get(key, [])
            obs = dict(type=typ, atoms=list(key[0]), version=key[1], items=[[it[1], it[2]] for it in g])
            want = dict(type=typ, atoms=list(key[0]), version=key[1],
                        items=[[[x[2] if isinstance(x, list) else x for x in it[1]], it[2]] for it in e])
            if len(g) < len(e):
                return 'missing-interaction', obs, want
            if len(g) > len(e):
                if e:
                    return 'duplicate-interaction', obs, want
                return ('removal-not-applied' if key in pre_keys else 'unjustified-interaction'), obs, want
            left = list(g)
            for it in e:
                for j, cand in enumerate(left):
                    if content_equal(it, cand):
                        del left[j]
                        break
                else:
                    if any(it[2] == c[2] for c in left) or not left:
                        bad_geom = any(isinstance(x, list) and x and x[0] == 'geom' for x in it[1]) and \
                            any(len(c[1]) == len(it[1]) and
                                all(param_equal(x, y) for x, y in zip(it[1], c[1]) if not isinstance(x, list))
                                for c in left)
                        return ('geometry-parameters' if bad_geom else 'override-parameters'), obs, want
                    return 'interaction-meta', obs, want
    return None


def _pkey(p):
    return tuple(sorted((str(k), repr(v)) for k, v in p.items()))


def _strip(real_link, feature):
    if feature == 'molmeta':
        real_link.molecule_meta = {}
    elif feature == 'non-edge':
        real_link.non_edges = []
    elif feature == 'pattern':
        real_link.patterns = []
    elif feature == 'order':
        for n in real_link.nodes:
            real_link.nodes[n].pop('order', None)


def compare_matches(col, ms, link, path, tag):
    """match_link on a static molecule against the brute-force placements. True if a violation was reported."""
    state = State(ms)
    exp = o_placements(state, link)
    try:
        got = real_matches(ms, build_link(link, path))
    except Exception as err:  # noqa: BLE001
        col.violation('match_link/exception:%s' % type(err).__name__, 'match_link', 'matching raised (%s)' % tag,
                      dict(molecule=_jsonable(ms), link=_jsonable(link), path=path), repr(err),
                      '%d placements' % len(exp))
        return True
    eset = {_pkey(p) for p in exp}
    gset = {_pkey(p) for p in got}
    if eset == gset:
        return False
    inp = dict(molecule=_jsonable(ms), link=_jsonable(link), path=path)
    for p in got:
        if _pkey(p) not in eset:
            clause = o_check(state, link, p)
            col.violation('match_link/over-eager:%s' % clause, 'match_link',
                          'the link is matched on atoms that violate its %s condition (%s)' % (clause, tag),
                          inp, _jsonable(p), 'no such placement; %d valid placements' % len(exp))
            return True
    missed = [p for p in exp if _pkey(p) not in gset][0]
    clause = 'structure'
    for feature in ('molmeta', 'non-edge', 'pattern', 'order'):
        rl = build_link(link, path)
        _strip(rl, feature)
        try:
            if _pkey(missed) in {_pkey(p) for p in real_matches(ms, rl)}:
                clause = feature
                break
        except Exception:  # noqa: BLE001
            continue
    if clause == 'order':
        from vermouth.processors.do_links import match_order
        lattrs = dict((k, a) for k, a in link['nodes'])
        groups = OrderedDict()
        for k, a in lattrs.items():
            if 'order' in a:
                groups[a['order']] = state.nodes[missed[k]]['resid']
        for (o1, r1), (o2, r2) in itertools.combinations(groups.items(), 2):
            if not (match_order(o1, r1, o2, r2) and match_order(o2, r2, o1, r1)):
                a, b = sorted((o_kind_name(o1), o_kind_name(o2)))
                clause = 'order(%s,%s)' % (a, b)
                break
    if clause == 'non-edge' and any(dict(link['nodes'])[a].get('order', 0) != 0 for a, _ in link['non_edges']
                                    if a in dict(link['nodes'])):
        clause = 'non-edge-shifted-anchor'
    col.violation('match_link/missed:%s' % clause, 'match_link',
                  'a placement that satisfies every condition of the link is not matched; the %s handling rejects it (%s)'
                  % (clause, tag), inp, '%d placements, this one absent' % len(got), _jsonable(missed))
    return True


def check_parse(col, link, real_link):
    """the .ff order prefixes must come out as the documented order attribute (+/- -> signed count, > < * as is)."""
    for k, a in link['nodes']:
        got = real_link.nodes.get(k, {}).get('order', 'ABSENT') if k in real_link.nodes else 'NO NODE'
        if got != a['order'] or type(got) != type(a['order']):
            col.violation('read_ff/link-order-prefix', 'vermouth.ffinput._treat_atom_prefix',
                          'atom-name prefix of a link atom not translated to the documented order',
                          dict(ff_text=render_ff(link), atom=k), _jsonable(got), a['order'])
            return True
    for (anchor, pa), (ganchor, gpa) in zip(link.get('non_edges', []), real_link.non_edges):
        if gpa.get('order') != pa['order'] or ganchor != anchor:
            col.violation('read_ff/non-edge-order-prefix', 'vermouth.ffinput._parse_edges',
                          'prefix of a non-edge partner not translated to the documented order',
                          dict(ff_text=render_ff(link)), _jsonable([ganchor, gpa.get('order')]), [anchor, pa['order']])
            return True
    return False


def fingerprint(ms, links, path):
    return hashlib.md5(json.dumps([_jsonable(ms), _jsonable(links), path], sort_keys=True).encode()).hexdigest()


_LINK_CACHE = {}


def cached_link(link, path):
    """the real Link object of a spec; like the links of a force field it is built once and then used for every
    molecule of the run. history = the molecules it has been applied to so far (most recent last)."""
    key = (json.dumps(_jsonable(link), sort_keys=True), path)
    ent = _LINK_CACHE.get(key)
    if ent is None:
        if len(_LINK_CACHE) > 4000:
            _LINK_CACHE.clear()
        ent = _LINK_CACHE[key] = dict(obj=build_link(link, path), history=[], fresh=True)
    return ent


def check_case(col, ms, links, path, tag, stats):
    """one molecule, one ordered list of links: DoLinks.run_molecule against the oracle; diagnosis on mismatch."""
    exp, trace = o_run(ms, links)
    if exp is None:
        stats['excluded'] = stats.get('excluded', 0) + 1
        return
    inp = dict(molecule=_jsonable(ms), links=_jsonable(links), path=path)
    nplace = sum(len(t) for t in trace)
    sample = dict(n_atoms=len(ms['nodes']), resids=[a['resid'] for _, a in ms['nodes']], n_links=len(links),
                  placements=[len(t) for t in trace], path=path,
                  ff_text=[render_ff(l) for l in links] if path == 'text' else None)
    col.case(fingerprint(ms, links, path), nplace > 0, sample)
    try:
        entries = [cached_link(l, path) for l in links]
    except Exception as err:  # noqa: BLE001
        col.violation('read_ff/exception:%s' % type(err).__name__, 'vermouth.ffinput.read_ff',
                      'a link in the documented syntax is rejected (%s)' % tag, inp, repr(err), 'parsed link')
        return
    if path == 'text':
        for l, ent in zip(links, entries):
            if ent.pop('fresh', False) and check_parse(col, l, ent['obj']):
                return
    try:
        got = real_run(ms, [e['obj'] for e in entries])
    except Exception as err:  # noqa: BLE001
        got = err
    history = []
    for e in entries:
        history.extend(h for h in e['history'] if h not in history)
        e['history'] = (e['history'] + [ms])[-4:]
    if not isinstance(got, Exception) and state_diff(None, exp, got) is None:
        return
    # ---- does it depend on the Link objects having been used on other molecules before?
    try:
        again = real_run(ms, [build_link(l, path) for l in links])
    except Exception as err:  # noqa: BLE001
        again = err
    if not isinstance(again, Exception) and state_diff(None, exp, again) is None:
        d = ('exception', repr(got), 'as without the earlier molecule') if isinstance(got, Exception) \
            else state_diff(State(ms), exp, got)
        for prev in reversed(history):
            fl = [build_link(l, path) for l in links]
            try:
                real_run(prev, fl)
                second = real_run(ms, fl)
            except Exception as err:  # noqa: BLE001
                second = err
            if isinstance(second, Exception) or state_diff(None, exp, second) is not None:
                inp = dict(inp, molecule_processed_before_with_the_same_force_field=_jsonable(prev))
                break
        else:
            inp = dict(inp, note='appears only after the same Link objects were applied to several earlier molecules')
        col.violation('DoLinks.run_molecule/link-reuse:%s' % d[0], 'DoLinks.run_molecule',
                      'the links of a force field are applied to every molecule; the result for this molecule is correct '
                      'with freshly built links but wrong after the same Link objects were applied to another molecule: '
                      '%s (%s)' % (d[0], tag), inp, _jsonable(d[1]), _jsonable(d[2]))
        return
    # ---- diagnosis: which link, which stage
    state = State(ms)
    for i, link in enumerate(links):
        here = state.spec(concrete=True)
        state = State(here)
        if compare_matches(col, here, link, path, tag):
            return
        nxt = state.copy()
        o_apply_link(nxt, link, o_placements(state, link))
        try:
            step = real_run(here, [build_link(link, path)])
        except Exception as err:  # noqa: BLE001
            col.violation('DoLinks.run_molecule/exception:%s' % type(err).__name__, 'DoLinks.run_molecule',
                          'applying a link raised (%s)' % tag, dict(molecule=_jsonable(here), links=[_jsonable(link)],
                                                                    path=path), repr(err), 'link applied')
            return
        d = state_diff(state, nxt, step)
        if d is not None:
            col.violation('DoLinks.run_molecule/%s' % d[0], 'DoLinks.run_molecule',
                          'state after applying one link differs from the statement: %s (%s)' % (d[0], tag),
                          dict(molecule=_jsonable(here), links=[_jsonable(link)], path=path),
                          _jsonable(d[1]), _jsonable(d[2]))
            return
        state = nxt
    if isinstance(got, Exception):
        col.violation('DoLinks.run_molecule/sequence-exception:%s' % type(got).__name__, 'DoLinks.run_molecule',
                      'each link alone is applied correctly but the list raises (%s)' % tag, inp, repr(got), 'applied')
        return
    d = state_diff(State(ms), exp, got)
    col.violation('DoLinks.run_molecule/sequence:%s' % d[0], 'DoLinks.run_molecule',
                  'each link alone is applied correctly but the ordered list is not (%s)' % tag, inp,
                  _jsonable(d[1]), _jsonable(d[2]))


# --------------------------------------------------------------------------------------------------------------
# generation
# --------------------------------------------------------------------------------------------------------------
RESNAMES = ['ALA', 'GLY', 'LYS']
SS = ['H', 'C', None]


def _pos(i, phase=0):
    return [round(0.38 * math.cos(1.3 * i + 0.37 * phase) + 0.05 * i, 3),
            round(0.38 * math.sin(1.3 * i + 0.37 * phase) - 0.02 * i * i, 3),
            round(0.15 * i + 0.04 * ((i * 7 + phase) % 5), 3)]


def make_molecule(resids, sc_mask, conn, sparse_keys, resnames=None, ss=None, meta=None, pre=None, rng=None,
                  phase=0):
    """residues in sequence order with the given resids; atoms BB (+ SC1 where sc_mask) ; conn chooses the bonds."""
    nodes, edges = [], []
    n = len(resids)
    idx = 0
    bb, sc = [], []

    def key(i):
        return (7 * i + 3) % 23 + 100 * (i // 23) if sparse_keys else i
    for r in range(n):
        attrs = dict(atomname='BB', resname=(resnames or RESNAMES)[r % len(resnames or RESNAMES)], resid=resids[r],
                     chain='A', atype='P%d' % (r % 3), charge_group=r + 1)
        s = (ss or SS)[r % len(ss or SS)]
        if s is not None:
            attrs['cgsecstruct'] = s
        attrs['position'] = _pos(idx, phase) if rng is None else [round(rng.uniform(-1, 1), 3) for _ in range(3)]
        bb.append(key(idx))
        nodes.append([key(idx), attrs])
        idx += 1
        if sc_mask[r]:
            a2 = dict(attrs, atomname='SC1', atype='C1')
            a2['position'] = _pos(idx, phase) if rng is None else [round(rng.uniform(-1, 1), 3) for _ in range(3)]
            sc.append(key(idx))
            nodes.append([key(idx), a2])
            edges.append([bb[-1], sc[-1]])
            idx += 1
        else:
            sc.append(None)
    for r in range(n - 1):
        if conn == 'broken' and r == (n - 1) // 2:
            continue
        edges.append([bb[r], bb[r + 1]])
    if conn == 'cycle' and n >= 3:
        edges.append([bb[0], bb[n - 1]])
    if conn == 'branch' and n >= 3:
        edges.append([bb[0], bb[2]])
    if conn == 'bridge' and n >= 2 and sc[0] is not None and sc[n - 1] is not None:
        edges.append([sc[0], sc[n - 1]])
    if sparse_keys:   # unordered node keys: nodes are stored in a shuffled (but deterministic) order
        nodes = nodes[1::2] + nodes[0::2]
    inter = {}
    if pre:
        for r in range(n):
            if sc[r] is not None:
                inter.setdefault('bonds', []).append([[bb[r], sc[r]], ['1', '0.30', '5000'], {}])
        if pre == 'backbone':
            for r in range(n - 1):
                if [bb[r], bb[r + 1]] in edges:
                    inter.setdefault('bonds', []).append([[bb[r], bb[r + 1]], ['1', '0.35', '1250'], {}])
    return dict(nodes=nodes, edges=edges, meta=dict(meta or {}), interactions=inter)


def resid_patterns(n):
    pats = OrderedDict()
    pats['consecutive'] = list(range(1, n + 1))
    pats['through-zero'] = list(range(-1, n - 1))
    pats['gaps'] = [1 + sum((2, 1, 3)[j % 3] for j in range(i)) for i in range(n)]
    pats['insertion'] = [1 + (i + 1) // 2 for i in range(n)]             # 1 2 2 3 3 4: repeated resids
    pats['reversed'] = list(range(n, 0, -1))
    pats['shuffled'] = [((3 * i + 2) % n) + 1 for i in range(n)] if n % 3 else [((5 * i + 2) % n) + 1 for i in range(n)]
    return pats


def N(atomname, order=0, key=None, **attrs):
    a = dict(atomname=atomname, order=order)
    a.update(attrs)
    return [key or _prefix(order) + atomname, a]


def L(nodes, edges, interactions, **kw):
    link = dict(nodes=nodes, edges=[list(e) for e in edges], interactions=interactions, non_edges=[], patterns=[],
                molmeta={}, removed=[], all_nodes={})
    link.update(kw)
    return link


def library():
    """every documented link feature at least once."""
    lib = OrderedDict()
    lib['bond-next'] = L([N('BB'), N('BB', 1)], [('BB', '+BB')], [['bonds', ['BB', '+BB'], ['1', '0.35', '1250'], {}]])
    lib['bond-next-dist-v1'] = L([N('BB'), N('BB', 1)], [('BB', '+BB')],
                                 [['bonds', ['BB', '+BB'], ['1', dict(fn='dist', keys=['BB', '+BB'], fmt='.3f'), '900'],
                                   {'version': 1}]])
    lib['angle-prev-next'] = L([N('BB', -1), N('BB'), N('BB', 1)], [('-BB', 'BB'), ('BB', '+BB')],
                               [['angles', ['-BB', 'BB', '+BB'], ['2', dict(fn='angle', keys=['-BB', 'BB', '+BB'], fmt=None),
                                                                  '20'], {}]])
    lib['dihedral-4'] = L([N('BB', -1), N('BB'), N('BB', 1), N('BB', 2)],
                          [('-BB', 'BB'), ('BB', '+BB'), ('+BB', '++BB')],
                          [['dihedrals', ['-BB', 'BB', '+BB', '++BB'],
                            ['1', dict(fn='dihedral', keys=['-BB', 'BB', '+BB', '++BB'], fmt='.2f'), '75', '1'], {}]])
    lib['gt'] = L([N('BB'), N('BB', '>')], [('BB', '>BB')], [['bonds', ['BB', '>BB'], ['1', '0.50', '100'], {}]])
    lib['lt-gt'] = L([N('BB', '<'), N('BB'), N('BB', '>')], [('<BB', 'BB'), ('BB', '>BB')],
                     [['angles', ['<BB', 'BB', '>BB'], ['2', '111', '11'], {}]])
    lib['gt-gtgt'] = L([N('BB'), N('BB', '>'), N('BB', '>>')], [('BB', '>BB'), ('>BB', '>>BB')],
                       [['angles', ['BB', '>BB', '>>BB'], ['2', '112', '12'], {}]])
    lib['star-bridge'] = L([N('SC1'), N('SC1', '*')], [('SC1', '*SC1')],
                           [['bonds', ['SC1', '*SC1'], ['1', '0.24', '7500'], {}]])
    lib['star-starstar'] = L([N('BB', '*'), N('BB'), N('BB', '**')], [('*BB', 'BB'), ('BB', '**BB')],
                             [['angles', ['*BB', 'BB', '**BB'], ['2', '113', '13'], {}]])
    lib['number-vs-gt'] = L([N('BB', 1), N('BB', '>')], [('+BB', '>BB')],
                            [['bonds', ['+BB', '>BB'], ['1', '0.51', '101'], {}]])
    lib['nonedge-no-sidechain'] = L([N('BB', -1), N('BB'), N('BB', 1)], [('-BB', 'BB'), ('BB', '+BB')],
                                    [['angles', ['-BB', 'BB', '+BB'], ['2', '134', '25'], {'version': 2}]],
                                    non_edges=[['BB', dict(atomname='SC1', order=0)]])
    lib['nonedge-first-residue'] = L([N('SC1'), N('BB'), N('BB', 1)], [('SC1', 'BB'), ('BB', '+BB')],
                                     [['angles', ['SC1', 'BB', '+BB'], ['2', '100', '25'], {'version': 1}]],
                                     non_edges=[['BB', dict(atomname='BB', order=-1)]])
    lib['patterns-ss'] = L([N('BB'), N('BB', 1)], [('BB', '+BB')],
                           [['bonds', ['BB', '+BB'], ['1', '0.31', '1300'], {}]],
                           patterns=[[['BB', {'cgsecstruct': 'H'}], ['+BB', {'cgsecstruct': 'C'}]],
                                     [['BB', {'cgsecstruct': 'C'}], ['+BB', {'cgsecstruct': 'H'}]]])
    lib['molmeta-scfix'] = L([N('SC1'), N('BB'), N('BB', 1), N('SC1', 1)],
                             [('SC1', 'BB'), ('BB', '+BB'), ('+BB', '+SC1')],
                             [['dihedrals', ['SC1', 'BB', '+BB', '+SC1'],
                               ['1', dict(fn='dihphase', keys=['SC1', 'BB', '+BB', '+SC1'], fmt='.2f'), '75', '1'], {}]],
                             molmeta={'scfix': True})
    lib['remove-and-constrain'] = L([N('BB', cgsecstruct='H'), N('BB', 1, cgsecstruct='H')], [('BB', '+BB')],
                                    [['constraints', ['BB', '+BB'], ['1', '0.33'], {}]],
                                    removed=[['bonds', ['BB', '+BB'], [{}, {}], ['1', '0.35', '1250'], {}]])
    lib['replace-atype'] = L([N('BB', resname='LYS', replace={'atype': 'Q5'}), N('BB', 1)], [('BB', '+BB')],
                             [['pairs', ['BB', '+BB'], ['1'], {}]])
    lib['delete-gly-sidechain'] = L([N('SC1', resname='GLY', replace={'atomname': None}), N('BB')], [('SC1', 'BB')],
                                    [['position_restraints', ['BB'], ['1', '1000', '1000', '1000'], {}]])
    lib['choice-override'] = L([N('BB', resname={'choice': ['ALA', 'GLY']}), N('BB', 1, resname={'choice': ['ALA', 'GLY']})],
                               [('BB', '+BB')], [['bonds', ['BB', '+BB'], ['1', '0.33', '999'], {}]],
                               all_nodes={'resname': {'choice': ['ALA', 'GLY']}})
    lib['not-bonded-pairs'] = L([N('BB'), N('BB', 2)], [], [['pairs', ['BB', '++BB'], ['1', '0.4'], {}]])
    lib['single-atom'] = L([N('BB', resname='LYS')], [], [['position_restraints', ['BB'], ['1', '500', '500', '500'], {}]])
    lib['not-helix'] = L([N('BB', cgsecstruct={'not': 'H'}), N('BB', 1, cgsecstruct={'not': 'H'})], [('BB', '+BB')],
                         [['bonds', ['BB', '+BB'], ['1', '0.36', '1100'], {'comment': 'coil'}]],
                         all_nodes={'cgsecstruct': {'not': 'H'}})
    lib['same-order-two-atoms'] = L([N('BB'), N('BB', 1), N('SC1', 1)], [('BB', '+BB'), ('+BB', '+SC1')],
                                    [['angles', ['BB', '+BB', '+SC1'], ['2', '101', '26'], {}]])
    lib['no-order-attribute'] = L([['a', dict(atomname='BB')], ['b', dict(atomname='SC1')]], [('a', 'b')],
                                  [['bonds', ['a', 'b'], ['1', '0.27', '2000'], {}]])
    lib['lt-ltlt-number0'] = L([N('BB', '<<'), N('BB', '<'), N('BB')], [('<<BB', '<BB'), ('<BB', 'BB')],
                               [['angles', ['<<BB', '<BB', 'BB'], ['2', '114', '14'], {}]])
    return lib


QUICK_PAIR_LINKS = ['bond-next', 'bond-next-dist-v1', 'gt', 'remove-and-constrain', 'replace-atype',
                    'delete-gly-sidechain', 'choice-override', 'not-helix', 'patterns-ss', 'nonedge-no-sidechain']


def molecule_family(sizes, full):
    fam = []
    seen = set()
    for n in sizes:
        masks = [[True] * n, [False] * n, [i % 2 == 0 for i in range(n)]]
        conns = ['linear', 'broken', 'cycle', 'branch', 'bridge']
        for (pname, resids), (mi, mask), conn, sparse in itertools.product(
                resid_patterns(n).items(), enumerate(masks), conns, (False, True)):
            if not full:
                # quick: every resid pattern x connectivity once, alternating side chains / key layouts
                if (mi + len(pname) + len(conn)) % 3 != 0 or sparse != ((len(pname) + len(conn) + n) % 2 == 0):
                    continue
            meta = {'scfix': True} if (n + mi) % 2 else {}
            ms = make_molecule(resids, mask, conn, sparse, meta=meta, pre='backbone' if (n + mi) % 3 else 'intra',
                               phase=len(fam))
            fp = json.dumps(ms, sort_keys=True)
            if fp in seen:
                continue
            seen.add(fp)
            fam.append((dict(n=n, resids=pname, sc=mi, conn=conn, sparse=sparse), ms))
    return fam


# -------- random generation beyond the exhaustive scope
def random_molecule(rng):
    n = rng.choice([1, 2, 2, 3, 3, 4, 4, 5, 6])
    scheme = rng.choice(['consecutive', 'gaps', 'insertion', 'reversed', 'random', 'same', 'negative'])
    if scheme == 'consecutive':
        s = rng.choice([-3, 0, 1, 7, 998])
        resids = [s + i for i in range(n)]
    elif scheme == 'gaps':
        resids, r = [], rng.randint(-2, 5)
        for _ in range(n):
            resids.append(r)
            r += rng.choice([1, 1, 2, 3, 10])
    elif scheme == 'insertion':
        resids, r = [], 1
        for _ in range(n):
            resids.append(r)
            r += rng.choice([0, 1, 1])
    elif scheme == 'reversed':
        resids = [10 - i for i in range(n)]
    elif scheme == 'random':
        resids = [rng.randint(-3, 6) for _ in range(n)]
    elif scheme == 'same':
        resids = [4] * n
    else:
        resids = [-n + i for i in range(n)]
    mask = [rng.random() < 0.6 for _ in range(n)]
    conn = rng.choice(['linear', 'linear', 'broken', 'cycle', 'branch', 'bridge'])
    resnames = [rng.choice(RESNAMES) for _ in range(n)]
    ss = [rng.choice(SS) for _ in range(n)]
    meta = {}
    if rng.random() < 0.5:
        meta['scfix'] = True
    if rng.random() < 0.2:
        meta['idr'] = rng.choice([True, False])
    ms = make_molecule(resids, mask, conn, rng.random() < 0.4, resnames=resnames, ss=ss, meta=meta,
                       pre=rng.choice([None, 'intra', 'backbone', 'backbone']), rng=rng)
    keys = [k for k, _ in ms['nodes']]
    for _ in range(rng.choice([0, 0, 1, 2])):          # non-linear connectivity: arbitrary extra bonds
        u, v = rng.sample(keys, 2) if len(keys) >= 2 else (None, None)
        if u is not None and [u, v] not in ms['edges'] and [v, u] not in ms['edges']:
            ms['edges'].append([u, v])
    if rng.random() < 0.25 and ms['interactions'].get('bonds'):
        atoms, params, meta_ = rng.choice(ms['interactions']['bonds'])
        ms['interactions']['bonds'].append([list(atoms), ['1', '0.99', '1'], {'version': 1}])
    if rng.random() < 0.3:
        ms['nodes'] = rng.sample(ms['nodes'], len(ms['nodes']))
    return ms


ORDER_SCHEMES = [[0, 1, -1, 2], [0, 1, 1, 2], [0, '>', '>>', '>'], [0, '<', '<<', '>'], [0, '*', '**', '*'],
                 [0, 1, '>', '*'], [1, '>', '<', 2], ['>', '>>', '<', '<<'], ['*', '**', '***', 0], [0, 0, 1, '>'],
                 [-1, '<', '*', 0], [2, -2, 0, 1]]


def random_link(rng, want_text):
    k = rng.choice([1, 2, 2, 2, 3, 3, 4])
    scheme = rng.choice(ORDER_SCHEMES)
    orders = [scheme[i] for i in range(k)] if rng.random() < 0.7 else [rng.choice(scheme) for _ in range(k)]
    nodes, used = [], set()
    for i in range(k):
        name = rng.choice(['BB', 'BB', 'SC1'])
        if (orders[i], name) in used:
            name = 'SC1' if name == 'BB' else 'BB'
        if (orders[i], name) in used:
            if want_text:
                continue
            key = 'n%d' % i
        else:
            key = _prefix(orders[i]) + name
        used.add((orders[i], name))
        a = dict(atomname=name, order=orders[i])
        if not want_text and rng.random() < 0.15:
            del a['order']
            key = 'u%d' % i
        r = rng.random()
        if r < 0.12:
            a['resname'] = rng.choice(RESNAMES)
        elif r < 0.24:
            a['resname'] = {'choice': rng.sample(RESNAMES, 2)}
        r = rng.random()
        if r < 0.1:
            a['cgsecstruct'] = rng.choice(['H', 'C'])
        elif r < 0.18 and not want_text:
            a['cgsecstruct'] = {'not': rng.choice(['H', 'C'])}
        nodes.append([key, a])
    keys = [x for x, _ in nodes]
    k = len(keys)
    edges = set()
    if k >= 2 and rng.random() < 0.8:
        perm = rng.sample(keys, k)
        for u, v in zip(perm[:-1], perm[1:]):
            if rng.random() < 0.9:
                edges.add(frozenset((u, v)))
    for u, v in itertools.combinations(keys, 2):
        if rng.random() < 0.12:
            edges.add(frozenset((u, v)))
    inters = []
    for _ in range(rng.choice([1, 1, 2])):
        ar = rng.randint(1, k)
        typ = rng.choice({1: ['position_restraints'], 2: ['bonds', 'bonds', 'constraints', 'pairs'],
                          3: ['angles'], 4: ['dihedrals', 'impropers']}[ar])
        atoms = rng.sample(keys, ar)
        params = [rng.choice(['1', '2', '9']), rng.choice(['0.35', '0.47', '120', '0.33']), rng.choice(['1250', '75', '25'])]
        if typ == 'dihedrals' and params[0] == '2':
            params[0] = '1'
        if rng.random() < 0.35:
            fn = rng.choice([f for f, need in (('dist', 2), ('angle', 3), ('dihedral', 4), ('dihphase', 4)) if need <= k])\
                if k >= 2 else None
            if fn:
                need = {'dist': 2, 'angle': 3, 'dihedral': 4, 'dihphase': 4}[fn]
                ekeys = atoms if (len(atoms) == need and rng.random() < 0.6) else rng.sample(keys, need)
                params[1] = dict(fn=fn, keys=list(ekeys), fmt=rng.choice([None, '.2f', '.3f', '.0f']))
        meta = rng.choice([{}, {}, {'version': 1}, {'version': 2}, {'comment': 'c'}, {'group': 'g', 'version': 1}])
        inters.append([typ, atoms, params, dict(meta)])
        if typ in EDGE_TYPES and (want_text or rng.random() < 0.8):
            edges |= {frozenset(x) for x in zip(atoms[:-1], atoms[1:])}
    link = L(nodes, sorted(sorted(e) for e in edges), inters)
    tested = link_tested_keys(link)
    if rng.random() < 0.25 and k >= 2:
        atoms = rng.sample(keys, 2)
        params = rng.choice([[], ['1', '0.35', '1250'], ['1', '0.30', '5000'], ['1', '0.99', '1']])
        meta = rng.choice([{}, {}, {'version': 1}])
        aattrs = [{}, {}]
        if want_text and not params:
            params = ['1', '0.35', '1250']
        if not want_text and rng.random() < 0.4:
            aattrs = [{'cgsecstruct': rng.choice(['H', 'C'])}, {}]
        link['removed'].append(['bonds', atoms, aattrs, params, dict(meta)])
    if rng.random() < 0.25:
        cands = [x for x, a in nodes if a.get('order', None) == 0]
        if cands:
            pa = dict(atomname=rng.choice(['BB', 'SC1']), order=rng.choice([0, 0, 1, -1, 2]))
            if rng.random() < 0.2:
                pa['resname'] = rng.choice(RESNAMES)
            link['non_edges'].append([rng.choice(cands), pa])
    if rng.random() < 0.2:
        for _ in range(rng.choice([1, 2])):
            pat = []
            for x in rng.sample(keys, rng.randint(1, min(2, k))):
                pat.append([x, rng.choice([{'cgsecstruct': 'H'}, {'cgsecstruct': 'C'}, {'resname': 'ALA'},
                                           {'cgsecstruct': {'choice': ['H', 'C']}}, {}])])
            link['patterns'].append(pat)
    if rng.random() < 0.2:
        link['molmeta'] = rng.choice([{'scfix': True}, {'idr': True}, {'scfix': True, 'idr': False}] +
                                     ([] if want_text else [{'idr': {'not': True}}, {'scfix': {'choice': [True]}}]))
    tested = link_tested_keys(link)
    if rng.random() < 0.25:
        options = [{'atype': 'X1'}, {'atype': 'X2', 'charge': 1.0}, {'atomname': None}]
        for extra in ({'cgsecstruct': 'C'}, {'cgsecstruct': 'H'}, {'resname': 'GLY'}):
            if not set(extra) & tested:
                options.append(extra)
        tgt = rng.choice(nodes)
        tgt[1]['replace'] = dict(rng.choice(options))
    return link


def random_case(rng):
    want_text = rng.random() < 0.5
    ms = random_molecule(rng)
    links = []
    for _ in range(rng.choice([1, 1, 2, 2, 3, 4])):
        if links and rng.random() < 0.4:       # a variant of an earlier link on the same atoms: override / versions
            base = copy.deepcopy(rng.choice(links))
            for it in base['interactions']:
                it[2] = [x if isinstance(x, dict) else x + '1' for x in it[2]]
                if rng.random() < 0.3:
                    it[3] = dict(it[3], version=rng.choice([1, 2, 3]))
            if rng.random() < 0.5:
                for _, a in base['nodes']:
                    a.pop('replace', None)
            links.append(base)
        else:
            links.append(random_link(rng, want_text))
    path = 'text' if want_text and all(text_expressible(l) for l in links) else 'prog'
    mols = [ms] + [random_molecule(rng) for _ in range(rng.choice([0, 0, 1, 2]))]   # one force field, several molecules
    return mols, links, path


def shifted_anchor_probe(col, stats):
    """a non-edge whose anchor sits in residue +1: '+BB +SC1' must mean "+BB has no bond to the SC1 of its own
    residue" under the documented prefix convention (all prefixes are relative to the reference residue)."""
    link = L([N('BB'), N('BB', 1)], [('BB', '+BB')], [['bonds', ['BB', '+BB'], ['1', '0.35', '1250'], {}]],
             non_edges=[['+BB', dict(atomname='SC1', order=1)]])
    for resids, mask in (([1, 2], [False, True]), ([1, 2, 3], [True, True, False]), ([5, 6, 7], [False, False, True])):
        ms = make_molecule(resids, mask, 'linear', False)
        for path in ('text', 'prog'):
            check_case(col, ms, [link], path, 'non-edge anchored outside the reference residue', stats)


# --------------------------------------------------------------------------------------------------------------
def bounded(tier, seed):
    logging.disable(logging.CRITICAL)
    try:
        return _bounded(tier, seed)
    finally:
        logging.disable(logging.NOTSET)


def _bounded(tier, seed):
    rng = random.Random(seed)
    quick = tier != 'thorough'
    _LINK_CACHE.clear()
    CLAUSE_COUNTS.clear()
    col = Collector('DoLinks.run_molecule on the real Molecule/Link objects against a brute-force placement oracle (all '
                    'injective maps of the link atoms into the molecule, every condition checked by definition, effects '
                    'accumulated link by link with override semantics, geometry recomputed independently). exhaustive '
                    'small scope: molecule family (<= 4 residues quick / <= 6 thorough, <= 2 atoms each; resid patterns '
                    'consecutive / through zero / gaps / repeated resid / reversed / shuffled; linear, broken, cyclic, '
                    'branched, side-chain bridged; dense and sparse-unordered node keys) x every link of a 24-link '
                    'library (one per documented feature) alone and in ordered pairs, links built through the real .ff '
                    'parser when expressible; then seeded random molecules x random link lists. inputs whose outcome '
                    'depends on the unspecified visiting order of placements are excluded. non-trivial = at least one '
                    'placement exists', max_violations=8)
    stats = {}
    t0 = time.time()
    lib = library()
    names = list(lib)
    paths = {n: ('text' if text_expressible(lib[n]) else 'prog') for n in names}
    fam = molecule_family([1, 2, 3, 4] if quick else [1, 2, 3, 4, 5, 6], full=not quick)
    # singles: every molecule x every link (both construction paths where the link can be written as .ff text)
    for desc, ms in fam:
        for n in names:
            check_case(col, ms, [lib[n]], paths[n], 'exhaustive single %s' % n, stats)
            if paths[n] == 'text' and (not quick or desc['n'] <= 2):
                check_case(col, ms, [lib[n]], 'prog', 'exhaustive single %s' % n, stats)
    n_single = col.evaluations
    # ordered pairs
    pair_names = QUICK_PAIR_LINKS if quick else names
    pair_fam = [x for x in fam if x[0]['n'] in ((3, 4) if quick else (2, 3, 4, 5))]
    pair_fam = pair_fam[::4] if quick else pair_fam[::6]
    for desc, ms in pair_fam:
        for a, b in itertools.product(pair_names, repeat=2):
            path = 'text' if paths[a] == 'text' and paths[b] == 'text' else 'prog'
            check_case(col, ms, [lib[a], lib[b]], path, 'exhaustive pair %s,%s' % (a, b), stats)
    col.exhaustive = True
    col.bound = ('%d molecules x %d library links alone (%d cases) + %d molecules x %d^2 ordered pairs; %d cases '
                 'excluded as order-dependent' % (len(fam), len(names), n_single, len(pair_fam), len(pair_names),
                                                  stats.get('excluded', 0)))
    if PROBE_SHIFTED_ANCHOR:
        shifted_anchor_probe(col, stats)
    # seeded random beyond the exhaustive scope
    budget = (45 if quick else 780) - (time.time() - t0)
    n_rand = 2500 if quick else 60000
    t1 = time.time()
    for i in range(n_rand):
        if time.time() - t1 > budget:
            break
        mols, links, path = random_case(rng)
        for ms in mols:
            check_case(col, ms, links, path, 'random', stats)
    res = col.result()
    res['excluded_order_dependent'] = stats.get('excluded', 0)
    res['candidate_placements_decided_by'] = {str(k): v for k, v in sorted(CLAUSE_COUNTS.items(), key=str)}
    return res


def replay_model(function, model):
    """counter-models of the deductive layer speak about single helper functions; only match_order is replayed."""
    try:
        if 'match_order' in function:
            from vermouth.processors.do_links import match_order
            o1, r1, o2, r2 = model['order1'], model['resid1'], model['order2'], model['resid2']
            exp = o_order_ok(o1, r1, o2, r2) and o_order_ok(o2, r2, o1, r1)
            got = bool(match_order(o1, r1, o2, r2))
            if got != exp:
                a, b = sorted((o_kind_name(o1), o_kind_name(o2)))
                return dict(key='match_order/order(%s,%s)' % (a, b), function='match_order', what='replayed counter-model',
                            input=dict(order1=o1, resid1=r1, order2=o2, resid2=r2), observed=got, expected=exp)
    except Exception:  # noqa: BLE001
        return None
    return None

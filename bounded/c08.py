"""C08 bounded stand-in and replay: the real functions run natively against an oracle written from the statement."""
import itertools
import logging
import random
from collections import defaultdict
from .common import Collector, load_cli

FN = 'ignore_warnings_and_count'


def oracle(counts, specs, level):
    """number of warnings left, straight from the property statement. None = unspecified input."""
    flat = [e for part in specs for e in part]
    named = {t for t, c in flat if c is None}
    lim = {}
    for t, c in flat:
        if c is not None:
            lim[t] = max(lim.get(t, 0), c, 0)
    blanket = lim.get(None, 0)
    numeric = set(lim) - {None}
    if (named & set(lim)):
        return None
    errors = sum(c for lv, tc in counts.items() if lv > level for c in tc.values())
    w = counts.get(level, {})
    return (errors + sum(max(0, w[t] - lim[t]) for t in w if t in numeric)
            + max(0, sum(w[t] for t in w if t not in numeric and t not in named) - blanket))


def mk_counter(counts):
    from vermouth.log_helpers import CountingHandler
    h = CountingHandler()
    for lv, tc in counts.items():
        for t, c in tc.items():
            h.counts[lv][t] = c
    return h


def run_real(counts, specs, level):
    from vermouth.log_helpers import ignore_warnings_and_count
    h = mk_counter(counts)
    return ignore_warnings_and_count(h, specs, level), {lv: dict(tc) for lv, tc in h.counts.items()}


def check_case(col, counts, specs, level, tag):
    exp = oracle(counts, specs, level)
    if exp is None:
        return
    got, after = run_real(counts, specs, level)
    nontriv = bool(counts.get(level)) and bool(specs) and any(specs)
    col.case((repr(sorted((l, sorted(t.items())) for l, t in counts.items())), repr(specs), level), nontriv,
             dict(counts=counts, specifications=specs, level=level, result=got))
    if got != exp:
        col.violation('ignore_warnings_and_count/result', FN, 'warnings left after allowances differ from the statement (%s)' % tag,
                      dict(counts={str(k): v for k, v in counts.items()}, specifications=specs, level=level), got, exp)
    before = {lv: tc for lv, tc in counts.items() if tc}
    if {lv: tc for lv, tc in after.items() if tc} != before:
        col.violation('ignore_warnings_and_count/frame', FN, 'the count table was modified',
                      dict(counts={str(k): v for k, v in counts.items()}, specifications=specs, level=level), after, before)


def maxwarn_spec(s):
    """parse by the documented grammar: 'n' | 'type' | 'type:n'; returns tuple or 'ERR'."""
    def is_int(x):
        try:
            int(x)
            return True
        except ValueError:
            return False
    parts = s.split(':')
    if len(parts) == 1:
        return (None, int(s)) if is_int(s) else (s, None)
    if len(parts) == 2 and is_int(parts[1]):
        return (parts[0], int(parts[1]))
    return 'ERR'


def bounded(tier, seed):
    rng = random.Random(seed)
    col = Collector('exhaustive small scope: count tables over levels {20,30,40} x types {a,b} with counts in '
                    '{absent,0,1,3} (both insertion orders) x every specification list of <= 2 entries from a pool '
                    'of 12 (numbers incl. negative, names, type:count, absent types), split into parts both ways; '
                    'then seeded random larger cases; handle() through the real logging stack; maxwarn() on every '
                    'string of length <= 4 over {a,1,:,-}. non-trivial = warnings present and a non-empty allowance')
    W, E, I = logging.WARNING, logging.ERROR, logging.INFO
    pool = [(None, 0), (None, 2), (None, -1), ('a', None), ('b', None), ('a', 0), ('a', 2), ('a', 5), ('b', 1),
            ('c', 1), ('c', None), ('a', -3)]
    speclists = [[]]
    for e in pool:
        speclists.append([[e]])
    for e1, e2 in itertools.product(pool, repeat=2):
        speclists.append([[e1, e2]])
        speclists.append([[e1], [e2]])
    vals = [None, 0, 1, 3]
    tables = []
    quick = tier != 'thorough'
    wvals = list(itertools.product(vals, repeat=2))
    evals = [(None, None), (1, None), (None, 3), (2, 2)] if quick else wvals
    ivals = [(None, None), (2, 1)]
    for (wa, wb), (ea, eb), (ia, ib) in itertools.product(wvals, evals, ivals):
        for order in (('a', 'b'), ('b', 'a')):
            t = {}
            for lv, pair in ((I, (ia, ib)), (W, (wa, wb)), (E, (ea, eb))):
                d = dict(zip(('a', 'b'), pair))
                inner = {k: d[k] for k in order if d[k] is not None}
                if inner:
                    t[lv] = inner
            tables.append(t)
    for t in tables:
        for sl in speclists:
            check_case(col, t, sl, W, 'exhaustive')
            if len(col.violations) >= 3:
                break
    col.exhaustive = True
    col.bound = '%d tables x %d specification lists' % (len(tables), len(speclists))
    # seeded random, larger
    n_rand = 2000 if quick else 30000
    types = ['a', 'b', 'c', 'general', 'unmapped-atom']
    for _ in range(n_rand):
        t = {}
        for lv in rng.sample([10, 20, 30, 35, 40, 50], rng.randint(1, 4)):
            ks = rng.sample(types, rng.randint(0, 4))
            if ks:
                t[lv] = {k: rng.randint(0, 6) for k in ks}
        sl = []
        for _p in range(rng.randint(0, 3)):
            part = []
            for _e in range(rng.randint(0, 3)):
                ty = rng.choice(types + [None, None, 'zzz'])
                cnt = rng.choice([None, -2, 0, 1, 2, 3, 8])
                if ty is None and cnt is None:
                    cnt = 1
                part.append((ty, cnt))
            sl.append(part)
        check_case(col, t, sl, rng.choice([30, 30, 30, 20, 35]), 'random')
    # handle(): through the real logging machinery
    from vermouth.log_helpers import CountingHandler, TypeAdapter
    for trial in range(20 if quick else 200):
        logger = logging.getLogger('verif.c08.%d' % trial)
        logger.setLevel(1)
        logger.propagate = False
        h = CountingHandler()
        logger.handlers = [h]
        ad = TypeAdapter(logger)
        exp = defaultdict(lambda: defaultdict(int))
        for _ in range(rng.randint(1, 12)):
            lv = rng.choice([10, 20, 30, 40, 50])
            ty = rng.choice([None, 'a', 'b', 'general'])
            if ty is None:
                ad.log(lv, 'm')
                exp[lv]['general'] += 1
            else:
                ad.log(lv, 'm', type=ty)
                exp[lv][ty] += 1
        got = {lv: dict(tc) for lv, tc in h.counts.items()}
        col.case(('handle', trial, repr(sorted(got))), True)
        if got != {lv: dict(tc) for lv, tc in exp.items()}:
            col.violation('CountingHandler.handle/counts', 'CountingHandler.handle', 'records are not counted once each per (level, type)',
                          'random log sequence #%d' % trial, got, {lv: dict(tc) for lv, tc in exp.items()})
        lvq = rng.choice([None, 20, 30, 40])
        tyq = rng.choice([None, 'a', 'general'])
        want = sum(c for lv, tc in exp.items() if lvq is None or lv >= lvq for t, c in tc.items() if tyq is None or t == tyq)
        if h.number_of_counts_by(level=lvq, type=tyq) != want:
            col.violation('CountingHandler.number_of_counts_by/result', 'CountingHandler.number_of_counts_by', 'filtered count differs',
                          dict(counts=got, level=lvq, type=tyq), h.number_of_counts_by(level=lvq, type=tyq), want)
    # maxwarn(): every short string
    cli = load_cli()
    import argparse
    alphabet = 'a1:-'
    for n in range(0, 5):
        for tup in itertools.product(alphabet, repeat=n):
            s = ''.join(tup)
            exp = maxwarn_spec(s)
            try:
                got = cli.maxwarn(s)
            except argparse.ArgumentTypeError:
                got = 'ERR'
            col.case(('maxwarn', s), ':' in s or any(ch.isdigit() for ch in s))
            if got != exp:
                col.violation('maxwarn/parse', 'maxwarn', '-maxwarn value parsed differently from the documented grammar', s, got, exp)
    return col.result()


def replay_model(function, model):
    """counter-model of a failed obligation -> native run of the real function against the oracle."""
    if 'ignore_warnings_and_count' in function:
        counts = {}
        for lv, inner in model['counter']['counts']['__map__']:
            counts[lv] = {t: c for t, c in inner['__map__']}
        specs = [[tuple(e) for e in part if not isinstance(e, str)] for part in model['specifications'] if not isinstance(part, str)]
        level = model['level']
        exp = oracle(counts, specs, level)
        if exp is None or any(c < 0 for tc in counts.values() for c in tc.values()):
            return None
        got, _ = run_real(counts, specs, level)
        if got != exp:
            return dict(key='ignore_warnings_and_count/result', function=FN, what='replayed counter-model',
                        input=dict(counts={str(k): v for k, v in counts.items()}, specifications=specs, level=level),
                        observed=got, expected=exp)
        return None
    if 'number_of_counts_by' in function:
        counts = {}
        for lv, inner in model['self']['counts']['__map__']:
            counts[lv] = {t: c for t, c in inner['__map__']}
        h = mk_counter(counts)
        got = h.number_of_counts_by(level=model['level'], type=model['type'])
        want = sum(c for lv, tc in counts.items() if model['level'] is None or lv >= model['level']
                   for t, c in tc.items() if model['type'] is None or t == model['type'])
        if got != want:
            return dict(key='CountingHandler.number_of_counts_by/result', function='CountingHandler.number_of_counts_by',
                        what='replayed counter-model', input=dict(counts={str(k): v for k, v in counts.items()},
                                                                  level=model['level'], type=model['type']),
                        observed=got, expected=want)
    return None

#!/bin/sh
# Build the overlay venv offline (idempotent). Python 3.12 = /venv's interpreter + /venv's
# site-packages (vermouth, numpy, networkx, scipy) + z3-solver/cvc5/crosshair/jsonschema from the wheelhouse.
set -e
cd "$(dirname "$0")"
V=.venv
if [ -x "$V/bin/python" ] && "$V/bin/python" -c "import z3, jsonschema, vermouth" 2>/dev/null; then
  exit 0
fi
rm -rf "$V"
/venv/bin/python -m venv "$V" --without-pip
SP="$V/lib/python3.12/site-packages"
echo "import site; site.addsitedir('/venv/lib/python3.12/site-packages')" > "$SP/zz_venv_overlay.pth"
PIP_NO_INDEX=1 /venv/bin/python -m pip --python "$V/bin/python" install -q --no-index \
   --find-links /opt/veriftools/wheels z3-solver cvc5 jsonschema crosshair-tool deal icontract >/dev/null 2>&1 || \
PIP_NO_INDEX=1 /venv/bin/python -m pip --python "$V/bin/python" install -q --no-index \
   --find-links /opt/veriftools/wheels z3-solver jsonschema
"$V/bin/python" -c "import z3, jsonschema, vermouth; print('overlay venv ok', z3.get_version_string())"

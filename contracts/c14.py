"""C14 -- every unrecognised atom is explained or reported: the node equality used to place modifications."""
from pyvc.api import *

F = 'vermouth/processors/canonicalize_modifications.py'


def node(cx, tag):
    """a node attribute dict restricted to the three keys the matcher reads (each may be absent)"""
    vals = {'PTM_atom': (cx.val(tag + '_has_ptm', TBool), cx.val(tag + '_ptm', TBool)),
            'element': (cx.val(tag + '_has_element', TBool), cx.val(tag + '_element', TStr)),
            'atomname': (cx.val(tag + '_has_atomname', TBool), cx.val(tag + '_atomname', TStr))}
    o = Obj('nodeattrs')

    def get(e, k, d=None):
        has, v = vals[k]
        return e.ite(e.truth(has), v, d)

    def getitem(e, k):
        has, v = vals[k]
        e.maybe_raise(e.truth(has), 'KeyError')
        return v
    o.attrs['get'] = Builtin(get, 'dict.get')
    o.attrs['__getitem__'] = Builtin(getitem, 'dict[]')
    for k, (has, v) in vals.items():
        cx.spec_env['%s_has_%s' % (tag, k)] = has
        cx.spec_env['%s_%s' % (tag, k)] = v
    return o


SPEC = {'ptm1': "n1_has_PTM_atom and n1_PTM_atom", 'ptm2': "n2_has_PTM_atom and n2_PTM_atom"}
P1, P2 = "(n1_has_PTM_atom and n1_PTM_atom)", "(n2_has_PTM_atom and n2_PTM_atom)"

ptm_node_matcher = FunctionContract(
    F, 'ptm_node_matcher', 'C14', setup=lambda cx: dict(node1=node(cx, 'n1'), node2=node(cx, 'n2')),
    ensures=[
        # equal iff both are unrecognised atoms of the same element, or both are recognised atoms of the same name
        "result == ((%s == %s) and ((n1_element == n2_element) if %s else (n1_atomname == n2_atomname)))" % (P1, P2, P2),
        "implies(%s == %s and %s, n1_has_element and n2_has_element)" % (P1, P2, P2),
        "implies(%s == %s and not %s, n1_has_atomname and n2_has_atomname)" % (P1, P2, P2),
    ],
    raises={'KeyError': ["(%s == %s) and ((not (n1_has_element and n2_has_element)) if %s else (not (n1_has_atomname and n2_has_atomname)))" % (P1, P2, P2)]},
    canary=[("return node1['element'] == node2['element']", "return node1['atomname'] == node2['atomname']"),
            ("if node2.get('PTM_atom', False):", "if not node2.get('PTM_atom', False):")],
)
CONTRACTS = [ptm_node_matcher]
LEMMAS = []


# ------------------------------------------------------------------ _cover_graph: the recursive cover of unexplained atoms
GNode, Match, Glet = TKey('GNode'), TKey('Match'), TKey('Graphlet')
Frag = TTuple(Glet, TKey('Matcher'))
Cov = TTuple(Glet, Match)


def setup_cg(cx):
    eng = cx.eng
    from pyvc.values import IterV
    from pyvc.builtins import _int
    gnodes = cx.val('gnodes', TSeq(GNode))                 # iteration over the residue graph
    cx.spec_env['gnodes'] = gnodes
    is_ptm = cx.uf('is_ptm', [GNode], TBool)               # graph.nodes[n].get('PTM_atom', False)
    matches_of = cx.uf('matches_of', [TKey('Matcher')], TSeq(Match))   # list(matcher.subgraph_isomorphisms_iter())
    keys_of = cx.uf('keys_of', [Match], TSet(GNode))       # set(match.keys()): the atoms the placement covers
    m_ = z3.Const('mm', TKey('Matcher').sort())
    cx.assume(z3.ForAll([m_], TSeq(Match).len(matches_of(m_)) >= 0))
    graph = Obj('Graph')
    graph.__dict__['iter'] = gnodes
    graph.attrs['nodes'] = Obj('NodeView', __getitem__=Builtin(
        lambda e, n: Obj('attrs', get=Builtin(lambda e2, k, d=None: wrap(TBool, is_ptm(to_z3(n, GNode))) if (k == 'PTM_atom' and d is False) else
                                              (_ for _ in ()).throw(EngineError('node.get(%r)' % (k,))), 'get')), 'graph.nodes[]'))
    eng.methods[('Matcher', 'subgraph_isomorphisms_iter')] = lambda e, m: SV(TSeq(Match), matches_of(to_z3(m, TKey('Matcher'))))
    eng.methods[('Match', 'keys')] = lambda e, m: Box(TSet(GNode), keys_of(to_z3(m, Match)))
    return dict(graph=graph, to_cover=cx.val('to_cover', TSet(GNode)), fragments=cx.val('fragments', TSeq(Frag)))


SPEC_CG = {
    'covers': "lambda c, x: x in keys_of(c[1])",
}
cover_graph = FunctionContract(
    F, '_cover_graph', 'C14', setup=setup_cg, spec_defs=SPEC_CG, spec_env=dict(GNode=GNode, Match=Match, Glet=Glet),
    result_ty=TSeq(Cov),
    allow_exc=('KeyError',),           # 'Could not identify PTM': when no cover is found (completeness of the search: not stated)
    ensures=[
        # every atom that has to be explained is covered by one of the returned placements ...
        "forall(lambda x: implies(x in to_cover, exists(lambda j: 0 <= j and j < len(result) and covers(result[j], x))), GNode)",
        # ... an unrecognised atom by exactly one of them ...
        "forall(lambda x, j, k: implies(x in to_cover and is_ptm(x) and 0 <= j and j < k and k < len(result), "
        "   not (covers(result[j], x) and covers(result[k], x))), GNode, TInt, TInt)",
        # ... which touch nothing but atoms to be explained and recognised atoms,
        "forall(lambda x, j: implies(0 <= j and j < len(result) and covers(result[j], x), x in to_cover or not is_ptm(x)), GNode, TInt)",
        # ... and each is a placement that its own template's matcher produced
        "forall(lambda j: implies(0 <= j and j < len(result), exists(lambda i, q: 0 <= i and i < len(fragments) and "
        "   result[j][0] == fragments[i][0] and 0 <= q and q < len(matches_of(fragments[i][1])) and "
        "   result[j][1] == matches_of(fragments[i][1])[q])))",
    ],
    loops={'L1': LoopSpec(inv=[], modifies=[]), 'L1.1': LoopSpec(inv=[], modifies=[])},
    canary=[("rest_cover = _cover_graph(graph, to_cover - matching, fragments[idx:])", "rest_cover = _cover_graph(graph, to_cover, fragments[idx:])"),
            ("if matching <= available:", "if True:"),
            ("return [(graphlet, match)] + rest_cover", "return rest_cover")],
)
cover_graph.recursive = True
CONTRACTS.append(cover_graph)

"""C14 -- every unrecognised atom is explained or reported: the node equality used to place modifications."""
from pyvc.api import *

F = 'vermouth/processors/canonicalize_modifications.py'


def node(cx, tag):
    """a node attribute dict restricted to the three keys the matcher reads (each may be absent)"""
    vals = {'PTM_atom': (cx.val(tag + '_has_ptm', TBool), cx.val(tag + '_ptm', TBool)),
            'element': (cx.val(tag + '_has_element', TBool), cx.val(tag + '_element', TStr)),
            'atomname': (cx.val(tag + '_has_atomname', TBool), cx.val(tag + '_atomname', TStr))}
    o = Obj('nodeattrs')

    def get(e, k, d=None):
        has, v = vals[k]
        return e.ite(e.truth(has), v, d)

    def getitem(e, k):
        has, v = vals[k]
        e.maybe_raise(e.truth(has), 'KeyError')
        return v
    o.attrs['get'] = Builtin(get, 'dict.get')
    o.attrs['__getitem__'] = Builtin(getitem, 'dict[]')
    for k, (has, v) in vals.items():
        cx.spec_env['%s_has_%s' % (tag, k)] = has
        cx.spec_env['%s_%s' % (tag, k)] = v
    return o


SPEC = {'ptm1': "n1_has_PTM_atom and n1_PTM_atom", 'ptm2': "n2_has_PTM_atom and n2_PTM_atom"}
P1, P2 = "(n1_has_PTM_atom and n1_PTM_atom)", "(n2_has_PTM_atom and n2_PTM_atom)"

ptm_node_matcher = FunctionContract(
    F, 'ptm_node_matcher', 'C14', setup=lambda cx: dict(node1=node(cx, 'n1'), node2=node(cx, 'n2')),
    ensures=[
        # equal iff both are unrecognised atoms of the same element, or both are recognised atoms of the same name
        "result == ((%s == %s) and ((n1_element == n2_element) if %s else (n1_atomname == n2_atomname)))" % (P1, P2, P2),
        "implies(%s == %s and %s, n1_has_element and n2_has_element)" % (P1, P2, P2),
        "implies(%s == %s and not %s, n1_has_atomname and n2_has_atomname)" % (P1, P2, P2),
    ],
    raises={'KeyError': ["(%s == %s) and ((not (n1_has_element and n2_has_element)) if %s else (not (n1_has_atomname and n2_has_atomname)))" % (P1, P2, P2)]},
    canary=[("return node1['element'] == node2['element']", "return node1['atomname'] == node2['atomname']"),
            ("if node2.get('PTM_atom', False):", "if not node2.get('PTM_atom', False):")],
)
CONTRACTS = [ptm_node_matcher]
LEMMAS = []

"""C14 -- every unrecognised atom is explained or reported: the node equality used to place modifications."""
from pyvc.api import *

F = 'vermouth/processors/canonicalize_modifications.py'


def node(cx, tag):
    """a node attribute dict restricted to the three keys the matcher reads (each may be absent)"""
    vals = {'PTM_atom': (cx.val(tag + '_has_ptm', TBool), cx.val(tag + '_ptm', TBool)),
            'element': (cx.val(tag + '_has_element', TBool), cx.val(tag + '_element', TStr)),
            'atomname': (cx.val(tag + '_has_atomname', TBool), cx.val(tag + '_atomname', TStr))}
    o = Obj('nodeattrs')

    def get(e, k, d=None):
        has, v = vals[k]
        return e.ite(e.truth(has), v, d)

    def getitem(e, k):
        has, v = vals[k]
        e.maybe_raise(e.truth(has), 'KeyError')
        return v
    o.attrs['get'] = Builtin(get, 'dict.get')
    o.attrs['__getitem__'] = Builtin(getitem, 'dict[]')
    for k, (has, v) in vals.items():
        cx.spec_env['%s_has_%s' % (tag, k)] = has
        cx.spec_env['%s_%s' % (tag, k)] = v
    return o


SPEC = {'ptm1': "n1_has_PTM_atom and n1_PTM_atom", 'ptm2': "n2_has_PTM_atom and n2_PTM_atom"}
P1, P2 = "(n1_has_PTM_atom and n1_PTM_atom)", "(n2_has_PTM_atom and n2_PTM_atom)"

ptm_node_matcher = FunctionContract(
    F, 'ptm_node_matcher', 'C14', setup=lambda cx: dict(node1=node(cx, 'n1'), node2=node(cx, 'n2')),
    ensures=[
        # equal iff both are unrecognised atoms of the same element, or both are recognised atoms of the same name
        "result == ((%s == %s) and ((n1_element == n2_element) if %s else (n1_atomname == n2_atomname)))" % (P1, P2, P2),
        "implies(%s == %s and %s, n1_has_element and n2_has_element)" % (P1, P2, P2),
        "implies(%s == %s and not %s, n1_has_atomname and n2_has_atomname)" % (P1, P2, P2),
    ],
    raises={'KeyError': ["(%s == %s) and ((not (n1_has_element and n2_has_element)) if %s else (not (n1_has_atomname and n2_has_atomname)))" % (P1, P2, P2)]},
    canary=[("return node1['element'] == node2['element']", "return node1['atomname'] == node2['atomname']"),
            ("if node2.get('PTM_atom', False):", "if not node2.get('PTM_atom', False):")],
)
CONTRACTS = [ptm_node_matcher]
LEMMAS = []


# ------------------------------------------------------------------ _cover_graph: the recursive cover of unexplained atoms
GNode, Match, Glet = TKey('GNode'), TKey('Match'), TKey('Graphlet')
Frag = TTuple(Glet, TKey('Matcher'))
Cov = TTuple(Glet, Match)


def setup_cg(cx):
    eng = cx.eng
    from pyvc.values import IterV
    from pyvc.builtins import _int
    gnodes = cx.val('gnodes', TSeq(GNode))                 # iteration over the residue graph
    cx.spec_env['gnodes'] = gnodes
    is_ptm = cx.uf('is_ptm', [GNode], TBool)               # graph.nodes[n].get('PTM_atom', False)
    matches_of = cx.uf('matches_of', [TKey('Matcher')], TSeq(Match))   # list(matcher.subgraph_isomorphisms_iter())
    keys_of = cx.uf('keys_of', [Match], TSet(GNode))       # set(match.keys()): the atoms the placement covers
    m_ = z3.Const('mm', TKey('Matcher').sort())
    cx.assume(z3.ForAll([m_], TSeq(Match).len(matches_of(m_)) >= 0))
    graph = Obj('Graph')
    graph.__dict__['iter'] = gnodes
    mods_of = cx.uf('mods_of', [GNode], TSeq(Glet))        # graph.nodes[n].get('modifications', []): what the atom is labelled with
    n_ = z3.Const('nn', GNode.sort())
    cx.assume(z3.ForAll([n_], TSeq(Glet).len(mods_of(n_)) >= 0))

    def node_get(n):
        def get(e2, k, d=None):
            if k == 'PTM_atom' and d is False:
                return wrap(TBool, is_ptm(to_z3(n, GNode)))
            if k == 'modifications' and isinstance(d, Box) and d.ty is None and not d.cd:
                return SV(TSeq(Glet), mods_of(to_z3(n, GNode)))
            raise EngineError('node.get(%r)' % (k,))
        return get
    graph.attrs['nodes'] = Obj('NodeView', __getitem__=Builtin(lambda e, n: Obj('attrs', get=Builtin(node_get(n), 'get')), 'graph.nodes[]'))
    eng.methods[('Matcher', 'subgraph_isomorphisms_iter')] = lambda e, m: SV(TSeq(Match), matches_of(to_z3(m, TKey('Matcher'))))
    # the matcher's other search (placements that need not be induced subgraphs) is something else
    mono_of = cx.uf('mono_matches_of', [TKey('Matcher')], TSeq(Match))
    eng.methods[('Matcher', 'subgraph_monomorphisms_iter')] = lambda e, m: SV(TSeq(Match), mono_of(to_z3(m, TKey('Matcher'))))
    eng.methods[('Match', 'keys')] = lambda e, m: Box(TSet(GNode), keys_of(to_z3(m, Match)))
    return dict(graph=graph, to_cover=cx.val('to_cover', TSet(GNode)), fragments=cx.val('fragments', TSeq(Frag)))


SPEC_CG = {
    'covers': "lambda c, x: x in keys_of(c[1])",
}
cover_graph = FunctionContract(
    F, '_cover_graph', 'C14', setup=setup_cg, spec_defs=SPEC_CG, spec_env=dict(GNode=GNode, Match=Match, Glet=Glet),
    result_ty=TSeq(Cov),
    allow_exc=('KeyError',),           # 'Could not identify PTM': when no cover is found (completeness of the search: not stated)
    ensures=[
        # every atom that has to be explained is covered by one of the returned placements ...
        "forall(lambda x: implies(x in to_cover, exists(lambda j: 0 <= j and j < len(result) and covers(result[j], x))), GNode)",
        # ... an unrecognised atom by exactly one of them ...
        "forall(lambda x, j, k: implies(x in to_cover and is_ptm(x) and 0 <= j and j < k and k < len(result), "
        "   not (covers(result[j], x) and covers(result[k], x))), GNode, TInt, TInt)",
        # ... which touch nothing but atoms to be explained and recognised atoms,
        "forall(lambda x, j: implies(0 <= j and j < len(result) and covers(result[j], x), x in to_cover or not is_ptm(x)), GNode, TInt)",
        # ... and each is a placement that its own template's matcher produced
        "forall(lambda j: implies(0 <= j and j < len(result), exists(lambda i, q: 0 <= i and i < len(fragments) and "
        "   result[j][0] == fragments[i][0] and 0 <= q and q < len(matches_of(fragments[i][1])) and "
        "   result[j][1] == matches_of(fragments[i][1])[q])))",
    ],
    loops={'L1': LoopSpec(inv=[], modifies=[]), 'L1.1': LoopSpec(inv=[], modifies=[])},
    canary=[("rest_cover = _cover_graph(graph, to_cover - matching, fragments[idx:])", "rest_cover = _cover_graph(graph, to_cover, fragments[idx:])"),
            ("if matching <= available:", "if True:"),
            ("return [(graphlet, match)] + rest_cover", "return rest_cover")],
)
cover_graph.recursive = True
CONTRACTS.append(cover_graph)


# ------------------------------------------------------------------ fix_ptm: applying the identified modifications
MNode, PTM, PIdx, Val = TKey('MNode'), TKey('PTM'), TKey('PIdx'), TKey('Val')
Ident = TTuple(PTM, Match)
MPair = TTuple(MNode, PIdx)
AName = TKey('AName')                                      # attribute names (an abstract sort: z3 strings are slow)
ANAMES = ['graph', 'PTM_atom', 'replace', 'atomname', '_old_atomname', 'modifications', 'modification']
AttrMap = TMap(AName, Val)


def world_fix(cx):
    eng = cx.eng
    from pyvc.values import IterV, COERCIONS
    from pyvc.builtins import getitem, setitem, contains, _int
    # the attribute names the code mentions are pairwise different constants of the abstract sort
    consts = {n: z3.Const('an!' + n, AName.sort()) for n in ANAMES}
    cx.assume(z3.Distinct(*consts.values()))

    def name_const(e):
        if not z3.is_string_value(e) or e.as_string() not in consts:
            raise EngineError('attribute name %s is not one of the declared constants' % e)
        return consts[e.as_string()]
    COERCIONS[('Str', 'AName')] = name_const
    pairs = cx.uf('pairs', [Match], TSeq(MPair))           # match.items(): (molecule atom, template atom)
    pa = cx.uf('pa', [PTM, PIdx], TBool)                   # ptm.nodes[p]['PTM_atom']
    pattr = cx.uf('pattr', [PTM, PIdx], AttrMap)           # ptm.nodes[p] as a dictionary
    repl = cx.uf('repl', [PTM, PIdx], AttrMap)             # ptm.nodes[p]['replace']
    subg = cx.uf('subgraph_of', [MNode], Val)
    has_modification = cx.uf('has_modification', [MNode], TBool)   # 'modification' in node (sic)
    m_ = z3.Const('m', Match.sort())
    cx.assume(z3.ForAll([m_], TSeq(MPair).len(pairs(m_)) >= 0))
    p_, i_ = z3.Const('p', PTM.sort()), z3.Const('i', PIdx.sort())
    # the template dictionaries are well-formed dictionaries
    cx.assume(z3.ForAll([p_, i_], AttrMap.inv(pattr(p_, i_))))
    cx.assume(z3.ForAll([p_, i_], AttrMap.inv(repl(p_, i_))))
    ATTR = cx.heap('ATTR', cx.box('ATTR', TMap(MNode, AttrMap)))
    MODS = cx.heap('MODS', cx.box('MODS', TMap(MNode, TSet(PTM))))  # node['modifications'], as a set
    PMATCH = cx.heap('PMATCH', cx.box('PMATCH', TMap(PTM, Match)))
    eng.setattr_hooks[('PTM', 'match')] = lambda e, p, v: setitem(e, PMATCH, p, v)
    eng.methods[('Match', 'items')] = lambda e, m: SV(TSeq(MPair), pairs(to_z3(m, Match)))

    def ptm_nodes(e, p):
        pe = to_z3(p, PTM)

        def node(e2, idx):
            ie = to_z3(idx, PIdx)
            T = SV(AttrMap, pattr(pe, ie))
            o = Obj('ptmnode')
            o.__dict__['iter'] = T

            def item(e3, k):
                if k == 'PTM_atom':
                    return wrap(TBool, pa(pe, ie))
                if k == 'replace':
                    e3.maybe_raise(AttrMap.has(T.e, consts['replace']), 'KeyError')
                    return SV(AttrMap, repl(pe, ie))
                return getitem(e3, T, k)
            o.attrs['__getitem__'] = Builtin(item, 'ptm_node[]')
            o.attrs['__contains__'] = Builtin(lambda e3, k: contains(e3, T, k), 'in ptm_node')
            return o
        return Obj('NodeView', __getitem__=Builtin(node, 'ptm.nodes[]'))
    eng.attr_hooks[('PTM', 'nodes')] = ptm_nodes

    def mol_node(e, n):
        ne = to_z3(n, MNode)
        o = Obj('molnode')
        o.__dict__['node'] = ne
        mods = Obj('modlist')
        mods.__dict__['node'] = ne
        mods.attrs['__contains__'] = Builtin(lambda e2, p: contains(e2, getitem(e2, MODS, SV(MNode, ne)), p), 'in modifications')

        def append(e2, p):
            cur = to_z3(getitem(e2, MODS, SV(MNode, ne)), TSet(PTM))
            setitem(e2, MODS, SV(MNode, ne), SV(TSet(PTM), z3.Store(cur, to_z3(p, PTM), True)))
        mods.attrs['append'] = Builtin(append, 'modifications.append')

        def get(e2, k, d=None):
            if k == 'modifications':
                return mods
            if d is None:
                cur = to_z3(getitem(e2, ATTR, SV(MNode, ne)), AttrMap)
                ke = to_z3(k, AName)
                return SV(TOpt(Val), z3.If(AttrMap.has(cur, ke), TOpt(Val).some(AttrMap.at(cur, ke)), TOpt(Val).none()))
            raise EngineError('node.get(%r, %r)' % (k, d))

        def item(e2, k):
            if k == 'modifications':
                return mods
            return getitem(e2, getitem(e2, ATTR, SV(MNode, ne)), k)

        def setit(e2, k, v):
            if k == 'modifications':
                if v is not mods:
                    raise EngineError("node['modifications'] = another list")
                return
            cur = to_z3(getitem(e2, ATTR, SV(MNode, ne)), AttrMap)
            setitem(e2, ATTR, SV(MNode, ne), SV(AttrMap, AttrMap.insert(cur, to_z3(k, AName), to_z3(v, Val))))
        o.attrs['get'] = Builtin(get, 'node.get')
        o.attrs['__getitem__'] = Builtin(item, 'node[]')
        o.attrs['__setitem__'] = Builtin(setit, 'node[]=')
        o.attrs['__contains__'] = Builtin(lambda e2, k: wrap(TBool, has_modification(ne)) if k == 'modification' else
                                          contains(e2, getitem(e2, ATTR, SV(MNode, ne)), k), 'in node')
        return o
    molecule = Obj('Molecule', nodes=Obj('NodeView', __getitem__=Builtin(mol_node, 'molecule.nodes[]')))
    molecule.attrs['subgraph'] = Builtin(lambda e, lst: Obj('subgraph', copy=Builtin(
        lambda e2: SV(Val, subg(to_z3(lst[0] if isinstance(lst, (list, tuple)) else getitem(e2, lst, 0), MNode))), 'copy')), 'subgraph')
    log = Obj('LOGGER')
    for n in ('debug', 'info', 'warning'):
        log.attrs[n] = Builtin(lambda e, *a, **k: None, n)
    cx.spec_env['LOGGER'] = log
    cx.spec_env['format_atom_string'] = Builtin(lambda e, n: 'atom', 'format_atom_string')
    return molecule


def setup_label(cx):
    molecule = world_fix(cx)
    ident = cx.val('identified', TSeq(Ident))
    return dict(molecule=molecule, identified=ident, n_idxs=cx.val('n_idxs', TSet(MNode)))


LABELLED = ("forall(lambda j, n: implies(0 <= j and j < {J} and n in n_idxs, identified[j][0] in MODS[n]), TInt, MNode)")
LAB_FRAME = ["forall(lambda n, p: implies(p in old(MODS)[n], p in MODS[n]), MNode, PTM)",
             "forall(lambda n, p: implies(p in MODS[n] and not (p in old(MODS)[n]), n in n_idxs and "
             "   exists(lambda j: 0 <= j and j < {J} and identified[j][0] == p)), MNode, PTM)",
             "forall(lambda n: (n in MODS) == (n in old(MODS)), MNode)"]
label_all = FunctionContract(
    F, 'fix_ptm', 'C14', short='fix_ptm[labelling]', setup=setup_label,
    spec_env=dict(MNode=MNode, PTM=PTM, PIdx=PIdx, Val=Val, AName=AName),
    region=dict(within=["for resids, res_ptms in itertools.groupby(ptm_atoms, key_func):"], start="for ptm, match in identified:"),
    requires=["forall(lambda n: implies(n in n_idxs, n in MODS and n in ATTR), MNode)",
              "forall(lambda j, q: implies(0 <= j and j < len(identified) and 0 <= q and q < len(pairs(identified[j][1])), "
              "   pairs(identified[j][1])[q][0] in ATTR and 'atomname' in ATTR[pairs(identified[j][1])[q][0]]))"],
    ensures=[
        # every atom of the touched residues is labelled with every identified modification ...
        LABELLED.format(J='len(identified)'),
        # ... labels are only added, only to those atoms, and only identified modifications
        LAB_FRAME[0], LAB_FRAME[1].format(J='len(identified)'), LAB_FRAME[2],
        # each modification remembers its own placement
        "forall(lambda j: implies(0 <= j and j < len(identified) and forall(lambda k: implies(j < k and k < len(identified), "
        "   identified[k][0] != identified[j][0])), PMATCH[identified[j][0]] == identified[j][1]))",
    ],
    modifies=['MODS', 'ATTR', 'PMATCH'],
    loops={
        'L1': LoopSpec(inv=[LABELLED.format(J='_i'), LAB_FRAME[0], LAB_FRAME[1].format(J='_i'), LAB_FRAME[2],
                            "forall(lambda j: implies(0 <= j and j < _i and forall(lambda k: implies(j < k and k < _i, "
                            "   identified[k][0] != identified[j][0])), PMATCH[identified[j][0]] == identified[j][1]))",
                            "forall(lambda n: implies(n in old(ATTR), n in ATTR and implies('atomname' in old(ATTR)[n], 'atomname' in ATTR[n])), MNode)"],
                       modifies=['MODS', 'ATTR', 'PMATCH'], ghost_pre="g_M = dict(MODS)", locals=dict(g_M=TMap(MNode, TSet(PTM)))),
        'L1.1': LoopSpec(inv=["forall(lambda n: implies(n in old(ATTR), n in ATTR and implies('atomname' in old(ATTR)[n], 'atomname' in ATTR[n])), MNode)"],
                         modifies=['ATTR']),
        'L1.1.1': LoopSpec(inv=["forall(lambda n: implies(n in old(ATTR), n in ATTR and implies('atomname' in old(ATTR)[n], 'atomname' in ATTR[n])), MNode)"],
                           modifies=['ATTR']),
        'L1.1.2': LoopSpec(inv=["forall(lambda n: implies(n in old(ATTR), n in ATTR and implies('atomname' in old(ATTR)[n], 'atomname' in ATTR[n])), MNode)"],
                           modifies=['ATTR']),
        'L1.2': LoopSpec(inv=["forall(lambda q: implies(0 <= q and q < _i, ptm in MODS[_itL1_2(q)]))",
                              "forall(lambda n, p: implies(p in g_M[n], p in MODS[n]), MNode, PTM)",
                              "forall(lambda n, p: implies(p in MODS[n] and not (p in g_M[n]), n in n_idxs and p == ptm), MNode, PTM)",
                              "forall(lambda n: (n in MODS) == (n in g_M), MNode)"],
                         modifies=['MODS']),
    },
    canary=[("node['modifications'].append(ptm)", "pass"),
            ("for n_idx in n_idxs:\n                node = molecule.nodes[n_idx]", "for n_idx in list(n_idxs)[:1]:\n                node = molecule.nodes[n_idx]")],
)
CONTRACTS.append(label_all)


# ------------------------------------------------------------------ fix_ptm: what one placed template atom does to its atom
def setup_transfer(cx):
    molecule = world_fix(cx)
    ptm, mol_idx, ptm_idx = cx.val('ptm', PTM), cx.val('mol_idx', MNode), cx.val('ptm_idx', PIdx)
    return dict(molecule=molecule, ptm=ptm, mol_idx=mol_idx, ptm_idx=ptm_idx)


SPEC_TR = {
    'T': "lambda: pattr(ptm, ptm_idx)",
    'R': "lambda: repl(ptm, ptm_idx)",
    'isptm': "lambda: pa(ptm, ptm_idx)",
    'hasR': "lambda: 'replace' in T()",
    'meta': "lambda a: a == 'PTM_atom' or a == 'replace'",
    # attributes the replacement step writes: the listed ones, and '_old_atomname' when the atom name is replaced
    'replaced': "lambda a: hasR() and (a in R() or (a == '_old_atomname' and 'atomname' in R()))",
    'transferred': "lambda a: isptm() and a in T() and not meta(a)",
    'same': "lambda A, B, a: A[mol_idx][a] == B[mol_idx][a] and (a in A[mol_idx]) == (a in B[mol_idx])",
}
OTHERS = "forall(lambda n: implies(n != mol_idx, (n in ATTR) == (n in {O}) and ATTR[n] == {O}[n]), MNode)"
transfer_one = FunctionContract(
    F, 'fix_ptm', 'C14', short='fix_ptm[one placed atom]', setup=setup_transfer, spec_defs=SPEC_TR,
    spec_env=dict(MNode=MNode, PTM=PTM, PIdx=PIdx, Val=Val, AName=AName),
    region=dict(within=["for resids, res_ptms in itertools.groupby(ptm_atoms, key_func):", "for ptm, match in identified:",
                        "for mol_idx, ptm_idx in match.items():"], start="ptm_node = ptm.nodes[ptm_idx]"),
    locals=dict(g_mid=TMap(MNode, AttrMap)),
    requires=["mol_idx in ATTR and 'atomname' in ATTR[mol_idx]"],
    ghost_at={'entry': "g_mid = dict(ATTR)", 'after:L1': "g_mid = dict(ATTR)"},
    ensures=[
        # an unrecognised atom takes over the template atom's attributes (its canonical name among them) ...
        "forall(lambda a: implies(transferred(a) and not replaced(a), a in ATTR[mol_idx] and ATTR[mol_idx][a] == T()[a]), AName)",
        "implies(isptm() and not ('graph' in T()) and not replaced('graph'), ATTR[mol_idx]['graph'] == subgraph_of(mol_idx))",
        # ... the template atom's attribute replacements take effect (the old atom name is kept as '_old_atomname') ...
        "implies(hasR(), forall(lambda a: implies(a in R() and not (a == '_old_atomname' and 'atomname' in R()), "
        "   a in ATTR[mol_idx] and ATTR[mol_idx][a] == R()[a]), AName))",
        "implies(hasR() and 'atomname' in R() and not ('_old_atomname' in R()), '_old_atomname' in ATTR[mol_idx] and "
        "   ATTR[mol_idx]['_old_atomname'] == (T()['atomname'] if transferred('atomname') else old(ATTR)[mol_idx]['atomname']))",
        # ... and nothing else changes: not on this atom, not on any other
        "forall(lambda a: implies(not transferred(a) and not replaced(a) and not (isptm() and a == 'graph'), same(ATTR, old(ATTR), a)), AName)",
        OTHERS.format(O='old(ATTR)'),
        "MODS == old(MODS)",
    ],
    modifies=['ATTR'],
    loops={
        'L1': LoopSpec(
            inv=["forall(lambda j: implies(0 <= j and j < _i and not meta(keyat(T(), j)), keyat(T(), j) in ATTR[mol_idx] and "
                 "   ATTR[mol_idx][keyat(T(), j)] == T()[keyat(T(), j)]))",
                 "forall(lambda a: implies((not (a in T()) or posof(T(), a) >= _i or meta(a)) and a != 'graph', same(ATTR, old(ATTR), a)), AName)",
                 "implies(not ('graph' in T()) or posof(T(), 'graph') >= _i, ATTR[mol_idx]['graph'] == subgraph_of(mol_idx))",
                 OTHERS.format(O='old(ATTR)'), "mol_idx in ATTR and 'atomname' in ATTR[mol_idx]"],
            modifies=['ATTR']),
        'L2': LoopSpec(
            inv=["forall(lambda j: implies(0 <= j and j < _i and not (keyat(R(), j) == '_old_atomname' and 'atomname' in R()), "
                 "   keyat(R(), j) in ATTR[mol_idx] and ATTR[mol_idx][keyat(R(), j)] == R()[keyat(R(), j)]))",
                 "forall(lambda a: implies((not (a in R()) or posof(R(), a) >= _i) and "
                 "   not (a == '_old_atomname' and 'atomname' in R() and posof(R(), 'atomname') < _i), same(ATTR, g_mid, a)), AName)",
                 "implies('atomname' in R() and posof(R(), 'atomname') < _i and not ('_old_atomname' in R()), "
                 "   '_old_atomname' in ATTR[mol_idx] and ATTR[mol_idx]['_old_atomname'] == g_mid[mol_idx]['atomname'])",
                 OTHERS.format(O='g_mid'), "mol_idx in ATTR and 'atomname' in ATTR[mol_idx]"],
            modifies=['ATTR']),
    },
    canary=[("if attr not in ('PTM_atom', 'replace'):", "if attr not in ('PTM_atom', 'replace', 'atomname'):"),
            ("mol_node[attr_name] = val", "pass"),
            ("mol_node['_old_atomname'] = mol_node['atomname']", "mol_node['_old_atomname'] = val")],
)
CONTRACTS.append(transfer_one)


# ------------------------------------------------------------------ fix_ptm: a group of unrecognised atoms nothing explains
PtmAtoms = TTuple(TSet(MNode), TSet(MNode))                # (the unrecognised atoms of one branch, its anchors)


def setup_unid(cx):
    eng = cx.eng
    from pyvc.builtins import list_append, contains
    res_ptms = cx.val('res_ptms', TSeq(PtmAtoms))
    resids = cx.val('resids', TSeq(TInt))
    removed = cx.box('removed', TSet(MNode))
    coverable = cx.val('coverable', TBool)                 # identify_ptms finds a cover (its contract: KeyError otherwise)
    cx.spec_env['coverable'] = coverable
    MOLN = cx.heap('MOLN', cx.box('MOLN', TSet(MNode)))    # the atoms of the molecule
    WARNED = cx.heap('WARNED', cx.box('WARNED', TSeq(TStr)))
    first_of = cx.uf('first_of', [TInt], MNode)

    def identify(e, residue, ptms, options):
        e.maybe_raise(coverable.e, 'KeyError')
        return Obj('identified')
    cx.spec_env['identify_ptms'] = Builtin(identify, 'identify_ptms')

    def remove_node(e, n):
        ne = to_z3(n, MNode)
        # networkx: removing a node that is not in the graph raises NetworkXError
        e.maybe_raise(z3.Select(MOLN.e, ne), 'NetworkXError')
        MOLN.e = z3.Store(MOLN.e, ne, False)

    def node_of(e, n):
        # the attributes of an atom that is no longer in the molecule: KeyError
        e.maybe_raise(z3.Select(MOLN.e, to_z3(n, MNode)), 'KeyError')
        return Obj('molnode')
    in_group = cx.uf('in_group', [TInt], TBool)            # the residue number is one of `resids`

    def sorted_(e, x):
        # sorted(set(resids)): some list of residue numbers of the group (its order only matters for the message)
        out = e.fresh_val(TSeq(TInt), 'sorted')
        k = z3.Int('sk')
        e.assume(z3.ForAll([k], z3.Implies(z3.And(0 <= k, k < TSeq(TInt).len(out.e)), in_group(TSeq(TInt).at(out.e, k)))))
        return out
    cx.spec_env['sorted'] = Builtin(sorted_, 'sorted')
    molecule = Obj('Molecule', remove_node=Builtin(remove_node, 'molecule.remove_node'),
                   nodes=Obj('NodeView', __getitem__=Builtin(node_of, 'molecule.nodes[]')))
    resid_to_idxs = Obj('resid_to_idxs', __getitem__=Builtin(
        lambda e, r: Obj('idxs', __getitem__=Builtin(lambda e2, k: SV(MNode, first_of(to_z3(r, TInt))), 'idxs[]')), 'resid_to_idxs[]'))
    # the texts of the message are not modelled (sorted() is only used for the list of residues in it)
    eng.opaque_exprs["['{atomid}-{atomname}'.format(**molecule.nodes[idx]) for idxs in res_ptms for idx in idxs[0]]"] = \
        lambda e: e.fresh_val(TSeq(TStr), 'atom_names')
    eng.format_hooks['{resname}{resid}'] = lambda e, *a, **k: 'residue'
    eng.format_hooks['{atomid}-{atomname}'] = lambda e, *a, **k: 'atom'
    log = Obj('LOGGER', info=Builtin(lambda e, *a, **k: None, 'LOGGER.info'), debug=Builtin(lambda e, *a, **k: None, 'LOGGER.debug'))
    log.attrs['warning'] = Builtin(lambda e, *a, type=None, **k: list_append(e, WARNED, type), 'LOGGER.warning')
    cx.spec_env['LOGGER'] = log
    return dict(molecule=molecule, res_ptms=res_ptms, resids=resids, removed=removed, residue=Obj('residue'), options=Obj('options'),
                resid_to_idxs=resid_to_idxs)


SPEC_UNID = {
    # n is one of the unrecognised atoms of the first J branches of the group
    'gone': "lambda n, J: exists(lambda j: 0 <= j and j < J and n in res_ptms[j][0])",
}
UNID_M = "forall(lambda n: (n in MOLN) == (n in old(MOLN) and not gone(n, {J})), MNode)"
UNID_R = "forall(lambda n: (n in removed) == (n in old(removed) or gone(n, {J})), MNode)"
unidentified = FunctionContract(
    F, 'fix_ptm', 'C14', short='fix_ptm[unexplained atoms]', setup=setup_unid, spec_defs=SPEC_UNID, spec_env=dict(MNode=MNode),
    region=dict(within=["for resids, res_ptms in itertools.groupby(ptm_atoms, key_func):"], start="try:", end="LOGGER.info("),
    # find_ptm_atoms: the branches are sets of atoms of the molecule, and no atom is in two of them
    requires=[# the first atom of every residue of the group is still in the molecule.  ASSUMED, and not always true: an earlier
              # group's removal can have taken it (known finding C14 fix_ptm/raises:KeyError@fix_ptm[resname_resid_format...]: KeyError instead of the warning)
              "forall(lambda r: implies(in_group(r), first_of(r) in MOLN), TInt)",
              "forall(lambda j, n: implies(0 <= j and j < len(res_ptms) and n in res_ptms[j][0], n in MOLN), TInt, MNode)",
              "forall(lambda j, k, n: implies(0 <= j and j < k and k < len(res_ptms) and n in res_ptms[j][0], not (n in res_ptms[k][0])), "
              "   TInt, TInt, MNode)"],
    ensures=[
        # a group of unrecognised atoms that no combination of known modifications explains is reported - one warning of
        # type unknown-input - and exactly its unrecognised atoms are removed from the molecule (and remembered as removed);
        # the loop goes on with the next group.  Otherwise nothing is removed or reported here.
        "coverable == (region_exit == 'end') and (not coverable) == (region_exit == 'continue')",
        "implies(not coverable, len(WARNED) == len(old(WARNED)) + 1 and WARNED[len(old(WARNED))] == 'unknown-input')",
        "implies(not coverable, " + UNID_M.format(J='len(res_ptms)') + ")",
        "implies(not coverable, " + UNID_R.format(J='len(res_ptms)') + ")",
        "implies(coverable, len(WARNED) == len(old(WARNED)) and forall(lambda n: (n in MOLN) == (n in old(MOLN)), MNode) and "
        "   forall(lambda n: (n in removed) == (n in old(removed)), MNode))",
        "forall(lambda k: implies(0 <= k and k < len(old(WARNED)), WARNED[k] == old(WARNED)[k]))",
    ],
    modifies=['MOLN', 'WARNED', 'removed'],
    loops={
        'L1': LoopSpec(inv=[UNID_M.format(J='_i'), UNID_R.format(J='_i')], modifies=['MOLN', 'removed']),
        'L1.1': LoopSpec(inv=["forall(lambda n: (n in MOLN) == (n in g_M and not (n in idxs[0] and _posL1_1(n) < _i)), MNode)",
                              "forall(lambda n: (n in removed) == (n in g_R or (n in idxs[0] and _posL1_1(n) < _i)), MNode)"],
                         modifies=["MOLN", "removed"], ghost_init="g_M = set(MOLN)\ng_R = set(removed)",
                         locals=dict(g_M=TSet(MNode), g_R=TSet(MNode))),
    },
    canary=[("molecule.remove_node(idx)", "pass"),
            ("type='unknown-input')", "type='general')"),
            ("for idx in idxs[0]:\n                    molecule.remove_node(idx)", "for idx in idxs[1]:\n                    molecule.remove_node(idx)")],
)
CONTRACTS.append(unidentified)


# ------------------------------------------------------------------ find_ptm_atoms: every unrecognised atom in exactly one branch
def setup_fpa(cx):
    from pyvc.builtins import make_iter
    NODESET = cx.val('NODESET', TSet(MNode))               # the atoms of the molecule
    cx.spec_env['NODESET'] = NODESET
    adj = cx.uf('adj', [MNode], TSet(MNode))               # the neighbours of an atom
    ptm_flag = cx.uf('ptm_flag', [MNode], TBool)           # the atom's PTM_atom attribute is set (RepairGraph marks what it cannot name)
    has_mods = cx.uf('has_mods', [MNode], TBool)           # the atom carries a non-empty list of modifications

    def node(e, n):
        ne = to_z3(n, MNode)

        def get(e2, k, d=None):
            if k == 'PTM_atom' and d is False:
                return wrap(TBool, ptm_flag(ne))
            if k == 'modifications' and d is None:
                return wrap(TBool, has_mods(ne))            # only its truth value is used
            raise EngineError('node.get(%r, %r)' % (k, d))
        return Obj('molnode', get=Builtin(get, 'node.get'))
    molecule = Obj('Molecule', nodes=Obj('NodeView', __getitem__=Builtin(node, 'molecule.nodes[]')), __getitem__=Builtin(
        lambda e, n: Obj('AtlasView', keys=Builtin(lambda e2: SV(TSet(MNode), adj(to_z3(n, MNode))), 'molecule[n].keys')), 'molecule[]'))
    molecule.__dict__['iter'] = make_iter(cx.eng, NODESET)
    return dict(molecule=molecule)


SPEC_FPA = {
    # the unrecognised atoms: marked as such, or carrying modifications
    'unrec': "lambda n: n in NODESET and (ptm_flag(n) or has_mods(n))",
    'covered': "lambda n, P: exists(lambda j: 0 <= j and j < len(P) and n in P[j][0])",
    'reached': "lambda n, A: exists(lambda a: a in A and n in adj(a), MNode)",
}
FPA_BR = [
    # the atoms of a branch are unrecognised atoms, taken out of the work set; no atom is in two branches
    "forall(lambda j, n: implies(0 <= j and j < len({P}) and n in {P}[j][0], n in g_E and not (n in {X})), TInt, MNode)",
    "forall(lambda j, k, n: implies(0 <= j and j < k and k < len({P}) and n in {P}[j][0], not (n in {P}[k][0])), TInt, TInt, MNode)",
    # a branch is closed: an unrecognised neighbour of one of its atoms is in it, any other neighbour is one of its anchors
    "forall(lambda j, a, nb: implies(0 <= j and j < len({P}) and a in {P}[j][0] and nb in adj(a), "
    "   (nb in {P}[j][0]) if nb in g_E else (nb in {P}[j][1])), TInt, MNode, MNode)",
    # anchors are recognised atoms
    "forall(lambda j, n: implies(0 <= j and j < len({P}) and n in {P}[j][1], not (n in g_E)), TInt, MNode)",
]
find_ptm_atoms = FunctionContract(
    F, 'find_ptm_atoms', 'C14', setup=setup_fpa, spec_defs=SPEC_FPA, spec_env=dict(MNode=MNode),
    # an undirected graph
    requires=["forall(lambda a, b: (b in adj(a)) == (a in adj(b)), MNode, MNode)"],
    ensures=[
        # every unrecognised atom is in a branch ...
        # (g_E is the set built by the first statement: exactly the unrecognised atoms)
        "forall(lambda n: (n in g_E) == unrec(n), MNode)",
        "forall(lambda n: implies(n in g_E, covered(n, result)), MNode)",
        # ... in exactly one, and a branch is a set of unrecognised atoms closed under the bonds among them, with all the
        # recognised neighbours as its anchors
        FPA_BR[0].format(P='result', X='extra_atoms'), FPA_BR[1].format(P='result'), FPA_BR[2].format(P='result'),
        FPA_BR[3].format(P='result'),
    ],
    locals=dict(ptms=TSeq(PtmAtoms), atoms=TSet(MNode), anchors=TSet(MNode), to_see=TSet(MNode), orig=MNode, g_P=TSeq(PtmAtoms), extra_atoms=TSet(MNode), g_E=TSet(MNode)),
    loops={
        'L1': LoopSpec(inv=["forall(lambda n: implies(n in extra_atoms, n in g_E), MNode)",
                            "forall(lambda n: implies(n in g_E, n in extra_atoms or covered(n, ptms)), MNode)"]
                       + [x.format(P='ptms', X='extra_atoms') for x in FPA_BR],
                       modifies=['extra_atoms', 'ptms']),
        'L1.1': LoopSpec(inv=["forall(lambda n: implies(n in atoms, n in extra_atoms), MNode)",
                              "forall(lambda n: implies(n in anchors, not (n in extra_atoms)), MNode)",
                              "forall(lambda a, nb: implies(a in atoms and nb in adj(a), nb in atoms or nb in anchors or nb in to_see or nb == orig), "
                              "   MNode, MNode)",
                              "forall(lambda n: implies(n in anchors or n in to_see, reached(n, atoms)), MNode)",
                              "orig in extra_atoms or reached(orig, atoms)"],
                         modifies=['atoms', 'anchors', 'to_see']),
    },
    # the new branch is the last one (names the witness of `covered` for the solver)
    ghost_at={'after:stmt:extra_atoms = set(': "g_E = set(extra_atoms)",
              'before:stmt:ptms.append((atoms, anchors))':
              "g_P = list(ptms)\n"
              "prove(forall(lambda a, nb: implies(a in atoms and nb in adj(a), nb in atoms or nb in anchors), MNode, MNode), 'neighbours-seen')\n"
              "prove(forall(lambda nb, a: implies(covered(nb, ptms) and a in adj(nb) and a in g_E, not (a in extra_atoms)), MNode, MNode), "
              "      'neighbours-of-earlier-branches-are-taken')\n"
              "prove(forall(lambda a, nb: implies(a in atoms and nb in adj(a) and nb in g_E, nb in atoms), MNode, MNode), 'branch-closed')\n"
              "prove(forall(lambda n: implies(n in anchors, not (n in g_E)), MNode), 'anchors-recognised')",
              'after:stmt:ptms.append((atoms, anchors))':
              "prove(forall(lambda n: implies(n in atoms, n in ptms[len(ptms) - 1][0]), MNode), 'last-branch')\n"
              "prove(forall(lambda j: implies(0 <= j and j < len(g_P), ptms[j] == g_P[j])), 'earlier-branches-kept')\n"
              "prove(forall(lambda n: implies(covered(n, g_P), covered(n, ptms)), MNode), 'covered-stays')"},
    canary=[("extra_atoms -= atoms", "pass"),
            ("or molecule.nodes[n_idx].get('modifications')))", "and molecule.nodes[n_idx].get('modifications')))"),
            ("anchors.add(orig)", "atoms.add(orig)"),
            ("to_see.update(molecule[orig].keys())", "pass")],
)
CONTRACTS.append(find_ptm_atoms)



# ------------------------------------------------------------------ identify_ptms: what has to be explained, and by what
def setup_ip(cx):
    d = setup_cg(cx)
    rp = cx.val('residue_ptms', TSeq(PtmAtomsG))
    cx.spec_env['RP'] = rp
    return dict(residue=d['graph'], residue_ptms=rp, known_ptms=d['fragments'])


PtmAtomsG = TTuple(TSet(GNode), TSet(GNode))
SPEC_IP = dict(SPEC_CG)
SPEC_IP.update({
    # the atom belongs to one of the branches of unrecognised atoms of these residues, or anchors one
    'todo': "lambda x, J: exists(lambda j: 0 <= j and j < J and (x in RP[j][0] or x in RP[j][1]))",
})
identify_ptms = FunctionContract(
    F, 'identify_ptms', 'C14', setup=setup_ip, spec_defs=SPEC_IP, spec_env=dict(GNode=GNode, Match=Match, Glet=Glet),
    result_ty=TSeq(Cov), locals=dict(to_cover=TSet(GNode), cover=TSeq(Cov), used_mods=TSeq(Glet), residue_mods=TSeq(TSeq(Glet))),
    allow_exc=('KeyError',),           # from _cover_graph: no cover found
    # first pass: no unrecognised atom is labelled with a modification yet (the branch for labelled atoms holds the two assertion
    # crashes recorded as known findings)
    requires=["forall(lambda j, x: implies(0 <= j and j < len(RP) and x in RP[j][0], len(mods_of(x)) == 0), TInt, GNode)"],
    ensures=[
        # what _cover_graph is asked to explain is exactly the unrecognised atoms of these branches and their anchors; the answer
        # is its answer: every such atom covered, an unrecognised one exactly once, nothing else touched but recognised atoms, each
        # placement produced by its own template's matcher
        "forall(lambda x: implies(todo(x, len(RP)), exists(lambda j: 0 <= j and j < len(result) and covers(result[j], x))), GNode)",
        "forall(lambda x, j, k: implies(todo(x, len(RP)) and is_ptm(x) and 0 <= j and j < k and k < len(result), "
        "   not (covers(result[j], x) and covers(result[k], x))), GNode, TInt, TInt)",
        "forall(lambda x, j: implies(0 <= j and j < len(result) and covers(result[j], x), todo(x, len(RP)) or not is_ptm(x)), GNode, TInt)",
        "forall(lambda j: implies(0 <= j and j < len(result), exists(lambda i, q: 0 <= i and i < len(known_ptms) and "
        "   result[j][0] == known_ptms[i][0] and 0 <= q and q < len(matches_of(known_ptms[i][1])) and "
        "   result[j][1] == matches_of(known_ptms[i][1])[q])))",
    ],
    loops={
        'L1': LoopSpec(inv=["forall(lambda x: (x in to_cover) == todo(x, _i), GNode)", "len(cover) == 0"], modifies=['to_cover']),
        'L1.1': LoopSpec(inv=["len(used_mods) == 0"], modifies=[]),
        'L1.1.1': LoopSpec(inv=["len(used_mods) == 0"], modifies=[]),
    },
    canary=[("to_cover.update(anchors)", "pass"), ("to_cover.update(ptm_atoms)", "to_cover = set(ptm_atoms)")],
)
CONTRACTS.append(identify_ptms)



# ------------------------------------------------------------------ allowed_ptms: the modifications that fit somewhere
PtmG = TKey('PtmG')
Allowed = TTuple(PtmG, TKey('Matcher'))


def setup_ap(cx):
    known = cx.val('KNOWN', TSeq(PtmG))                     # known_ptms.values(), in order
    cx.spec_env['KNOWN'] = known
    matcher_of = cx.uf('matcher_of', [PtmG], TKey('Matcher'))   # GraphMatcher(residue, ptm, node_match=ptm_node_matcher)
    iso = cx.uf('fits_induced', [PtmG], TBool)              # ... .subgraph_is_isomorphic(): the template fits as an induced subgraph
    mono = cx.uf('fits_loosely', [PtmG], TBool)             # ... .subgraph_is_monomorphic(): it fits when extra bonds are ignored
    residue = Obj('residue')
    pnm = Obj('ptm_node_matcher')
    cx.spec_env['ptm_node_matcher'] = pnm

    def graph_matcher(e, g, ptm, node_match=None, edge_match=None):
        if g is not residue or node_match is not pnm or edge_match is not None:
            raise EngineError('GraphMatcher built on something else')
        pe = to_z3(ptm, PtmG)
        m = SV(TKey('Matcher'), matcher_of(pe))
        o = Obj('GraphMatcher', subgraph_is_isomorphic=Builtin(lambda e2: wrap(TBool, iso(pe)), 'subgraph_is_isomorphic'),
                subgraph_is_monomorphic=Builtin(lambda e2: wrap(TBool, mono(pe)), 'subgraph_is_monomorphic'))
        o.__dict__['ctx_key'] = m
        return o
    cx.spec_env['nx'] = Obj('networkx', isomorphism=Obj('isomorphism', GraphMatcher=Builtin(graph_matcher, 'GraphMatcher')))
    return dict(residue=residue, res_ptms=Obj('res_ptms'), known_ptms=Obj('known_ptms', values=Builtin(lambda e: known, 'known_ptms.values')))


AP_INV = [
    "len(g_src) == len(__yielded__)",
    "forall(lambda q: implies(0 <= q and q < len(g_src), 0 <= g_src[q] and g_src[q] < {I} and fits_induced(KNOWN[g_src[q]]) and "
    "   __yielded__[q][0] == KNOWN[g_src[q]] and __yielded__[q][1] == matcher_of(KNOWN[g_src[q]])))",
    "forall(lambda p, q: implies(0 <= p and p < q and q < len(g_src), g_src[p] < g_src[q]))",
    "forall(lambda i: implies(0 <= i and i < {I} and fits_induced(KNOWN[i]), i in g_pos and 0 <= g_pos[i] and g_pos[i] < len(g_src) and "
    "   g_src[g_pos[i]] == i))",
]
allowed_ptms = FunctionContract(
    F, 'allowed_ptms', 'C14', setup=setup_ap, spec_env=dict(PtmG=PtmG), result_ty=TSeq(Allowed),
    locals=dict(g_src=TSeq(TInt), g_pos=TMap(TInt, TInt)), ghost_at={'entry': "g_src = []\ng_pos = {}"},
    # the candidates are, in the force field's order, exactly the modifications whose template fits somewhere in these residues as an
    # induced subgraph under ptm_node_matcher - each with the matcher that found it
    ensures=[x.format(I='len(KNOWN)').replace('__yielded__', 'result') for x in AP_INV],
    loops={'L1': LoopSpec(inv=[x.format(I='_i') for x in AP_INV], modifies=['__yielded__', 'g_src', 'g_pos'],
                          locals=dict(g_y0=TInt), ghost_pre="g_y0 = len(__yielded__)",
                          ghost_end="if len(__yielded__) > g_y0:\n    g_src.append(_i)\n    g_pos[_i] = g_y0")},
    canary=[("if ptm_graph_matcher.subgraph_is_isomorphic():", "if ptm_graph_matcher.subgraph_is_monomorphic():"),
            ("yield ptm, ptm_graph_matcher", "yield ptm, None")],
)
CONTRACTS.append(allowed_ptms)


# ------------------------------------------------------------------ fix_ptm: the residues a group of branches is matched against
def setup_grp(cx):
    resids = cx.val('resids', TSeq(TInt))                   # the residue numbers of the group's anchors (sorted, possibly repeated)
    r2i = cx.uf('atoms_of_resid', [TInt], TSet(MNode))      # resid_to_idxs[resid]: the atoms with that residue number
    removed = cx.box('removed', TSet(MNode))
    cx.spec_env.update(RESIDS=resids)
    SUB = cx.heap('SUBGRAPH_OF', Box(TSet(MNode)))          # what molecule.subgraph was asked for
    res_ptms_in, known = Obj('res_ptms-iterator'), Obj('known_ptms')
    res_list, residue, options = Obj('res_ptms-list'), Obj('residue'), Obj('options')
    cx.spec_env.update(RESIDUE=residue, OPTIONS_SORTED=Obj('sorted-options'))

    def subgraph(e, nodes):
        SUB.e = to_z3(nodes, TSet(MNode))
        return residue
    molecule = Obj('Molecule', subgraph=Builtin(subgraph, 'molecule.subgraph'))

    def allowed(e, res, ptms, kn):
        e.oblige(res is residue and ptms is res_list and kn is known, 'allowed_ptms:for-this-residue-and-these-branches')
        return options

    def sorted_(e, xs, key=None, reverse=False):
        e.oblige(xs is options and key is not None and reverse is True, 'options:sorted-largest-first')
        return cx.spec_env['OPTIONS_SORTED']
    cx.spec_env['allowed_ptms'] = Builtin(allowed, 'allowed_ptms')
    cx.spec_env['sorted'] = Builtin(sorted_, 'sorted')
    cx.spec_env['list'] = Builtin(lambda e, x: res_list if x is res_ptms_in else (_ for _ in ()).throw(EngineError('list() of something else')), 'list')
    resid_to_idxs = Obj('resid_to_idxs', __getitem__=Builtin(lambda e, r: SV(TSet(MNode), r2i(to_z3(r, TInt))), 'resid_to_idxs[]'))
    return dict(molecule=molecule, resids=resids, res_ptms=res_ptms_in, resid_to_idxs=resid_to_idxs, removed=removed, known_ptms=known)


group_residues = FunctionContract(
    F, 'fix_ptm', 'C14', short='fix_ptm[residues of a group]', setup=setup_grp, spec_env=dict(MNode=MNode),
    region=dict(within=["for resids, res_ptms in itertools.groupby(ptm_atoms, key_func):"], start="res_ptms = list(res_ptms)", end="try:"),
    locals=dict(n_idxs=TSet(MNode)),
    ensures=[
        # the branches of a group are matched against all atoms with the residue numbers of the group's anchors, minus the atoms
        # already removed; the candidate modifications are those allowed_ptms finds there, tried largest first
        "forall(lambda n: (n in n_idxs) == exists(lambda k: 0 <= k and k < len(RESIDS) and n in atoms_of_resid(RESIDS[k])), MNode)",
        "forall(lambda n: (n in SUBGRAPH_OF) == (n in n_idxs and not (n in removed)), MNode)",
        "residue is RESIDUE and options is OPTIONS_SORTED",
    ],
    modifies=['SUBGRAPH_OF'],
    loops={'L1': LoopSpec(inv=["forall(lambda n: (n in n_idxs) == exists(lambda k: 0 <= k and k < _i and n in atoms_of_resid(RESIDS[k])), MNode)"],
                          modifies=['n_idxs'])},
    canary=[("residue = molecule.subgraph(n_idxs - removed)", "residue = molecule.subgraph(n_idxs)"),
            ("reverse=True)", "reverse=False)")],
)
CONTRACTS.append(group_residues)

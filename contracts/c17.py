"""C17 -- per-residue annotations land on the intended residues."""
from pyvc.api import *
from pyvc.builtins import getitem

F = 'vermouth/dssp/dssp.py'
Mol, Node = TKey('Mol'), TKey('Node')
Attrs = TMap(TStr, TStr)
NodesOf = TMap(Node, Attrs)
Heap = TMap(Mol, NodesOf)             # NODES[m][n][a]: attribute a of node n of molecule m
Residues = TSeq(TSeq(Node))

SPEC = {
    'n_res': "lambda m: len(res(m))",
    # the element of the sequence that residue k receives (a one-element sequence is repeated)
    'elem': "lambda seq, k: seq[0] if len(seq) == 1 else seq[k]",
    'isresnode': "lambda m, n: 0 <= resof(m, n) and resof(m, n) < n_res(m) and 0 <= posin(m, n) and "
                 "posin(m, n) < len(res(m)[resof(m, n)]) and res(m)[resof(m, n)][posin(m, n)] == n",
}


def world(cx, mols):
    """abstract molecules: iter_residues() is a partition of (some of) the molecule's nodes, molecule.nodes a heap"""
    eng = cx.eng
    NODES = cx.heap('NODES', cx.box('NODES', Heap))
    RES = cx.uf('res', [Mol], Residues)
    cx.uf('resof', [Mol, Node], TInt)
    cx.uf('posin', [Mol, Node], TInt)
    eng.attr_hooks[('Mol', 'nodes')] = lambda e, m: getitem(e, NODES, m)
    eng.methods[('Mol', 'iter_residues')] = lambda e, m: SV(Residues, RES(to_z3(m)))
    env = {'NODES': NODES}
    for m in mols:
        cx.assume(Residues.inv(RES(m.e)))
    return NODES


# every residue node is a node of the molecule, and (residue, position) identifies it (residues are disjoint)
PARTITION = ["forall(lambda k, j: implies(0 <= k and k < n_res({m}) and 0 <= j and j < len(res({m})[k]), "
             "    resof({m}, res({m})[k][j]) == k and posin({m}, res({m})[k][j]) == j and res({m})[k][j] in NODES[{m}]))",
             "{m} in NODES"]


def setup_arfs(cx):
    m = cx.val('molecule', Mol)
    world(cx, [m])
    return dict(molecule=m, attribute=cx.val('attribute', TStr), sequence=cx.val('sequence', TSeq(TStr)))


FRAME_OTHERS = ("forall(lambda m2, n, a: implies(not (m2 == molecule and a == attribute and isresnode(molecule, n)), "
                "NODES[m2][n][a] == old(NODES)[m2][n][a] and (a in NODES[m2][n]) == (a in old(NODES)[m2][n])), Mol, Node, TStr)")
FRAME_DOMS = ("forall(lambda m2, n: (m2 in NODES) == (m2 in old(NODES)) and (n in NODES[m2]) == (n in old(NODES)[m2]), Mol, Node)")

INV_DONE = ("forall(lambda k, j: implies(0 <= k and k < {K} and 0 <= j and j < len(residues[k]), "
            "NODES[molecule][residues[k][j]][attribute] == sequence[k]))")
INV_FRAME = ("forall(lambda m2, n, a: implies(not (m2 == molecule and a == attribute and isresnode(molecule, n) and "
             "   (resof(molecule, n) < {K} or (resof(molecule, n) == {K} and posin(molecule, n) < {J}))), "
             "NODES[m2][n][a] == old(NODES)[m2][n][a] and (a in NODES[m2][n]) == (a in old(NODES)[m2][n])), Mol, Node, TStr)")

annotate_residues_from_sequence = FunctionContract(
    F, 'annotate_residues_from_sequence', 'C17', setup=setup_arfs, spec_defs=SPEC, spec_env=dict(Mol=Mol, Node=Node),
    axioms=lambda cx, env: [cx.eng._b(cx.eng.spec_truth(a.format(m='molecule'), env)) for a in PARTITION],
    requires=[],
    ensures=[
        "len(old(sequence)) == 1 or len(old(sequence)) == n_res(molecule)",
        # every atom of residue k carries the k-th element (a one-element sequence is repeated)
        "forall(lambda k, j: implies(0 <= k and k < n_res(molecule) and 0 <= j and j < len(res(molecule)[k]), "
        "   NODES[molecule][res(molecule)[k][j]][attribute] == elem(old(sequence), k)))",
        # nothing else is written: other molecules, other atoms, other attributes
        FRAME_OTHERS, FRAME_DOMS,
    ],
    raises={'ValueError': ["len(sequence) != 1 and len(sequence) != n_res(molecule)",
                           # a length mismatch is an error and nothing has been written
                           "forall(lambda m2, n, a: NODES[m2][n][a] == old(NODES)[m2][n][a] and "
                           "   (a in NODES[m2][n]) == (a in old(NODES)[m2][n]), Mol, Node, TStr)", FRAME_DOMS]},
    modifies=['NODES'],
    loops={
        'L1': LoopSpec(inv=[INV_DONE.format(K='_i'), INV_FRAME.format(K='_i', J='0'), FRAME_DOMS], modifies=['NODES']),
        'L1.1': LoopSpec(inv=[INV_DONE.format(K='_iL1'),
                              "forall(lambda j: implies(0 <= j and j < _i, NODES[molecule][residue_nodes[j]][attribute] == value))",
                              INV_FRAME.format(K='_iL1', J='_i'), FRAME_DOMS], modifies=['NODES']),
    },
    canary=[("sequence = sequence * len(residues)", "sequence = sequence"), ("molecule.nodes[node_name][attribute] = value", "molecule.nodes[node_name][attribute] = sequence[0]")],
)

CONTRACTS = [annotate_residues_from_sequence]
LEMMAS = []

# ------------------------------------------------------------------ AnnotateResidues.run_system, assignment region
SPEC_RS = dict(SPEC)
SPEC_RS.update({
    'sel': "lambda r: system.molecules[sel_ix(r)]",
    # molecule m2 is a selected molecule of the system
    'touched': "lambda m2: 0 <= idx_of(m2) and idx_of(m2) < len(system.molecules) and system.molecules[idx_of(m2)] == m2 and selected(m2)",
    'same_at': "lambda m2, n, a: NODES[m2][n][a] == old(NODES)[m2][n][a] and (a in NODES[m2][n]) == (a in old(NODES)[m2][n])",
})
RECS_RS = [
    ('PS', [('s', TSeq(TInt)), ('i', TInt)], TInt, "0 if i <= 0 else PS(s, i - 1) + s[i - 1]"),
]
L_mono = Lemma('L_mono', [('s', TSeq(TInt)), ('i', TInt), ('j', TInt)], spec_recs=RECS_RS, prop='C17', file=F,
               requires=["0 <= i and i <= j and j <= len(s)", "forall(lambda k: implies(0 <= k and k < len(s), s[k] >= 0))"],
               ensures=["PS(s, i) <= PS(s, j)"], induction='j')
L_nonneg = Lemma('L_nonneg', [('s', TSeq(TInt)), ('i', TInt)], spec_recs=RECS_RS, prop='C17', file=F,
                 requires=["i <= len(s)", "forall(lambda k: implies(0 <= k and k < len(s), s[k] >= 0))"],
                 ensures=["PS(s, i) >= 0"], induction='i')


def setup_rs(cx):
    eng = cx.eng
    mols = cx.val('mols', TSeq(Mol))
    world(cx, [])
    cx.uf('idx_of', [Mol], TInt)
    selected = cx.uf('selected', [Mol], TBool)
    cx.uf('sel_ix', [TInt], TInt)
    cx.uf('sel_rk', [TInt], TInt)
    cx.spec_env['sel_len'] = SV(TInt, z3.Int('sel_len'))
    system = cx.obj('System', molecules=mols)
    self = cx.obj('AnnotateResidues', attribute=cx.val('attribute', TStr),
                  molecule_selector=Builtin(lambda e, m: wrap(TBool, selected(to_z3(m))), 'molecule_selector'))
    return dict(self=self, system=system, molecule_lengths=cx.val('molecule_lengths', TSeq(TInt)),
                sequence=cx.val('sequence', TSeq(TStr)))


# what the preceding part of run_system establishes (proved by run_system[lengths] below: its first three postconditions):
#   molecule_lengths = residue counts of the selected molecules in system order; len(sequence) = their sum
LIVE_IN = [
    "0 <= sel_len and sel_len <= len(system.molecules)",
    "forall(lambda a: implies(0 <= a and a < sel_len, 0 <= sel_ix(a) and sel_ix(a) < len(system.molecules) and "
    "   selected(system.molecules[sel_ix(a)]) and sel_rk(sel_ix(a)) == a))",
    "forall(lambda a, b: implies(0 <= a and a < b and b < sel_len, sel_ix(a) < sel_ix(b)))",
    "forall(lambda i: implies(0 <= i and i < len(system.molecules) and selected(system.molecules[i]), "
    "   0 <= sel_rk(i) and sel_rk(i) < sel_len and sel_ix(sel_rk(i)) == i))",
    "len(molecule_lengths) == sel_len",
    "forall(lambda r: implies(0 <= r and r < sel_len, molecule_lengths[r] == n_res(sel(r))))",
    "len(sequence) == PS(molecule_lengths, sel_len)",
]
WORLD_RS = [
    # the molecules of a system are distinct objects
    "forall(lambda j: implies(0 <= j and j < len(system.molecules), idx_of(system.molecules[j]) == j and system.molecules[j] in NODES))",
    "forall(lambda m: forall(lambda k, j: implies(0 <= k and k < n_res(m) and 0 <= j and j < len(res(m)[k]), "
    "    resof(m, res(m)[k][j]) == k and posin(m, res(m)[k][j]) == j and res(m)[k][j] in NODES[m])), Mol)",
    "forall(lambda m: n_res(m) >= 0, Mol)",
]

run_system_assign = FunctionContract(
    F, 'AnnotateResidues.run_system', 'C17', short='run_system[assignment]', setup=setup_rs, spec_defs=SPEC_RS,
    spec_recs=RECS_RS, spec_env=dict(Mol=Mol, Node=Node), lemmas=[L_mono, L_nonneg],
    region=dict(start="end = 0"),
    filters={"self.molecule_selector(molecule)": 'sel'},
    axioms=lambda cx, env: [cx.eng._b(cx.eng.spec_truth(a, env)) for a in WORLD_RS],
    requires=LIVE_IN,
    ensures=[
        # the k-th element of the r-th selected molecule's stretch goes to every atom of its k-th residue
        "forall(lambda r, k, j: implies(0 <= r and r < sel_len and 0 <= k and k < n_res(sel(r)) and 0 <= j and "
        "   j < len(res(sel(r))[k]), NODES[sel(r)][res(sel(r))[k][j]][self.attribute] == "
        "   sequence[PS(molecule_lengths, r) + k]))",
        # unselected molecules (and everything outside the system) are left untouched
        "forall(lambda m2, n, a: implies(not touched(m2), same_at(m2, n, a)), Mol, Node, TStr)",
        # within a selected molecule only the annotated attribute of residue atoms changes
        "forall(lambda m2, n, a: implies(not (a == self.attribute and isresnode(m2, n)), same_at(m2, n, a)), Mol, Node, TStr)",
    ],
    ghost_at={'before:L1': "use_lemma('L_mono', molecule_lengths, 0, sel_len)"},
    modifies=['NODES'],
    loops={'L1': LoopSpec(
        inv=["begin == PS(molecule_lengths, _i) and end == PS(molecule_lengths, _i)",
             "forall(lambda r, k, j: implies(0 <= r and r < _i and 0 <= k and k < n_res(sel(r)) and 0 <= j and "
             "   j < len(res(sel(r))[k]), NODES[sel(r)][res(sel(r))[k][j]][self.attribute] == "
             "   sequence[PS(molecule_lengths, r) + k]))",
             "forall(lambda m2, n, a: implies(not (touched(m2) and sel_rk(idx_of(m2)) < _i), same_at(m2, n, a)), Mol, Node, TStr)",
             "forall(lambda m2, n, a: implies(not (a == self.attribute and isresnode(m2, n)), same_at(m2, n, a)), Mol, Node, TStr)",
             "forall(lambda m2, n: (m2 in NODES) == (m2 in old(NODES)) and (n in NODES[m2]) == (n in old(NODES)[m2]), Mol, Node)"],
        modifies=['NODES'],
        ghost_pre="use_lemma('L_mono', molecule_lengths, _i + 1, sel_len)\nuse_lemma('L_nonneg', molecule_lengths, _i)")},
    canary=[("zip(selected_molecules, molecule_lengths)", "zip(system.molecules, molecule_lengths)"),
            ("begin += nres", "begin = nres")],
)
CONTRACTS.append(run_system_assign)
LEMMAS.extend([L_mono, L_nonneg])


# ------------------------------------------------------------------ utils.are_all_equal on a list of integers
are_all_equal = FunctionContract(
    'vermouth/utils.py', 'are_all_equal', 'C17', short='are_all_equal[list of int]',
    setup=lambda cx: dict(iterable=cx.val('iterable', TSeq(TInt))),
    ensures=["result == forall(lambda k: implies(0 <= k and k < len(iterable), iterable[k] == iterable[0]))"],
    canary=[("first = next(iterator, None)", "first = None")],
)
CONTRACTS.append(are_all_equal)


# ------------------------------------------------------------------ AnnotateResidues.run_system, length test and repetition
def setup_rl(cx):
    mols = cx.val('mols', TSeq(Mol))
    world(cx, [])
    cx.uf('idx_of', [Mol], TInt)
    selected = cx.uf('selected', [Mol], TBool)
    cx.uf('sel_ix', [TInt], TInt)
    cx.uf('sel_rk', [TInt], TInt)
    cx.spec_env['sel_len'] = SV(TInt, z3.Int('sel_len'))
    system = cx.obj('System', molecules=mols)
    self = cx.obj('AnnotateResidues', attribute=cx.val('attribute', TStr), sequence=cx.val('given', TSeq(TStr)),
                  molecule_selector=Builtin(lambda e, m: wrap(TBool, selected(to_z3(m))), 'molecule_selector'))
    # utils.are_all_equal by its contract above (proved there for lists of integers)
    utils = Obj('utils')

    def aae(e, lst):
        ty = TSeq(TInt)
        le = to_z3(lst, ty)
        k = z3.FreshInt('ak')
        return wrap(TBool, z3.ForAll([k], z3.Implies(z3.And(0 <= k, k < ty.len(le)), ty.at(le, k) == ty.at(le, 0))))
    utils.attrs['are_all_equal'] = Builtin(aae, 'utils.are_all_equal')
    cx.spec_env['utils'] = utils
    return dict(self=self, system=system)


SPEC_RL = dict(SPEC_RS)
SPEC_RL.update({
    'total': "lambda: PS(molecule_lengths, sel_len)",
    'per_molecule': "lambda: sel_len > 0 and forall(lambda r: implies(0 <= r and r < sel_len, molecule_lengths[r] == len(self.sequence)))",
    'per_residue': "lambda: sel_len > 0 and len(self.sequence) == 1",
    # the three documented scenarios (no selected molecule is only valid with an empty sequence)
    'valid': "lambda: len(self.sequence) == total() or per_molecule() or per_residue()",
})
L_const = Lemma('L_const', [('s', TSeq(TInt)), ('c', TInt), ('i', TInt)], spec_recs=RECS_RS, prop='C17', file=F,
                requires=["0 <= i and i <= len(s)", "forall(lambda k: implies(0 <= k and k < i, s[k] == c))"],
                ensures=["PS(s, i) == c * i"], induction='i')
L_mod = Lemma('L_mod', [('c', TInt), ('n', TInt), ('r', TInt), ('k', TInt)], prop='C17', file=F,
              requires=["c > 0 and 0 <= r and r < n and 0 <= k and k < c"],
              ensures=["0 <= c * r + k and c * r + k < c * n and (c * r + k) % c == k"])
# the r-th stretch of a sequence repeated once per (equally long) molecule is the sequence itself
L_rep = Lemma('L_rep', [('seq', TSeq(TStr)), ('given', TSeq(TStr)), ('ml', TSeq(TInt)), ('n', TInt), ('r', TInt), ('k', TInt)],
              spec_recs=RECS_RS, prop='C17', file=F, uses=[L_const, L_mod],
              requires=["len(given) > 0 and len(ml) == n and len(seq) == len(given) * n",
                        "forall(lambda i: implies(0 <= i and i < len(seq), seq[i] == given[i % len(given)]))",
                        "forall(lambda j: implies(0 <= j and j < n, ml[j] == len(given)))",
                        "0 <= r and r < n and 0 <= k and k < len(given)"],
              proof="use_lemma('L_const', ml, len(given), r)\nuse_lemma('L_mod', len(given), n, r, k)",
              ensures=["PS(ml, r) + k < len(seq) and seq[PS(ml, r) + k] == given[k]"])
run_system_lengths = FunctionContract(
    F, 'AnnotateResidues.run_system', 'C17', short='run_system[lengths]', setup=setup_rl, spec_defs=SPEC_RL,
    spec_recs=RECS_RS, spec_env=dict(Mol=Mol, Node=Node), lemmas=[L_mono, L_nonneg, L_const, L_rep],
    region=dict(start="molecule_lengths = [", end="end = 0"),
    filters={"self.molecule_selector(molecule)": 'sel'},
    locals=dict(molecule_lengths=TSeq(TInt), sequence=TSeq(TStr)),
    axioms=lambda cx, env: [cx.eng._b(cx.eng.spec_truth(a, env)) for a in WORLD_RS],
    requires=LIVE_IN[:4],
    ensures=[
        # what the assignment region relies on
        "len(molecule_lengths) == sel_len",
        "forall(lambda r: implies(0 <= r and r < sel_len, molecule_lengths[r] == n_res(sel(r))))",
        "len(sequence) == total()",
        # a length mismatch is an error (see raises), so one of the documented scenarios applies ...
        "valid()",
        # ... and the stretch of the r-th selected molecule is the given sequence itself (one molecule long), its single
        # element (one element long), or the corresponding stretch of a sequence as long as the whole selection
        "implies(per_molecule(), forall(lambda r, k: implies(0 <= r and r < sel_len and 0 <= k and k < molecule_lengths[r], "
        "   sequence[PS(molecule_lengths, r) + k] == self.sequence[k])))",
        "implies(not per_molecule() and per_residue(), forall(lambda i: implies(0 <= i and i < total(), "
        "   sequence[i] == self.sequence[0])))",
        "implies(not per_molecule() and not per_residue(), forall(lambda i: implies(0 <= i and i < total(), "
        "   sequence[i] == self.sequence[i])))",
        "forall(lambda m2, n, a: same_at(m2, n, a), Mol, Node, TStr)",
    ],
    raises={'ValueError': ["not valid()", "forall(lambda m2, n, a: same_at(m2, n, a), Mol, Node, TStr)"]},
    ghost_at={'after:stmt:molecule_lengths = [': "use_lemma('L_nonneg', molecule_lengths, sel_len)\n"
                                                 "use_lemma('L_nonneg', molecule_lengths, ANY)",
              'before:stmt:sequence = list(self.sequence) * len(molecule_lengths)':
                  "use_lemma('L_const', molecule_lengths, len(self.sequence), ANY)",
              'after:stmt:sequence = list(self.sequence) * len(molecule_lengths)':
                  "if len(self.sequence) > 0:\n"
                  "    use_lemma('L_rep', sequence, self.sequence, molecule_lengths, sel_len, ANY, ANY)"},
    canary=[("and utils.are_all_equal(molecule_lengths)", "and True"), ("elif len(self.sequence) == 1:", "elif len(self.sequence) <= 1:")],
)
CONTRACTS.append(run_system_lengths)
LEMMAS.extend([L_const, L_mod, L_rep])



# ------------------------------------------------------------------ AnnotateResidues.run_system as a whole: the two regions composed
# The two regions above are block contracts here: in this proof their statements are replaced by their contracts (the same clauses,
# literally: BlockSpec.of), so that "the second region's live-in is what the first ensures" is an obligation (block-pre:...) and the
# statement of the property follows from the two contracts alone.
B_LENGTHS = BlockSpec.of(run_system_lengths)
B_ASSIGN = BlockSpec.of(run_system_assign)
STRETCH = ("forall(lambda r, k, j: implies(0 <= r and r < sel_len and 0 <= k and k < n_res(sel(r)) and 0 <= j and j < len(res(sel(r))[k]), "
           "   NODES[sel(r)][res(sel(r))[k][j]][self.attribute] == {V}))")
run_system_whole = FunctionContract(
    F, 'AnnotateResidues.run_system', 'C17', short='run_system[whole]', setup=setup_rl, spec_defs=SPEC_RL,
    spec_recs=RECS_RS, spec_env=dict(Mol=Mol, Node=Node), blocks=[B_LENGTHS, B_ASSIGN], lemmas=[L_mono, L_nonneg],
    # the offset of a molecule plus a residue index stays inside the sequence (prefix sums are monotone: lemmas by induction)
    ghost_at={'after:block:run_system[lengths]': "use_lemma('L_mono', molecule_lengths, ANY, sel_len)\nuse_lemma('L_nonneg', molecule_lengths, ANY)\n"
              "prove(forall(lambda r: implies(0 <= r and r < sel_len, PS(molecule_lengths, r + 1) == PS(molecule_lengths, r) + molecule_lengths[r] and "
              "   PS(molecule_lengths, r + 1) <= PS(molecule_lengths, sel_len) and PS(molecule_lengths, r) >= 0)), 'a-stretch-ends-inside-the-sequence')\n"
              "prove(forall(lambda r: implies(0 <= r and r < sel_len, PS(molecule_lengths, r) >= 0 and "
              "   PS(molecule_lengths, r) + molecule_lengths[r] <= PS(molecule_lengths, sel_len))), 'a-stretch-lies-inside-the-sequence')"},
    axioms=lambda cx, env: [cx.eng._b(cx.eng.spec_truth(a, env)) for a in WORLD_RS],
    requires=LIVE_IN[:4],              # sel_ix / sel_rk enumerate the selected molecules in system order (the definition of the index maps)
    ensures=[
        # one of the three documented scenarios applies (anything else: ValueError, below); `sequence` - the sequence that is written -
        # is then: the given one once per selected molecule (all equally long, the given sequence one molecule long); its single element
        # everywhere; or the given sequence itself.  It is as long as the selection has residues
        "valid()",
        "len(sequence) == total() and len(molecule_lengths) == sel_len",
        "forall(lambda r: implies(0 <= r and r < sel_len, molecule_lengths[r] == n_res(sel(r))))",
        "implies(per_molecule(), forall(lambda r, k: implies(0 <= r and r < sel_len and 0 <= k and k < molecule_lengths[r], "
        "   sequence[PS(molecule_lengths, r) + k] == self.sequence[k])))",
        "implies(not per_molecule() and per_residue(), forall(lambda i: implies(0 <= i and i < total(), sequence[i] == self.sequence[0])))",
        "implies(not per_molecule() and not per_residue(), forall(lambda i: implies(0 <= i and i < total(), sequence[i] == self.sequence[i])))",
        # every atom of the k-th residue of the r-th selected molecule receives the element at the molecule's offset (the residues of
        # the selected molecules before it) plus k - an element the sequence has
        STRETCH.format(V="sequence[PS(molecule_lengths, r) + k]"),
        "forall(lambda r, k: implies(0 <= r and r < sel_len and 0 <= k and k < n_res(sel(r)), 0 <= PS(molecule_lengths, r) + k and "
        "   PS(molecule_lengths, r) + k < len(sequence)))",
        # molecules that are not selected are not touched, and in a selected molecule only the annotated attribute of residue atoms
        "forall(lambda m2, n, a: implies(not touched(m2), same_at(m2, n, a)), Mol, Node, TStr)",
        "forall(lambda m2, n, a: implies(not (a == self.attribute and isresnode(m2, n)), same_at(m2, n, a)), Mol, Node, TStr)",
    ],
    # a sequence of another length: ValueError, nothing written
    raises={'ValueError': ["not valid()", "forall(lambda m2, n, a: same_at(m2, n, a), Mol, Node, TStr)"]},
    modifies=['NODES'],
)
CONTRACTS.append(run_system_whole)


# ------------------------------------------------------------------ table facts, evaluated from the real source (ast)
import ast as _ast
import os as _os


def extra_obligations(tier):
    obs = []

    def ob(name, ok, detail, function='convert_dssp_to_martini'):
        obs.append(dict(name=name, status='unsat' if ok else 'sat', backend='ast-eval', detail=detail, key=name,
                        function=function))
    try:
        src = open(_os.path.join(_os.environ.get('VERIF_REPO', '/repo'), F)).read()
        tree = _ast.parse(src)
        ss_cg = next(_ast.literal_eval(st.value) for st in tree.body if isinstance(st, _ast.Assign)
                     and isinstance(st.targets[0], _ast.Name) and st.targets[0].id == 'SS_CG')
        # the fixed table of the statement: non-helical classes map to themselves except B -> E; helices H G I -> H
        want = {'H': 'H', 'G': 'H', 'I': 'H', 'B': 'E', 'E': 'E', 'T': 'T', 'S': 'S', 'C': 'C'}
        for k, v in want.items():
            ob('table:SS_CG:%s' % k, ss_cg.get(k) == v, 'SS_CG[%r] = %r, statement: %r' % (k, ss_cg.get(k), v))
        fn = next(st for st in tree.body if isinstance(st, _ast.FunctionDef) and st.name == 'convert_dssp_to_martini')
        call = next(n for n in _ast.walk(fn) if isinstance(n, _ast.Call) and _ast.unparse(n.func).endswith('OrderedDict'))
        pats = _ast.literal_eval(call.args[0])
        for p, r in pats:
            same_len = len(p) == len(r)
            dots = all((a == '.') == (b == '.') for a, b in zip(p, r))
            only_h = all(a in '.H' for a in p) and all(b in '.H123' for b in r)
            ob('table:pattern:%s' % p, same_len and dots and only_h,
               'pattern %r -> %r: equal length %s, dots at the same positions %s, helix symbols only %s' % (p, r, same_len, dots, only_h))
        # the documented short-helix rules n = 1..7 and the long-helix ends
        doc = {'.H.': '.3.', '.HH.': '.33.', '.HHH.': '.333.', '.HHHH.': '.3333.', '.HHHHH.': '.13332.',
               '.HHHHHH.': '.113322.', '.HHHHHHH.': '.1113222.', '.HHHH': '.1111', 'HHHH.': '2222.'}
        ob('table:patterns:documented-rules', dict(pats) == doc and [p for p, _ in pats] == list(doc),
           'patterns and their order equal the documented start/end/short-helix rules')
    except Exception as ex:
        obs.append(dict(name='table:extraction', status='unknown', backend='ast-eval', detail='%s: %s' % (type(ex).__name__, ex),
                        key='table:extraction'))
    return obs


# ------------------------------------------------------------------ sequence_from_residues: one value per residue
ResAtom, AVal17 = TKey('ResAtom'), TKey('AVal17')


def setup_sfr(cx):
    from pyvc.values import IterV
    from pyvc.builtins import _int
    firsts = cx.val('FIRST_ATOMS', TSeq(ResAtom))           # the first atom of every residue, in the order of molecule.iter_residues()
    cx.spec_env['FIRST_ATOMS'] = firsts
    attr_of = cx.uf('attr_of', [ResAtom], TOpt(AVal17))     # molecule.nodes[atom].get(attribute): None when the atom lacks it
    default = cx.val('default', TOpt(AVal17))
    st = TSeq(ResAtom)

    def residues(e):
        return IterV(st.len(firsts.e), lambda i: Obj('residue_nodes', __getitem__=Builtin(
            # any other member of the residue is some other atom
            lambda e2, k: SV(ResAtom, st.at(firsts.e, _int(i))) if k == 0 else cx.val('other_atom', ResAtom),
            'residue_nodes[]')))

    def node(e, a):
        ae = to_z3(a, ResAtom)

        def get(e2, key, d=None):
            if key is not attribute:
                raise EngineError('node.get of another attribute')
            dv = to_z3(d, TOpt(AVal17)) if d is not None else TOpt(AVal17).none()
            return SV(TOpt(AVal17), z3.If(TOpt(AVal17).is_none(attr_of(ae)), dv, attr_of(ae)))
        return Obj('atomdict', get=Builtin(get, 'node.get'))
    attribute = Obj('attribute')
    molecule = Obj('Molecule', iter_residues=Builtin(residues, 'molecule.iter_residues'),
                   nodes=Obj('NodeView', __getitem__=Builtin(node, 'molecule.nodes[]')))
    return dict(molecule=molecule, attribute=attribute, default=default)


sequence_from_residues = FunctionContract(
    F, 'sequence_from_residues', 'C17', setup=setup_sfr, spec_env=dict(ResAtom=ResAtom), result_ty=TSeq(TOpt(AVal17)),
    ensures=[
        # one value per residue, in the order of the residues: the attribute of the residue's first atom, the default if it has none
        "len(result) == len(FIRST_ATOMS)",
        "forall(lambda r: implies(0 <= r and r < len(FIRST_ATOMS), result[r] == (attr_of(FIRST_ATOMS[r]) if attr_of(FIRST_ATOMS[r]) is not None else default)))",
    ],
    loops={'L1': LoopSpec(inv=["len(__yielded__) == _i",
                               "forall(lambda r: implies(0 <= r and r < _i, __yielded__[r] == (attr_of(FIRST_ATOMS[r]) if attr_of(FIRST_ATOMS[r]) is not None else default)))"],
                          modifies=['__yielded__'])},
    canary=[("first_name = residue_nodes[0]", "first_name = residue_nodes[-1]"), ("value = first_node.get(attribute, default)", "value = default")],
)
CONTRACTS.append(sequence_from_residues)


# ------------------------------------------------------------------ convert_dssp_annotation_to_martini: all residues, or none
def setup_cda(cx):
    from pyvc.builtins import list_append
    seq = cx.val('DSSP_SEQ', TSeq(TOpt(AVal17)))            # sequence_from_residues(molecule, from_attribute): by its contract above
    conv = cx.val('CONVERTED', TSeq(AVal17))                # convert_dssp_to_martini(that sequence)
    cx.spec_env.update(DSSP_SEQ=seq, CONVERTED=conv)
    CALLS = cx.heap('ANNOTATED', cx.box('ANNOTATED', TSeq(TInt)))      # calls of annotate_residues_from_sequence (1 = with the converted sequence)
    DEBUG = cx.heap('DEBUGGED', cx.box('DEBUGGED', TSeq(TInt)))
    molecule, fa, ta = Obj('Molecule'), Obj('from_attribute'), Obj('to_attribute')

    def sfr(e, m, a):
        e.oblige(m is molecule and a is fa, 'sequence:of-this-molecule-and-source-attribute')
        return seq

    def cdm(e, s):
        e.oblige(isinstance(s, (SV, Box)) and z3.eq(to_z3(s), seq.e), 'converted:the-whole-sequence')
        return conv

    def ann(e, m, a, s):
        e.oblige(m is molecule and a is ta and isinstance(s, (SV, Box)) and z3.eq(to_z3(s), conv.e), 'annotated:with-the-converted-sequence-as-target-attribute')
        list_append(e, CALLS, 1)
    cx.spec_env['sequence_from_residues'] = Builtin(sfr, 'sequence_from_residues')
    cx.spec_env['convert_dssp_to_martini'] = Builtin(cdm, 'convert_dssp_to_martini')
    cx.spec_env['annotate_residues_from_sequence'] = Builtin(ann, 'annotate_residues_from_sequence')
    cx.spec_env['LOGGER'] = Obj('LOGGER', debug=Builtin(lambda e, *a, **k: list_append(e, DEBUG, 1), 'LOGGER.debug'))
    cx.spec_env['list'] = Builtin(lambda e, x: x, 'list')
    return dict(molecule=molecule, from_attribute=fa, to_attribute=ta)


SPEC_CDA = {
    'none_missing': "lambda: forall(lambda r: implies(0 <= r and r < len(DSSP_SEQ), DSSP_SEQ[r] is not None))",
    'all_missing': "lambda: forall(lambda r: implies(0 <= r and r < len(DSSP_SEQ), DSSP_SEQ[r] is None))",
}
convert_annotation = FunctionContract(
    F, 'convert_dssp_annotation_to_martini', 'C17', setup=setup_cda, spec_defs=SPEC_CDA,
    requires=["len(old(ANNOTATED)) == 0 and len(old(DEBUGGED)) == 0"],
    ensures=[
        # when every residue has a DSSP letter the whole sequence is converted and written back as the target attribute, once; when
        # none has one nothing is written (a debug message)
        "implies(none_missing(), len(ANNOTATED) == 1 and len(DEBUGGED) == 0)",
        "implies(not none_missing(), all_missing() and len(ANNOTATED) == 0 and len(DEBUGGED) == 1)",
    ],
    # some residues have a letter and some do not: ValueError, nothing written
    raises={'ValueError': ["not none_missing() and not all_missing()", "len(ANNOTATED) == 0"]},
    modifies=['ANNOTATED', 'DEBUGGED'],
    canary=[("if None not in dssp_sequence:", "if None in dssp_sequence:"),
            ("annotate_residues_from_sequence(molecule, to_attribute, cg_sequence)", "annotate_residues_from_sequence(molecule, from_attribute, cg_sequence)")],
)
CONTRACTS.append(convert_annotation)

"""C10 -- guessed bonds obey the stated criteria: the radius table, the search radius and the per-pair criterion."""
from pyvc.api import *
from pyvc.builtins import contains

F = 'vermouth/processors/make_bonds.py'
Node, PairKey = TKey('Node'), TKey('PairKey')

# van der Waals radii, A. Bondi, J. Phys. Chem. 68 (1964) 441, in nm; H (and D) 0.120 nm
BONDI_NM = {'H': 0.120, 'D': 0.120, 'He': 0.140, 'C': 0.170, 'N': 0.155, 'O': 0.152, 'F': 0.147, 'Ne': 0.154, 'Si': 0.210, 'P': 0.180,
            'S': 0.180, 'Cl': 0.175, 'Ar': 0.188, 'As': 0.185, 'Se': 0.190, 'Br': 0.185, 'Kr': 0.202, 'Te': 0.206, 'I': 0.198,
            'Xe': 0.216}

SPEC = {
    'radius': "lambda n: VDW_RADII[elem_of(n)]",
    # the statement's criterion for a pair returned by the neighbour search
    'crit': "lambda a, b, d: not (pairkey(a, b) in non_edges) and not (elem_of(a) == 'H' and elem_of(b) == 'H') and "
            "not (resser(a) != resser(b) and (elem_of(a) == 'H' or elem_of(b) == 'H')) and "
            "d <= (0.5 * (radius(a) + radius(b))) * fudge",
}


def world(cx):
    eng = cx.eng
    elem_of = cx.uf('elem_of', [Node], TStr)
    resser = cx.uf('resser', [Node], TInt)
    pk = cx.uf('pairkey', [Node, Node], PairKey)            # frozenset((a, b)): an unordered pair
    a, b, c, d = [z3.Const(x, Node.sort()) for x in 'abcd']
    cx.assume(z3.ForAll([a, b], pk(a, b) == pk(b, a)))
    cx.assume(z3.ForAll([a, b, c, d], z3.Implies(pk(a, b) == pk(c, d), z3.Or(z3.And(a == c, b == d), z3.And(a == d, b == c)))))
    EDGES = cx.heap('EDGES', cx.box('EDGES', TSet(PairKey)))

    def atom_view(e, n):
        o = Obj('atom')
        o.attrs['__getitem__'] = Builtin(lambda e2, k: {'element': wrap(TStr, elem_of(to_z3(n, Node))),
                                                        '_res_serial': wrap(TInt, resser(to_z3(n, Node)))}[k], 'atom[]')
        return o
    nodes = Obj('NodeView')
    nodes.attrs['__getitem__'] = Builtin(atom_view, 'nodes[]')
    graph = Obj('Graph', nodes=nodes)
    graph.attrs['has_edge'] = Builtin(lambda e, x, y: contains(e, EDGES, wrap(PairKey, pk(to_z3(x, Node), to_z3(y, Node)))), 'has_edge')

    def add_edge(e, x, y, **kw):
        EDGES.e = z3.Store(EDGES.e, pk(to_z3(x, Node), to_z3(y, Node)), True)
    graph.attrs['add_edge'] = Builtin(add_edge, 'add_edge')
    cx.spec_env['frozenset'] = Builtin(lambda e, t: wrap(PairKey, pk(to_z3(t[0], Node), to_z3(t[1], Node))), 'frozenset')
    log = Obj('LOGGER')
    log.attrs['debug'] = Builtin(lambda e, *a, **k: None, 'debug')
    cx.spec_env['LOGGER'] = log
    cx.spec_env['format_atom_string'] = Builtin(lambda e, a: 'atom', 'format_atom_string')
    # the radius table as a function of the element (its content is checked separately, entry by entry, against Bondi)
    rad = cx.uf('rad', [TStr], TReal)
    table = Obj('VDW_RADII')
    table.attrs['__getitem__'] = Builtin(lambda e, k: wrap(TReal, rad(to_z3(k, TStr))), 'VDW_RADII[]')
    table.__dict__['contains'] = cx.box('HAS_RADIUS', TSet(TStr))
    cx.spec_env['VDW_RADII'] = table
    return graph


def setup_pairs(cx):
    graph = world(cx)
    return dict(graph=graph, non_edges=cx.val('non_edges', TSet(PairKey)), fudge=cx.val('fudge', TReal),
                idx_to_nodenum=cx.val('idx_to_nodenum', TMap(TInt, Node)),
                pairs=cx.val('pairs', TMap(TTuple(TInt, TInt), TReal)))


LIVE_IN = [
    # what the first half of the function establishes (assumed for this region): only atoms with a known radius are
    # eligible; the neighbour search returns index pairs of eligible atoms (i, j) and (j, i) alike
    "forall(lambda i: implies(i in idx_to_nodenum, elem_of(idx_to_nodenum[i]) in VDW_RADII))",
    "forall(lambda i, j: implies((i, j) in pairs, i in idx_to_nodenum and j in idx_to_nodenum), TInt, TInt)",
    "forall(lambda i, j: implies(i in idx_to_nodenum and j in idx_to_nodenum and i != j, idx_to_nodenum[i] != idx_to_nodenum[j]))",
    "fudge > 0",
]
GW = TMap(PairKey, TInt)
pair_criterion = FunctionContract(
    F, '_bonds_from_distance', 'C10', short='_bonds_from_distance[criterion]', setup=setup_pairs, spec_defs=SPEC,
    spec_env=dict(Node=Node, PairKey=PairKey),
    region=dict(start="nodes = graph.nodes"),
    requires=LIVE_IN, locals=dict(g_w=GW),
    ghost_at={'entry': "g_w = {}"},
    ensures=[
        # pre-existing bonds are kept
        "forall(lambda k: implies(k in old(EDGES), k in EDGES), PairKey)",
        # a bond is added exactly when the pair was returned (i < j) and meets every criterion of the statement
        "forall(lambda q: implies(0 <= q and q < len(pairs) and keyat(pairs, q)[0] < keyat(pairs, q)[1] and "
        "   crit(idx_to_nodenum[keyat(pairs, q)[0]], idx_to_nodenum[keyat(pairs, q)[1]], pairs[keyat(pairs, q)]), "
        "   pairkey(idx_to_nodenum[keyat(pairs, q)[0]], idx_to_nodenum[keyat(pairs, q)[1]]) in EDGES))",
        "forall(lambda k: implies(k in EDGES and not (k in old(EDGES)), k in g_w and 0 <= g_w[k] and g_w[k] < len(pairs) and "
        "   keyat(pairs, g_w[k])[0] < keyat(pairs, g_w[k])[1] and "
        "   k == pairkey(idx_to_nodenum[keyat(pairs, g_w[k])[0]], idx_to_nodenum[keyat(pairs, g_w[k])[1]]) and "
        "   crit(idx_to_nodenum[keyat(pairs, g_w[k])[0]], idx_to_nodenum[keyat(pairs, g_w[k])[1]], pairs[keyat(pairs, g_w[k])])), PairKey)",
    ],
    modifies=['EDGES'],
    loops={'L1': LoopSpec(
        inv=["forall(lambda k: implies(k in old(EDGES), k in EDGES), PairKey)",
             "forall(lambda q: implies(0 <= q and q < _i and keyat(pairs, q)[0] < keyat(pairs, q)[1] and "
             "   crit(idx_to_nodenum[keyat(pairs, q)[0]], idx_to_nodenum[keyat(pairs, q)[1]], pairs[keyat(pairs, q)]), "
             "   pairkey(idx_to_nodenum[keyat(pairs, q)[0]], idx_to_nodenum[keyat(pairs, q)[1]]) in EDGES))",
             "forall(lambda k: implies(k in EDGES and not (k in old(EDGES)), k in g_w and 0 <= g_w[k] and g_w[k] < _i and "
             "   keyat(pairs, g_w[k])[0] < keyat(pairs, g_w[k])[1] and "
             "   k == pairkey(idx_to_nodenum[keyat(pairs, g_w[k])[0]], idx_to_nodenum[keyat(pairs, g_w[k])[1]]) and "
             "   crit(idx_to_nodenum[keyat(pairs, g_w[k])[0]], idx_to_nodenum[keyat(pairs, g_w[k])[1]], pairs[keyat(pairs, g_w[k])])), PairKey)"],
        modifies=['EDGES', 'g_w'], locals=dict(g_w=GW),
        ghost_pre="g_had = graph.has_edge(idx_to_nodenum[idx1], idx_to_nodenum[idx2]) if (idx1 in idx_to_nodenum and idx2 in idx_to_nodenum) else True",
        ghost_end="if idx1 < idx2 and not g_had and graph.has_edge(idx_to_nodenum[idx1], idx_to_nodenum[idx2]):\n"
                  "    g_w[frozenset((idx_to_nodenum[idx1], idx_to_nodenum[idx2]))] = _i")},
    canary=[("dist <= bond_distance * fudge", "dist < bond_distance * fudge"), ("element1 == 'H' and element2 == 'H'", "element1 == 'H' or element2 == 'H'"),
            ("if idx1 >= idx2:", "if idx1 > idx2:")],
)

CONTRACTS = [pair_criterion]
LEMMAS = []


# ------------------------------------------------------------------ _bonds_from_names: bonds and non-bonds of the reference block
BIdx = TKey('BIdx')
BPair = TTuple(BIdx, BIdx)


def setup_bfn(cx):
    graph = world(cx)
    eng = cx.eng
    name_of = cx.uf('name_of', [BIdx], TStr)                 # block.nodes[b]['atomname']
    bedges = cx.val('block_edges', TSeq(BPair))              # block.edges
    bnon = cx.val('block_non_edges', TSeq(BPair))            # networkx.non_edges(block)
    cx.spec_env['block_edges'], cx.spec_env['block_non_edges'] = bedges, bnon
    bnodes = Obj('NodeView', __getitem__=Builtin(
        lambda e, b: Obj('blockatom', __getitem__=Builtin(lambda e2, k: SV(TStr, name_of(to_z3(b, BIdx))) if k == 'atomname' else
                                                          (_ for _ in ()).throw(EngineError('block atom[%r]' % (k,))), 'blockatom[]')), 'block.nodes[]'))
    block = Obj('Block', edges=bedges, nodes=bnodes)
    cx.spec_env['nx'] = Obj('nx', non_edges=Builtin(lambda e, b: bnon, 'nx.non_edges'))
    # positions only feed the `distance` attribute of the new edges, which the property does not mention
    vec = Obj('vector')
    vec.attrs['__sub__'] = Builtin(lambda e, o: vec, '-')
    vec.attrs['__pow__'] = Builtin(lambda e, o: vec, '**')
    cx.spec_env['np'] = Obj('numpy', array=Builtin(lambda e, x: vec, 'array'), full=Builtin(lambda e, *a: vec, 'full'), nan=0,
                            sqrt=Builtin(lambda e, x: 0, 'sqrt'), sum=Builtin(lambda e, x: 0, 'sum'))
    gnodes = graph.attrs['nodes']
    old_item = gnodes.attrs['__getitem__']

    def node_item(e, n):
        o = e.call(old_item, [n], {})
        o.attrs['get'] = Builtin(lambda e2, k, d=None: vec if k == 'position' else (_ for _ in ()).throw(EngineError('atom.get(%r)' % (k,))), 'atom.get')
        return o
    gnodes.attrs['__getitem__'] = Builtin(node_item, 'nodes[]')
    return dict(graph=graph, block=block, mol_name_to_idx=cx.val('mol_name_to_idx', TMap(TStr, Node)))


SPEC_BFN = {
    'present': "lambda b: name_of(b) in mol_name_to_idx",
    'atom': "lambda b: mol_name_to_idx[name_of(b)]",
}
bonds_from_names = FunctionContract(
    F, '_bonds_from_names', 'C10', short='_bonds_from_names[block bonds and non-bonds]', setup=setup_bfn, spec_defs=SPEC_BFN,
    spec_env=dict(Node=Node, PairKey=PairKey, BIdx=BIdx),
    region=dict(start="for block_idx, block_jdx in block.edges:"),
    locals=dict(non_edges=TSet(PairKey), g_w=TMap(PairKey, TInt), g_v=TMap(PairKey, TInt)), result_ty=TSet(PairKey),
    ghost_at={'entry': "g_w = {}\ng_v = {}"},
    ensures=[
        # the name-based bonds are exactly the block's bonds among the atoms present (by atom name); existing bonds are kept
        "forall(lambda q: implies(0 <= q and q < len(block_edges) and present(block_edges[q][0]) and present(block_edges[q][1]), "
        "   pairkey(atom(block_edges[q][0]), atom(block_edges[q][1])) in EDGES))",
        "forall(lambda k: implies(k in EDGES and not (k in old(EDGES)), 0 <= g_w[k] and g_w[k] < len(block_edges) and "
        "   present(block_edges[g_w[k]][0]) and present(block_edges[g_w[k]][1]) and "
        "   k == pairkey(atom(block_edges[g_w[k]][0]), atom(block_edges[g_w[k]][1]))), PairKey)",
        "forall(lambda k: implies(k in old(EDGES), k in EDGES), PairKey)",
        # the non-bonds handed to the distance search are exactly the block's non-bonds among the atoms present
        "forall(lambda q: implies(0 <= q and q < len(block_non_edges) and present(block_non_edges[q][0]) and present(block_non_edges[q][1]), "
        "   pairkey(atom(block_non_edges[q][0]), atom(block_non_edges[q][1])) in result))",
        "forall(lambda k: implies(k in result, 0 <= g_v[k] and g_v[k] < len(block_non_edges) and present(block_non_edges[g_v[k]][0]) and "
        "   present(block_non_edges[g_v[k]][1]) and k == pairkey(atom(block_non_edges[g_v[k]][0]), atom(block_non_edges[g_v[k]][1]))), PairKey)",
    ],
    modifies=['EDGES'],
    loops={
        'L1': LoopSpec(
            inv=["forall(lambda q: implies(0 <= q and q < _i and present(block_edges[q][0]) and present(block_edges[q][1]), "
                 "   pairkey(atom(block_edges[q][0]), atom(block_edges[q][1])) in EDGES))",
                 "forall(lambda k: implies(k in EDGES and not (k in old(EDGES)), 0 <= g_w[k] and g_w[k] < _i and "
                 "   present(block_edges[g_w[k]][0]) and present(block_edges[g_w[k]][1]) and "
                 "   k == pairkey(atom(block_edges[g_w[k]][0]), atom(block_edges[g_w[k]][1]))), PairKey)",
                 "forall(lambda k: implies(k in old(EDGES), k in EDGES), PairKey)"],
            modifies=['EDGES', 'g_w'], locals=dict(g_w=TMap(PairKey, TInt)),
            ghost_pre="g_E = set(EDGES)",
            ghost_end="if block_idx_name in mol_name_to_idx and block_jdx_name in mol_name_to_idx:\n"
                      "    if not (frozenset((graph_idx, graph_jdx)) in g_E):\n"
                      "        g_w[frozenset((graph_idx, graph_jdx))] = _i"),
        'L2': LoopSpec(
            inv=["forall(lambda q: implies(0 <= q and q < _i and present(block_non_edges[q][0]) and present(block_non_edges[q][1]), "
                 "   pairkey(atom(block_non_edges[q][0]), atom(block_non_edges[q][1])) in non_edges))",
                 "forall(lambda k: implies(k in non_edges, 0 <= g_v[k] and g_v[k] < _i and present(block_non_edges[g_v[k]][0]) and "
                 "   present(block_non_edges[g_v[k]][1]) and k == pairkey(atom(block_non_edges[g_v[k]][0]), atom(block_non_edges[g_v[k]][1]))), PairKey)"],
            modifies=['non_edges', 'g_v'], locals=dict(non_edges=TSet(PairKey), g_v=TMap(PairKey, TInt)),
            ghost_pre="g_N = set(non_edges)",
            ghost_end="if block_idx_name in mol_name_to_idx and block_jdx_name in mol_name_to_idx:\n"
                      "    if not (frozenset((mol_name_to_idx[block_idx_name], mol_name_to_idx[block_jdx_name])) in g_N):\n"
                      "        g_v[frozenset((mol_name_to_idx[block_idx_name], mol_name_to_idx[block_jdx_name]))] = _i"),
    },
    canary=[("graph.add_edge(graph_idx, graph_jdx, distance=dist)", "graph.add_edge(graph_idx, graph_idx, distance=dist)"),
            ("if block_idx_name in mol_name_to_idx and block_jdx_name in mol_name_to_idx:\n            non_edges.add",
             "if block_idx_name in mol_name_to_idx or block_jdx_name in mol_name_to_idx:\n            non_edges.add")],
)
CONTRACTS.append(bonds_from_names)


# ------------------------------------------------------------------ make_bonds: which distance searches are run, with what
ResKey = TTuple(TInt, TStr, TInt, TStr, TStr)               # (mol_idx, chain, resid, resname, insertion_code)
Call = TTuple(TInt, TReal, TBool, names=['residue', 'fudge', 'non_edges_given'])   # residue = -1: the whole system


def setup_mb(cx):
    eng = cx.eng
    from pyvc.values import IterV
    from pyvc.builtins import _int, list_append, setitem
    from pyvc.interp import PyExc
    nres = cx.val('n_residues', TInt)
    cx.spec_env['n_residues'] = nres
    cx.assume(nres.e >= 0)
    reskey = cx.uf('reskey', [TInt], ResKey)
    atoms_of = cx.uf('atoms_of', [TInt], TSeq(Node))       # the atoms of the k-th residue group
    named = cx.uf('named', [TInt], TSet(PairKey))          # what _bonds_from_names returns for it
    names_ok = cx.uf('names_ok', [TInt], TBool)            # ... or whether it raises KeyError
    keymsg = cx.uf('keymsg', [TInt], TStr)
    k_ = z3.Int('k')
    cx.assume(z3.ForAll([k_], TSeq(Node).len(atoms_of(k_)) >= 0))
    CALLS = cx.heap('CALLS', Box(TSeq(Call)))
    FINAL_NE = cx.heap('FINAL_NE', cx.box('FINAL_NE', TSet(PairKey)))   # the non_edges of the whole-system search
    RESSER = cx.heap('RESSER', cx.box('RESSER', TMap(Node, TInt)))
    WARNED = cx.heap('WARNED', Box(TSeq(TStr)))

    class ResAtoms:
        def __init__(self, k):
            self.k = k
    groups = Obj('residue_groups')

    def items(e):
        def get(i):
            i = _int(i)
            o = Obj('idxs')
            o.__dict__['res'] = i
            o.__dict__['iter'] = SV(TSeq(Node), atoms_of(i))
            return (wrap(ResKey, reskey(i)), o)
        return IterV(nres.e, get)
    groups.attrs['items'] = Builtin(items, 'residue_groups.items')
    groups.attrs['values'] = Builtin(lambda e: Obj('groups.values'), 'residue_groups.values')
    cx.spec_env['collect_residues'] = Builtin(lambda e, g, keys: groups, 'collect_residues')

    def node_view(e, n):
        o = Obj('atomdict')
        o.attrs['__setitem__'] = Builtin(lambda e2, k, v: setitem(e2, RESSER, n, v) if k == '_res_serial' else
                                         (_ for _ in ()).throw(EngineError('atom[%r] = ...' % (k,))), 'atom[]=')
        return o
    nodes = Obj('NodeView')
    nodes.attrs['__getitem__'] = Builtin(node_view, 'nodes[]')
    system = cx.obj('Graph', nodes=nodes)
    ff = Obj('ForceField', name=cx.val('ffname', TStr))

    def bfn(e, graph, resname, idxs, force_field):
        if graph is not system or force_field is not ff:
            raise EngineError('_bonds_from_names on another graph / force field')
        k = idxs.__dict__['res']
        if e.branch(names_ok(k)):
            return SV(TSet(PairKey), named(k))
        raise PyExc('KeyError', (SV(TStr, keymsg(k)),), e.line)
    cx.spec_env['_bonds_from_names'] = Builtin(bfn, '_bonds_from_names')

    def bfd(e, graph, nodes=None, non_edges=None, fudge=1.2):
        if graph is not system:
            raise EngineError('_bonds_from_distance on another graph')
        from contracts.c15 import _real_
        res = nodes.__dict__['res'] if nodes is not None else z3.IntVal(-1)
        if non_edges is not None:
            FINAL_NE.e = to_z3(non_edges, TSet(PairKey))
        list_append(e, CALLS, (SV(TInt, res), SV(TReal, _real_(e, fudge)), non_edges is not None))
    cx.spec_env['_bonds_from_distance'] = Builtin(bfd, '_bonds_from_distance')
    log = Obj('LOGGER')
    log.attrs['warning'] = Builtin(lambda e, *a, type=None, **k: list_append(e, WARNED, type), 'LOGGER.warning')
    cx.spec_env['LOGGER'] = log
    cx.spec_env['str'] = Builtin(lambda e, x: x.args[0] if type(x).__name__ == 'ExcValue' else (_ for _ in ()).throw(EngineError('str()')), 'str')
    return dict(system=system, force_field=ff, allow_name=cx.val('allow_name', TBool), allow_dist=cx.val('allow_dist', TBool),
                fudge=cx.val('fudge', TReal))


SPEC_MB = {
    # the residues whose bonds could not be taken from the names (and fall back to the distance search)
    'fell_back': "lambda k: allow_name and not names_ok(k)",
    'ne_upto': "lambda s, n: forall(lambda q: (q in s) == exists(lambda k: 0 <= k and k < n and allow_name and names_ok(k) and q in named(k)), PairKey)",
}
make_bonds_calls = FunctionContract(
    F, 'make_bonds', 'C10', short='make_bonds[distance searches]', setup=setup_mb, spec_defs=SPEC_MB,
    spec_env=dict(Node=Node, PairKey=PairKey),
    region=dict(start="non_edges = set()", end="molecules = []"),
    locals=dict(non_edges=TSet(PairKey), g_idx=TMap(TInt, TInt)),
    requires=["len(old(CALLS)) == 0", "len(old(WARNED)) == 0"],
    ghost_at={'entry': "g_idx = {}"},
    ensures=[
        # every distance search runs on the united system with the caller's fudge factor
        "forall(lambda c: implies(0 <= c and c < len(CALLS), CALLS[c].fudge == fudge))",
        # no distance search at all unless distance-based bonds are allowed
        "implies(not allow_dist, len(CALLS) == 0)",
        # with them allowed: the last search is the one over the whole system, and it is given as non-bonds exactly what the
        # name-based step reported for the residues it could handle
        "implies(allow_dist, len(CALLS) >= 1 and CALLS[len(CALLS) - 1].residue == -1 and CALLS[len(CALLS) - 1].non_edges_given and "
        "   ne_upto(FINAL_NE, n_residues))",
        # the searches before it are per-residue fall-backs: one for each residue whose names failed, in order, without non-bonds
        "forall(lambda c: implies(0 <= c and c < len(CALLS) - 1, 0 <= CALLS[c].residue and CALLS[c].residue < n_residues and "
        "   fell_back(CALLS[c].residue) and not CALLS[c].non_edges_given and g_idx[CALLS[c].residue] == c))",
        "implies(allow_dist, forall(lambda k: implies(0 <= k and k < n_residues and fell_back(k), k in g_idx and 0 <= g_idx[k] and "
        "   g_idx[k] < len(CALLS) - 1 and CALLS[g_idx[k]].residue == k)))",
        # every atom of the k-th residue group is labelled with the serial k
        "forall(lambda k, j: implies(0 <= k and k < n_residues and 0 <= j and j < len(atoms_of(k)) and "
        "   forall(lambda k2, j2: implies(k < k2 and k2 < n_residues and 0 <= j2 and j2 < len(atoms_of(k2)), atoms_of(k2)[j2] != atoms_of(k)[j])), "
        "   RESSER[atoms_of(k)[j]] == k))",
        # one warning per residue whose names failed
        "implies(not allow_name, len(WARNED) == 0)",
    ],
    modifies=['CALLS', 'FINAL_NE', 'RESSER', 'WARNED'],
    loops={
        'L1': LoopSpec(
            inv=["forall(lambda c: implies(0 <= c and c < len(CALLS), CALLS[c].fudge == fudge and 0 <= CALLS[c].residue and "
                 "   CALLS[c].residue < _i and fell_back(CALLS[c].residue) and not CALLS[c].non_edges_given and g_idx[CALLS[c].residue] == c))",
                 "implies(not allow_dist, len(CALLS) == 0)",
                 "implies(allow_dist, forall(lambda k: implies(0 <= k and k < _i and fell_back(k), k in g_idx and 0 <= g_idx[k] and "
                 "   g_idx[k] < len(CALLS) and CALLS[g_idx[k]].residue == k)))",
                 "ne_upto(non_edges, _i)",
                 "forall(lambda k, j: implies(0 <= k and k < _i and 0 <= j and j < len(atoms_of(k)) and "
                 "   forall(lambda k2, j2: implies(k < k2 and k2 < _i and 0 <= j2 and j2 < len(atoms_of(k2)), atoms_of(k2)[j2] != atoms_of(k)[j])), "
                 "   RESSER[atoms_of(k)[j]] == k))",
                 "implies(not allow_name, len(WARNED) == 0)"],
            modifies=['CALLS', 'RESSER', 'WARNED', 'non_edges', 'g_idx'], locals=dict(g_idx=TMap(TInt, TInt), g_c0=TInt),
            ghost_pre="g_c0 = len(CALLS)",
            ghost_end="if len(CALLS) > g_c0:\n    g_idx[_i] = g_c0"),
        'L1.1': LoopSpec(
            inv=["forall(lambda j: implies(0 <= j and j < _i, RESSER[atoms_of(_iL1)[j]] == res_serial))",
                 "forall(lambda k, j: implies(0 <= k and k < _iL1 and 0 <= j and j < len(atoms_of(k)) and "
                 "   forall(lambda k2, j2: implies(k < k2 and k2 <= _iL1 and 0 <= j2 and j2 < len(atoms_of(k2)), atoms_of(k2)[j2] != atoms_of(k)[j])), "
                 "   RESSER[atoms_of(k)[j]] == k))"],
            modifies=['RESSER']),
    },
    canary=[("_bonds_from_distance(system, idxs, fudge=fudge)", "_bonds_from_distance(system, idxs)"),
            ("_bonds_from_distance(system, non_edges=non_edges, fudge=fudge)", "_bonds_from_distance(system, fudge=fudge)"),
            ("system.nodes[idx]['_res_serial'] = res_serial", "system.nodes[idx]['_res_serial'] = mol_idx")],
)
CONTRACTS.append(make_bonds_calls)

import ast as _ast
import os as _os


def extra_obligations(tier):
    obs = []

    def ob(name, ok, detail):
        obs.append(dict(name=name, status='unsat' if ok else 'sat', backend='ast-eval', detail=detail, key=name, function='VDW_RADII'))
    try:
        src = open(_os.path.join(_os.environ.get('VERIF_REPO', '/repo'), F)).read()
        tree = _ast.parse(src)
        table = next(_ast.literal_eval(st.value) for st in tree.body if isinstance(st, _ast.Assign)
                     and isinstance(st.targets[0], _ast.Name) and st.targets[0].id == 'VDW_RADII')
        for el in sorted(set(table) | set(BONDI_NM)):
            ob('table:VDW_RADII:%s' % el, el in table and el in BONDI_NM and abs(table[el] - BONDI_NM[el]) < 1e-12,
               'VDW_RADII[%r] = %r nm, Bondi: %r nm' % (el, table.get(el), BONDI_NM.get(el)))
        fn = next(st for st in tree.body if isinstance(st, _ast.FunctionDef) and st.name == '_bonds_from_distance')
        call = next(n for n in _ast.walk(fn) if isinstance(n, _ast.Call) and isinstance(n.func, _ast.Attribute)
                    and n.func.attr == 'sparse_distance_matrix')
        radius = _ast.unparse(call.args[1])
        scale = [_ast.unparse(st) for st in _ast.walk(fn) if isinstance(st, _ast.AugAssign) and _ast.unparse(st.target) == 'max_dist']
        # every pair meeting the criterion lies within the search radius:
        #   criterion threshold fudge * (r_a + r_b) / 2 <= fudge * max_r = max_dist  (r_a, r_b <= max_r, fudge > 0)
        obs.append(dict(name='search-radius:sufficient', status='unsat' if (radius == 'max_dist' and scale == ['max_dist *= fudge']) else 'sat',
                        backend='ast-eval', detail='search radius is %s with %s; needed: fudge * max_r' % (radius, scale),
                        key='search-radius:sufficient', function='_bonds_from_distance'))
        pos = next(n for n in _ast.walk(fn) if isinstance(n, _ast.ListComp) and 'position' in _ast.unparse(n))
        obs.append(dict(name='positions:follow-idx_to_nodenum', status='unsat' if _ast.unparse(pos.generators[0].iter) == 'idx_to_nodenum.values()' else 'sat',
                        backend='ast-eval', detail='position rows are taken from %s (row i must be the atom idx_to_nodenum[i])' % _ast.unparse(pos.generators[0].iter),
                        key='positions:follow-idx_to_nodenum', function='_bonds_from_distance'))
    except Exception as ex:
        obs.append(dict(name='table:extraction', status='unknown', backend='ast-eval', detail='%s: %s' % (type(ex).__name__, ex), key='table:extraction'))
    return obs

from contracts import graph_utils as _gu
CONTRACTS.append(_gu.collect_residues('C10', _gu.ATTRS_BONDS))      # as make_bonds calls it
CONTRACTS.append(_gu.partition_graph('C10'))


# ------------------------------------------------------------------ make_bonds: residues are never split between molecules
MolT = TKey('MolT')


def setup_mols(cx):
    from pyvc.values import IterV
    from pyvc.builtins import _int
    ATOMS = cx.val('ATOMS', TSet(Node))                     # the atoms of the united system
    n_res = cx.val('n_res', TInt)
    COMPS = cx.val('COMPS', TSeq(TSet(TInt)))               # networkx.connected_components(residue_graph), in its order
    cx.spec_env.update(ATOMS=ATOMS, n_res=n_res, COMPS=COMPS)
    ratoms = cx.uf('ratoms', [TInt], TSet(Node))            # residue_graph.nodes[r]['graph']: the atoms of residue r
    res_of = cx.uf('res_of', [Node], TInt)
    comp_of = cx.uf('comp_of', [TInt], TInt)
    redge = cx.uf('redge', [TInt, TInt], TBool)             # an edge of the residue graph: some bond joins atoms of the two residues
    matoms = cx.uf('matoms', [MolT], TSet(Node))            # the atoms of a molecule that is built
    r, s, c = z3.Ints('qr qs qc')
    n = z3.Const('qn', Node.sort())
    R, st = n_res.e, TSeq(TSet(TInt))
    cx.assume(R >= 0)
    # partition_graph by its contract (proved below): one node per residue group, holding exactly its atoms; the groups partition
    # the atoms (collect_residues' contract)
    cx.assume(z3.ForAll([n], z3.Implies(z3.Select(ATOMS.e, n), z3.And(0 <= res_of(n), res_of(n) < R, z3.Select(ratoms(res_of(n)), n)))))
    cx.assume(z3.ForAll([r, n], z3.Implies(z3.And(0 <= r, r < R, z3.Select(ratoms(r), n)), z3.And(z3.Select(ATOMS.e, n), res_of(n) == r)),
                        patterns=[z3.Select(ratoms(r), n)]))
    # networkx.connected_components by its contract: the nodes of the residue graph are partitioned into sets that are closed
    # under its edges
    cx.assume(z3.ForAll([r], z3.Implies(z3.And(0 <= r, r < R), z3.And(0 <= comp_of(r), comp_of(r) < st.len(COMPS.e),
                                                                     z3.Select(st.at(COMPS.e, comp_of(r)), r))), patterns=[comp_of(r)]))
    cx.assume(z3.ForAll([c, r], z3.Implies(z3.And(0 <= c, c < st.len(COMPS.e), z3.Select(st.at(COMPS.e, c), r)),
                                           z3.And(0 <= r, r < R, comp_of(r) == c)), patterns=[z3.Select(st.at(COMPS.e, c), r)]))
    cx.assume(z3.ForAll([r, s], z3.Implies(z3.And(0 <= r, r < R, 0 <= s, s < R, redge(r, s)), comp_of(r) == comp_of(s))))
    groups = Obj('residue_groups', values=Builtin(lambda e: groups_values, 'residue_groups.values'))
    groups_values = Obj('groups.values')
    system = Obj('Graph')
    rg = Obj('residue_graph', nodes=Obj('NodeView', __getitem__=Builtin(
        lambda e, rr: Obj('resattrs', __getitem__=Builtin(lambda e2, k: SV(TSet(Node), ratoms(to_z3(rr, TInt))) if k == 'graph' else
                                                          (_ for _ in ()).throw(EngineError('residue[%r]' % (k,))), 'residue[]')), 'residue_graph.nodes[]')))
    cx.spec_env['partition_graph'] = Builtin(
        lambda e, g, parts: rg if (g is system and parts is groups_values) else (_ for _ in ()).throw(EngineError('partition_graph of something else')),
        'partition_graph')
    cx.spec_env['nx'] = Obj('networkx', connected_components=Builtin(
        lambda e, g: COMPS if g is rg else (_ for _ in ()).throw(EngineError('connected_components of another graph')), 'networkx.connected_components'))

    def subgraph(e, nodes):
        o = Obj('subgraph')
        o.__dict__['nodeset'] = to_z3(nodes, TSet(Node))
        return o
    system.attrs['subgraph'] = Builtin(subgraph, 'system.subgraph')

    def molecule(e, g):
        m = e.fresh_val(MolT, 'mol')
        e.assume(matoms(m.e) == g.__dict__['nodeset'])
        return m
    cx.spec_env['Molecule'] = Builtin(molecule, 'Molecule')
    return dict(system=system, residue_groups=groups)


MOLS_OF = ("forall(lambda c: implies(0 <= c and c < {I}, forall(lambda n: (n in matoms({M}[c])) == (n in ATOMS and comp_of(res_of(n)) == c), Node)))")
make_bonds_molecules = FunctionContract(
    F, 'make_bonds', 'C10', short='make_bonds[molecules]', setup=setup_mols, spec_env=dict(Node=Node, MolT=MolT),
    region=dict(start="molecules = []", end="return molecules"),
    locals=dict(molecules=TSeq(MolT)),
    ensures=[
        # one molecule per connected component of the residue graph, holding exactly the atoms of the residues of that component:
        "len(molecules) == len(COMPS)", MOLS_OF.format(I='len(COMPS)', M='molecules'),
        # so no atom is lost and none is in two molecules, a residue is never split, and residues joined by a bond end up together
        "forall(lambda n: implies(n in ATOMS, 0 <= comp_of(res_of(n)) and comp_of(res_of(n)) < len(molecules) and "
        "   n in matoms(molecules[comp_of(res_of(n))])), Node)",
        "forall(lambda n, c, d: implies(0 <= c and c < d and d < len(molecules), not (n in matoms(molecules[c]) and n in matoms(molecules[d]))), Node, TInt, TInt)",
        "forall(lambda n, m, c: implies(n in ATOMS and m in ATOMS and res_of(n) == res_of(m) and 0 <= c and c < len(molecules), "
        "   (n in matoms(molecules[c])) == (m in matoms(molecules[c]))), Node, Node, TInt)",
        "forall(lambda n, m, c: implies(n in ATOMS and m in ATOMS and redge(res_of(n), res_of(m)) and 0 <= c and c < len(molecules), "
        "   (n in matoms(molecules[c])) == (m in matoms(molecules[c]))), Node, Node, TInt)",
    ],
    loops={'L1': LoopSpec(inv=["len(molecules) == _i", MOLS_OF.format(I='_i', M='molecules')], modifies=['molecules'])},
    canary=[("node_idxs = set().union(*(residue_graph.nodes[rni]['graph'] for rni in res_node_idxs))",
             "node_idxs = set(residue_graph.nodes[next(iter(res_node_idxs))]['graph'])"),
            ("molecules.append(mol)", "molecules = [mol]")],
)
CONTRACTS.append(make_bonds_molecules)


# ------------------------------------------------------------------ MakeBonds.run_system: which parameters reach make_bonds
def setup_mb_run(cx):
    new_mols = cx.val('new_molecules', TSeq(MolT))
    old_mols = cx.val('old_molecules', TSeq(MolT))
    cx.spec_env.update(NEW_MOLS=new_mols, OLD_MOLS=old_mols)
    an, ad, fu = cx.val('allow_name', TBool), cx.val('allow_dist', TBool), cx.val('fudge', TReal)
    system = Obj('System', molecules=Box(TSeq(MolT), old_mols.e), force_field=Obj('ff'))

    def make_bonds_(e, s, allow_name=None, allow_dist=None, fudge=None):
        e.oblige(s is system and allow_name is an and allow_dist is ad and fudge is fu, 'make_bonds:gets-this-processor-parameters')
        return new_mols
    cx.spec_env['make_bonds'] = Builtin(make_bonds_, 'make_bonds')
    cx.spec_env['LOGGER'] = Obj('LOGGER', info=Builtin(lambda e, *a, **k: None, 'info'))
    return dict(self=Obj('MakeBonds', allow_name=an, allow_dist=ad, fudge=fu), system=system)


mb_run_system = FunctionContract(
    F, 'MakeBonds.run_system', 'C10', setup=setup_mb_run, spec_env=dict(MolT=MolT),
    ensures=[
        # a system with molecules is replaced by what make_bonds returns for it, called with the processor's own switches and fudge
        # factor; an empty system is left alone
        "implies(len(OLD_MOLS) > 0, len(system.molecules) == len(NEW_MOLS) and "
        "   forall(lambda i: implies(0 <= i and i < len(NEW_MOLS), system.molecules[i] == NEW_MOLS[i])))",
        "implies(len(OLD_MOLS) == 0, len(system.molecules) == 0)",
    ],
    modifies=['system.molecules'],
    canary=[("fudge=self.fudge)", "fudge=1.2)"), ("system.molecules = mols", "pass")],
)
CONTRACTS.append(mb_run_system)


# ------------------------------------------------------------------ _bonds_from_names: which atoms of the residue carry which name
AName = TKey('AName')


def setup_names(cx):
    nodes = cx.val('NODES', TSeq(TInt))                      # the atoms of the residue
    cx.spec_env.update(NODES=nodes, AName=AName)
    has_name = cx.uf('has_name', [TInt], TBool)
    name_of = cx.uf('name_of', [TInt], AName)

    def node(e, k):
        ke = to_z3(k, TInt)
        return Obj('atomdict',
                   __contains__=Builtin(lambda e2, a: wrap(TBool, has_name(ke)) if a == 'atomname' else (_ for _ in ()).throw(EngineError('%r in node' % (a,))), 'in node'),
                   __getitem__=Builtin(lambda e2, a: SV(AName, name_of(ke)) if a == 'atomname' else (_ for _ in ()).throw(EngineError('node[%r]' % (a,))), 'node[]'))
    return dict(nodes=nodes, graph=Obj('graph', nodes=Obj('NodeView', __getitem__=Builtin(node, 'graph.nodes[]'))))


SPEC_NAMES = {
    'named': "lambda g, nm, n: exists(lambda p: 0 <= p and p < n and NODES[p] == g and has_name(g) and name_of(g) == nm)",
}
names_table = FunctionContract(
    F, '_bonds_from_names', 'C10', short='_bonds_from_names[atoms by name]', setup=setup_names, spec_defs=SPEC_NAMES,
    region=dict(start="mol_name_to_idx = defaultdict(set)", end="mol_name_to_idx = dict(mol_name_to_idx)"),
    locals=dict(mol_name_to_idx=TMap(AName, TSet(TInt))),
    ensures=[
        # the table lists, under every atom name that occurs in the residue, exactly the atoms of the residue that carry it (atoms
        # without a name are left out) - the table the duplicate-name check and the name-based bonds are read from
        "forall(lambda nm, g: (nm in mol_name_to_idx and g in mol_name_to_idx[nm]) == named(g, nm, len(NODES)), AName, TInt)",
        "forall(lambda nm: implies(nm in mol_name_to_idx, exists(lambda p: 0 <= p and p < len(NODES) and has_name(NODES[p]) and name_of(NODES[p]) == nm)), AName)",
    ],
    loops={'L1': LoopSpec(inv=[
        "forall(lambda nm, g: (nm in mol_name_to_idx and g in mol_name_to_idx[nm]) == named(g, nm, _i), AName, TInt)",
        "forall(lambda nm: implies(nm in mol_name_to_idx, exists(lambda p: 0 <= p and p < _i and has_name(NODES[p]) and name_of(NODES[p]) == nm)), AName)"],
        modifies=['mol_name_to_idx'])},
    canary=[("if 'atomname' in graph.nodes[graph_idx]:", "if 'atomname' not in graph.nodes[graph_idx]:"),
            ("mol_name_to_idx[graph.nodes[graph_idx]['atomname']].add(graph_idx)", "mol_name_to_idx[graph.nodes[graph_idx]['atomname']] = {graph_idx}")],
)
CONTRACTS.append(names_table)

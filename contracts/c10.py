"""C10 -- guessed bonds obey the stated criteria: the radius table, the search radius and the per-pair criterion."""
from pyvc.api import *
from pyvc.builtins import contains

F = 'vermouth/processors/make_bonds.py'
Node, PairKey = TKey('Node'), TKey('PairKey')

# van der Waals radii, A. Bondi, J. Phys. Chem. 68 (1964) 441, in nm; H (and D) 0.120 nm
BONDI_NM = {'H': 0.120, 'D': 0.120, 'He': 0.140, 'C': 0.170, 'N': 0.155, 'O': 0.152, 'F': 0.147, 'Ne': 0.154, 'Si': 0.210, 'P': 0.180,
            'S': 0.180, 'Cl': 0.175, 'Ar': 0.188, 'As': 0.185, 'Se': 0.190, 'Br': 0.185, 'Kr': 0.202, 'Te': 0.206, 'I': 0.198,
            'Xe': 0.216}

SPEC = {
    'radius': "lambda n: VDW_RADII[elem_of(n)]",
    # the statement's criterion for a pair returned by the neighbour search
    'crit': "lambda a, b, d: not (pairkey(a, b) in non_edges) and not (elem_of(a) == 'H' and elem_of(b) == 'H') and "
            "not (resser(a) != resser(b) and (elem_of(a) == 'H' or elem_of(b) == 'H')) and "
            "d <= (0.5 * (radius(a) + radius(b))) * fudge",
}


def world(cx):
    eng = cx.eng
    elem_of = cx.uf('elem_of', [Node], TStr)
    resser = cx.uf('resser', [Node], TInt)
    pk = cx.uf('pairkey', [Node, Node], PairKey)            # frozenset((a, b)): an unordered pair
    a, b, c, d = [z3.Const(x, Node.sort()) for x in 'abcd']
    cx.assume(z3.ForAll([a, b], pk(a, b) == pk(b, a)))
    cx.assume(z3.ForAll([a, b, c, d], z3.Implies(pk(a, b) == pk(c, d), z3.Or(z3.And(a == c, b == d), z3.And(a == d, b == c)))))
    EDGES = cx.heap('EDGES', cx.box('EDGES', TSet(PairKey)))

    def atom_view(e, n):
        o = Obj('atom')
        o.attrs['__getitem__'] = Builtin(lambda e2, k: {'element': wrap(TStr, elem_of(to_z3(n, Node))),
                                                        '_res_serial': wrap(TInt, resser(to_z3(n, Node)))}[k], 'atom[]')
        return o
    nodes = Obj('NodeView')
    nodes.attrs['__getitem__'] = Builtin(atom_view, 'nodes[]')
    graph = Obj('Graph', nodes=nodes)
    graph.attrs['has_edge'] = Builtin(lambda e, x, y: contains(e, EDGES, wrap(PairKey, pk(to_z3(x, Node), to_z3(y, Node)))), 'has_edge')

    def add_edge(e, x, y, **kw):
        EDGES.e = z3.Store(EDGES.e, pk(to_z3(x, Node), to_z3(y, Node)), True)
    graph.attrs['add_edge'] = Builtin(add_edge, 'add_edge')
    cx.spec_env['frozenset'] = Builtin(lambda e, t: wrap(PairKey, pk(to_z3(t[0], Node), to_z3(t[1], Node))), 'frozenset')
    log = Obj('LOGGER')
    log.attrs['debug'] = Builtin(lambda e, *a, **k: None, 'debug')
    cx.spec_env['LOGGER'] = log
    cx.spec_env['format_atom_string'] = Builtin(lambda e, a: 'atom', 'format_atom_string')
    # the radius table as a function of the element (its content is checked separately, entry by entry, against Bondi)
    rad = cx.uf('rad', [TStr], TReal)
    table = Obj('VDW_RADII')
    table.attrs['__getitem__'] = Builtin(lambda e, k: wrap(TReal, rad(to_z3(k, TStr))), 'VDW_RADII[]')
    table.__dict__['contains'] = cx.box('HAS_RADIUS', TSet(TStr))
    cx.spec_env['VDW_RADII'] = table
    return graph


def setup_pairs(cx):
    graph = world(cx)
    return dict(graph=graph, non_edges=cx.val('non_edges', TSet(PairKey)), fudge=cx.val('fudge', TReal),
                idx_to_nodenum=cx.val('idx_to_nodenum', TMap(TInt, Node)),
                pairs=cx.val('pairs', TMap(TTuple(TInt, TInt), TReal)))


LIVE_IN = [
    # what the first half of the function establishes (assumed for this region): only atoms with a known radius are
    # eligible; the neighbour search returns index pairs of eligible atoms (i, j) and (j, i) alike
    "forall(lambda i: implies(i in idx_to_nodenum, elem_of(idx_to_nodenum[i]) in VDW_RADII))",
    "forall(lambda i, j: implies((i, j) in pairs, i in idx_to_nodenum and j in idx_to_nodenum), TInt, TInt)",
    "forall(lambda i, j: implies(i in idx_to_nodenum and j in idx_to_nodenum and i != j, idx_to_nodenum[i] != idx_to_nodenum[j]))",
    "fudge > 0",
]
GW = TMap(PairKey, TInt)
pair_criterion = FunctionContract(
    F, '_bonds_from_distance', 'C10', short='_bonds_from_distance[criterion]', setup=setup_pairs, spec_defs=SPEC,
    spec_env=dict(Node=Node, PairKey=PairKey),
    region=dict(start="nodes = graph.nodes"),
    requires=LIVE_IN, locals=dict(g_w=GW),
    ghost_at={'entry': "g_w = {}"},
    ensures=[
        # pre-existing bonds are kept
        "forall(lambda k: implies(k in old(EDGES), k in EDGES), PairKey)",
        # a bond is added exactly when the pair was returned (i < j) and meets every criterion of the statement
        "forall(lambda q: implies(0 <= q and q < len(pairs) and keyat(pairs, q)[0] < keyat(pairs, q)[1] and "
        "   crit(idx_to_nodenum[keyat(pairs, q)[0]], idx_to_nodenum[keyat(pairs, q)[1]], pairs[keyat(pairs, q)]), "
        "   pairkey(idx_to_nodenum[keyat(pairs, q)[0]], idx_to_nodenum[keyat(pairs, q)[1]]) in EDGES))",
        "forall(lambda k: implies(k in EDGES and not (k in old(EDGES)), k in g_w and 0 <= g_w[k] and g_w[k] < len(pairs) and "
        "   keyat(pairs, g_w[k])[0] < keyat(pairs, g_w[k])[1] and "
        "   k == pairkey(idx_to_nodenum[keyat(pairs, g_w[k])[0]], idx_to_nodenum[keyat(pairs, g_w[k])[1]]) and "
        "   crit(idx_to_nodenum[keyat(pairs, g_w[k])[0]], idx_to_nodenum[keyat(pairs, g_w[k])[1]], pairs[keyat(pairs, g_w[k])])), PairKey)",
    ],
    modifies=['EDGES'],
    loops={'L1': LoopSpec(
        inv=["forall(lambda k: implies(k in old(EDGES), k in EDGES), PairKey)",
             "forall(lambda q: implies(0 <= q and q < _i and keyat(pairs, q)[0] < keyat(pairs, q)[1] and "
             "   crit(idx_to_nodenum[keyat(pairs, q)[0]], idx_to_nodenum[keyat(pairs, q)[1]], pairs[keyat(pairs, q)]), "
             "   pairkey(idx_to_nodenum[keyat(pairs, q)[0]], idx_to_nodenum[keyat(pairs, q)[1]]) in EDGES))",
             "forall(lambda k: implies(k in EDGES and not (k in old(EDGES)), k in g_w and 0 <= g_w[k] and g_w[k] < _i and "
             "   keyat(pairs, g_w[k])[0] < keyat(pairs, g_w[k])[1] and "
             "   k == pairkey(idx_to_nodenum[keyat(pairs, g_w[k])[0]], idx_to_nodenum[keyat(pairs, g_w[k])[1]]) and "
             "   crit(idx_to_nodenum[keyat(pairs, g_w[k])[0]], idx_to_nodenum[keyat(pairs, g_w[k])[1]], pairs[keyat(pairs, g_w[k])])), PairKey)"],
        modifies=['EDGES', 'g_w'], locals=dict(g_w=GW),
        ghost_pre="g_had = graph.has_edge(idx_to_nodenum[idx1], idx_to_nodenum[idx2]) if (idx1 in idx_to_nodenum and idx2 in idx_to_nodenum) else True",
        ghost_end="if idx1 < idx2 and not g_had and graph.has_edge(idx_to_nodenum[idx1], idx_to_nodenum[idx2]):\n"
                  "    g_w[frozenset((idx_to_nodenum[idx1], idx_to_nodenum[idx2]))] = _i")},
    canary=[("dist <= bond_distance * fudge", "dist < bond_distance * fudge"), ("element1 == 'H' and element2 == 'H'", "element1 == 'H' or element2 == 'H'"),
            ("if idx1 >= idx2:", "if idx1 > idx2:")],
)

CONTRACTS = [pair_criterion]
LEMMAS = []

import ast as _ast
import os as _os


def extra_obligations(tier):
    obs = []

    def ob(name, ok, detail):
        obs.append(dict(name=name, status='unsat' if ok else 'sat', backend='ast-eval', detail=detail, key=name, function='VDW_RADII'))
    try:
        src = open(_os.path.join(_os.environ.get('VERIF_REPO', '/repo'), F)).read()
        tree = _ast.parse(src)
        table = next(_ast.literal_eval(st.value) for st in tree.body if isinstance(st, _ast.Assign)
                     and isinstance(st.targets[0], _ast.Name) and st.targets[0].id == 'VDW_RADII')
        for el in sorted(set(table) | set(BONDI_NM)):
            ob('table:VDW_RADII:%s' % el, el in table and el in BONDI_NM and abs(table[el] - BONDI_NM[el]) < 1e-12,
               'VDW_RADII[%r] = %r nm, Bondi: %r nm' % (el, table.get(el), BONDI_NM.get(el)))
        fn = next(st for st in tree.body if isinstance(st, _ast.FunctionDef) and st.name == '_bonds_from_distance')
        call = next(n for n in _ast.walk(fn) if isinstance(n, _ast.Call) and isinstance(n.func, _ast.Attribute)
                    and n.func.attr == 'sparse_distance_matrix')
        radius = _ast.unparse(call.args[1])
        scale = [_ast.unparse(st) for st in _ast.walk(fn) if isinstance(st, _ast.AugAssign) and _ast.unparse(st.target) == 'max_dist']
        # every pair meeting the criterion lies within the search radius:
        #   criterion threshold fudge * (r_a + r_b) / 2 <= fudge * max_r = max_dist  (r_a, r_b <= max_r, fudge > 0)
        obs.append(dict(name='search-radius:sufficient', status='unsat' if (radius == 'max_dist' and scale == ['max_dist *= fudge']) else 'sat',
                        backend='ast-eval', detail='search radius is %s with %s; needed: fudge * max_r' % (radius, scale),
                        key='search-radius:sufficient', function='_bonds_from_distance'))
        pos = next(n for n in _ast.walk(fn) if isinstance(n, _ast.ListComp) and 'position' in _ast.unparse(n))
        obs.append(dict(name='positions:follow-idx_to_nodenum', status='unsat' if _ast.unparse(pos.generators[0].iter) == 'idx_to_nodenum.values()' else 'sat',
                        backend='ast-eval', detail='position rows are taken from %s (row i must be the atom idx_to_nodenum[i])' % _ast.unparse(pos.generators[0].iter),
                        key='positions:follow-idx_to_nodenum', function='_bonds_from_distance'))
    except Exception as ex:
        obs.append(dict(name='table:extraction', status='unknown', backend='ast-eval', detail='%s: %s' % (type(ex).__name__, ex), key='table:extraction'))
    return obs

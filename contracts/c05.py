"""C05 -- links are applied at exactly the places where they fit: the residue-order relations."""
from pyvc.api import *

F = 'vermouth/processors/do_links.py'

SPEC = {
    # a valid symbolic order string: non-empty, one repeated character out of > < *
    'allsame': "lambda s: forall(lambda i: implies(0 <= i and i < len(s), s[i] == s[0]))",
    'valid_str': "lambda s: len(s) >= 1 and allsame(s) and (s[0] == '>' or s[0] == '<' or s[0] == '*')",
    'valid_order': "lambda o: True if isinstance(o, int) else valid_str(o)",
    # the documented meaning of an order value: (type, value)
    'otype': "lambda o: 'number' if isinstance(o, int) else ('*' if o[0] == '*' else '><')",
    'oval': "lambda o: o if isinstance(o, int) else (len(o) if o[0] != '<' else -len(o))",
    'sgn': "lambda x: 1 if x > 0 else (-1 if x < 0 else 0)",
    # the comparison matrix of the documentation (rows = order1, columns = order2); d = resid2 - resid1
    'matrix': ("lambda t1, v1, t2, v2, d: "
               "(v2 - v1 == d) if (t1 == 'number' and t2 == 'number') else ("
               "(sgn(d) == sgn(v2)) if (t1 == 'number' and v1 == 0 and t2 == '><') else ("
               "(d != 0) if (t1 == 'number' and v1 == 0 and t2 == '*') else ("
               "(sgn(-d) == sgn(v1)) if (t1 == '><' and t2 == 'number' and v2 == 0) else ("
               "(sgn(d) == sgn(v2 - v1)) if (t1 == '><' and t2 == '><') else ("
               "(d != 0) if (t1 == '*' and t2 == 'number' and v2 == 0) else ("
               "((v1 == v2) == (d == 0)) if (t1 == '*' and t2 == '*') else True))))))"),
}

IO_ENSURES = ["valid_order(order)", "result[0] == otype(order)", "result[1] == oval(order)"]
IO_RAISES = {'ValueError': ["not valid_order(order)"]}
RES = TTuple(TStr, TInt)

interpret_int = FunctionContract(F, '_interpret_order', 'C05', short='_interpret_order[int]', spec_defs=SPEC,
                                 setup=lambda cx: dict(order=cx.val('order', TInt)),
                                 ensures=IO_ENSURES, raises=IO_RAISES, result_ty=RES)
interpret_str = FunctionContract(F, '_interpret_order', 'C05', short='_interpret_order[str]', spec_defs=SPEC,
                                 setup=lambda cx: dict(order=cx.val('order', TStr)),
                                 ensures=IO_ENSURES, raises=IO_RAISES, result_ty=RES,
                                 canary=[("first_character not in '><*'", "first_character not in '><*+'"),
                                         ("signs = {'>': +1, '<': -1}", "signs = {'>': +1, '<': +1}")])


def mo(t1, t2):
    return FunctionContract(
        F, 'match_order', 'C05', short='match_order[%s,%s]' % (t1.name, t2.name), spec_defs=SPEC,
        setup=lambda cx: dict(order1=cx.val('order1', t1), resid1=cx.val('resid1', TInt),
                              order2=cx.val('order2', t2), resid2=cx.val('resid2', TInt)),
        ensures=["valid_order(order1) and valid_order(order2)",
                 "result == matrix(otype(order1), oval(order1), otype(order2), oval(order2), resid2 - resid1)"],
        raises={'ValueError': ["not (valid_order(order1) and valid_order(order2))"]},
        result_ty=TBool,
        canary=[("(orders[1] - orders[0]) != (resid2 - resid1)", "(orders[1] - orders[0]) != (resid1 - resid2)"),
                ("sign(resid2 - resid1) != sign(orders[1] - orders[0])", "sign(resid2 - resid1) != sign(orders[0] - orders[1])"),
                ("(orders[0] == orders[1]) != (resid1 == resid2)", "(orders[0] == orders[1]) == (resid1 == resid2)")])


CONTRACTS = [interpret_int, interpret_str, mo(TInt, TInt), mo(TInt, TStr), mo(TStr, TInt), mo(TStr, TStr)]
LEMMAS = []

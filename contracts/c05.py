"""C05 -- links are applied at exactly the places where they fit: the residue-order relations."""
from pyvc.api import *

F = 'vermouth/processors/do_links.py'

SPEC = {
    # a valid symbolic order string: non-empty, one repeated character out of > < *
    'allsame': "lambda s: forall(lambda i: implies(0 <= i and i < len(s), s[i] == s[0]))",
    'valid_str': "lambda s: len(s) >= 1 and allsame(s) and (s[0] == '>' or s[0] == '<' or s[0] == '*')",
    'valid_order': "lambda o: True if isinstance(o, int) else valid_str(o)",
    # the documented meaning of an order value: (type, value)
    'otype': "lambda o: 'number' if isinstance(o, int) else ('*' if o[0] == '*' else '><')",
    'oval': "lambda o: o if isinstance(o, int) else (len(o) if o[0] != '<' else -len(o))",
    'sgn': "lambda x: 1 if x > 0 else (-1 if x < 0 else 0)",
    # the comparison matrix of the documentation (rows = order1, columns = order2); d = resid2 - resid1
    'matrix': ("lambda t1, v1, t2, v2, d: "
               "(v2 - v1 == d) if (t1 == 'number' and t2 == 'number') else ("
               "(sgn(d) == sgn(v2)) if (t1 == 'number' and v1 == 0 and t2 == '><') else ("
               "(d != 0) if (t1 == 'number' and v1 == 0 and t2 == '*') else ("
               "(sgn(-d) == sgn(v1)) if (t1 == '><' and t2 == 'number' and v2 == 0) else ("
               "(sgn(d) == sgn(v2 - v1)) if (t1 == '><' and t2 == '><') else ("
               "(d != 0) if (t1 == '*' and t2 == 'number' and v2 == 0) else ("
               "((v1 == v2) == (d == 0)) if (t1 == '*' and t2 == '*') else True))))))"),
}

IO_ENSURES = ["valid_order(order)", "result[0] == otype(order)", "result[1] == oval(order)"]
IO_RAISES = {'ValueError': ["not valid_order(order)"]}
RES = TTuple(TStr, TInt)

interpret_int = FunctionContract(F, '_interpret_order', 'C05', short='_interpret_order[int]', spec_defs=SPEC,
                                 setup=lambda cx: dict(order=cx.val('order', TInt)),
                                 ensures=IO_ENSURES, raises=IO_RAISES, result_ty=RES)
interpret_str = FunctionContract(F, '_interpret_order', 'C05', short='_interpret_order[str]', spec_defs=SPEC,
                                 setup=lambda cx: dict(order=cx.val('order', TStr)),
                                 ensures=IO_ENSURES, raises=IO_RAISES, result_ty=RES,
                                 canary=[("first_character not in '><*'", "first_character not in '><*+'"),
                                         ("signs = {'>': +1, '<': -1}", "signs = {'>': +1, '<': +1}")])


def mo(t1, t2):
    return FunctionContract(
        F, 'match_order', 'C05', short='match_order[%s,%s]' % (t1.name, t2.name), spec_defs=SPEC,
        setup=lambda cx: dict(order1=cx.val('order1', t1), resid1=cx.val('resid1', TInt),
                              order2=cx.val('order2', t2), resid2=cx.val('resid2', TInt)),
        ensures=["valid_order(order1) and valid_order(order2)",
                 "result == matrix(otype(order1), oval(order1), otype(order2), oval(order2), resid2 - resid1)"],
        raises={'ValueError': ["not (valid_order(order1) and valid_order(order2))"]},
        result_ty=TBool,
        canary=[("(orders[1] - orders[0]) != (resid2 - resid1)", "(orders[1] - orders[0]) != (resid1 - resid2)"),
                ("sign(resid2 - resid1) != sign(orders[1] - orders[0])", "sign(resid2 - resid1) != sign(orders[0] - orders[1])"),
                ("(orders[0] == orders[1]) != (resid1 == resid2)", "(orders[0] == orders[1]) == (resid1 == resid2)")])


CONTRACTS = [interpret_int, interpret_str, mo(TInt, TInt), mo(TInt, TStr), mo(TStr, TInt), mo(TStr, TStr)]
LEMMAS = []


# ------------------------------------------------------------------ match_link: which raw matches pass the residue-order test
MIdx, LIdx, Order = TKey('MIdx'), TKey('LIdx'), TKey('Order')
Pair = TTuple(MIdx, LIdx)


def setup_ml(cx):
    eng = cx.eng
    from pyvc.values import IterV
    from pyvc.builtins import _int, getitem, b_len
    rm = cx.val('RM', TSeq(Pair))                           # raw_match.items(): (molecule atom, link atom) pairs
    cx.spec_env['RM'] = rm
    resid_of = cx.uf('resid_of', [MIdx], TInt)
    has_order = cx.uf('has_order', [LIdx], TBool)
    order_of = cx.uf('order_of', [LIdx], Order)
    mo_ = cx.uf('mo', [Order, TInt, Order, TInt], TBool)    # match_order(order1, resid1, order2, resid2): its own contracts
    raw_match = Obj('raw_match', items=Builtin(lambda e: rm, 'raw_match.items'))
    molecule = Obj('Molecule', nodes=Obj('NodeView', __getitem__=Builtin(
        lambda e, m: Obj('atom', __getitem__=Builtin(lambda e2, k: SV(TInt, resid_of(to_z3(m, MIdx))) if k == 'resid' else
                                                     (_ for _ in ()).throw(EngineError('atom[%r]' % (k,))), 'atom[]')), 'molecule.nodes[]')))

    def link_node(e, l):
        le = to_z3(l, LIdx)
        return Obj('linknode',
                   __contains__=Builtin(lambda e2, k: wrap(TBool, has_order(le)) if k == 'order' else
                                        (_ for _ in ()).throw(EngineError('%r in link node' % (k,))), 'in'),
                   __getitem__=Builtin(lambda e2, k: SV(Order, order_of(le)) if k == 'order' else
                                       (_ for _ in ()).throw(EngineError('link node[%r]' % (k,))), 'linknode[]'))
    link = Obj('Link', nodes=Obj('NodeView', __getitem__=Builtin(link_node, 'link.nodes[]')))
    cx.spec_env['match_order'] = Builtin(lambda e, o1, r1, o2, r2: wrap(TBool, mo_(to_z3(o1, Order), to_z3(r1, TInt), to_z3(o2, Order),
                                                                           to_z3(r2, TInt))), 'match_order')
    pa, pb, pk = cx.uf('pair_a', [TInt], TInt), cx.uf('pair_b', [TInt], TInt), cx.uf('pair_k', [TInt, TInt], TInt)
    NP = z3.Int('n_pairs')
    cx.spec_env['n_pairs'] = SV(TInt, NP)

    def combinations(e, items, r):
        # assumed contract of itertools.combinations(seq, 2): every pair of positions a < b exactly once
        if r != 2:
            raise EngineError('combinations(_, %r)' % (r,))
        if items.concrete is not None:
            import itertools
            return IterV(None, None, concrete=list(itertools.combinations(items.concrete, 2)))
        src = items.items_of
        mt = type_of(src)
        me = to_z3(src)
        n = mt.n(me)
        p, a, b = z3.Ints('cp ca cb')
        e.assume(NP >= 0)
        e.assume(z3.ForAll([p], z3.Implies(z3.And(0 <= p, p < NP), z3.And(0 <= pa(p), pa(p) < pb(p), pb(p) < n, pk(pa(p), pb(p)) == p))))
        e.assume(z3.ForAll([a, b], z3.Implies(z3.And(0 <= a, a < b, b < n), z3.And(0 <= pk(a, b), pk(a, b) < NP, pa(pk(a, b)) == a,
                                                                            pb(pk(a, b)) == b)),
                           patterns=[pk(a, b)]))

        def item(i):
            k = mt.key_at(me, i)
            return (SV(mt.k, k), SV(mt.v, mt.at(me, k)))
        return IterV(NP, lambda q: (item(pa(_int(q))), item(pb(_int(q)))))
    cx.spec_env['combinations'] = Builtin(combinations, 'combinations')
    return dict(molecule=molecule, link=link, raw_match=raw_match)


SPEC_ML = {
    'm': "lambda k: RM[k][0]",
    'l': "lambda k: RM[k][1]",
    # all matched atoms whose link atoms carry the same order lie in one residue
    'consistent': "lambda: forall(lambda a, b: implies(0 <= a and a < len(RM) and 0 <= b and b < len(RM) and has_order(l(a)) and "
                  "has_order(l(b)) and order_of(l(a)) == order_of(l(b)), resid_of(m(a)) == resid_of(m(b))))",
    # every two different orders that occur relate their residues as match_order demands
    # (pair_a(p) < pair_b(p), p < n_pairs, enumerate all pairs of positions in order_match: itertools.combinations)
    'pairs_ok': "lambda om: forall(lambda p: implies(0 <= p and p < n_pairs, "
                "mo(keyat(om, pair_a(p)), om[keyat(om, pair_a(p))], keyat(om, pair_b(p)), om[keyat(om, pair_b(p))])))",
}
ML_INV = [
    "forall(lambda k: implies(0 <= k and k < _i and has_order(l(k)), order_of(l(k)) in order_match and "
    "   order_match[order_of(l(k))] == resid_of(m(k))))",
    "forall(lambda o: implies(o in order_match, o in g_first and 0 <= g_first[o] and g_first[o] < _i and has_order(l(g_first[o])) and "
    "   order_of(l(g_first[o])) == o and order_match[o] == resid_of(m(g_first[o]))), Order)",
    "len(__yielded__) == 0",
]
match_link_orders = FunctionContract(
    F, 'match_link', 'C05', short='match_link[order test of one raw match]', setup=setup_ml, spec_defs=SPEC_ML,
    spec_env=dict(MIdx=MIdx, LIdx=LIdx, Order=Order),
    region=dict(within=["for raw_match in raw_matches:"], start="order_match = {}"),
    locals=dict(order_match=TMap(Order, TInt), g_first=TMap(Order, TInt)),
    result_ty=TSeq(TMap(LIdx, MIdx)),
    requires=["forall(lambda a, b: implies(0 <= a and a < b and b < len(RM), l(a) != l(b) and m(a) != m(b)))"],
    ghost_at={'entry': "g_first = {}"},
    ensures=[
        "len(result) <= 1",
        # the raw match is passed on exactly when the orders are consistent and pairwise compatible
        "implies(len(result) == 1, consistent())", "implies(len(result) == 1, pairs_ok(order_match))",
        "implies(consistent() and pairs_ok(order_match), len(result) == 1)",
        # (then order_match holds exactly the orders that occur, each with the residue number of its atoms)
        "implies(len(result) == 1, forall(lambda k: implies(0 <= k and k < len(RM) and has_order(l(k)), order_of(l(k)) in order_match and "
        "   order_match[order_of(l(k))] == resid_of(m(k)))) and "
        "   forall(lambda o: implies(o in order_match, 0 <= g_first[o] and g_first[o] < len(RM) and has_order(l(g_first[o])) and "
        "   order_of(l(g_first[o])) == o), Order))",
        # ... as the inverse map: link atom -> molecule atom
        "implies(len(result) == 1, forall(lambda k: implies(0 <= k and k < len(RM), l(k) in result[0] and result[0][l(k)] == m(k))))",
    ],
    loops={
        'L1': LoopSpec(inv=ML_INV, modifies=['order_match', 'g_first'], locals=dict(order_match=TMap(Order, TInt), g_first=TMap(Order, TInt), g_n0=TInt),
                       ghost_pre="g_n0 = len(order_match)",
                       ghost_end="if len(order_match) > g_n0:\n    g_first[order] = _i"),
        'L2': LoopSpec(inv=["forall(lambda p: implies(0 <= p and p < _i, mo(keyat(order_match, pair_a(p)), order_match[keyat(order_match, pair_a(p))], "
                            "   keyat(order_match, pair_b(p)), order_match[keyat(order_match, pair_b(p))])))",
                            "len(__yielded__) == 0"], modifies=[]),
    },
    canary=[("elif order in order_match and order_match[order] != resid:", "elif order in order_match and order_match[order] == resid:"),
            ("if not match_order(order1, resid1, order2, resid2):", "if match_order(order1, resid1, order2, resid2):"),
            ("yield {v: k for k, v in raw_match.items()}", "pass")],
)
CONTRACTS.append(match_link_orders)


# ------------------------------------------------------------------ _is_valid_non_edges: the absent bonds of a link
NEAttr = TKey('NEAttr')
NonEdge = TTuple(LIdx, NEAttr)


def setup_ne(cx):
    from pyvc.builtins import contains
    ne = cx.val('non_edges', TSeq(NonEdge))
    cx.spec_env['non_edges'] = ne
    in_link = cx.uf('in_link', [LIdx], TBool)                  # from_node in link
    mol_of = cx.uf('mol_of', [LIdx], MIdx)                     # rev_raw_match[from_node]
    resid_of = cx.uf('resid_of', [MIdx], TInt)
    ne_order = cx.uf('ne_order', [NEAttr], TInt)               # to_node_attrs.get('order', 0)
    nbrs = cx.uf('nbrs', [MIdx], TSeq(MIdx))                   # molecule.neighbors(atom)
    am = cx.uf('atoms_match', [MIdx, NEAttr], TBool)           # _atoms_match(molecule atom, template)
    cx.uf('l_order', [LIdx], TInt)                             # the order of a link atom (0 = the reference residue)
    m_ = z3.Const('m', MIdx.sort())
    cx.assume(z3.ForAll([m_], TSeq(MIdx).len(nbrs(m_)) >= 0))
    link = Obj('Link', non_edges=ne)
    link.attrs['__contains__'] = Builtin(lambda e, l: wrap(TBool, in_link(to_z3(l, LIdx))), 'in link')
    rev = Obj('rev_raw_match', __getitem__=Builtin(lambda e, l: SV(MIdx, mol_of(to_z3(l, LIdx))), 'rev_raw_match[]'))
    mnodes = Obj('NodeView', __getitem__=Builtin(
        lambda e, m: Obj('atom', key=m, __getitem__=Builtin(lambda e2, k: SV(TInt, resid_of(to_z3(m, MIdx))) if k == 'resid' else
                                                           (_ for _ in ()).throw(EngineError('atom[%r]' % (k,))), 'atom[]')), 'molecule.nodes[]'))
    molecule = Obj('Molecule', nodes=mnodes, neighbors=Builtin(lambda e, m: SV(TSeq(MIdx), nbrs(to_z3(m, MIdx))), 'molecule.neighbors'))
    cx.spec_env['_atoms_match'] = Builtin(lambda e, atom, tmpl: wrap(TBool, am(to_z3(atom.attrs['key'], MIdx), to_z3(tmpl, NEAttr))), '_atoms_match')
    eng = cx.eng
    eng.methods[('NEAttr', 'get')] = lambda e, a, k, d=None: SV(TInt, ne_order(to_z3(a, NEAttr))) if (k == 'order' and d == 0) else \
        (_ for _ in ()).throw(EngineError('non-edge template .get(%r)' % (k,)))
    return dict(molecule=molecule, link=link, rev_raw_match=rev)


SPEC_NE = {
    'anchor': "lambda q: mol_of(non_edges[q][0])",
    # the j-th neighbour of the q-th non-edge's anchor is an atom that the non-edge forbids: it matches the template and
    # lies in the residue the template's order points to (counted from the anchor's residue)
    'forbidden': "lambda q, j: in_link(non_edges[q][0]) and 0 <= j and j < len(nbrs(anchor(q))) and "
                 "resid_of(nbrs(anchor(q))[j]) == resid_of(anchor(q)) - l_order(non_edges[q][0]) + ne_order(non_edges[q][1]) and "
                 "atoms_match(nbrs(anchor(q))[j], non_edges[q][1])",
}
valid_non_edges = FunctionContract(
    F, '_is_valid_non_edges', 'C05', short='_is_valid_non_edges[anchors on the reference residue]', setup=setup_ne, spec_defs=SPEC_NE,
    spec_env=dict(MIdx=MIdx, LIdx=LIdx, NEAttr=NEAttr),
    # the case in which the code's reading and the documented one agree: the anchor of every non-edge has order 0 (every
    # shipped link is written that way; the other case is the recorded known finding of C05, decided by the bounded layer)
    requires=["forall(lambda q: implies(0 <= q and q < len(non_edges), l_order(non_edges[q][0]) == 0))"],
    ghost_at={'entry': "g_q = -1\ng_j = -1", 'before:stmt:return False': "g_q = _iL1\ng_j = _i"},
    locals=dict(g_q=TInt, g_j=TInt),
    ensures=[
        # the placement is valid exactly when no anchor has a bonded neighbour that a non-edge forbids
        "implies(result, forall(lambda q, j: implies(0 <= q and q < len(non_edges), not forbidden(q, j))))",
        "implies(not result, 0 <= g_q and g_q < len(non_edges) and forbidden(g_q, g_j))",
    ],
    loops={'L1': LoopSpec(inv=["forall(lambda q, j: implies(0 <= q and q < _i, not forbidden(q, j)))"]),
           'L1.1': LoopSpec(inv=["forall(lambda q, j: implies(0 <= q and q < _iL1, not forbidden(q, j)))",
                                 "forall(lambda j: implies(0 <= j and j < _i, not forbidden(_iL1, j)))",
                                 "in_link(non_edges[_iL1][0]) and from_mol_node_name == anchor(_iL1) and from_resid == resid_of(anchor(_iL1))"])},
    canary=[("if to_resid == from_resid + to_order and _atoms_match(to_mol, to_link):", "if to_resid == from_resid and _atoms_match(to_mol, to_link):"),
            ("if from_node not in link:\n            continue", "if from_node not in link:\n            return False")],
)
CONTRACTS.append(valid_non_edges)


# ------------------------------------------------------------------ attributes_match: molecule atom against link template
AKeyN, AVal = TKey('AttrName'), TKey('AttrVal')
FM = 'vermouth/molecule.py'


def setup_am(cx):
    eng = cx.eng
    is_pred = cx.uf('is_pred', [AVal], TBool)                           # isinstance(value, LinkPredicate)
    pmatch = cx.uf('pred_match', [AVal, TMap(AKeyN, AVal), AKeyN], TBool)   # value.match(attributes, attr)
    attrs = cx.val('attributes', TMap(AKeyN, AVal))
    cx.spec_env['isinstance'] = Builtin(lambda e, v, cls: wrap(TBool, is_pred(to_z3(v, AVal))), 'isinstance')
    cx.spec_env['LinkPredicate'] = Obj('LinkPredicate')
    eng.methods[('AttrVal', 'match')] = lambda e, v, a, k: wrap(TBool, pmatch(to_z3(v, AVal), to_z3(a, TMap(AKeyN, AVal)), to_z3(k, AKeyN)))
    ign = cx.val('ignored', TSet(AKeyN))
    return dict(attributes=attrs, template_attributes=cx.val('template_attributes', TMap(AKeyN, AVal)), ignore_keys=ign)


attributes_match = FunctionContract(
    FM, 'attributes_match', 'C05', setup=setup_am, spec_env=dict(AttrName=AKeyN, AttrVal=AVal),
    spec_defs={'ok': "lambda a: a in ignore_keys or (a in attributes and attributes[a] == template_attributes[a]) or "
                     "(is_pred(template_attributes[a]) and pred_match(template_attributes[a], attributes, a))"},
    ghost_at={'entry': "g_bad = keyat(template_attributes, 0)", 'before:stmt:return False': "g_bad = attr"},
    locals=dict(g_bad=AKeyN),
    ensures=[
        # the atom matches the template exactly when every template attribute that is not ignored is equal to the atom's, or
        # is a predicate that accepts the atom
        "implies(result, forall(lambda a: implies(a in template_attributes, ok(a)), AttrName))",
        "implies(not result, g_bad in template_attributes and not ok(g_bad))",
    ],
    loops={'L1': LoopSpec(inv=["forall(lambda a: implies(a in template_attributes and posof(template_attributes, a) < _i, ok(a)), AttrName)"])},
    canary=[("if attr in ignore_keys:\n            continue", "if attr in ignore_keys:\n            return False"),
            ("if attributes.get(attr) != value:", "if attributes.get(attr) == value:")],
)
CONTRACTS.append(attributes_match)


# ------------------------------------------------------------------ _build_link_interaction_from: a link interaction on a placement
ParamV, MetaV = TKey('ParamV'), TKey('MetaV')
LInter = TTuple(TSeq(LIdx), TSeq(ParamV), MetaV, names=['atoms', 'parameters', 'meta'])
MInter = TTuple(TSeq(MIdx), TSeq(ParamV), MetaV, names=['atoms', 'parameters', 'meta'])


def setup_bli(cx):
    eng = cx.eng
    is_eff = cx.uf('is_effector', [ParamV], TBool)                      # callable(param): a geometry-derived parameter
    value_on = cx.uf('value_on', [ParamV, TMap(LIdx, MIdx)], ParamV)    # param(molecule, match): computed on this placement
    match = cx.val('match', TMap(LIdx, MIdx))
    i_atoms, i_params, i_meta = cx.val('link_atoms', TSeq(LIdx)), cx.val('link_parameters', TSeq(ParamV)), cx.val('link_meta', MetaV)
    cx.spec_env['callable'] = Builtin(lambda e, p: wrap(TBool, is_eff(to_z3(p, ParamV))), 'callable')
    eng.methods[('ParamV', '__call__')] = lambda e, p, mol, mt: SV(ParamV, value_on(to_z3(p, ParamV), to_z3(mt, TMap(LIdx, MIdx))))
    o = Obj('Interaction', atoms=i_atoms, parameters=i_params, meta=i_meta)
    o.attrs['_replace'] = Builtin(lambda e, atoms=None, parameters=None: (atoms, parameters, o.attrs['meta']), '_replace')
    cx.spec_env['I0'] = Obj('I0', atoms=i_atoms, parameters=i_params, meta=i_meta)
    return dict(molecule=Obj('Molecule'), interaction=o, match=match)


build_link_interaction = FunctionContract(
    F, '_build_link_interaction_from', 'C05', setup=setup_bli, spec_env=dict(MIdx=MIdx, LIdx=LIdx),
    requires=["forall(lambda j: implies(0 <= j and j < len(I0.atoms), I0.atoms[j] in match))"],
    ensures=[
        # the interaction is placed on exactly the atoms that the placement assigns to the link's atoms, in order;
        "len(result[0]) == len(I0.atoms) and forall(lambda j: implies(0 <= j and j < len(I0.atoms), result[0][j] == match[I0.atoms[j]]))",
        # geometry-derived parameters are computed from this placement, the others are kept; the meta data are kept
        "len(result[1]) == len(I0.parameters) and forall(lambda j: implies(0 <= j and j < len(I0.parameters), result[1][j] == "
        "   (value_on(I0.parameters[j], match) if is_effector(I0.parameters[j]) else I0.parameters[j])))",
        "result[2] == I0.meta",
    ],
    canary=[("param(molecule, match) if callable(param) else param", "param if callable(param) else param"),
            ("atoms = tuple(match[idx] for idx in interaction.atoms)", "atoms = tuple(match[interaction.atoms[0]] for idx in interaction.atoms)")],
)
CONTRACTS.append(build_link_interaction)


# ------------------------------------------------------------------ _pattern_match / _any_pattern_match: the patterns of a link
LKey, MKey, MAttr, TAttr = TKey('LKey'), TKey('MKey'), TKey('MAttr'), TKey('TAttr')
PatAtom = TTuple(LKey, TAttr)


def pm_world(cx):
    raw = cx.val('raw_match', TMap(LKey, MKey))            # link atom -> molecule atom
    attrs_of = cx.uf('attrs_of', [MKey], MAttr)            # molecule.nodes[key]
    amatch = cx.uf('amatch', [MAttr, TAttr], TBool)        # _atoms_match(molecule atom, template atom)
    cx.spec_env['_atoms_match'] = Builtin(lambda e, a, t: wrap(TBool, amatch(to_z3(a, MAttr), to_z3(t, TAttr))), '_atoms_match')
    cx.spec_env['RAW'] = raw
    molecule = Obj('Molecule', nodes=Obj('NodeView', __getitem__=Builtin(lambda e, k: SV(MAttr, attrs_of(to_z3(k, MKey))), 'molecule.nodes[]')))
    return molecule, raw


def setup_pm(cx):
    molecule, raw = pm_world(cx)
    return dict(molecule=molecule, atoms=cx.val('atoms', TSeq(PatAtom)), raw_match=raw)


SPEC_PM = {
    # the q-th atom of the pattern P fits the molecule atom the match assigns to it
    'fits': "lambda P, q: amatch(attrs_of(RAW[P[q][0]]), P[q][1])",
    'pattern_ok': "lambda P: forall(lambda q: implies(0 <= q and q < len(P), fits(P, q)))",
}
pattern_match = FunctionContract(
    F, '_pattern_match', 'C05', setup=setup_pm, spec_defs=SPEC_PM, spec_env=dict(LKey=LKey, MKey=MKey),
    requires=["forall(lambda q: implies(0 <= q and q < len(atoms), atoms[q][0] in RAW))"],
    locals=dict(g_bad=TInt), ghost_at={'entry': "g_bad = 0", 'before:stmt:return False': "g_bad = _i"},
    ensures=[
        # a pattern matches exactly when every one of its atoms fits the molecule atom assigned to it
        "implies(result, pattern_ok(atoms))",
        "implies(not result, 0 <= g_bad and g_bad < len(atoms) and not fits(atoms, g_bad))",
    ],
    loops={'L1': LoopSpec(inv=["forall(lambda q: implies(0 <= q and q < _i, fits(atoms, q)))"])},
    canary=[("if not _atoms_match(molecule_attr, template_attr):", "if _atoms_match(molecule_attr, template_attr):"),
            ("for link_key, template_attr in atoms:", "for link_key, template_attr in atoms[1:]:")],
)
CONTRACTS.append(pattern_match)


def setup_apm(cx):
    molecule, raw = pm_world(cx)
    amatch, attrs_of = cx.eng.uf('amatch', [MAttr, TAttr], TBool), cx.eng.uf('attrs_of', [MKey], MAttr)
    pt, mt = TSeq(PatAtom), TMap(LKey, MKey)

    def pattern_match_(e, mol, atoms, rm):
        # _pattern_match by its contract (proved above): True exactly when every atom of the pattern fits
        if mol is not molecule or rm is not raw:
            raise EngineError('_pattern_match on another molecule / match')
        ae = to_z3(atoms, pt)
        q = z3.FreshInt('pq')
        return wrap(TBool, z3.ForAll([q], z3.Implies(z3.And(0 <= q, q < pt.len(ae)),
                                                     amatch(attrs_of(mt.at(raw.e, PatAtom.get(pt.at(ae, q), 0))), PatAtom.get(pt.at(ae, q), 1)))))
    cx.spec_env['_pattern_match'] = Builtin(pattern_match_, '_pattern_match')
    return dict(molecule=molecule, patterns=cx.val('patterns', TSeq(TSeq(PatAtom))), rev_raw_match=raw)


any_pattern_match = FunctionContract(
    F, '_any_pattern_match', 'C05', setup=setup_apm, spec_defs=SPEC_PM, spec_env=dict(LKey=LKey, MKey=MKey),
    requires=["forall(lambda p, q: implies(0 <= p and p < len(patterns) and 0 <= q and q < len(patterns[p]), patterns[p][q][0] in RAW))"],
    ensures=[
        # ... and a list of patterns is satisfied exactly when one of them matches (none when the list is empty)
        "result == exists(lambda p: 0 <= p and p < len(patterns) and pattern_ok(patterns[p]))",
    ],
    canary=[("return any(", "return all(")],
)
CONTRACTS.append(any_pattern_match)


# ------------------------------------------------------------------ DoLinks.run_molecule: what one placement of a link does
LInter, BAtoms, BParams, BMeta, Cites = TKey('LInter'), TKey('BAtoms'), TKey('BParams'), TKey('BMeta'), TKey('Cites')
IType = TKey('IType')                                      # an interaction type (a string; abstract: z3 strings are slow under quantifiers)
Ev = TTuple(IType, BAtoms, BParams, BMeta, names=['type', 'atoms', 'parameters', 'meta'])
TypeInters = TTuple(IType, TSeq(LInter), names=['type', 'inters'])
InterTable = TSeq(TypeInters)                               # the items of an interaction dictionary, in its order


def setup_place(cx):
    from pyvc.builtins import list_append
    REM = cx.val('REM', InterTable)                         # link.removed_interactions.items()
    ADD = cx.val('ADD', InterTable)                         # link.interactions.items()
    cx.spec_env.update(REM=REM, ADD=ADD)
    EV_REM = cx.heap('EV_REM', cx.box('EV_REM', TSeq(Ev)))  # calls of molecule.remove_matching_interaction, in order
    EV_ADD = cx.heap('EV_ADD', cx.box('EV_ADD', TSeq(Ev)))  # calls of molecule.add_or_replace_interaction, in order
    # _build_link_interaction_from(molecule, interaction, match) by its contract (proved above): the interaction placed on the
    # atoms this placement assigns, with its geometry-derived parameters computed on them
    atoms_on, params_on, meta_of = cx.uf('atoms_on', [LInter], BAtoms), cx.uf('params_on', [LInter], BParams), cx.uf('meta_of', [LInter], BMeta)
    absent = cx.uf('absent', [IType, LInter], TBool)         # remove_matching_interaction finds nothing to remove (ValueError)
    match = Obj('match')
    cites = cx.val('citations', Cites)
    link = Obj('Link', removed_interactions=Obj('dict', items=Builtin(lambda e: REM, 'removed_interactions.items')),
               interactions=Obj('dict', items=Builtin(lambda e: ADD, 'interactions.items')), citations=cites)
    built = {}

    def build(e, mol, interaction, m):
        if mol is not molecule or m is not match:
            raise EngineError('_build_link_interaction_from on another molecule / placement')
        ie = to_z3(interaction, LInter)
        t = (SV(BAtoms, atoms_on(ie)), SV(BParams, params_on(ie)), SV(BMeta, meta_of(ie)))
        built[id(t)] = ie
        return t
    cx.spec_env['_build_link_interaction_from'] = Builtin(build, '_build_link_interaction_from')

    def remove_matching(e, ty, inter):
        li = built.get(id(inter))
        if li is None:
            raise EngineError('remove_matching_interaction of something _build_link_interaction_from did not build')
        list_append(e, EV_REM, (ty,) + tuple(inter))
        e.maybe_raise(z3.Not(absent(to_z3(ty, IType), li)), 'ValueError')

    def add_or_replace(e, ty, atoms, parameters, meta, citations):
        if citations is not cites:
            raise EngineError('add_or_replace_interaction with other citations')
        list_append(e, EV_ADD, (ty, atoms, parameters, meta))
    molecule = Obj('Molecule', remove_matching_interaction=Builtin(remove_matching, 'molecule.remove_matching_interaction'),
                   add_or_replace_interaction=Builtin(add_or_replace, 'molecule.add_or_replace_interaction'))
    return dict(molecule=molecule, link=link, match=match)


SPEC_PLACE = {
    'is_ev': "lambda e, t, li: e.type == t and e.atoms == atoms_on(li) and e.parameters == params_on(li) and e.meta == meta_of(li)",
}


def _place_inv(T, EVN, off, I):
    return [
        # the interactions of the types handled so far have been passed on, each once, type by type and in order:
        # those of the k-th type stand at off[k] .. off[k] + their number
        "len({off}) == {I} and forall(lambda k: implies(0 <= k and k < {I}, 0 <= {off}[k] and {off}[k] + len({T}[k].inters) <= len({EV}) and "
        "   {off}[k] + len({T}[k].inters) == ({off}[k + 1] if k + 1 < {I} else len({EV}))))".format(T=T, EV=EVN, off=off, I=I),
        "forall(lambda k, i: implies(0 <= k and k < {I} and 0 <= i and i < len({T}[k].inters), "
        "   is_ev({EV}[{off}[k] + i], {T}[k].type, {T}[k].inters[i])))".format(T=T, EV=EVN, off=off, I=I),
        "implies({I} == 0, len({EV}) == 0) and implies({I} > 0, {off}[0] == 0)".format(EV=EVN, off=off, I=I),
    ]


def _place_inner(T, EVN, snap):
    return [
        "len({EV}) == len({snap}) + _i".format(EV=EVN, snap=snap),
        "forall(lambda i: implies(0 <= i and i < _i, is_ev({EV}[len({snap}) + i], inter_type, interactions[i])))".format(EV=EVN, snap=snap),
        "forall(lambda p: implies(0 <= p and p < len({snap}), {EV}[p] == {snap}[p]))".format(EV=EVN, snap=snap),
    ]


def _placement_part(which, T, EVN, start, end, canary):
    return FunctionContract(
        F, 'DoLinks.run_molecule', 'C05', short='DoLinks.run_molecule[one placement: %s]' % which, setup=setup_place, spec_defs=SPEC_PLACE,
        spec_env=dict(LInter=LInter),
        region=dict(within=["for link in links:", "for match in matches:"], start=start, end=end),
        locals=dict(g_off=TSeq(TInt), g_S=TSeq(Ev)),
        requires=["len(old(%s)) == 0" % EVN],
        ghost_at={'entry': "g_off = []"},
        ensures=_place_inv(T, EVN, 'g_off', 'len(%s)' % T),
        modifies=[EVN],
        loops={
            'L1': LoopSpec(inv=_place_inv(T, EVN, 'g_off', '_i'), modifies=[EVN, 'g_off'], ghost_pre="g_off.append(len(%s))" % EVN),
            'L1.1': LoopSpec(inv=_place_inner(T, EVN, 'g_S'), modifies=[EVN], ghost_init="g_S = list(%s)" % EVN),
        },
        canary=canary)


# for one placement of a link: every interaction the link removes is looked for once (a ValueError when there is nothing to remove
# is ignored), then every interaction of the link is added or replaced once - type by type and in the link's order, each placed
# on this placement's atoms by _build_link_interaction_from, with the link's citations
CONTRACTS.append(_placement_part(
    'removals', 'REM', 'EV_REM', "for inter_type, interactions in link.removed_interactions.items():",
    "for inter_type, interactions in link.interactions.items():",
    [("molecule.remove_matching_interaction(inter_type, interaction)", "pass"),
     ("                        except ValueError:\n                            pass", "                        except ValueError:\n                            break")]))
CONTRACTS.append(_placement_part(
    'interactions', 'ADD', 'EV_ADD', "for inter_type, interactions in link.interactions.items():",
    "for loglevel, entries in link.log_entries.items():",
    [("molecule.add_or_replace_interaction(inter_type, *interaction, link.citations)", "pass"),
     ("molecule.add_or_replace_interaction(inter_type, *interaction, link.citations)",
      "molecule.add_or_replace_interaction(inter_type, *interaction, link.citations)\n                        break")]))

_P_REM, _P_ADD = CONTRACTS[-2], CONTRACTS[-1]
# ... and the two composed (block contracts): within one placement all removals are dealt with before the first addition, each list
# exactly once - the additions start from an untouched record because the removals' frame does not include it
placement_both = FunctionContract(
    F, 'DoLinks.run_molecule', 'C05', short='DoLinks.run_molecule[one placement: removals, then interactions]', setup=setup_place, spec_defs=SPEC_PLACE,
    spec_env=dict(LInter=LInter),
    region=dict(within=["for link in links:", "for match in matches:"], start="for inter_type, interactions in link.removed_interactions.items():",
                end="for loglevel, entries in link.log_entries.items():"),
    blocks=[BlockSpec.of(_P_REM), BlockSpec.of(_P_ADD)],
    locals=dict(g_off=TSeq(TInt), g_off_rem=TSeq(TInt)),
    ghost_at={'after:block:%s' % _P_REM.short: "g_off_rem = list(g_off)"},
    requires=["len(old(EV_REM)) == 0 and len(old(EV_ADD)) == 0"],
    ensures=_place_inv('REM', 'EV_REM', 'g_off_rem', 'len(REM)') + _place_inv('ADD', 'EV_ADD', 'g_off', 'len(ADD)'),
    modifies=['EV_REM', 'EV_ADD'],
)
CONTRACTS.append(placement_both)


# ------------------------------------------------------------------ DoLinks.run_molecule: what a placement does to the atoms
LNode2, MAtom2, RKey2, RVal2 = TKey('LNode2'), TKey('MAtom2'), TKey('RKey2'), TKey('RVal2')
Repl = TMap(RKey2, TOpt(RVal2))


def setup_replace(cx):
    from pyvc.values import IterV, COERCIONS
    from pyvc.builtins import _int, list_append, getitem, setitem
    eng = cx.eng
    LN = cx.val('LINK_NODES', TSeq(LNode2))                 # link.nodes, in order
    cx.spec_env['LINK_NODES'] = LN
    has_repl = cx.uf('has_replace', [LNode2], TBool)        # 'replace' in node_attrs
    repl = cx.uf('replace_of', [LNode2], Repl)              # node_attrs['replace']
    m_of = cx.uf('m_of', [LNode2], MAtom2)                  # match[node]: the atom of the molecule placed on the link atom
    n_ = z3.Const('ln', LNode2.sort())
    cx.assume(z3.ForAll([n_], Repl.inv(repl(n_))))
    atomname = z3.Const('rkey!atomname', RKey2.sort())
    COERCIONS[('Str', 'RKey2')] = lambda e: atomname if z3.is_string_value(e) and e.as_string() == 'atomname' else \
        (_ for _ in ()).throw(EngineError('replace key %s' % e))
    cx.spec_env['ATOMNAME'] = SV(RKey2, atomname)
    MOLATTR = cx.heap('MOLATTR', cx.box('MOLATTR', TMap(MAtom2, Repl)))
    REMOVE = cx.box('_nodes_to_remove', TSeq(MAtom2))

    def attrs(ne):
        o = Obj('linknode-attrs')
        o.attrs['__contains__'] = Builtin(lambda e, k: wrap(TBool, has_repl(ne)) if k == 'replace' else
                                          (_ for _ in ()).throw(EngineError('%r in node_attrs' % (k,))), 'in node_attrs')

        def item(e, k):
            if k != 'replace':
                raise EngineError('node_attrs[%r]' % (k,))
            e.maybe_raise(has_repl(ne), 'KeyError')
            r = SV(Repl, repl(ne))
            ro = Obj('replace')
            ro.__dict__['map'] = r

            def get(e2, key, d=None):
                if key == 'atomname' and d is None:
                    # .get('atomname') / .get('atomname', None): None also when the key is absent
                    return SV(TOpt(RVal2), z3.If(Repl.has(r.e, atomname), Repl.at(r.e, atomname), TOpt(RVal2).none()))
                if key != 'atomname' or d is not False:
                    raise EngineError('replace.get(%r, %r)' % (key, d))
                # .get('atomname', False): False when absent, else the value (None = "remove this atom")
                if e2.branch(Repl.has(r.e, atomname)):
                    return SV(TOpt(RVal2), Repl.at(r.e, atomname))
                return False
            ro.attrs['get'] = Builtin(get, 'replace.get')
            return ro
        o.attrs['__getitem__'] = Builtin(item, 'node_attrs[]')
        return o
    st = TSeq(LNode2)
    link = Obj('Link', nodes=Obj('NodeView', items=Builtin(
        lambda e: IterV(st.len(LN.e), lambda i: (SV(LNode2, st.at(LN.e, _int(i))), attrs(st.at(LN.e, _int(i))))), 'link.nodes.items')))
    match = Obj('match', __getitem__=Builtin(lambda e, n: SV(MAtom2, m_of(to_z3(n, LNode2))), 'match[]'))

    def mol_node(e, a):
        ae = to_z3(a, MAtom2)

        def update(e2, ro):
            cur = to_z3(getitem(e2, MOLATTR, SV(MAtom2, ae)), Repl)
            upd = ro.__dict__['map'].e
            r = e2.fresh(Repl, 'updated')
            x = z3.FreshConst(RKey2.sort(), 'uk')
            e2.assume(z3.ForAll([x], z3.And(Repl.has(r, x) == z3.Or(Repl.has(cur, x), Repl.has(upd, x)),
                                            Repl.at(r, x) == z3.If(Repl.has(upd, x), Repl.at(upd, x), Repl.at(cur, x)))))
            e2.assume(Repl.inv(r))
            setitem(e2, MOLATTR, SV(MAtom2, ae), SV(Repl, r))
        return Obj('molnode', update=Builtin(update, 'node.update'))
    molecule = Obj('Molecule', nodes=Obj('NodeView', __getitem__=Builtin(mol_node, 'molecule.nodes[]')))
    return dict(molecule=molecule, link=link, match=match, _nodes_to_remove=REMOVE)


SPEC_REPL = {
    # the link says that the atom placed on this link atom is to be removed: replace = {'atomname': None, ...}
    'drops': "lambda n: has_replace(n) and ATOMNAME in replace_of(n) and replace_of(n)[ATOMNAME] is None",
    'edits': "lambda n: has_replace(n) and not drops(n)",
}
REPL_INV = [
    "len(g_src) == len(_nodes_to_remove) - len(old(_nodes_to_remove))",
    "forall(lambda q: implies(0 <= q and q < len(g_src), 0 <= g_src[q] and g_src[q] < {I} and drops(LINK_NODES[g_src[q]]) and "
    "   _nodes_to_remove[len(old(_nodes_to_remove)) + q] == m_of(LINK_NODES[g_src[q]])))",
    "forall(lambda p, q: implies(0 <= p and p < q and q < len(g_src), g_src[p] < g_src[q]))",
    "forall(lambda i: implies(0 <= i and i < {I} and drops(LINK_NODES[i]), i in g_pos and 0 <= g_pos[i] and g_pos[i] < len(g_src) and g_src[g_pos[i]] == i))",
    "forall(lambda q: implies(0 <= q and q < len(old(_nodes_to_remove)), _nodes_to_remove[q] == old(_nodes_to_remove)[q]))",
    # an atom whose link atoms give it new attribute values carries the values of the last such link atom
    "forall(lambda a: implies(not exists(lambda i: 0 <= i and i < {I} and edits(LINK_NODES[i]) and m_of(LINK_NODES[i]) == a), "
    "   (a in MOLATTR) == (a in old(MOLATTR)) and implies(a in MOLATTR, MOLATTR[a] == old(MOLATTR)[a])), MAtom2)",
    "forall(lambda i, k: implies(0 <= i and i < {I} and edits(LINK_NODES[i]) and k in replace_of(LINK_NODES[i]) and "
    "   forall(lambda j: implies(i < j and j < {I} and edits(LINK_NODES[j]) and m_of(LINK_NODES[j]) == m_of(LINK_NODES[i]), not (k in replace_of(LINK_NODES[j])))), "
    "   k in MOLATTR[m_of(LINK_NODES[i])] and MOLATTR[m_of(LINK_NODES[i])][k] == replace_of(LINK_NODES[i])[k]), TInt, RKey2)",
]
placement_atoms = FunctionContract(
    F, 'DoLinks.run_molecule', 'C05', short='DoLinks.run_molecule[one placement: atoms]', setup=setup_replace, spec_defs=SPEC_REPL,
    spec_env=dict(LNode2=LNode2, MAtom2=MAtom2, RKey2=RKey2),
    region=dict(within=["for link in links:", "for match in matches:"], start="for node, node_attrs in link.nodes.items():",
                end="for inter_type, interactions in link.removed_interactions.items():"),
    locals=dict(g_src=TSeq(TInt), g_pos=TMap(TInt, TInt)), ghost_at={'entry': "g_src = []\ng_pos = {}"},
    requires=["forall(lambda i: implies(0 <= i and i < len(LINK_NODES) and has_replace(LINK_NODES[i]), m_of(LINK_NODES[i]) in MOLATTR))"],
    ensures=[x.format(I='len(LINK_NODES)') for x in REPL_INV],
    modifies=['MOLATTR', '_nodes_to_remove'],
    loops={'L1': LoopSpec(inv=[x.format(I='_i') for x in REPL_INV] +
                          ["forall(lambda i: implies(0 <= i and i < len(LINK_NODES) and has_replace(LINK_NODES[i]), m_of(LINK_NODES[i]) in MOLATTR))"],
                          modifies=['MOLATTR', '_nodes_to_remove', 'g_src', 'g_pos'],
                          locals=dict(g_n0=TInt), ghost_pre="g_n0 = len(_nodes_to_remove)",
                          ghost_end="if len(_nodes_to_remove) > g_n0:\n    g_src.append(_i)\n    g_pos[_i] = len(g_src) - 1")},
    canary=[("if node_attrs['replace'].get('atomname', False) is None:", "if node_attrs['replace'].get('atomname', None) is None:"),
            ("_nodes_to_remove.append(match[node])", "pass"),
            ("node_mol.update(node_attrs['replace'])", "pass")],
)
CONTRACTS.append(placement_atoms)


# ------------------------------------------------------------------ LinkParameterEffector.__call__: a parameter computed from the placement
LKey, PVal, PFmt, LMol = TKey('LKey'), TKey('PVal'), TKey('PFmt'), TKey('LMol')


def setup_lpe(cx):
    from pyvc.builtins import list_append
    eng = cx.eng
    keys = cx.val('KEYS', TSeq(LKey))                        # self.keys: atoms of the link
    match = cx.val('match', TMap(LKey, TInt))                # link atom -> atom of the molecule, for this placement
    fmt = cx.val('FORMAT', TOpt(PFmt))
    raw = cx.val('RAW', PVal)                                # what _apply returns for this call
    cx.spec_env.update(KEYS=keys, FORMAT=fmt, RAW=raw)
    CALLS = cx.heap('APPLIED', cx.box('APPLIED', TSeq(TSeq(TInt))))
    formatted = cx.uf('formatted', [PVal, TOpt(PFmt)], PVal)
    molecule = Obj('Molecule')

    def apply_(e, m, ks):
        e.oblige(m is molecule, 'computed:on-the-molecule-given')
        list_append(e, CALLS, SV(TSeq(TInt), to_z3(ks, TSeq(TInt))))
        return raw
    eng.format_hooks['{value:{format}}'] = lambda e, value=None, format=None: SV(PVal, formatted(to_z3(value, PVal), to_z3(format, TOpt(PFmt))))
    return dict(self=Obj('LinkParameterEffector', keys=keys, format=fmt, _apply=Builtin(apply_, '_apply')), molecule=molecule, match=match)


link_parameter = FunctionContract(
    FM, 'LinkParameterEffector.__call__', 'C05', setup=setup_lpe, result_ty=PVal,
    requires=["len(old(APPLIED)) == 0"],
    ensures=[
        # the value is computed, once, on the molecule given and on the atoms this placement assigns to the effector's link atoms, in
        # their order - nothing is kept from an earlier placement or another molecule - and formatted when a format was given
        "len(APPLIED) == 1 and len(APPLIED[0]) == len(KEYS)",
        "forall(lambda j: implies(0 <= j and j < len(KEYS), APPLIED[0][j] == match[KEYS[j]]))",
        "result == (RAW if FORMAT is None else formatted(RAW, FORMAT))",
    ],
    raises={'KeyError': ["exists(lambda j: 0 <= j and j < len(KEYS) and not (KEYS[j] in match))", "len(APPLIED) == 0"]},
    modifies=['APPLIED'],
    canary=[("keys = [match[key] for key in self.keys]", "keys = [match[key] for key in self.keys[1:]]"),
            ("if self.format is not None:", "if self.format is None:")],
)
CONTRACTS.append(link_parameter)

"""C08 -- warning allowances are accounted exactly; errors are never waived."""
from pyvc.api import *

Counts = TMap(TInt, TMap(TStr, TInt))
F = 'vermouth/log_helpers.py'

SPEC = {
    # count of (level, type), 0 when absent
    'cnt': "lambda c, l, t: (c[l][t] if (l in c and t in c[l]) else 0)",
    'rtype_of': "lambda r: getattr(r, 'type', 'general')",
}


def counter(cx):
    counts = cx.box('counts', Counts)
    counts.default = lambda eng: Box(TMap(TStr, TInt))     # defaultdict(lambda: defaultdict(int))
    counts.inner_default = lambda eng: 0
    return cx.obj('CountingHandler', counts=counts, default_type='general', type_attr='type')


def setup_handle(cx):
    rec = cx.obj('LogRecord', levelno=cx.val('levelno', TInt))
    has_type = cx.val('has_type', TBool)
    rec.__dict__['optional_attrs'] = {'type': (has_type.e, cx.val('rtype', TStr))}
    cx.note_input('has_type', has_type)
    return dict(self=counter(cx), record=rec)


handle = FunctionContract(
    F, 'CountingHandler.handle', 'C08', setup=setup_handle, spec_defs=SPEC,
    ensures=[
        "cnt(self.counts, record.levelno, rtype_of(record)) == cnt(old(self.counts), record.levelno, rtype_of(record)) + 1",
        "forall(lambda l, t: implies(not (l == record.levelno and t == rtype_of(record)),"
        "        cnt(self.counts, l, t) == cnt(old(self.counts), l, t)), TInt, TStr)",
    ],
)

CONTRACTS = [handle]

# ------------------------------------------------------------------ CountingHandler.number_of_counts_by
Inner = TMap(TStr, TInt)
RECS = [
    # ST(m, ty, j): sum of the first j entries (insertion order) of one level's table, filtered by type
    ('ST', [('m', Inner), ('ty', TOpt(TStr)), ('j', TInt)], TInt,
     "0 if j <= 0 else ST(m, ty, j - 1) + (m[keyat(m, j - 1)] if (ty is None or ty == keyat(m, j - 1)) else 0)"),
    # SL(c, lv, ty, i): the same over the first i levels, filtered by level >= lv
    ('SL', [('c', Counts), ('lv', TOpt(TInt)), ('ty', TOpt(TStr)), ('i', TInt)], TInt,
     "0 if i <= 0 else SL(c, lv, ty, i - 1) + "
     "(ST(c[keyat(c, i - 1)], ty, len(c[keyat(c, i - 1)])) if (lv is None or keyat(c, i - 1) >= lv) else 0)"),
]


def setup_nocb(cx):
    return dict(self=counter(cx), level=cx.val('level', TOpt(TInt)), type=cx.val('type', TOpt(TStr)))


number_of_counts_by = FunctionContract(
    F, 'CountingHandler.number_of_counts_by', 'C08', setup=setup_nocb, spec_defs=SPEC, spec_recs=RECS,
    result_ty=TInt,
    ensures=["result == SL(self.counts, level, type, len(self.counts))",
             # frame: the table is not modified
             "self.counts == old(self.counts)"],
    loops={
        'L1': LoopSpec(inv=["out == SL(self.counts, level, type, _i)"]),
        'L1.1': LoopSpec(inv=["out == SL(self.counts, level, type, _iL1) + ST(type_counts, type, _i)"]),
    },
)
CONTRACTS.append(number_of_counts_by)

# ------------------------------------------------------------------ ignore_warnings_and_count
SpecsT = TSeq(TSeq(TTuple(TOpt(TStr), TOpt(TInt))))
OStr = TOpt(TStr)

RECS2 = RECS + [
    # SG(c, lv, i): records strictly above level lv among the first i levels  ("errors")
    ('SG', [('c', Counts), ('lv', TInt), ('i', TInt)], TInt,
     "0 if i <= 0 else SG(c, lv, i - 1) + "
     "(ST(c[keyat(c, i - 1)], None, len(c[keyat(c, i - 1)])) if keyat(c, i - 1) > lv else 0)"),
    # EX(w, j): sum over the first j types with a numeric limit of the excess over the limit
    ('EX', [('w', Inner), ('j', TInt)], TInt,
     "0 if j <= 0 else EX(w, j - 1) + (max(0, w[keyat(w, j - 1)] - lim(keyat(w, j - 1))) if numeric(keyat(w, j - 1)) else 0)"),
    # RS(w, j): sum over the first j types that have neither a numeric limit nor a waiver by name
    ('RS', [('w', Inner), ('j', TInt)], TInt,
     "0 if j <= 0 else RS(w, j - 1) + "
     "(0 if (numeric(keyat(w, j - 1)) or named(keyat(w, j - 1))) else w[keyat(w, j - 1)])"),
]

SPEC2 = dict(SPEC)
SPEC2.update({
    'ent': "lambda S, a, b: S[a][b]",
    'valid': "lambda S, a, b: 0 <= a and a < len(S) and 0 <= b and b < len(S[a])",
    # entry (a, b) comes before position (I, J) of the nested traversal
    # sum(table.values()) of one level's table: all its records (convention of the engine's sum())
    'SUMV': "lambda m, i: ST(m, None, i)",
    'before': "lambda S, a, b, I, J: 0 <= a and 0 <= b and ((a < I and a < len(S) and b < len(S[a])) or (a == I and b < J))",
})


def uf_decls(cx):
    cx.uf('numeric', [OStr], TBool)
    cx.uf('named', [OStr], TBool)
    cx.uf('lim', [OStr], TInt)
    for n in ('we', 'wm', 'wd'):
        cx.uf(n + '_a', [OStr], TInt)
        cx.uf(n + '_b', [OStr], TInt)


def setup_iwc(cx):
    uf_decls(cx)
    return dict(counter=counter(cx), specifications=cx.val('specifications', SpecsT), level=cx.val('level', TInt))


# The property's vocabulary, defined from the input `specifications` (S):
#   numeric(t)  <=> some entry (t, c) with c not None;   lim(t) = max(0, max{c | (t, c) in S})
#   named(t)    <=> some entry (t, None)
# given as defining axioms with Skolem witnesses (we, wm, wd) -- a definition by comprehension, satisfiable for every S.
DEF_AXIOMS = [
    "forall(lambda a, b: implies(valid(specifications, a, b) and ent(specifications, a, b)[1] is not None,"
    "    numeric(ent(specifications, a, b)[0]) and lim(ent(specifications, a, b)[0]) >= ent(specifications, a, b)[1]))",
    "forall(lambda t: implies(numeric(t), valid(specifications, we_a(t), we_b(t)) and "
    "    ent(specifications, we_a(t), we_b(t))[0] == t and ent(specifications, we_a(t), we_b(t))[1] is not None), TOpt(TStr))",
    "forall(lambda t: lim(t) >= 0, TOpt(TStr))",
    "forall(lambda t: implies(numeric(t) and lim(t) > 0, valid(specifications, wm_a(t), wm_b(t)) and "
    "    ent(specifications, wm_a(t), wm_b(t))[0] == t and ent(specifications, wm_a(t), wm_b(t))[1] == lim(t)), TOpt(TStr))",
    "forall(lambda a, b: implies(valid(specifications, a, b) and ent(specifications, a, b)[1] is None,"
    "    named(ent(specifications, a, b)[0])))",
    "forall(lambda t: implies(named(t), valid(specifications, wd_a(t), wd_b(t)) and "
    "    ent(specifications, wd_a(t), wd_b(t))[0] == t and ent(specifications, wd_a(t), wd_b(t))[1] is None), TOpt(TStr))",
]

GMap = TMap(OStr, TInt)

INV1 = [  # P(I, J) of the nested traversal; ghost maps g*_a/g*_b hold witnesses for what is in specs / deduct_all
    "forall(lambda t: implies(t in specs, before(specifications, gwe_a[t], gwe_b[t], {I}, {J}) and "
    "   ent(specifications, gwe_a[t], gwe_b[t])[0] == t and ent(specifications, gwe_a[t], gwe_b[t])[1] is not None and"
    "   specs[t] >= 0), TOpt(TStr))",
    "forall(lambda t: implies(t in specs and specs[t] > 0, before(specifications, gwm_a[t], gwm_b[t], {I}, {J}) and "
    "   ent(specifications, gwm_a[t], gwm_b[t])[0] == t and ent(specifications, gwm_a[t], gwm_b[t])[1] == specs[t]), TOpt(TStr))",
    "forall(lambda a, b: implies(before(specifications, a, b, {I}, {J}) and ent(specifications, a, b)[1] is not None,"
    "   ent(specifications, a, b)[0] in specs and specs[ent(specifications, a, b)[0]] >= ent(specifications, a, b)[1]))",
    "forall(lambda t: implies(t in deduct_all, before(specifications, gwd_a[t], gwd_b[t], {I}, {J}) and "
    "   ent(specifications, gwd_a[t], gwd_b[t])[0] == t and ent(specifications, gwd_a[t], gwd_b[t])[1] is None), TOpt(TStr))",
    "forall(lambda a, b: implies(before(specifications, a, b, {I}, {J}) and ent(specifications, a, b)[1] is None,"
    "   ent(specifications, a, b)[0] in deduct_all))",
]

L_split = Lemma(
    'L_split', [('c', Counts), ('lv', TInt), ('i', TInt)], spec_defs=SPEC, spec_recs=RECS2[:3], prop='C08',
    requires=["i <= len(c)"],
    ensures=["SL(c, lv, None, i) == SG(c, lv, i) + (ST(c[lv], None, len(c[lv])) if (lv in c and posof(c, lv) < i) else 0)"],
    induction='i', file=F)

GHOSTS = ['gwe_a', 'gwe_b', 'gwm_a', 'gwm_b', 'gwd_a', 'gwd_b']

ignore_warnings_and_count = FunctionContract(
    F, 'ignore_warnings_and_count', 'C08', setup=setup_iwc, spec_defs=SPEC2, spec_recs=RECS2, result_ty=TInt,
    lemmas=[L_split],
    locals=dict(specs=TMap(OStr, TInt), deduct_all=TSet(OStr), **{g: GMap for g in GHOSTS}),
    axioms=lambda cx, env: [cx.eng._b(cx.eng.spec_truth(a, env)) for a in DEF_AXIOMS],
    requires=[
        "forall(lambda l, t: implies(l in counter.counts and t in counter.counts[l], counter.counts[l][t] >= 0), TInt, TStr)",
        # a type that is both waived by name and given a numeric limit is left unspecified by the property
        "forall(lambda t: not (numeric(t) and named(t)), TOpt(TStr))",
    ],
    ensures=[
        # the statement of C08, over the table as it was on entry (W0 = old counts[level], absent = empty)
        "result == SG(old(counter.counts), level, len(old(counter.counts)))"
        "  + (EX(old(counter.counts)[level], len(old(counter.counts)[level]))"
        "     + max(0, RS(old(counter.counts)[level], len(old(counter.counts)[level])) - (lim(None) if numeric(None) else 0))"
        "     if level in old(counter.counts) else 0)",
        # frame: nothing is changed except the default insertion of an empty table for `level`
        "forall(lambda l, t: cnt(counter.counts, l, t) == cnt(old(counter.counts), l, t), TInt, TStr)",
    ],
    ghost_at={
        'entry': "gwe_a = {}\ngwe_b = {}\ngwm_a = {}\ngwm_b = {}\ngwd_a = {}\ngwd_b = {}\n"
                 "c0 = dict(counter.counts)",
        'after:L1': (
            "prove(forall(lambda t: iff(t in specs, numeric(t)), TOpt(TStr)), 'specs-dom')\n"
            "prove(forall(lambda t: implies(t in specs, specs[t] == lim(t)), TOpt(TStr)), 'specs-val')\n"
            "prove(forall(lambda t: iff(t in deduct_all, named(t)), TOpt(TStr)), 'deduct-all')\n"
            "use_lemma('L_split', c0, level, len(c0))\n"),
    },
    loops={
        'L1': LoopSpec(inv=[s.format(I='_i', J='0') for s in INV1], modifies=['specs', 'deduct_all'] + GHOSTS),
        'L1.1': LoopSpec(inv=[s.format(I='_iL1', J='_i') for s in INV1], modifies=['specs', 'deduct_all'] + GHOSTS,
                         ghost_pre="g_had = warning_type in specs",
                         ghost_end=(
                             "if count is None:\n"
                             "    gwd_a[warning_type] = _iL1\n"
                             "    gwd_b[warning_type] = _i\n"
                             "else:\n"
                             "    if not g_had:\n"
                             "        gwe_a[warning_type] = _iL1\n"
                             "        gwe_b[warning_type] = _i\n"
                             "    if count > 0 and specs[warning_type] == count:\n"
                             "        gwm_a[warning_type] = _iL1\n"
                             "        gwm_b[warning_type] = _i\n")),
        'L2': LoopSpec(inv=[
            "total == SL(c0, level, None, len(c0)) - ST(warning_count, None, _i) + EX(warning_count, _i)"
            "   + max(0, RS(warning_count, _i) - specs.get(None, 0))",
            "blanket_ignore == max(0, specs.get(None, 0) - RS(warning_count, _i))",
        ]),
    },
)
CONTRACTS.append(ignore_warnings_and_count)
LEMMAS = [L_split]

# ------------------------------------------------------------------ maxwarn (bin/martinize2): the -maxwarn grammar
SPEC_MW = {
    'colons1': "lambda s: s.find(':') >= 0 and s.find(':') == s.rfind(':')",
    'before': "lambda s: s[:s.find(':')]",
    'after': "lambda s: s[s.find(':') + 1:]",
}


def setup_maxwarn(cx):
    ap = Obj('argparse')
    from pyvc.interp import ExcClass
    ap.attrs['ArgumentTypeError'] = ExcClass('ArgumentTypeError')
    cx.spec_env['argparse'] = ap
    return dict(value=cx.val('value', TCStr))


maxwarn = FunctionContract(
    'bin/martinize2', 'maxwarn', 'C08', setup=setup_maxwarn, spec_defs=SPEC_MW,
    ensures=[
        # '<n>' -> a blanket allowance of n;  '<type>' -> the type is waived by name;  '<type>:<n>' -> a numeric limit
        "implies(not (':' in value) and is_int_literal(value), result[0] is None and result[1] == int_of_str(value))",
        "implies(not (':' in value) and not is_int_literal(value), result[0] == value and result[1] is None)",
        "implies(':' in value, colons1(value) and is_int_literal(after(value)) and result[0] == before(value) and "
        "   result[1] == int_of_str(after(value)))",
    ],
    # everything else is rejected
    raises={'ArgumentTypeError': ["':' in value and not (colons1(value) and is_int_literal(after(value)))"]},
    canary=[("return (splitted[0], count)", "return (splitted[1], count)"), ("elif len(splitted) == 2:", "elif len(splitted) >= 2:")],
)
CONTRACTS.append(maxwarn)

"""C04 -- atoms are identified by connectivity: step 1 of repair_residue (canonical attributes through the match)."""
from pyvc.api import *
from pyvc.builtins import getitem

F = 'vermouth/processors/repair_graph.py'
RefIdx, MolIdx, Val = TKey('RefIdx'), TKey('MolIdx'), TKey('Val')
Attrs = TMap(TStr, Val)

SPEC = {
    # node n of the molecule is the image of reference atom r under the match
    'img': "lambda n: minv(n) in match and match[minv(n)] == n",
    'handled': "lambda r, I: r in match and opos(r) < I",
}


def setup_rr(cx):
    eng = cx.eng
    ref_order = cx.val('ref_order', TSeq(RefIdx))
    ref_attrs = cx.val('REFATTR', TMap(RefIdx, Attrs))
    cx.spec_env['ref_order'] = ref_order
    cx.spec_env['REFATTR'] = ref_attrs
    MOL = cx.heap('MOLATTR', cx.box('MOLATTR', TMap(MolIdx, Attrs)))
    FOUND = cx.heap('FOUNDATTR', cx.box('FOUNDATTR', TMap(MolIdx, Attrs)))
    cx.uf('opos', [RefIdx], TInt)
    cx.uf('minv', [MolIdx], RefIdx)
    graphval = cx.uf('subgraph_of', [MolIdx], Val)
    from pyvc.values import COERCIONS
    COERCIONS[('Str', 'Val')] = cx.uf('str2val', [TStr], Val)      # attribute values that the code compares with string literals
    match = cx.val('match', TMap(RefIdx, MolIdx))

    def nodeview(heap, immut=None):
        nv = Obj('NodeView')
        nv.attrs['__getitem__'] = Builtin(lambda e, k: getitem(e, heap if immut is None else immut, k), 'nodes[]')
        return nv
    reference = Obj('Block', nodes=nodeview(None, ref_attrs))
    reference.__dict__['iter'] = ref_order
    found = Obj('Graph', nodes=nodeview(FOUND))
    molecule = Obj('Molecule', nodes=nodeview(MOL))
    molecule.attrs['subgraph'] = Builtin(lambda e, lst: wrap(Val, graphval(to_z3(lst[0] if isinstance(lst, (list, tuple)) else
                                                                       getitem(e, lst, 0), MolIdx))), 'subgraph')
    ref_residue = Box(None, kind='dict')
    ref_residue.cd = {'reference': reference, 'found': found, 'match': match, 'resid': cx.val('resid', TInt), 'resname': cx.val('resname', TStr)}
    log = Obj('LOGGER')
    for n in ('debug', 'info', 'log'):
        log.attrs[n] = Builtin(lambda e, *a, **k: None, n)
    cx.spec_env['LOGGER'] = log
    # the region starts after the unpacking of ref_residue: its locals are live-ins
    return dict(molecule=molecule, ref_residue=ref_residue, include_graph=cx.val('include_graph', TBool),
                reference=reference, found=found, match=match, resid=ref_residue.cd['resid'], resname=ref_residue.cd['resname'],
                missing=Box(TSeq(RefIdx)))


WORLD = [
    "forall(lambda i: implies(0 <= i and i < len(ref_order), opos(ref_order[i]) == i and ref_order[i] in REFATTR))",
    # the match is injective (an isomorphism onto the matched atoms), its images are atoms of the molecule and of `found`
    "forall(lambda r: implies(r in match, minv(match[r]) == r and match[r] in MOLATTR and match[r] in FOUNDATTR), RefIdx)",
    "forall(lambda r: implies(r in REFATTR, 'element' in REFATTR[r] and 'atomname' in REFATTR[r]), RefIdx)",
]
CANON = ("forall(lambda n, k: implies(img(n) and opos(minv(n)) < {I} and 0 <= opos(minv(n)) and ref_order[opos(minv(n))] == minv(n), "
         "   implies(k != 'resid' and k in REFATTR[minv(n)], k in MOLATTR[n] and MOLATTR[n][k] == REFATTR[minv(n)][k]) and "
         "   implies(not (k != 'resid' and k in REFATTR[minv(n)]) and k != 'graph', (k in MOLATTR[n]) == (k in old(MOLATTR)[n]) and "
         "       implies(k in MOLATTR[n], MOLATTR[n][k] == old(MOLATTR)[n][k]))), MolIdx, TStr)")
UNTOUCHED = ("forall(lambda n, k: implies(not (img(n) and opos(minv(n)) < {I} and 0 <= opos(minv(n)) and ref_order[opos(minv(n))] == minv(n)), "
             "   (n in MOLATTR) == (n in old(MOLATTR)) and (k in MOLATTR[n]) == (k in old(MOLATTR)[n]) and MOLATTR[n][k] == old(MOLATTR)[n][k]), MolIdx, TStr)")
MISSING = ("forall(lambda q: implies(0 <= q and q < len(missing), not (missing[q] in match) and 0 <= opos(missing[q]) and opos(missing[q]) < {I} and "
           "   ref_order[opos(missing[q])] == missing[q]))",
           "forall(lambda a, b: implies(0 <= a and a < b and b < len(missing), opos(missing[a]) < opos(missing[b])))",
           "forall(lambda i: implies(0 <= i and i < {I} and not (ref_order[i] in match), ref_order[i] in g_m and 0 <= g_m[ref_order[i]] and "
           "   g_m[ref_order[i]] < len(missing) and missing[g_m[ref_order[i]]] == ref_order[i]))")

repair_step1 = FunctionContract(
    F, 'repair_residue', 'C04', short='repair_residue[step 1]', setup=setup_rr, spec_defs=SPEC,
    spec_env=dict(RefIdx=RefIdx, MolIdx=MolIdx),
    region=dict(start="for ref_idx in reference:", end="added = True"),
    locals=dict(missing=TSeq(RefIdx), g_m=TMap(RefIdx, TInt)),
    axioms=lambda cx, env: [cx.eng._b(cx.eng.spec_truth(a, env)) for a in WORLD],
    ghost_at={'entry': "g_m = {}"},
    ensures=[
        # every matched atom carries the attributes of its reference atom (its canonical atom name among them), except resid;
        # its other attributes and all unmatched atoms are left alone
        CANON.format(I='len(ref_order)'), UNTOUCHED.format(I='len(ref_order)'),
        # `missing` lists, in block order, exactly the reference atoms that have no partner
        MISSING[0].format(I='len(ref_order)'), MISSING[1], MISSING[2].format(I='len(ref_order)'),
    ],
    modifies=['MOLATTR', 'FOUNDATTR'],
    loops={'L1': LoopSpec(inv=[CANON.format(I='_i'), UNTOUCHED.format(I='_i'), MISSING[0].format(I='_i'), MISSING[1], MISSING[2].format(I='_i'),
                               "forall(lambda n: (n in MOLATTR) == (n in old(MOLATTR)) and (n in FOUNDATTR) == (n in old(FOUNDATTR)), MolIdx)"],
                          modifies=['MOLATTR', 'FOUNDATTR', 'missing', 'g_m'], locals=dict(missing=TSeq(RefIdx), g_m=TMap(RefIdx, TInt)),
                          ghost_end="if not (ref_idx in match):\n    g_m[ref_idx] = len(missing) - 1")},
    canary=[("if 'resid' in ref_node:\n            del ref_node['resid']", "if 'resid' in ref_node:\n            pass"),
            ("node.update(ref_node)", "pass")],
)
CONTRACTS = [repair_step1]
LEMMAS = []


# ------------------------------------------------------------------ repair_residue, step 2: re-adding one missing atom
# (the body of the inner loop, for an arbitrary missing atom that has a placed neighbour; node keys are integers here)
EdgeK = TTuple(TInt, TInt)
AttrsI = TMap(TStr, Val)


def setup_add(cx):
    eng = cx.eng
    from pyvc.values import COERCIONS
    from pyvc.builtins import setitem, contains
    ref_attrs = cx.val('REFATTR', TMap(RefIdx, Attrs))
    cx.spec_env['REFATTR'] = ref_attrs
    MOL = cx.heap('MOLATTR', cx.box('MOLATTR', TMap(TInt, AttrsI)))
    FOUND = cx.heap('FOUNDATTR', cx.box('FOUNDATTR', TMap(TInt, AttrsI)))
    EDGES = cx.heap('EDGES', cx.box('EDGES', TSet(EdgeK)))
    nbrs = cx.uf('nbrs', [RefIdx], TSeq(RefIdx))            # reference[ref_idx]: the neighbours in the block
    cx.uf('mpos', [RefIdx], TInt)
    int2val = cx.uf('int2val', [TInt], Val)
    str2val = cx.uf('str2val', [TStr], Val)
    COERCIONS[('Int', 'Val')] = int2val
    COERCIONS[('Str', 'Val')] = str2val
    r_ = z3.Const('r', RefIdx.sort())
    cx.assume(z3.ForAll([r_], TSeq(RefIdx).len(nbrs(r_)) >= 0))
    match = cx.box('match', TMap(RefIdx, TInt))
    missing = cx.box('missing', TSeq(RefIdx))

    def nodeview(heap, immut=None):
        nv = Obj('NodeView')
        nv.attrs['__getitem__'] = Builtin(lambda e, k: getitem(e, heap if immut is None else immut, k), 'nodes[]')
        return nv
    reference = Obj('Block', nodes=nodeview(None, ref_attrs))
    reference.attrs['__getitem__'] = Builtin(lambda e, r: SV(TSeq(RefIdx), nbrs(to_z3(r, RefIdx))), 'reference[]')

    def add_node(heap):
        def f(e, key, **kw):
            if set(kw) != {'**'}:
                raise EngineError('add_node with explicit keywords')
            setitem(e, heap, key, kw['**'])
        return f
    found = Obj('Graph', nodes=nodeview(FOUND), add_node=Builtin(add_node(FOUND), 'found.add_node'))
    molecule = Obj('Molecule', nodes=nodeview(MOL), add_node=Builtin(add_node(MOL), 'molecule.add_node'))
    molecule.__dict__['iter'] = MOL
    from pyvc.builtins import b_len
    molecule.attrs['__len__'] = Builtin(lambda e: b_len(e, MOL), 'len(molecule)')

    def has_edge(e, a, b):
        ae, be = to_z3(a, TInt), to_z3(b, TInt)
        return wrap(TBool, z3.Or(z3.Select(EDGES.e, EdgeK.mk(ae, be)), z3.Select(EDGES.e, EdgeK.mk(be, ae))))

    def add_edge(e, a, b):
        EDGES.e = z3.Store(EDGES.e, EdgeK.mk(to_z3(a, TInt), to_z3(b, TInt)), True)
    molecule.attrs['has_edge'] = Builtin(has_edge, 'has_edge')
    molecule.attrs['add_edge'] = Builtin(add_edge, 'add_edge')
    ref_residue = Box(None, kind='dict')
    ref_residue.cd = {'reference': reference, 'found': found, 'match': match, 'nnodes': cx.val('nnodes', Val),
                      'resid': cx.val('resid', Val), 'resname': cx.val('resname', Val), 'chain': cx.val('chain', Val)}
    log = Obj('LOGGER')
    for n in ('debug', 'info', 'log', 'error'):
        log.attrs[n] = Builtin(lambda e, *a, **k: None, n)
    cx.spec_env['LOGGER'] = log
    cx.spec_env['format_atom_string'] = Builtin(lambda e, n: 'atom', 'format_atom_string')
    ref_idx = cx.val('ref_idx', RefIdx)
    cx.spec_env['nb_w'] = cx.val('nb_w', TInt)
    cx.spec_env['match0'] = SV(TMap(RefIdx, TInt), match.e)
    cx.spec_env['missing0'] = SV(TSeq(RefIdx), missing.e)
    return dict(molecule=molecule, ref_residue=ref_residue, reference=reference, found=found, match=match, missing=missing,
                ref_idx=ref_idx, resid=ref_residue.cd['resid'], resname=ref_residue.cd['resname'], added=cx.val('added', TBool))


SPEC_ADD = {
    'new': "lambda: match[ref_idx]",
    'has_e': "lambda E, a, b: (a, b) in E or (b, a) in E",
    'nb': "lambda j: nbrs(ref_idx)[j]",
    # what the new atom must carry: the block atom's attributes (except resid), its residue's identity, a fresh atom id
    'expected': "lambda A, k: (A[k] == int2val(new() + 1) and k in A) if k == 'atomid' else "
                "((A[k] == REFATTR[ref_idx][k] and k in A) if (k != 'resid' and k in REFATTR[ref_idx]) else "
                "((A[k] == resid and k in A) if k == 'resid' else ((A[k] == resname and k in A) if k == 'resname' else "
                "((A[k] == ref_residue['chain'] and k in A) if k == 'chain' else not (k in A)))))",
}
add_missing_atom = FunctionContract(
    F, 'repair_residue', 'C04', short='repair_residue[re-add one atom]', setup=setup_add, spec_defs=SPEC_ADD,
    spec_env=dict(RefIdx=RefIdx, Val=Val, EdgeK=EdgeK),
    region=dict(within=["while missing and added:", "for ref_idx in missing:"], start="added = True"),
    locals=dict(node=AttrsI),
    requires=[
        # the atom is missing (listed once), has no partner yet, and at least one of its block neighbours is placed
        "0 <= mpos(ref_idx) and mpos(ref_idx) < len(missing) and missing[mpos(ref_idx)] == ref_idx",
        "forall(lambda q: implies(0 <= q and q < len(missing), mpos(missing[q]) == q and not (missing[q] in match)))",
        "not (ref_idx in match) and ref_idx in REFATTR and 'element' in REFATTR[ref_idx]",
        "0 <= nb_w and nb_w < len(nbrs(ref_idx)) and nb(nb_w) in match",
        "forall(lambda j: implies(0 <= j and j < len(nbrs(ref_idx)), nb(j) != ref_idx))",
        # placed atoms are atoms of the molecule, bonds join atoms of the molecule, the molecule is not empty
        "forall(lambda r: implies(r in match, match[r] in MOLATTR), RefIdx)",
        "forall(lambda a, b: implies((a, b) in EDGES, a in MOLATTR and b in MOLATTR))",
        "len(MOLATTR) > 0",
    ],
    ensures=[
        # the atom is placed under a key that no atom of the molecule has (above all of them), in the molecule and in `found`
        "ref_idx in match and not (new() in old(MOLATTR)) and forall(lambda k: implies(k in old(MOLATTR), k < new()))",
        "new() in MOLATTR and new() in FOUNDATTR",
        "forall(lambda k: expected(MOLATTR[new()], k) and expected(FOUNDATTR[new()], k), TStr)",
        # it is bonded to every block neighbour that is placed - and to nothing else; no other bond changes
        "forall(lambda j: implies(0 <= j and j < len(nbrs(ref_idx)) and nb(j) in match0, has_e(EDGES, match0[nb(j)], new())))",
        "forall(lambda a, b: implies((a, b) in EDGES and not ((a, b) in old(EDGES)), b == new() and "
        "   exists(lambda j: 0 <= j and j < len(nbrs(ref_idx)) and nb(j) in match0 and match0[nb(j)] == a)))",
        "forall(lambda a, b: implies((a, b) in old(EDGES), (a, b) in EDGES))",
        # book-keeping: exactly this atom leaves `missing` and enters `match`; all other atoms keep their attributes
        "len(missing) == len(missing0) - 1 and forall(lambda q: implies(0 <= q and q < len(missing), "
        "   missing[q] == (missing0[q] if q < mpos(ref_idx) else missing0[q + 1])))",
        "forall(lambda r: implies(r != ref_idx, (r in match) == (r in match0) and implies(r in match, match[r] == match0[r])), RefIdx)",
        "forall(lambda n: implies(n != new(), (n in MOLATTR) == (n in old(MOLATTR)) and implies(n in MOLATTR, MOLATTR[n] == old(MOLATTR)[n])))",
        "added",
    ],
    modifies=['MOLATTR', 'FOUNDATTR', 'EDGES', 'match', 'missing'],
    loops={
        'L1': LoopSpec(inv=[], modifies=[]),       # for key, val in ref_residue.items(): concrete keys, unrolled by the engine
        'L2': LoopSpec(
            inv=["forall(lambda j: implies(0 <= j and j < _i and nb(j) in match0, has_e(EDGES, match0[nb(j)], res_idx)))",
                 "forall(lambda a, b: implies((a, b) in EDGES and not ((a, b) in old(EDGES)), b == res_idx and "
                 "   exists(lambda j: 0 <= j and j < _i and nb(j) in match0 and match0[nb(j)] == a)))",
                 "forall(lambda a, b: implies((a, b) in old(EDGES), (a, b) in EDGES))",
                 "neighbours >= 0 and implies(exists(lambda j: 0 <= j and j < _i and nb(j) in match0), neighbours > 0)"],
            modifies=['EDGES']),
    },
    canary=[("res_idx = max(molecule) + 1", "res_idx = len(molecule)"), ("node['atomid'] = res_idx + 1", "node['atomid'] = res_idx"),
            ("molecule.add_edge(neighbour_res_idx, res_idx)", "molecule.add_edge(neighbour_res_idx, neighbour_res_idx)")],
)
CONTRACTS.append(add_missing_atom)


# ------------------------------------------------------------------ repair_graph: marking the atoms beyond the match
def setup_mark(cx):
    eng = cx.eng
    from pyvc.builtins import getitem, setitem, contains
    fnodes = cx.val('found_nodes', TSet(TInt))                         # the atoms of the residue as found in the input
    match = cx.val('match', TMap(RefIdx, TInt))                         # reference atom -> input atom (after repair_residue)
    cx.spec_env['found_nodes'], cx.spec_env['match'] = fnodes, match
    MARK = cx.heap('MARKED', cx.box('MARKED', TSet(TInt)))              # molecule.nodes[idx]['PTM_atom'] = True
    FMARK = cx.heap('FOUND_MARKED', cx.box('FOUND_MARKED', TSet(TInt))) # found.nodes[idx]['PTM_atom'] = True
    REMOVED = cx.heap('REMOVED', cx.box('REMOVED', TSet(TInt)))         # molecule.remove_node(idx)
    requested = cx.uf('requested', [TInt], TBool)                       # the atom carries a mutation or modification request

    def view(heap, with_get):
        def item(e, n):
            ne = to_z3(n, TInt)
            o = Obj('atomdict')

            def setit(e2, k, v):
                if k != 'PTM_atom' or v is not True:
                    raise EngineError('node[%r] = %r' % (k, v))
                heap.e = z3.Store(heap.e, ne, True)
            o.attrs['__setitem__'] = Builtin(setit, 'node[]=')
            if with_get:
                # .get('mutation') or .get('modification'): truthy iff the atom carries a request
                o.attrs['get'] = Builtin(lambda e2, k, d=None: (wrap(TBool, requested(ne)) if k == 'mutation' else False)
                                         if k in ('mutation', 'modification') else (_ for _ in ()).throw(EngineError('node.get(%r)' % (k,))), 'node.get')
            return o
        nv = Obj('NodeView', __getitem__=Builtin(item, 'nodes[]'))
        return nv
    fnv = view(FMARK, False)
    fnv.__dict__['iter'] = fnodes
    found = Obj('Graph', nodes=fnv)

    def remove_node(e, n):
        REMOVED.e = z3.Store(REMOVED.e, to_z3(n, TInt), True)
    molecule = Obj('Molecule', nodes=view(MARK, True), remove_node=Builtin(remove_node, 'molecule.remove_node'))
    res = {'found': found, 'match': match}
    rg = Obj('reference_graph', nodes=Obj('NodeView', __getitem__=Builtin(lambda e, r: res, 'reference_graph.nodes[]')))
    return dict(molecule=molecule, reference_graph=rg, residx=cx.val('residx', TInt))


SPEC_MARK = {
    # the atom is the partner of some reference atom
    'matched': "lambda n: exists(lambda r: r in match and match[r] == n, RefIdx)",
    'beyond': "lambda n: n in found_nodes and not matched(n)",
}
mark_extra = FunctionContract(
    F, 'repair_graph', 'C04', short='repair_graph[marking]', setup=setup_mark, spec_defs=SPEC_MARK, spec_env=dict(RefIdx=RefIdx),
    region=dict(within=["for residx in reference_graph:"], start="found = reference_graph.nodes[residx]['found']"),
    ensures=[
        # exactly the atoms of the residue that the match does not reach are marked as unrecognised - in the molecule and in
        # the residue's own graph -, and of those exactly the ones that carry a mutation / modification request are removed
        "forall(lambda n: (n in MARKED) == (n in old(MARKED) or beyond(n)))",
        "forall(lambda n: (n in FOUND_MARKED) == (n in old(FOUND_MARKED) or beyond(n)))",
        "forall(lambda n: (n in REMOVED) == (n in old(REMOVED) or (beyond(n) and requested(n))))",
    ],
    modifies=['MARKED', 'FOUND_MARKED', 'REMOVED'],
    loops={'L1': LoopSpec(inv=[
        "forall(lambda n: (n in MARKED) == (n in old(MARKED) or exists(lambda q: 0 <= q and q < _i and _itL1(q) == n)))",
        "forall(lambda n: (n in FOUND_MARKED) == (n in old(FOUND_MARKED) or exists(lambda q: 0 <= q and q < _i and _itL1(q) == n)))",
        "forall(lambda n: (n in REMOVED) == (n in old(REMOVED) or (requested(n) and exists(lambda q: 0 <= q and q < _i and _itL1(q) == n))))",
        "forall(lambda n: (n in extra) == beyond(n))"],
        modifies=['MARKED', 'FOUND_MARKED', 'REMOVED'])},
    canary=[("extra = set(found.nodes) - set(match.values())", "extra = set(found.nodes)"),
            ("found.nodes[idx]['PTM_atom'] = True", "pass"),
            ("if molecule.nodes[idx].get('mutation') or molecule.nodes[idx].get('modification'):", "if True:")],
)
CONTRACTS.append(mark_extra)


# ------------------------------------------------------------------ repair_residue, step 2: which missing atoms get their turn, and when it stops
def setup_ctrl(cx):
    d = setup_add(cx)
    is_ref = cx.uf('is_ref', [RefIdx], TBool)               # an atom of the reference block
    nbrs = cx.eng.uf('nbrs', [RefIdx], TSeq(RefIdx))
    r, j = z3.Const('cr', RefIdx.sort()), z3.Int('cj')
    cx.assume(z3.ForAll([r, j], z3.Implies(z3.And(is_ref(r), 0 <= j, j < TSeq(RefIdx).len(nbrs(r))), is_ref(TSeq(RefIdx).at(nbrs(r), j)))))
    for k in ('ref_idx', 'added'):
        d.pop(k)
    return d


SPEC_CTRL = {
    'inmiss': "lambda r: exists(lambda p: 0 <= p and p < len(missing) and missing[p] == r)",
    # nothing more can be done for the atom: every one of its block neighbours is missing as well
    'stuck': "lambda r: forall(lambda j: implies(0 <= j and j < len(nbrs(r)), inmiss(nbrs(r)[j])))",
}
CTRL_INV = [
    # no atom that was missing is forgotten: it is placed by now, or still on the list
    "forall(lambda q: implies(0 <= q and q < len(missing0), missing0[q] in match or inmiss(missing0[q])))",
    # every atom of the block is placed or on the list (what step 1 establishes), the list has no duplicates and holds block atoms
    # that have attributes, none of which is its own neighbour
    "forall(lambda r: implies(is_ref(r), r in match or inmiss(r)), RefIdx)",
    "forall(lambda p, q: implies(0 <= p and p < q and q < len(missing), missing[p] != missing[q]))",
    "forall(lambda p: implies(0 <= p and p < len(missing), is_ref(missing[p]) and not (missing[p] in match) and missing[p] in REFATTR and "
    "   'element' in REFATTR[missing[p]] and forall(lambda j: implies(0 <= j and j < len(nbrs(missing[p])), nbrs(missing[p])[j] != missing[p]))))",
    # what is placed stays placed, on atoms of the molecule; bonds join atoms of the molecule; the molecule is not empty
    "forall(lambda r: implies(r in match0, r in match and match[r] == match0[r]), RefIdx)",
    "forall(lambda r: implies(r in match, match[r] in MOLATTR), RefIdx)",
    "forall(lambda a, b: implies((a, b) in EDGES, a in MOLATTR and b in MOLATTR))",
    "len(MOLATTR) > 0",
]
repair_control = FunctionContract(
    F, 'repair_residue', 'C04', short='repair_residue[which atoms get their turn]', setup=setup_ctrl, spec_defs=SPEC_CTRL,
    spec_env=dict(RefIdx=RefIdx, Val=Val, EdgeK=EdgeK),
    region=dict(start="added = True", end="for ref_idx in missing:"),
    locals=dict(node=AttrsI, g_m=TSeq(RefIdx), g_before=TSeq(RefIdx), g_w=TInt),
    ghost_at={'after:stmt:res_idx = max(molecule) + 1':
              "prove(forall(lambda a, b: implies((a, b) in EDGES, a != res_idx and b != res_idx)), 'fresh-key-has-no-bonds')\n"
              "prove(forall(lambda r: implies(r in match, match[r] != res_idx), RefIdx), 'fresh-key-is-nobodys-partner')",
              'before:stmt:missing.pop(missing.index(ref_idx))': "g_before = list(missing)\ng_w = g_before.index(ref_idx)",
              # the list after the pop, element by element; so every other atom is still on it (named steps for the solver)
              'after:stmt:missing.pop(missing.index(ref_idx))':
              "prove(len(missing) == len(g_before) - 1 and forall(lambda p: implies(0 <= p and p < g_w, missing[p] == g_before[p])) and "
              "      forall(lambda p: implies(g_w <= p and p < len(missing), missing[p] == g_before[p + 1])), 'one-removed')\n"
              "prove(forall(lambda p: implies(g_w < p and p < len(g_before), missing[p - 1] == g_before[p])), 'shifted-down')\n"
              "prove(forall(lambda p: implies(0 <= p and p < g_w, inmiss(g_before[p]))), 'the-earlier-ones-stay')\n"
              "prove(forall(lambda p: implies(g_w < p and p < len(g_before), inmiss(g_before[p]))), 'the-later-ones-stay')"},
    requires=[x for x in CTRL_INV[1:]],
    ensures=CTRL_INV + [
        # the loop stops only when nothing more can be done: every atom still on the list has all its block neighbours on the list
        "forall(lambda p: implies(0 <= p and p < len(missing), stuck(missing[p])))",
    ],
    modifies=['MOLATTR', 'FOUNDATTR', 'EDGES', 'match', 'missing'],
    loops={
        # termination: a pass that places something shortens the list, a pass that places nothing is the last one
        'L1': LoopSpec(inv=CTRL_INV + ["added or forall(lambda p: implies(0 <= p and p < len(missing), stuck(missing[p])))"],
                       modifies=['MOLATTR', 'FOUNDATTR', 'EDGES', 'match', 'missing'], decreases="2 * len(missing) + (1 if added else 0)"),
        'L1.1': LoopSpec(live=True, inv=CTRL_INV + [
            "0 <= _i",
            "len(missing) <= len(g_m) and implies(added, len(missing) < len(g_m))",
            # a pass that placed nothing has not touched the list, and every atom it looked at is stuck
            "implies(not added, len(missing) == len(g_m) and forall(lambda p: implies(0 <= p and p < len(g_m), missing[p] == g_m[p])) and "
            "   forall(lambda p: implies(0 <= p and p < _i and p < len(missing), stuck(missing[p]))))"],
            modifies=['MOLATTR', 'FOUNDATTR', 'EDGES', 'match', 'missing'], ghost_init="g_m = list(missing)",
            # ... and a pass ends: the index grows, the list does not
            decreases="len(missing) - _i"),
        'L1.1.1': LoopSpec(inv=[], modifies=[]),
        'L1.1.2': LoopSpec(
            inv=["neighbours >= 0 and implies(exists(lambda j: 0 <= j and j < _i and nbrs(ref_idx)[j] in g_match), neighbours > 0)",
                 "forall(lambda a, b: implies((a, b) in EDGES, a in MOLATTR and b in MOLATTR))",
                 # the bonds of the new atom so far lead to placed neighbours that were already looked at
                 "forall(lambda a, b: implies((a, b) in EDGES and (a == res_idx or b == res_idx), b == res_idx and a != res_idx and "
                 "   exists(lambda j: 0 <= j and j < _i and nbrs(ref_idx)[j] in g_match and g_match[nbrs(ref_idx)[j]] == a)))"],
            modifies=['EDGES'], ghost_init="g_match = dict(match)", locals=dict(g_match=TMap(RefIdx, TInt))),
    },
    canary=[("if all(ref_neighbour in missing for ref_neighbour in reference[ref_idx]):", "if any(ref_neighbour in missing for ref_neighbour in reference[ref_idx]):"),
            ("while missing and added:", "while missing and not added:"),
            ("missing.pop(missing.index(ref_idx))", "missing.pop(0)")],
)
CONTRACTS.append(repair_control)


# ------------------------------------------------------------------ RepairGraph: the processor around make_reference and repair_graph
MolR = TKey('MolR')


def setup_rg_run(cx):
    from pyvc.builtins import list_append
    mols = cx.val('MOLS_IN', TSeq(MolR))
    cx.spec_env['MOLS_IN'] = mols
    repaired = cx.uf('repaired', [MolR], MolR)              # run_molecule(molecule): copy, make_reference, repair_graph
    unknown = cx.uf('unknown_residue', [MolR], TBool)       # ... raises KeyError (a residue the force field has no block for)
    WARNED = cx.heap('WARNED', cx.box('WARNED', TSeq(TStr)))
    cx.spec_env['LOGGER'] = Obj('LOGGER', warning=Builtin(lambda e, *a, type=None, **k: list_append(e, WARNED, type), 'LOGGER.warning'))
    cx.spec_env['str'] = Builtin(lambda e, x: 'message', 'str')

    def run_molecule(e, m):
        me = to_z3(m, MolR)
        e.maybe_raise(z3.Not(unknown(me)), 'KeyError')
        return SV(MolR, repaired(me))
    self = Obj('RepairGraph', delete_unknown=cx.val('delete_unknown', TBool), run_molecule=Builtin(run_molecule, 'self.run_molecule'))
    system = Obj('System', molecules=Box(TSeq(MolR), mols.e))
    return dict(self=self, system=system)


RG_INV = [
    "len(g_src) == len(mols) and len(WARNED) == {I} - len(mols)",
    "forall(lambda q: implies(0 <= q and q < len(g_src), 0 <= g_src[q] and g_src[q] < {I} and not unknown_residue(MOLS_IN[g_src[q]]) and "
    "   mols[q] == repaired(MOLS_IN[g_src[q]])))",
    "forall(lambda p, q: implies(0 <= p and p < q and q < len(g_src), g_src[p] < g_src[q]))",
    "forall(lambda i: implies(0 <= i and i < {I} and not unknown_residue(MOLS_IN[i]), i in g_pos and 0 <= g_pos[i] and g_pos[i] < len(g_src) and "
    "   g_src[g_pos[i]] == i))",
    "forall(lambda i: implies(0 <= i and i < {I} and unknown_residue(MOLS_IN[i]), delete_unknown))",
    "forall(lambda q: implies(0 <= q and q < len(WARNED), WARNED[q] == 'unknown-residue'))",
]
rg_run_system = FunctionContract(
    F, 'RepairGraph.run_system', 'C04', setup=setup_rg_run, spec_env=dict(MolR=MolR),
    locals=dict(mols=TSeq(MolR), g_src=TSeq(TInt), g_pos=TMap(TInt, TInt)), ghost_at={'entry': "g_src = []\ng_pos = {}"},
    requires=["len(old(WARNED)) == 0"],
    ensures=[
        # the system afterwards holds, in order, the repaired version of every molecule whose residues are all known; a molecule with
        # an unknown residue is dropped with one unknown-residue warning when delete_unknown is set (else the KeyError goes on)
        "len(system.molecules) == len(g_src) and forall(lambda q: implies(0 <= q and q < len(g_src), system.molecules[q] == repaired(MOLS_IN[g_src[q]])))",
        "len(WARNED) == len(MOLS_IN) - len(system.molecules)",
    ] + [x.format(I='len(MOLS_IN)').replace('delete_unknown', 'self.delete_unknown') for x in RG_INV[2:]],
    raises={'KeyError': ["not self.delete_unknown and exists(lambda i: 0 <= i and i < len(MOLS_IN) and unknown_residue(MOLS_IN[i]))",
                         "len(system.molecules) == len(MOLS_IN)"]},
    modifies=['system.molecules', 'WARNED'],
    loops={'L1': LoopSpec(inv=[x.format(I='_i').replace('delete_unknown', 'self.delete_unknown') for x in RG_INV] + ["len(system.molecules) == len(MOLS_IN)"],
                          modifies=['mols', 'WARNED', 'g_src', 'g_pos'], locals=dict(g_n0=TInt), ghost_pre="g_n0 = len(mols)",
                          ghost_end="if len(mols) > g_n0:\n    g_src.append(_i)\n    g_pos[_i] = len(g_src) - 1")},
    canary=[("if not self.delete_unknown:", "if self.delete_unknown:"), ("mols.append(new_molecule)", "mols.append(molecule)")],
)
CONTRACTS.append(rg_run_system)


def setup_rg_mol(cx):
    from pyvc.builtins import list_append
    molecule, copy_, ref = Obj('Molecule'), Obj('copy'), Obj('reference_graph')
    molecule.attrs['copy'] = Builtin(lambda e: copy_, 'molecule.copy')
    inc = cx.val('include_graph', TBool)
    CALLS = cx.heap('CALLS', cx.box('CALLS', TSeq(TStr)))
    cx.spec_env['COPY'] = copy_

    def make_reference_(e, m):
        e.oblige(m is copy_, 'make_reference:of-the-copy')
        list_append(e, CALLS, 'make_reference')
        return ref

    def repair_graph_(e, m, r, include_graph=None):
        e.oblige(m is copy_ and r is ref and include_graph is inc, 'repair_graph:the-copy-against-its-reference')
        list_append(e, CALLS, 'repair_graph')
    cx.spec_env['make_reference'] = Builtin(make_reference_, 'make_reference')
    cx.spec_env['repair_graph'] = Builtin(repair_graph_, 'repair_graph')
    return dict(self=Obj('RepairGraph', include_graph=inc), molecule=molecule)


rg_run_molecule = FunctionContract(
    F, 'RepairGraph.run_molecule', 'C04', setup=setup_rg_mol,
    requires=["len(old(CALLS)) == 0"],
    ensures=[
        # the input molecule is left alone: a copy is matched against its reference (make_reference) and repaired against exactly
        # that reference, with the processor's include_graph switch; the copy is returned
        "result is COPY and len(CALLS) == 2 and CALLS[0] == 'make_reference' and CALLS[1] == 'repair_graph'",
    ],
    modifies=['CALLS'],
    canary=[("molecule = molecule.copy()", "pass"), ("include_graph=self.include_graph", "include_graph=True")],
)
CONTRACTS.append(rg_run_molecule)

"""C04 -- atoms are identified by connectivity: step 1 of repair_residue (canonical attributes through the match)."""
from pyvc.api import *
from pyvc.builtins import getitem

F = 'vermouth/processors/repair_graph.py'
RefIdx, MolIdx, Val = TKey('RefIdx'), TKey('MolIdx'), TKey('Val')
Attrs = TMap(TStr, Val)

SPEC = {
    # node n of the molecule is the image of reference atom r under the match
    'img': "lambda n: minv(n) in match and match[minv(n)] == n",
    'handled': "lambda r, I: r in match and opos(r) < I",
}


def setup_rr(cx):
    eng = cx.eng
    ref_order = cx.val('ref_order', TSeq(RefIdx))
    ref_attrs = cx.val('REFATTR', TMap(RefIdx, Attrs))
    cx.spec_env['ref_order'] = ref_order
    cx.spec_env['REFATTR'] = ref_attrs
    MOL = cx.heap('MOLATTR', cx.box('MOLATTR', TMap(MolIdx, Attrs)))
    FOUND = cx.heap('FOUNDATTR', cx.box('FOUNDATTR', TMap(MolIdx, Attrs)))
    cx.uf('opos', [RefIdx], TInt)
    cx.uf('minv', [MolIdx], RefIdx)
    graphval = cx.uf('subgraph_of', [MolIdx], Val)
    match = cx.val('match', TMap(RefIdx, MolIdx))

    def nodeview(heap, immut=None):
        nv = Obj('NodeView')
        nv.attrs['__getitem__'] = Builtin(lambda e, k: getitem(e, heap if immut is None else immut, k), 'nodes[]')
        return nv
    reference = Obj('Block', nodes=nodeview(None, ref_attrs))
    reference.__dict__['iter'] = ref_order
    found = Obj('Graph', nodes=nodeview(FOUND))
    molecule = Obj('Molecule', nodes=nodeview(MOL))
    molecule.attrs['subgraph'] = Builtin(lambda e, lst: wrap(Val, graphval(to_z3(lst[0] if isinstance(lst, (list, tuple)) else
                                                                       getitem(e, lst, 0), MolIdx))), 'subgraph')
    ref_residue = Box(None, kind='dict')
    ref_residue.cd = {'reference': reference, 'found': found, 'match': match, 'resid': cx.val('resid', TInt), 'resname': cx.val('resname', TStr)}
    log = Obj('LOGGER')
    for n in ('debug', 'info', 'log'):
        log.attrs[n] = Builtin(lambda e, *a, **k: None, n)
    cx.spec_env['LOGGER'] = log
    # the region starts after the unpacking of ref_residue: its locals are live-ins
    return dict(molecule=molecule, ref_residue=ref_residue, include_graph=cx.val('include_graph', TBool),
                reference=reference, found=found, match=match, resid=ref_residue.cd['resid'], resname=ref_residue.cd['resname'],
                missing=Box(TSeq(RefIdx)))


WORLD = [
    "forall(lambda i: implies(0 <= i and i < len(ref_order), opos(ref_order[i]) == i and ref_order[i] in REFATTR))",
    # the match is injective (an isomorphism onto the matched atoms), its images are atoms of the molecule and of `found`
    "forall(lambda r: implies(r in match, minv(match[r]) == r and match[r] in MOLATTR and match[r] in FOUNDATTR), RefIdx)",
    "forall(lambda r: implies(r in REFATTR, 'element' in REFATTR[r] and 'atomname' in REFATTR[r]), RefIdx)",
]
CANON = ("forall(lambda n, k: implies(img(n) and opos(minv(n)) < {I} and 0 <= opos(minv(n)) and ref_order[opos(minv(n))] == minv(n), "
         "   implies(k != 'resid' and k in REFATTR[minv(n)], k in MOLATTR[n] and MOLATTR[n][k] == REFATTR[minv(n)][k]) and "
         "   implies(not (k != 'resid' and k in REFATTR[minv(n)]) and k != 'graph', (k in MOLATTR[n]) == (k in old(MOLATTR)[n]) and "
         "       implies(k in MOLATTR[n], MOLATTR[n][k] == old(MOLATTR)[n][k]))), MolIdx, TStr)")
UNTOUCHED = ("forall(lambda n, k: implies(not (img(n) and opos(minv(n)) < {I} and 0 <= opos(minv(n)) and ref_order[opos(minv(n))] == minv(n)), "
             "   (n in MOLATTR) == (n in old(MOLATTR)) and (k in MOLATTR[n]) == (k in old(MOLATTR)[n]) and MOLATTR[n][k] == old(MOLATTR)[n][k]), MolIdx, TStr)")
MISSING = ("forall(lambda q: implies(0 <= q and q < len(missing), not (missing[q] in match) and 0 <= opos(missing[q]) and opos(missing[q]) < {I} and "
           "   ref_order[opos(missing[q])] == missing[q]))",
           "forall(lambda a, b: implies(0 <= a and a < b and b < len(missing), opos(missing[a]) < opos(missing[b])))",
           "forall(lambda i: implies(0 <= i and i < {I} and not (ref_order[i] in match), ref_order[i] in g_m and 0 <= g_m[ref_order[i]] and "
           "   g_m[ref_order[i]] < len(missing) and missing[g_m[ref_order[i]]] == ref_order[i]))")

repair_step1 = FunctionContract(
    F, 'repair_residue', 'C04', short='repair_residue[step 1]', setup=setup_rr, spec_defs=SPEC,
    spec_env=dict(RefIdx=RefIdx, MolIdx=MolIdx),
    region=dict(start="for ref_idx in reference:", end="added = True"),
    locals=dict(missing=TSeq(RefIdx), g_m=TMap(RefIdx, TInt)),
    axioms=lambda cx, env: [cx.eng._b(cx.eng.spec_truth(a, env)) for a in WORLD],
    ghost_at={'entry': "g_m = {}"},
    ensures=[
        # every matched atom carries the attributes of its reference atom (its canonical atom name among them), except resid;
        # its other attributes and all unmatched atoms are left alone
        CANON.format(I='len(ref_order)'), UNTOUCHED.format(I='len(ref_order)'),
        # `missing` lists, in block order, exactly the reference atoms that have no partner
        MISSING[0].format(I='len(ref_order)'), MISSING[1], MISSING[2].format(I='len(ref_order)'),
    ],
    modifies=['MOLATTR', 'FOUNDATTR'],
    loops={'L1': LoopSpec(inv=[CANON.format(I='_i'), UNTOUCHED.format(I='_i'), MISSING[0].format(I='_i'), MISSING[1], MISSING[2].format(I='_i'),
                               "forall(lambda n: (n in MOLATTR) == (n in old(MOLATTR)) and (n in FOUNDATTR) == (n in old(FOUNDATTR)), MolIdx)"],
                          modifies=['MOLATTR', 'FOUNDATTR', 'missing', 'g_m'], locals=dict(missing=TSeq(RefIdx), g_m=TMap(RefIdx, TInt)),
                          ghost_end="if not (ref_idx in match):\n    g_m[ref_idx] = len(missing) - 1")},
    canary=[("if 'resid' in ref_node:\n            del ref_node['resid']", "if 'resid' in ref_node:\n            pass"),
            ("node.update(ref_node)", "pass")],
)
CONTRACTS = [repair_step1]
LEMMAS = []

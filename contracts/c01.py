"""C01 -- resolution transformation: the bookkeeping of apply_block_mapping (which input atom contributes to which
particle with which weight)."""
from pyvc.api import *

F = 'vermouth/processors/do_mapping.py'
MolIdx, BlockIdx = TKey('MolIdx'), TKey('BlockIdx')
W = TReal
M2B = TMap(MolIdx, TMap(BlockIdx, W))          # mol_to_block of one placement (from the mapping)
B2O = TMap(BlockIdx, TInt)                     # block_to_out: keys given to the block's particles by merge_molecule
M2O = TMap(MolIdx, TMap(TInt, W))              # mol_to_out (defaultdict(dict))
O2M = TMap(TInt, TMap(MolIdx, W))              # out_to_mol (defaultdict(dict))

SPEC = {
    # the (atom, particle) pair is one that this placement maps, with weight w
    'pair': "lambda m, o: m in mol_to_block and binv(o) in mol_to_block[m] and binv(o) in block_to_out and block_to_out[binv(o)] == o",
    'wt': "lambda m, o: mol_to_block[m][binv(o)]",
    # ... and it has been handled by the double loop up to outer index I, inner index J
    'done': "lambda m, o, I, J: pair(m, o) and (posof(mol_to_block, m) < I or (posof(mol_to_block, m) == I and "
            "posof(mol_to_block[m], binv(o)) < J))",
}


def setup_abm(cx):
    cx.uf('binv', [TInt], BlockIdx)
    m2o = cx.box('mol_to_out', M2O)
    m2o.default = lambda e: Box(TMap(TInt, W))
    o2m = cx.box('out_to_mol', O2M)
    o2m.default = lambda e: Box(TMap(MolIdx, W))
    return dict(mol_to_block=cx.val('mol_to_block', M2B), block_to_out=cx.val('block_to_out', B2O), mol_to_out=m2o, out_to_mol=o2m)


WORLD = [
    # merge_molecule (C12) gives the block's particles pairwise distinct, fresh keys: block_to_out is injective (binv is its
    # inverse) and none of its values is a particle of an earlier placement
    "forall(lambda b: implies(b in block_to_out, binv(block_to_out[b]) == b), BlockIdx)",
    "forall(lambda m, b: implies(m in mol_to_block and b in mol_to_block[m], b in block_to_out), MolIdx, BlockIdx)",
    "forall(lambda b: implies(b in block_to_out, not (block_to_out[b] in out_to_mol) and "
    "   forall(lambda m: implies(m in mol_to_out, not (block_to_out[b] in mol_to_out[m])), MolIdx)), BlockIdx)",
]
TRANSPOSED = ("forall(lambda m, o: ((m in {a} and o in {a}[m]) == (o in {b} and m in {b}[o])) and "
              "implies(m in {a} and o in {a}[m], {a}[m][o] == {b}[o][m]), MolIdx, TInt)")
ENTRY = ("forall(lambda m, o: (((m in mol_to_out and o in mol_to_out[m]) == (done(m, o, {I}, {J}) or (m in old(mol_to_out) and o in old(mol_to_out)[m]))) and "
         "implies(done(m, o, {I}, {J}), mol_to_out[m][o] == wt(m, o)) and "
         "implies(not done(m, o, {I}, {J}) and m in old(mol_to_out) and o in old(mol_to_out)[m], mol_to_out[m][o] == old(mol_to_out)[m][o])), MolIdx, TInt)")
ENTRY_T = ENTRY.replace("m in mol_to_out and o in mol_to_out[m]", "o in out_to_mol and m in out_to_mol[o]") \
    .replace("m in old(mol_to_out) and o in old(mol_to_out)[m]", "o in old(out_to_mol) and m in old(out_to_mol)[o]") \
    .replace("mol_to_out[m][o] == wt", "out_to_mol[o][m] == wt").replace("mol_to_out[m][o] == old(mol_to_out)[m][o]", "out_to_mol[o][m] == old(out_to_mol)[o][m]")

apply_block_mapping_tables = FunctionContract(
    F, 'apply_block_mapping', 'C01', short='apply_block_mapping[weight tables]', setup=setup_abm, spec_defs=SPEC,
    spec_env=dict(MolIdx=MolIdx, BlockIdx=BlockIdx),
    region=dict(start="overlap = set(mol_to_out.keys()) & set(mol_to_block.keys())", end="none_to_one_mappings = set()"),
    axioms=lambda cx, env: [cx.eng._b(cx.eng.spec_truth(a, env)) for a in WORLD],
    requires=[TRANSPOSED.format(a='mol_to_out', b='out_to_mol')],
    ensures=[
        # overlap: the input atoms of this placement that an earlier placement already used
        "forall(lambda m: (m in overlap) == (m in old(mol_to_out) and m in mol_to_block), MolIdx)",
        # each particle of the placement records exactly the input atoms and weights the mapping assigns to it; what
        # earlier placements recorded is kept
        ENTRY.format(I='len(mol_to_block)', J='0'), ENTRY_T.format(I='len(mol_to_block)', J='0'),
        # the two tables stay transposes of each other
        TRANSPOSED.format(a='mol_to_out', b='out_to_mol'),
    ],
    modifies=['mol_to_out', 'out_to_mol'],
    loops={
        'L1': LoopSpec(inv=[ENTRY.format(I='_i', J='0'), ENTRY_T.format(I='_i', J='0')], modifies=['mol_to_out', 'out_to_mol']),
        'L1.1': LoopSpec(inv=[ENTRY.format(I='_iL1', J='_i'), ENTRY_T.format(I='_iL1', J='_i')], modifies=['mol_to_out', 'out_to_mol']),
    },
    canary=[("mol_to_out[mol_idx][out_idx] = weight", "mol_to_out[mol_idx][out_idx] = 1"),
            ("out_to_mol[out_idx][mol_idx] = weight", "out_to_mol[mol_idx][out_idx] = weight")],
)
CONTRACTS = [apply_block_mapping_tables]
LEMMAS = []

"""C01 -- resolution transformation: the bookkeeping of apply_block_mapping (which input atom contributes to which
particle with which weight)."""
from pyvc.api import *

F = 'vermouth/processors/do_mapping.py'
MolIdx, BlockIdx = TKey('MolIdx'), TKey('BlockIdx')
W = TReal
M2B = TMap(MolIdx, TMap(BlockIdx, W))          # mol_to_block of one placement (from the mapping)
B2O = TMap(BlockIdx, TInt)                     # block_to_out: keys given to the block's particles by merge_molecule
M2O = TMap(MolIdx, TMap(TInt, W))              # mol_to_out (defaultdict(dict))
O2M = TMap(TInt, TMap(MolIdx, W))              # out_to_mol (defaultdict(dict))

SPEC = {
    # the (atom, particle) pair is one that this placement maps, with weight w
    'pair': "lambda m, o: m in mol_to_block and binv(o) in mol_to_block[m] and binv(o) in block_to_out and block_to_out[binv(o)] == o",
    'wt': "lambda m, o: mol_to_block[m][binv(o)]",
    # ... and it has been handled by the double loop up to outer index I, inner index J
    'done': "lambda m, o, I, J: pair(m, o) and (posof(mol_to_block, m) < I or (posof(mol_to_block, m) == I and "
            "posof(mol_to_block[m], binv(o)) < J))",
}


def setup_abm(cx):
    cx.uf('binv', [TInt], BlockIdx)
    m2o = cx.box('mol_to_out', M2O)
    m2o.default = lambda e: Box(TMap(TInt, W))
    o2m = cx.box('out_to_mol', O2M)
    o2m.default = lambda e: Box(TMap(MolIdx, W))
    return dict(mol_to_block=cx.val('mol_to_block', M2B), block_to_out=cx.val('block_to_out', B2O), mol_to_out=m2o, out_to_mol=o2m)


WORLD = [
    # merge_molecule (C12) gives the block's particles pairwise distinct, fresh keys: block_to_out is injective (binv is its
    # inverse) and none of its values is a particle of an earlier placement
    "forall(lambda b: implies(b in block_to_out, binv(block_to_out[b]) == b), BlockIdx)",
    "forall(lambda m, b: implies(m in mol_to_block and b in mol_to_block[m], b in block_to_out), MolIdx, BlockIdx)",
    "forall(lambda b: implies(b in block_to_out, not (block_to_out[b] in out_to_mol) and "
    "   forall(lambda m: implies(m in mol_to_out, not (block_to_out[b] in mol_to_out[m])), MolIdx)), BlockIdx)",
]
TRANSPOSED = ("forall(lambda m, o: ((m in {a} and o in {a}[m]) == (o in {b} and m in {b}[o])) and "
              "implies(m in {a} and o in {a}[m], {a}[m][o] == {b}[o][m]), MolIdx, TInt)")
ENTRY = ("forall(lambda m, o: (((m in mol_to_out and o in mol_to_out[m]) == (done(m, o, {I}, {J}) or (m in old(mol_to_out) and o in old(mol_to_out)[m]))) and "
         "implies(done(m, o, {I}, {J}), mol_to_out[m][o] == wt(m, o)) and "
         "implies(not done(m, o, {I}, {J}) and m in old(mol_to_out) and o in old(mol_to_out)[m], mol_to_out[m][o] == old(mol_to_out)[m][o])), MolIdx, TInt)")
ENTRY_T = ENTRY.replace("m in mol_to_out and o in mol_to_out[m]", "o in out_to_mol and m in out_to_mol[o]") \
    .replace("m in old(mol_to_out) and o in old(mol_to_out)[m]", "o in old(out_to_mol) and m in old(out_to_mol)[o]") \
    .replace("mol_to_out[m][o] == wt", "out_to_mol[o][m] == wt").replace("mol_to_out[m][o] == old(mol_to_out)[m][o]", "out_to_mol[o][m] == old(out_to_mol)[o][m]")

apply_block_mapping_tables = FunctionContract(
    F, 'apply_block_mapping', 'C01', short='apply_block_mapping[weight tables]', setup=setup_abm, spec_defs=SPEC,
    spec_env=dict(MolIdx=MolIdx, BlockIdx=BlockIdx),
    region=dict(start="overlap = set(mol_to_out.keys()) & set(mol_to_block.keys())", end="none_to_one_mappings = set()"),
    axioms=lambda cx, env: [cx.eng._b(cx.eng.spec_truth(a, env)) for a in WORLD],
    requires=[TRANSPOSED.format(a='mol_to_out', b='out_to_mol')],
    ensures=[
        # overlap: the input atoms of this placement that an earlier placement already used
        "forall(lambda m: (m in overlap) == (m in old(mol_to_out) and m in mol_to_block), MolIdx)",
        # each particle of the placement records exactly the input atoms and weights the mapping assigns to it; what
        # earlier placements recorded is kept
        ENTRY.format(I='len(mol_to_block)', J='0'), ENTRY_T.format(I='len(mol_to_block)', J='0'),
        # the two tables stay transposes of each other
        TRANSPOSED.format(a='mol_to_out', b='out_to_mol'),
    ],
    modifies=['mol_to_out', 'out_to_mol'],
    loops={
        'L1': LoopSpec(inv=[ENTRY.format(I='_i', J='0'), ENTRY_T.format(I='_i', J='0')], modifies=['mol_to_out', 'out_to_mol']),
        'L1.1': LoopSpec(inv=[ENTRY.format(I='_iL1', J='_i'), ENTRY_T.format(I='_iL1', J='_i')], modifies=['mol_to_out', 'out_to_mol']),
    },
    canary=[("mol_to_out[mol_idx][out_idx] = weight", "mol_to_out[mol_idx][out_idx] = 1"),
            ("out_to_mol[out_idx][mol_idx] = weight", "out_to_mol[mol_idx][out_idx] = weight")],
)
CONTRACTS = [apply_block_mapping_tables]
LEMMAS = []


# ------------------------------------------------------------------ do_mapping: bonds between particles of two placements
OutI = TInt
EdgeO = TTuple(TInt, TInt)
MEdge = TTuple(MolIdx, MolIdx)


def setup_edges(cx):
    eng = cx.eng
    from pyvc.values import IterV
    from pyvc.builtins import _int, make_iter
    EDGES = cx.heap('EDGES', cx.box('EDGES', TSet(EdgeO)))               # graph_out's edges (either orientation)
    medges = cx.val('medges', TSeq(MEdge))                               # molecule.edges_between(match1, match2)
    cx.spec_env['medges'] = medges
    m2o = cx.val('mol_to_out', M2O)
    n21 = cx.val('none_to_one_mappings', TSet(TInt))
    molecule = Obj('Molecule', edges_between=Builtin(lambda e, a, b: medges, 'edges_between'))

    def add_edge(e, a, b):
        EDGES.e = z3.Store(EDGES.e, EdgeO.mk(to_z3(a, TInt), to_z3(b, TInt)), True)
    graph_out = Obj('Graph', add_edge=Builtin(add_edge, 'graph_out.add_edge'))
    pa_, pb_ = cx.uf('prod_a', [TInt], TInt), cx.uf('prod_b', [TInt], TInt)
    pk_ = cx.uf('prod_k', [TInt, TInt], TInt)
    calls = []

    def product(e, s1, s2):
        # assumed contract of itertools.product on two sets: every pair (x in s1, y in s2) exactly once.  (One call per
        # path: the enumeration functions are not indexed by the sets.)
        if calls and calls[-1] is e.decisions:
            pass
        def as_set(v):
            if isinstance(v, IterV) and getattr(v, 'keys_of', None) is not None:
                mt = type_of(v.keys_of)
                return mt.dom(to_z3(v.keys_of))                # a keys view: the set of keys
            return to_z3(v, TSet(TInt))
        a, b = as_set(s1), as_set(s2)
        k, x, y = z3.Ints('pk px py')
        n = e.fresh(TInt, 'prod_n')
        e.assume(n >= 0)
        e.assume(z3.ForAll([k], z3.Implies(z3.And(0 <= k, k < n), z3.And(z3.Select(a, pa_(k)), z3.Select(b, pb_(k)),
                                                                       pk_(pa_(k), pb_(k)) == k)), patterns=[pa_(k)]))
        e.assume(z3.ForAll([x, y], z3.Implies(z3.And(z3.Select(a, x), z3.Select(b, y)),
                                              z3.And(0 <= pk_(x, y), pk_(x, y) < n, pa_(pk_(x, y)) == x, pb_(pk_(x, y)) == y)),
                           patterns=[pk_(x, y)]))
        return IterV(n, lambda q: (SV(TInt, pa_(_int(q))), SV(TInt, pb_(_int(q)))))
    cx.spec_env['product'] = Builtin(product, 'product')
    ma, mb = Obj('match'), Obj('match')
    ma.attrs['keys'] = Builtin(lambda e: ma, 'keys')
    mb.attrs['keys'] = Builtin(lambda e: mb, 'keys')
    return dict(molecule=molecule, graph_out=graph_out, mol_to_out=m2o, none_to_one_mappings=n21, match1=(ma,), match2=(mb,))


SPEC_E = {
    # the particles an input atom contributes to, except those built from nothing (none-to-one)
    'O': "lambda m: setof(lambda o: o in mol_to_out[m] and not (o in none_to_one_mappings), TInt)",
    'has_e': "lambda E, a, b: (a, b) in E or (b, a) in E",
    'joins': "lambda q, a, b: a in O(medges[q][0]) and b in O(medges[q][1]) and a != b",
}
edges_between_placements = FunctionContract(
    F, 'do_mapping', 'C01', short='do_mapping[bonds between two placements]', setup=setup_edges, spec_defs=SPEC_E,
    spec_env=dict(MolIdx=MolIdx),
    region=dict(within=["for match1, match2 in combinations(all_matches, 2):"], start="match1 = match1[0]"),
    requires=["forall(lambda q: implies(0 <= q and q < len(medges), medges[q][0] in mol_to_out and medges[q][1] in mol_to_out))"],
    locals=dict(g_q=TMap(EdgeO, TInt)),
    ghost_at={'entry': "g_q = {}"},
    ensures=[
        # for every input bond between the two placements, every particle of the one atom is bonded to every (other)
        # particle of the other atom ...
        "forall(lambda q, a, b: implies(0 <= q and q < len(medges) and joins(q, a, b), has_e(EDGES, a, b)))",
        # ... and no other bond is added; existing bonds are kept
        "forall(lambda a, b: implies((a, b) in EDGES and not ((a, b) in old(EDGES)), (a, b) in g_q and 0 <= g_q[(a, b)] and "
        "   g_q[(a, b)] < len(medges) and joins(g_q[(a, b)], a, b)))",
        "forall(lambda a, b: implies((a, b) in old(EDGES), (a, b) in EDGES))",
    ],
    modifies=['EDGES'],
    loops={
        'L1': LoopSpec(
            inv=["forall(lambda q, a, b: implies(0 <= q and q < _i and joins(q, a, b), has_e(EDGES, a, b)))",
                 "forall(lambda a, b: implies((a, b) in EDGES and not ((a, b) in old(EDGES)), (a, b) in g_q and 0 <= g_q[(a, b)] and "
                 "   g_q[(a, b)] < _i and joins(g_q[(a, b)], a, b)))",
                 "forall(lambda a, b: implies((a, b) in old(EDGES), (a, b) in EDGES))"],
            modifies=['EDGES', 'g_q'], locals=dict(g_q=TMap(EdgeO, TInt)), ghost_pre="g_E = set(EDGES)\ng_q0 = dict(g_q)"),
        'L1.1': LoopSpec(
            inv=["forall(lambda x, y: implies(x in out_idxs and y in out_jdxs and prod_k(x, y) < _i and x != y, (x, y) in EDGES))",
                 "forall(lambda a, b: implies((a, b) in EDGES and not ((a, b) in g_E), (a, b) in g_q and g_q[(a, b)] == _iL1 and "
                 "   a in out_idxs and b in out_jdxs and a != b))",
                 "forall(lambda a, b: implies((a, b) in g_E, (a, b) in EDGES and implies((a, b) in g_q0, (a, b) in g_q and g_q[(a, b)] == g_q0[(a, b)])))",
                 "forall(lambda a, b: implies((a, b) in g_q and not ((a, b) in g_q0), not ((a, b) in g_E)))"],
            modifies=['EDGES', 'g_q'], locals=dict(g_q=TMap(EdgeO, TInt)),
            ghost_pre="g_had = (out_idx, out_jdx) in EDGES",
            ghost_end="if out_idx != out_jdx and not g_had:\n    g_q[(out_idx, out_jdx)] = _iL1"),
    },
    canary=[("out_jdxs = mol_to_out[mol_jdx].keys() - none_to_one_mappings", "out_jdxs = mol_to_out[mol_jdx].keys()"),
            ("if out_idx != out_jdx:", "if True:"),
            ("graph_out.add_edge(out_idx, out_jdx)", "graph_out.add_edge(out_idx, out_idx)")],
)
CONTRACTS.append(edges_between_placements)


# ------------------------------------------------------------------ do_mapping: attributes of a particle with a reference atom
ANameT, ValT = TKey('AName'), TKey('Val')
AMap = TMap(ANameT, ValT)


def setup_ref_attrs(cx):
    eng = cx.eng
    from pyvc.builtins import getitem, setitem, contains
    old_ = cx.uf('old_', [ANameT], ANameT)                       # "_old_" + attr
    a_, b_ = z3.Const('a', ANameT.sort()), z3.Const('b', ANameT.sort())
    cx.assume(z3.ForAll([a_, b_], z3.Implies(old_(a_) == old_(b_), a_ == b_)))
    eng.concat_hooks[('_old_', 'AName')] = lambda e, v: SV(ANameT, old_(v.e))
    NODE = cx.heap('NODE', cx.box('NODE', AMap))                 # graph_out.nodes[out_idx]
    new_attrs = cx.val('new_attrs', AMap)                        # attrs_from_node(reference atom, keep + must + stash)
    cx.spec_env['NA'] = new_attrs
    keep_s, stash_s = cx.val('keep_set', TSet(ANameT)), cx.val('stash_set', TSet(ANameT))

    def names(sv):
        # a tuple of attribute names: membership, and concatenation with the other tuples (only passed on to attrs_from_node)
        o = Obj('attrnames')
        o.attrs['__contains__'] = Builtin(lambda e, a: contains(e, sv, a), 'in')
        o.attrs['__add__'] = Builtin(lambda e, other: cat, '+')
        return o
    cx.spec_env['attrs_from_node'] = Builtin(lambda e, node, attrs: new_attrs, 'attrs_from_node')
    gnodes = Obj('NodeView', __getitem__=Builtin(lambda e, k: NODE, 'graph_out.nodes[]'))
    mnodes = Obj('NodeView', __getitem__=Builtin(lambda e, k: Obj('atom'), 'molecule.nodes[]'))
    allrefs = Obj('all_references', __getitem__=Builtin(lambda e, k: Obj('ref_idx'), 'all_references[]'))

    class Tup:
        pass
    cat = Obj('attrlist')
    cat.attrs['__add__'] = Builtin(lambda e, o: cat, '+')
    return dict(graph_out=Obj('Graph', nodes=gnodes), molecule=Obj('Molecule', nodes=mnodes), all_references=allrefs,
                out_idx=cx.val('out_idx', TInt), attribute_keep=names(keep_s), attribute_must=cat, attribute_stash=names(stash_s))


SPEC_RA = {
    'N0': "lambda: old(NODE)",
    'taken': "lambda a: a in NA and (a in attribute_keep or not (a in N0()))",
    'stashed_as': "lambda k: exists(lambda a: a in NA and a in attribute_stash and k == old_(a), AName)",
}
ref_attrs = FunctionContract(
    F, 'do_mapping', 'C01', short='do_mapping[attributes from the reference atom]', setup=setup_ref_attrs, spec_defs=SPEC_RA,
    spec_env=dict(AName=ANameT, Val=ValT),
    region=dict(within=["for out_idx in out_to_mol:", "if out_idx in all_references:"], start="ref_idx = all_references[out_idx]"),
    requires=[
        # a stashed copy never lands on one of the attributes that are being transferred
        "forall(lambda a, b: implies(a in NA and b in NA, old_(a) != b), AName, AName)",
    ],
    ensures=[
        # an attribute to keep - or one the particle does not have yet - is taken from the reference atom; every other
        # attribute of the particle stays as the block defined it (in particular the renumbered resid)
        "forall(lambda a: implies(taken(a), a in NODE and NODE[a] == NA[a]), AName)",
        "forall(lambda a: implies(a in NA and not taken(a), a in NODE and NODE[a] == N0()[a]), AName)",
        # attributes to stash are also stored as _old_<name>
        "forall(lambda a: implies(a in NA and a in attribute_stash, old_(a) in NODE and NODE[old_(a)] == NA[a]), AName)",
        # nothing else changes
        "forall(lambda k: implies(not (k in NA) and not stashed_as(k), (k in NODE) == (k in N0()) and implies(k in NODE, NODE[k] == N0()[k])), AName)",
    ],
    modifies=['NODE'],
    loops={'L1': LoopSpec(inv=[
        "forall(lambda a: implies(a in NA and posof(NA, a) < _i and taken(a), a in NODE and NODE[a] == NA[a]), AName)",
        "forall(lambda a: implies(a in NA and (posof(NA, a) >= _i or not taken(a)), (a in NODE) == (a in N0()) and implies(a in NODE, NODE[a] == N0()[a])), AName)",
        "forall(lambda a: implies(a in NA and posof(NA, a) < _i and a in attribute_stash, old_(a) in NODE and NODE[old_(a)] == NA[a]), AName)",
        "forall(lambda k: implies(not (k in NA) and not exists(lambda a: a in NA and posof(NA, a) < _i and a in attribute_stash and k == old_(a), AName), "
        "   (k in NODE) == (k in N0()) and implies(k in NODE, NODE[k] == N0()[k])), AName)"],
        modifies=['NODE'])},
    canary=[("graph_out.nodes[out_idx][attr] = val", "graph_out.nodes[out_idx].update(new_attrs)"),
            ("if attr in attribute_stash:", "if attr in attribute_keep:")],
)
CONTRACTS.append(ref_attrs)


# ------------------------------------------------------------------ do_mapping: atoms no mapping describes are reported
UAtom, Elem = TKey('UAtom'), TKey('Elem')


def setup_uncovered(cx):
    from pyvc.builtins import list_append
    NODES = cx.val('NODES', TSet(UAtom))                    # the atoms of the input molecule
    covered = cx.val('COVERED', TSet(UAtom))                # the keys of mol_to_out: atoms some placement gives a weight
    cx.spec_env.update(NODES=NODES, COVERED=covered)
    from pyvc.values import COERCIONS
    elem_of = cx.uf('elem_of', [UAtom], Elem)               # molecule.nodes[idx].get('element', '')
    consts = {'H': z3.Const('elem!H', Elem.sort()), '': z3.Const('elem!none', Elem.sort())}
    cx.assume(consts['H'] != consts[''])
    COERCIONS[('Str', 'Elem')] = lambda e: consts[e.as_string()] if z3.is_string_value(e) and e.as_string() in consts else \
        (_ for _ in ()).throw(EngineError('element %s' % e))
    WARNED = cx.heap('WARNED', cx.box('WARNED', TSeq(TStr)))
    DEBUGGED = cx.heap('DEBUGGED', cx.box('DEBUGGED', TSeq(TStr)))

    def node(e, idx):
        ie = to_z3(idx, UAtom)

        def get(e2, k, d=None):
            if k != 'element' or d != '':
                raise EngineError('node.get(%r, %r)' % (k, d))
            return SV(Elem, elem_of(ie))
        return Obj('atomdict', get=Builtin(get, 'node.get'))
    nodes = Obj('NodeView', __getitem__=Builtin(node, 'molecule.nodes[]'), keys=Builtin(lambda e: NODES, 'molecule.nodes.keys'))
    molecule = Obj('Molecule', nodes=nodes)
    mol_to_out = Obj('mol_to_out', keys=Builtin(lambda e: covered, 'mol_to_out.keys'))
    log = Obj('LOGGER')
    log.attrs['warning'] = Builtin(lambda e, *a, type=None, **k: list_append(e, WARNED, type), 'LOGGER.warning')
    log.attrs['debug'] = Builtin(lambda e, *a, type=None, **k: list_append(e, DEBUGGED, type), 'LOGGER.debug')
    cx.spec_env['LOGGER'] = log
    cx.spec_env['format_atom_string'] = Builtin(lambda e, n, **k: 'atom', 'format_atom_string')
    return dict(molecule=molecule, mol_to_out=mol_to_out)


uncovered = FunctionContract(
    F, 'do_mapping', 'C01', short='do_mapping[atoms no mapping describes]', setup=setup_uncovered, spec_env=dict(UAtom=UAtom), spec_defs={'is_h': "lambda a: elem_of(a) == 'H'"},
    region=dict(start="uncovered_atoms = set(molecule.nodes.keys()) - set(mol_to_out.keys())", end="for interaction_type in modified_interactions:"),
    ensures=[
        # an atom of the input that no placement gives a weight is reported: one unmapped-atom warning exactly when such an atom
        # is not a hydrogen, one debug message exactly when one is a hydrogen; nothing else is reported here
        "(len(WARNED) == len(old(WARNED)) + 1) == exists(lambda a: a in NODES and not (a in COVERED) and not is_h(a), UAtom)",
        "(len(DEBUGGED) == len(old(DEBUGGED)) + 1) == exists(lambda a: a in NODES and not (a in COVERED) and is_h(a), UAtom)",
        "len(WARNED) == len(old(WARNED)) or (len(WARNED) == len(old(WARNED)) + 1 and WARNED[len(old(WARNED))] == 'unmapped-atom')",
        "len(DEBUGGED) == len(old(DEBUGGED)) or (len(DEBUGGED) == len(old(DEBUGGED)) + 1 and DEBUGGED[len(old(DEBUGGED))] == 'unmapped-atom')",
    ],
    modifies=['WARNED', 'DEBUGGED'],
    canary=[("other_uncovered = uncovered_atoms - uncovered_hydrogens", "other_uncovered = uncovered_hydrogens"),
            ("if other_uncovered:", "if uncovered_hydrogens:"),
            ("if molecule.nodes[idx].get('element', '') == 'H'}", "if molecule.nodes[idx].get('element', '') != 'H'}")],
)
CONTRACTS.append(uncovered)


# ------------------------------------------------------------------ cover: an exact cover by the given options (recursive)
CItem = TKey('CItem')
COpts = TSeq(TSet(CItem))


def setup_cover(cx):
    return dict(to_cover=cx.box('to_cover', TSet(CItem)), options=cx.val('options', COpts))


cover_fn = FunctionContract(
    F, 'cover', 'C01', setup=setup_cover, spec_env=dict(CItem=CItem), result_ty=TOpt(COpts),
    locals=dict(left_to_cover=TSet(CItem), found=TOpt(COpts)),
    ensures=[
        # an answer is an exact cover: every item to be covered lies in one of the returned sets, in only one, the returned sets
        # hold nothing else, and each of them is one of the options (that None means "no cover exists" is not stated)
        "implies(result is not None, forall(lambda x: implies(x in old(to_cover), exists(lambda j: 0 <= j and j < len(payload(result)) and x in payload(result)[j])), CItem))",
        "implies(result is not None, forall(lambda x, j, k: implies(0 <= j and j < k and k < len(payload(result)), not (x in payload(result)[j] and x in payload(result)[k])), CItem, TInt, TInt))",
        "implies(result is not None, forall(lambda x, j: implies(0 <= j and j < len(payload(result)) and x in payload(result)[j], x in old(to_cover)), CItem, TInt))",
        "implies(result is not None, forall(lambda j: implies(0 <= j and j < len(payload(result)), exists(lambda i: 0 <= i and i < len(options) and "
        "   forall(lambda x: (x in payload(result)[j]) == (x in options[i]), CItem)))))",
        # the set to be covered is not changed
        "forall(lambda x: (x in to_cover) == (x in old(to_cover)), CItem)",
    ],
    loops={'L1': LoopSpec(inv=["forall(lambda x: (x in to_cover) == (x in old(to_cover)), CItem)"], modifies=[]),
           'L1.1': LoopSpec(inv=["forall(lambda x: (x in left_to_cover) == (x in to_cover and not (x in option and _posL1_1(x) < _i)), CItem)"],
                            modifies=['left_to_cover'])},
    canary=[("found = cover(left_to_cover, options[idx:])", "found = cover(to_cover, options[idx:])"),
            ("if all(item in to_cover for item in option):", "if any(item in to_cover for item in option):"),
            ("return [option] + found", "return found")],
)
cover_fn.recursive = True
CONTRACTS.append(cover_fn)

# Molecule.edges_between (contract of C12: every bond from the first set of atoms into the second, each once): what the loop over
# two placements above takes as `medges`; re-verified here
import copy as _copy
from contracts import c12 as _c12
_eb = _copy.copy(_c12.edges_between)
_eb.prop = 'C01'
CONTRACTS.append(_eb)


# ------------------------------------------------------------------ do_mapping: every placement is applied exactly once, in order
PlaceT = TKey('PlaceT')
Applied = TTuple(TBool, PlaceT, names=['is_block', 'place'])


def setup_order(cx):
    from pyvc.builtins import list_append
    B0 = cx.val('B0', TSeq(PlaceT))                         # block placements, sorted by key, largest first (popped from the end)
    M0 = cx.val('M0', TSeq(PlaceT))                         # modification placements, likewise
    cx.spec_env.update(B0=B0, M0=M0)
    bkey = cx.uf('bkey', [PlaceT], TInt)                    # block_sort_key(x): the smallest atom key of the placement
    mkey = cx.uf('mkey', [PlaceT], TInt)                    # mod_sort_key(x)
    APPLIED = cx.heap('APPLIED', cx.box('APPLIED', TSeq(Applied)))
    block_matches = cx.box('block_matches', TSeq(PlaceT))
    mod_matches = cx.box('mod_matches', TSeq(PlaceT))
    block_matches.e, mod_matches.e = B0.e, M0.e

    def apply_mod(e, match, molecule, graph_out, mol_to_out, out_to_mol):
        list_append(e, APPLIED, (False, match))
        return (Box(None, kind='dict'), Box(None, kind='dict'))

    def apply_block(e, match, molecule, graph_out, mol_to_out, out_to_mol):
        list_append(e, APPLIED, (True, match))
        return (Box(None, kind='set'), Box(None, kind='set'), Box(None, kind='dict'))
    cx.spec_env['apply_mod_mapping'] = Builtin(apply_mod, 'apply_mod_mapping')
    cx.spec_env['apply_block_mapping'] = Builtin(apply_block, 'apply_block_mapping')
    return dict(block_matches=block_matches, mod_matches=mod_matches, molecule=Obj('Molecule'), graph_out=Obj('graph_out'),
                mol_to_out=Obj('mol_to_out'), out_to_mol=Obj('out_to_mol'),
                block_sort_key=Builtin(lambda e, x: SV(TInt, bkey(to_z3(x, PlaceT))), 'block_sort_key'),
                mod_sort_key=Builtin(lambda e, x: SV(TInt, mkey(to_z3(x, PlaceT))), 'mod_sort_key'),
                overlapping_mappings=Box(TSet(TInt)), none_to_one_mappings=Box(TSet(TInt)),
                modified_interactions=Box(TMap(TInt, TInt)), all_references=Box(TMap(TInt, TInt)), all_matches=cx.box('all_matches', TSeq(PlaceT)))


ORDER_INV = [
    "0 <= len(block_matches) and len(block_matches) <= len(B0) and forall(lambda i: implies(0 <= i and i < len(block_matches), block_matches[i] == B0[i]))",
    "0 <= len(mod_matches) and len(mod_matches) <= len(M0) and forall(lambda i: implies(0 <= i and i < len(mod_matches), mod_matches[i] == M0[i]))",
    "len(APPLIED) == (len(B0) - len(block_matches)) + (len(M0) - len(mod_matches)) and len(all_matches) == len(APPLIED)",
    "forall(lambda p: implies(0 <= p and p < len(APPLIED), all_matches[p] == APPLIED[p].place))",
    # where each placement that has had its turn stands in the record, and which placement each entry of the record is
    "forall(lambda i: implies(len(block_matches) <= i and i < len(B0), i in g_b and 0 <= g_b[i] and g_b[i] < len(APPLIED) and "
    "   APPLIED[g_b[i]].is_block and APPLIED[g_b[i]].place == B0[i] and g_k[g_b[i]] == i))",
    "forall(lambda i: implies(len(mod_matches) <= i and i < len(M0), i in g_m and 0 <= g_m[i] and g_m[i] < len(APPLIED) and "
    "   not APPLIED[g_m[i]].is_block and APPLIED[g_m[i]].place == M0[i] and g_k[g_m[i]] == i))",
    "len(g_k) == len(APPLIED) and forall(lambda p: implies(0 <= p and p < len(APPLIED), "
    "   (len(block_matches) <= g_k[p] and g_k[p] < len(B0) and g_b[g_k[p]] == p) if APPLIED[p].is_block else "
    "   (len(mod_matches) <= g_k[p] and g_k[p] < len(M0) and g_m[g_k[p]] == p)))",
    # later in the list = earlier in the record, for blocks and for modifications
    "forall(lambda i, j: implies(len(block_matches) <= i and i < j and j < len(B0), g_b[j] < g_b[i]))",
    "forall(lambda i, j: implies(len(mod_matches) <= i and i < j and j < len(M0), g_m[j] < g_m[i]))",
    # a modification placement goes before a block placement exactly when its key is smaller (a tie goes to the block)
    "forall(lambda i, j: implies(len(block_matches) <= i and i < len(B0) and len(mod_matches) <= j and j < len(M0), "
    "   (g_m[j] < g_b[i]) == (mkey(M0[j]) < bkey(B0[i]))))",
    "forall(lambda i, j: implies(0 <= i and i < len(block_matches) and len(mod_matches) <= j and j < len(M0), mkey(M0[j]) < bkey(B0[i])))",
    "forall(lambda i, j: implies(len(block_matches) <= i and i < len(B0) and 0 <= j and j < len(mod_matches), mkey(M0[j]) >= bkey(B0[i])))",
]
placement_order = FunctionContract(
    F, 'do_mapping', 'C01', short='do_mapping[every placement once, in order]', setup=setup_order, spec_env=dict(PlaceT=PlaceT),
    region=dict(start="while block_matches or mod_matches:", end="to_remove = set()"),
    locals=dict(g_b=TMap(TInt, TInt), g_m=TMap(TInt, TInt), g_k=TSeq(TInt)),
    requires=["len(old(APPLIED)) == 0 and len(old(all_matches)) == 0",
              # the two lists are sorted by their keys, largest first (the sorted(..., reverse=True) calls before the loop)
              "forall(lambda i, j: implies(0 <= i and i < j and j < len(B0), bkey(B0[i]) >= bkey(B0[j])))",
              "forall(lambda i, j: implies(0 <= i and i < j and j < len(M0), mkey(M0[i]) >= mkey(M0[j])))"],
    ghost_at={'entry': "g_b = {}\ng_m = {}\ng_k = []"},
    ensures=ORDER_INV + [
        # every placement found - block or modification - is applied, exactly once (the maps above are inverse to each other), from
        # the end of its sorted list; nothing is left
        "len(block_matches) == 0 and len(mod_matches) == 0 and len(APPLIED) == len(B0) + len(M0)",
    ],
    modifies=['APPLIED', 'block_matches', 'mod_matches', 'all_matches', 'overlapping_mappings', 'none_to_one_mappings', 'modified_interactions',
              'all_references'],
    loops={'L1': LoopSpec(inv=ORDER_INV,
                          modifies=['APPLIED', 'block_matches', 'mod_matches', 'all_matches', 'overlapping_mappings', 'none_to_one_mappings',
                                    'modified_interactions', 'all_references', 'g_b', 'g_m', 'g_k'],
                          locals=dict(g_nb=TInt),
                          ghost_pre="g_nb = len(block_matches)",
                          ghost_end="if len(block_matches) < g_nb:\n    g_b[len(block_matches)] = len(APPLIED) - 1\n    g_k.append(len(block_matches))\n"
                                    "else:\n    g_m[len(mod_matches)] = len(APPLIED) - 1\n    g_k.append(len(mod_matches))",
                          decreases="len(block_matches) + len(mod_matches)")},
    canary=[("match = mod_matches.pop(-1)", "match = mod_matches.pop(0)"),
            ("all_matches.append(match)", "pass"),
            ("match = block_matches.pop(-1)", "match = block_matches[-1]")],
)
CONTRACTS.append(placement_order)


# ------------------------------------------------------------------ do_mapping: a particle without reference atom takes its attributes from its atoms
VSeq = TSeq(ValT)


def setup_noref(cx):
    from pyvc.builtins import list_append
    d = setup_ref_attrs(cx)
    ATTRS = cx.val('ATTRS', TMap(ANameT, VSeq))             # attrs: attribute -> the values of the constituent atoms that have it, in order
    cx.spec_env['ATTRS'] = ATTRS
    differ = cx.uf('all_equal', [VSeq], TBool)              # are_all_equal(vals) (its contract: proved under C17)
    cx.spec_env['are_all_equal'] = Builtin(lambda e, v: wrap(TBool, differ(to_z3(v, VSeq))), 'are_all_equal')
    WARNED = cx.heap('WARNED', cx.box('WARNED', TSeq(TStr)))
    cx.spec_env['LOGGER'] = Obj('LOGGER', warning=Builtin(lambda e, *a, type=None, **k: list_append(e, WARNED, type), 'LOGGER.warning'))
    cx.spec_env['format_atom_string'] = Builtin(lambda e, n, **k: 'atom', 'format_atom_string')
    d['attrs'] = ATTRS
    return d


SPEC_NR = {
    'N0': "lambda: old(NODE)",
    'first': "lambda a: ATTRS[a][0]",
    'taken': "lambda a: a in ATTRS and (a in attribute_keep or not (a in N0()))",
    'stashed_as': "lambda k: exists(lambda a: a in ATTRS and a in attribute_stash and k == old_(a), AName)",
}
NR_INV = [
    "forall(lambda a: implies(a in ATTRS and posof(ATTRS, a) < {I} and taken(a), a in NODE and NODE[a] == first(a)), AName)",
    "forall(lambda a: implies(a in ATTRS and (posof(ATTRS, a) >= {I} or not taken(a)), (a in NODE) == (a in N0()) and implies(a in NODE, NODE[a] == N0()[a])), AName)",
    "forall(lambda a: implies(a in ATTRS and posof(ATTRS, a) < {I} and a in attribute_stash, old_(a) in NODE and NODE[old_(a)] == first(a)), AName)",
    "forall(lambda k: implies(not (k in ATTRS) and not exists(lambda a: a in ATTRS and posof(ATTRS, a) < {I} and a in attribute_stash and k == old_(a), AName), "
    "   (k in NODE) == (k in N0()) and implies(k in NODE, NODE[k] == N0()[k])), AName)",
    # the attributes whose values differ between the atoms are collected (each once)
    "forall(lambda q: implies(0 <= q and q < len(attrs_not_sane), attrs_not_sane[q] in ATTRS and posof(ATTRS, attrs_not_sane[q]) < {I} and "
    "   not all_equal(ATTRS[attrs_not_sane[q]])))",
    "forall(lambda a: implies(a in ATTRS and posof(ATTRS, a) < {I} and not all_equal(ATTRS[a]), len(attrs_not_sane) > 0), AName)",
]
noref_attrs = FunctionContract(
    F, 'do_mapping', 'C01', short='do_mapping[attributes of a particle without reference atom]', setup=setup_noref, spec_defs=SPEC_NR,
    spec_env=dict(AName=ANameT, Val=ValT),
    region=dict(within=["for out_idx in out_to_mol:", "else of if out_idx in all_references:"], start="attrs_not_sane = []"),
    locals=dict(attrs_not_sane=TSeq(ANameT)),
    requires=[
        "forall(lambda a, b: implies(a in ATTRS and b in ATTRS, old_(a) != b), AName, AName)",
        # every attribute was collected from at least one atom
        "forall(lambda a: implies(a in ATTRS, len(ATTRS[a]) > 0), AName)",
        "len(old(WARNED)) == 0",
    ],
    ensures=[x.format(I='len(ATTRS)') for x in NR_INV[:4]] + [
        # one inconsistent-data warning exactly when the constituent atoms disagree on some attribute
        "(len(WARNED) == 1) == exists(lambda a: a in ATTRS and not all_equal(ATTRS[a]), AName)",
        "len(WARNED) <= 1 and implies(len(WARNED) == 1, WARNED[0] == 'inconsistent-data')",
    ],
    modifies=['NODE', 'WARNED'],
    loops={'L1': LoopSpec(inv=[x.format(I='_i') for x in NR_INV] + ["len(WARNED) == 0"], modifies=['NODE', 'attrs_not_sane'],
                          ghost_pre="prove(len(vals) > 0, 'collected-list-is-not-empty')")},
    canary=[("graph_out.nodes[out_idx][attr] = vals[0]", "graph_out.nodes[out_idx][attr] = vals[-1]"),
            ("if not are_all_equal(vals):", "if are_all_equal(vals):"),
            ("if attrs_not_sane:", "if not attrs_not_sane:")],
)
CONTRACTS.append(noref_attrs)


# ------------------------------------------------------------------ do_mapping: collecting the attribute values of a particle's atoms
CAtom = TKey('CAtom')
SrcMap = TMap(ANameT, TSeq(TInt))
ValMap = TMap(ANameT, VSeq)


def setup_collect_attrs(cx):
    MOLS = cx.val('MOLS', TSeq(CAtom))                      # mol_idxs: the atoms that make up the particle, in order
    cx.spec_env['MOLS'] = MOLS
    na = cx.uf('na', [CAtom], AMap)                         # attrs_from_node(molecule.nodes[atom], keep + must + stash)
    a_ = z3.Const('ca', CAtom.sort())
    cx.assume(z3.ForAll([a_], AMap.inv(na(a_))))
    mnodes = Obj('NodeView', __getitem__=Builtin(lambda e, k: SV(CAtom, to_z3(k, CAtom)), 'molecule.nodes[]'))
    cx.spec_env['attrs_from_node'] = Builtin(lambda e, node, attrs: SV(AMap, na(to_z3(node, CAtom))), 'attrs_from_node')
    cat = Obj('attrlist')
    cat.attrs['__add__'] = Builtin(lambda e, o: cat, '+')
    return dict(molecule=Obj('Molecule', nodes=mnodes), mol_idxs=MOLS, attribute_keep=cat, attribute_must=cat, attribute_stash=cat)


def _coll_inv(I):
    return [x.format(I=I) for x in (
        "forall(lambda a: (a in attrs) == (a in g_src), AName)",
        "forall(lambda a: implies(a in g_src, len(g_src[a]) >= 1 and len(attrs[a]) == len(g_src[a])), AName)",
        # the p-th value collected for an attribute is the value of one of the atoms looked at so far that has it
        "forall(lambda a, p: implies(a in g_src and 0 <= p and p < len(g_src[a]), 0 <= g_src[a][p] and g_src[a][p] < {I} and "
        "   a in na(MOLS[g_src[a][p]]) and attrs[a][p] == na(MOLS[g_src[a][p]])[a]), AName, TInt)",
        "forall(lambda a, p, q: implies(a in g_src and 0 <= p and p < q and q < len(g_src[a]), g_src[a][p] < g_src[a][q]), AName, TInt, TInt)",
        # and the first one is that of the first atom that has it
        "forall(lambda a, k: implies(0 <= k and k < {I} and a in na(MOLS[k]), a in g_src and g_src[a][0] <= k), AName, TInt)")]


collect_attrs = FunctionContract(
    F, 'do_mapping', 'C01', short='do_mapping[collecting the attributes of the atoms of a particle]', setup=setup_collect_attrs,
    spec_env=dict(AName=ANameT, Val=ValT),
    region=dict(within=["for out_idx in out_to_mol:", "else of if out_idx in all_references:"], start="attrs = defaultdict(list)",
                end="attrs_not_sane = []"),
    locals=dict(attrs=ValMap, g_src=SrcMap, g_A=ValMap, g_S=SrcMap),
    ghost_at={'entry': "g_src = {}"},
    # every attribute that some atom of the particle has is collected, with at least one value; the values are those of the atoms
    # that have it, in the atoms' order - so the first value (the one the particle takes) is that of the first such atom
    ensures=_coll_inv('len(MOLS)'),
    loops={
        'L1': LoopSpec(inv=_coll_inv('_i'), modifies=['attrs', 'g_src']),
        'L1.1': LoopSpec(inv=[
            # the attributes of this atom handled so far got one more value - this atom's -, everything else is as before this atom
            "forall(lambda a: implies(a in new_attrs and posof(new_attrs, a) < _i, a in attrs and a in g_src and "
            "   len(attrs[a]) == (len(g_A[a]) if a in g_A else 0) + 1 and len(g_src[a]) == len(attrs[a]) and "
            "   attrs[a][len(attrs[a]) - 1] == new_attrs[a] and g_src[a][len(g_src[a]) - 1] == _iL1 and "
            "   forall(lambda p: implies(0 <= p and p < len(attrs[a]) - 1, attrs[a][p] == g_A[a][p] and g_src[a][p] == g_S[a][p]))), AName)",
            "forall(lambda a: implies(not (a in new_attrs and posof(new_attrs, a) < _i), (a in attrs) == (a in g_A) and (a in g_src) == (a in g_S) and "
            "   implies(a in g_A, len(attrs[a]) == len(g_A[a]) and len(g_src[a]) == len(g_S[a]) and "
            "   forall(lambda p: implies(0 <= p and p < len(g_A[a]), attrs[a][p] == g_A[a][p] and g_src[a][p] == g_S[a][p])))), AName)"],
            modifies=['attrs', 'g_src'], ghost_init="g_A = dict(attrs)\ng_S = dict(g_src)",
            ghost_end="if attr in g_src:\n    g_src[attr] = g_src[attr] + [_iL1]\nelse:\n    g_src[attr] = [_iL1]"),
    },
    canary=[("attrs[attr].append(val)", "attrs[attr] = [val]"),
            ("for mol_idx in mol_idxs:", "for mol_idx in mol_idxs[1:]:")],
)
CONTRACTS.append(collect_attrs)


# ------------------------------------------------------------------ do_mapping: warnings about atoms that several particles claim
WAtom = TKey('WAtom')


def setup_warn(cx):
    from pyvc.builtins import list_append
    eng = cx.eng
    OVER = cx.val('overlapping_mappings', TSet(WAtom))
    ATOMS = cx.val('MAPPED', TSeq(WAtom))                   # the keys of mol_to_out, in order
    cx.spec_env.update(OVER=OVER, MAPPED=ATOMS)
    n_real = cx.uf('n_particles', [WAtom], TInt)            # len(mol_to_out[atom].keys() - none_to_one_mappings)
    connected = cx.uf('connected', [WAtom], TBool)          # networkx.is_connected(graph_out.subgraph(those particles))
    WARNED = cx.heap('WARNED', cx.box('WARNED', TSeq(TStr)))
    cx.spec_env['LOGGER'] = Obj('LOGGER', warning=Builtin(lambda e, *a, type=None, **k: list_append(e, WARNED, type), 'LOGGER.warning'))
    cx.spec_env['format_atom_string'] = Builtin(lambda e, n, **k: 'atom', 'format_atom_string')
    # the texts of the messages are not modelled
    for src in ("{format_atom_string(molecule.nodes[mol_idx]) for mol_idx in overlapping_mappings}",
                "{format_atom_string(graph_out.nodes[out_idx], atomid='') for mol_idx in overlapping_mappings for out_idx in mol_to_out[mol_idx]}",
                "{format_atom_string(graph_out.nodes[out_idx], atomid='') for out_idx in out_idxs}"):
        eng.opaque_exprs[src] = lambda e: Obj('names')

    def particles_of(e, a):
        ae = to_z3(a, WAtom)
        ks = Obj('keys')
        out = Obj('out_idxs', __len__=Builtin(lambda e2: SV(TInt, n_real(ae)), 'len(out_idxs)'))
        out.__dict__['atom'] = ae
        ks.attrs['__sub__'] = Builtin(lambda e2, other: out if other is none_to_one else (_ for _ in ()).throw(EngineError('keys - x')), '-')
        return Obj('particles', keys=Builtin(lambda e2: ks, 'keys'))
    none_to_one = Obj('none_to_one_mappings')
    m2o = Obj('mol_to_out', __getitem__=Builtin(particles_of, 'mol_to_out[]'))
    m2o.__dict__['iter'] = ATOMS
    graph_out = Obj('graph_out', subgraph=Builtin(lambda e, out: out, 'graph_out.subgraph'),
                    nodes=Obj('NodeView', __getitem__=Builtin(lambda e, k: Obj('node'), 'graph_out.nodes[]')))
    cx.spec_env['nx'] = Obj('networkx', is_connected=Builtin(lambda e, g: wrap(TBool, connected(g.__dict__['atom'])), 'networkx.is_connected'))
    molecule = Obj('Molecule', nodes=Obj('NodeView', __getitem__=Builtin(lambda e, k: Obj('node'), 'molecule.nodes[]')))
    return dict(overlapping_mappings=OVER, mol_to_out=m2o, none_to_one_mappings=none_to_one, graph_out=graph_out, molecule=molecule)


SPEC_WARN = {
    # the atom goes into several real particles that are not connected to each other
    'torn': "lambda i: n_particles(MAPPED[i]) > 1 and not connected(MAPPED[i])",
    'base': "lambda: 1 if exists(lambda a: a in OVER, WAtom) else 0",
}
WARN_INV = [
    "len(g_src) == len(WARNED) - base()",
    "forall(lambda q: implies(0 <= q and q < len(g_src), 0 <= g_src[q] and g_src[q] < {I} and torn(g_src[q])))",
    "forall(lambda p, q: implies(0 <= p and p < q and q < len(g_src), g_src[p] < g_src[q]))",
    "forall(lambda i: implies(0 <= i and i < {I} and torn(i), i in g_pos and 0 <= g_pos[i] and g_pos[i] < len(g_src) and g_src[g_pos[i]] == i))",
    "forall(lambda q: implies(0 <= q and q < len(WARNED), WARNED[q] == 'inconsistent-data'))",
]
mapping_warnings = FunctionContract(
    F, 'do_mapping', 'C01', short='do_mapping[atoms claimed by several particles]', setup=setup_warn, spec_defs=SPEC_WARN,
    spec_env=dict(WAtom=WAtom),
    region=dict(start="if overlapping_mappings:", end="uncovered_atoms = set(molecule.nodes.keys()) - set(mol_to_out.keys())"),
    locals=dict(g_src=TSeq(TInt), g_pos=TMap(TInt, TInt)), ghost_at={'entry': "g_src = []\ng_pos = {}"},
    requires=["len(old(WARNED)) == 0"],
    # one inconsistent-data warning when atoms are covered by several blocks, and one for every atom that goes into several
    # real (not none-to-one) particles that are not connected - each once, in order; nothing else
    ensures=[x.format(I='len(MAPPED)') for x in WARN_INV],
    modifies=['WARNED'],
    loops={'L1': LoopSpec(inv=[x.format(I='_i') for x in WARN_INV], modifies=['WARNED', 'g_src', 'g_pos'],
                          locals=dict(g_n0=TInt), ghost_pre="g_n0 = len(WARNED)",
                          ghost_end="if len(WARNED) > g_n0:\n    g_src.append(_i)\n    g_pos[_i] = len(g_src) - 1")},
    canary=[("if len(out_idxs) > 1 and not nx.is_connected(graph_out.subgraph(out_idxs)):", "if len(out_idxs) > 1 and nx.is_connected(graph_out.subgraph(out_idxs)):"),
            ("if len(out_idxs) > 1 and", "if len(out_idxs) >= 1 and"),
            ("if len(out_idxs) > 1 and", "if len(out_idxs) > 2 and")],
)
CONTRACTS.append(mapping_warnings)


# ------------------------------------------------------------------ DoMapping.run_system: molecule by molecule
MolIn, MolOut = TKey('MolIn'), TKey('MolOut')


def setup_dm_run(cx):
    mols = cx.val('MOLS_IN', TSeq(MolIn))
    cx.spec_env['MOLS_IN'] = mols
    mapped = cx.uf('mapped', [MolIn], MolOut)               # do_mapping(molecule, ...): by the contracts above
    empty = cx.uf('is_empty', [MolOut], TBool)              # the result has no particle (bool(molecule) is False)
    fails = cx.uf('unknown_residue', [MolIn], TBool)        # do_mapping raises KeyError
    cx.eng.truth_hooks['MolOut'] = lambda e, v: z3.Not(empty(v.e))
    keep, must, stash, mappings, to_ff = Obj('keep'), Obj('must'), Obj('stash'), Obj('mappings'), Obj('to_ff')
    cx.spec_env['TO_FF'] = to_ff

    def do_mapping_(e, molecule, mappings=None, to_ff=None, attribute_keep=(), attribute_must=(), attribute_stash=()):
        e.oblige(mappings is self.attrs['mappings'] and to_ff is self.attrs['to_ff'] and attribute_keep is keep and attribute_must is must and
                 attribute_stash is stash, 'do_mapping:gets-this-processor-parameters')
        me = to_z3(molecule, MolIn)
        e.maybe_raise(z3.Not(fails(me)), 'KeyError')
        return SV(MolOut, mapped(me))
    cx.spec_env['do_mapping'] = Builtin(do_mapping_, 'do_mapping')
    self = cx.obj('DoMapping', mappings=mappings, to_ff=to_ff, delete_unknown=cx.val('delete_unknown', TBool), attribute_keep=keep,
                  attribute_must=must, attribute_stash=stash)
    system = Obj('System', molecules=Box(TSeq(MolIn), mols.e), force_field=Obj('old_ff'))
    return dict(self=self, system=system)


DM_INV = [
    "len(g_src) == len(mols)",
    "forall(lambda q: implies(0 <= q and q < len(g_src), 0 <= g_src[q] and g_src[q] < {I} and not is_empty(mapped(MOLS_IN[g_src[q]])) and "
    "   mols[q] == mapped(MOLS_IN[g_src[q]])))",
    "forall(lambda p, q: implies(0 <= p and p < q and q < len(g_src), g_src[p] < g_src[q]))",
    "forall(lambda i: implies(0 <= i and i < {I} and not is_empty(mapped(MOLS_IN[i])), i in g_pos and 0 <= g_pos[i] and g_pos[i] < len(g_src) and "
    "   g_src[g_pos[i]] == i))",
    "forall(lambda i: implies(0 <= i and i < {I}, not unknown_residue(MOLS_IN[i])))",
]
dm_run_system = FunctionContract(
    F, 'DoMapping.run_system', 'C01', setup=setup_dm_run, spec_env=dict(MolIn=MolIn),
    locals=dict(mols=TSeq(MolOut), g_src=TSeq(TInt), g_pos=TMap(TInt, TInt)), ghost_at={'entry': "g_src = []\ng_pos = {}"},
    ensures=[
        # the system afterwards holds, in order, the mapped version of every molecule that maps to at least one particle - no molecule
        # is lost or duplicated - and its force field is the target force field
        "len(system.molecules) == len(g_src) and forall(lambda q: implies(0 <= q and q < len(g_src), system.molecules[q] == mapped(MOLS_IN[g_src[q]])))",
    ] + [x.format(I='len(MOLS_IN)').replace('mols[q]', 'system.molecules[q]').replace('len(mols)', 'len(system.molecules)') for x in DM_INV] + [
        "system.force_field is TO_FF"],
    # a molecule with a residue no mapping knows: KeyError, the system is left as it was
    raises={'KeyError': ["exists(lambda i: 0 <= i and i < len(MOLS_IN) and unknown_residue(MOLS_IN[i]))",
                         "len(system.molecules) == len(MOLS_IN) and forall(lambda i: implies(0 <= i and i < len(MOLS_IN), system.molecules[i] == MOLS_IN[i]))"]},
    modifies=['system.molecules', 'system.force_field'],
    loops={'L1': LoopSpec(inv=[x.format(I='_i') for x in DM_INV] + [
        "len(system.molecules) == len(MOLS_IN) and forall(lambda i: implies(0 <= i and i < len(MOLS_IN), system.molecules[i] == MOLS_IN[i]))"],
        modifies=['mols', 'g_src', 'g_pos'], locals=dict(g_n0=TInt), ghost_pre="g_n0 = len(mols)",
        ghost_end="if len(mols) > g_n0:\n    g_src.append(_i)\n    g_pos[_i] = len(g_src) - 1")},
    canary=[("if new_molecule:", "if not new_molecule:"), ("system.force_field = self.to_ff", "pass"),
            ("attribute_keep=self.attribute_keep,", "attribute_keep=self.attribute_must,")],
)
CONTRACTS.append(dm_run_system)


# ------------------------------------------------------------------ do_mapping: where the block placements come from
MapT, MatchT = TKey('MapT'), TKey('MatchT')


def setup_bm(cx):
    eng = cx.eng
    mappings = cx.val('MAPPINGS', TSeq(MapT))                # build_graph_mapping_collection(...): the mappings between the two force fields
    cx.spec_env.update(MAPPINGS=mappings, MapT=MapT)
    mtype = cx.uf('mtype', [MapT], TStr)
    found = cx.uf('found', [MapT], TSeq(MatchT))             # mapping.map(molecule, ...): the placements of this mapping on this molecule
    m_ = z3.Const('bm', MapT.sort())
    cx.assume(z3.ForAll([m_], TSeq(MatchT).len(found(m_)) >= 0))          # a list
    molecule, nm, em = Obj('Molecule'), Obj('_old_atomname_match'), Obj('edge_matcher')
    eng.attr_hooks[('MapT', 'type')] = lambda e, m: SV(TStr, mtype(to_z3(m, MapT)))

    def map_(e, m, mol, node_match=None, edge_match=None):
        e.oblige(mol is molecule and node_match is nm and edge_match is em, 'placements:searched-on-this-molecule-with-the-atom-name-and-bond-matchers')
        return SV(TSeq(MatchT), found(to_z3(m, MapT)))
    eng.methods[('MapT', 'map')] = map_
    cx.spec_env['_old_atomname_match'] = nm
    return dict(mappings=mappings, molecule=molecule, edge_matcher=em)


SPEC_BM = {
    'isblock': "lambda m: mtype(MAPPINGS[m]) == 'block'",
    'cnt': "lambda m: len(found(MAPPINGS[m])) if isblock(m) else 0",
    # the placements of mapping m sit in one stretch of the list, in the order the search gave them
    'stretch_ok': "lambda m: m in g_lo and 0 <= g_lo[m] and g_lo[m] + cnt(m) <= len(block_matches) and "
                  "forall(lambda q: implies(0 <= q and q < cnt(m), block_matches[g_lo[m] + q] == found(MAPPINGS[m])[q]))",
}
BM_INV = [
    "forall(lambda m: implies(0 <= m and m < _i, stretch_ok(m)))",
    "forall(lambda m: implies(0 <= m and m + 1 < _i, g_lo[m] + cnt(m) == g_lo[m + 1]))",
    "implies(_i > 0, g_lo[0] == 0 and g_lo[_i - 1] + cnt(_i - 1) == len(block_matches))",
    "implies(_i == 0, len(block_matches) == 0)",
]
block_matches = FunctionContract(
    F, 'do_mapping', 'C01', short='do_mapping[where the block placements come from]', setup=setup_bm, spec_defs=SPEC_BM,
    region=dict(start="block_matches = []", end="mod_matches = modification_matches(molecule, mappings)"),
    locals=dict(g_lo=TMap(TInt, TInt), block_matches=TSeq(MatchT)),
    ghost_at={'entry': "g_lo = {}"},
    ensures=[
        # the list of block placements is, mapping by mapping in the order of the mappings, everything the search of a block mapping
        # finds on this molecule - nothing is dropped, repeated or taken from a mapping of another kind
    ] + [c.replace('_i', 'len(MAPPINGS)') for c in BM_INV],
    loops={'L1': LoopSpec(inv=BM_INV, modifies=['block_matches', 'g_lo'], ghost_pre="g_lo[_i] = len(block_matches)",
                          ghost_end="prove(forall(lambda m: implies(0 <= m and m < _i, stretch_ok(m))), 'earlier-stretches-untouched')\n"
                                    "prove(stretch_ok(_i), 'this-stretch')")},
    canary=[("if mapping.type == 'block':", "if mapping.type != 'modification':"),
            ("block_matches.extend(mapping.map(molecule, node_match=_old_atomname_match,", "block_matches = list(mapping.map(molecule, node_match=_old_atomname_match,"),
            ("block_matches.extend(mapping.map(molecule, node_match=_old_atomname_match,", "block_matches.extend(mapping.map(molecule, node_match=None,")],
)
CONTRACTS.append(block_matches)


# ------------------------------------------------------------------ do_mapping: the order in which block placements are applied
def setup_bs(cx):
    eng = cx.eng
    before = cx.val('FOUND', TSeq(MatchT))                   # the block placements as found (contract above)
    cx.spec_env.update(MatchT=MatchT)
    lowest = cx.uf('lowest', [MatchT], TInt)                 # min(x[0].keys()): the lowest atom key the placement covers
    ix, rk = cx.uf('arr_ix', [TInt], TInt), cx.uf('arr_rk', [TInt], TInt)
    st = TSeq(MatchT)

    other = cx.uf('lowest_of_another_part', [MatchT], TInt)

    def covered(e, x, k):
        if not isinstance(k, int):
            raise EngineError('placement[%r]' % (k,))
        o = Obj('covered', of=x)
        o.attrs['keys'] = Builtin(lambda e2: Obj('covered-keys', of=x, part=k), 'keys')
        return o
    eng.methods[('MatchT', '__getitem__')] = covered

    def min_(e, xs):
        if not (isinstance(xs, Obj) and xs.cls == 'covered-keys'):
            raise EngineError('min of something else')
        return SV(TInt, (lowest if xs.attrs['part'] == 0 else other)(to_z3(xs.attrs['of'], MatchT)))

    def sorted_(e, xs, key=None, reverse=False):
        # sorted(xs, key=f, reverse=True) by its contract: an arrangement of xs (index maps arr_ix / arr_rk, inverse of each other) in
        # non-increasing order of f; elements with equal keys keep their order.  The key is evaluated from the real lambda
        if not (isinstance(xs, (SV, Box)) and type_of(xs) == st) or key is None:
            raise EngineError('sorted() of something else')
        before_e = to_z3(xs, st)
        after = e.fresh_val(st, 'arranged')
        e.oblige(reverse is True, 'order:highest-first')
        x = z3.Const('sx', MatchT.sort())
        kv = e.call(key, [SV(MatchT, x)], {})
        e.oblige(isinstance(kv, SV) and kv.ty == TInt and z3.eq(kv.e, lowest(x)), 'sort-key:the-lowest-atom-of-the-placement')
        n = st.len(before_e)
        a, b = z3.FreshInt('sa'), z3.FreshInt('sb')
        e.assume(st.len(after.e) == n)
        e.assume(z3.ForAll([a], z3.Implies(z3.And(0 <= a, a < n), z3.And(0 <= ix(a), ix(a) < n, rk(ix(a)) == a, 0 <= rk(a), rk(a) < n, ix(rk(a)) == a,
                                                                      st.at(after.e, a) == st.at(before_e, ix(a))))))
        if reverse is True:
            e.assume(z3.ForAll([a, b], z3.Implies(z3.And(0 <= a, a < b, b < n), z3.Or(
                lowest(st.at(after.e, a)) > lowest(st.at(after.e, b)),
                z3.And(lowest(st.at(after.e, a)) == lowest(st.at(after.e, b)), ix(a) < ix(b))))))
        return after
    cx.spec_env['min'] = Builtin(min_, 'min')
    cx.spec_env['sorted'] = Builtin(sorted_, 'sorted')
    return dict(block_matches=before)


block_order = FunctionContract(
    F, 'do_mapping', 'C01', short='do_mapping[the order of the block placements]', setup=setup_bs,
    locals=dict(block_matches=TSeq(MatchT)),
    region=dict(start="block_sort_key = lambda x:", end="mod_matches = sorted(mod_matches, key=mod_sort_key, reverse=True)"),
    ensures=[
        # the placements are applied - popped from the end of this list - lowest atom first: the list holds every placement found,
        # once, arranged by the lowest atom key each covers, highest first
        "len(block_matches) == len(old(block_matches))",
        "forall(lambda a: implies(0 <= a and a < len(old(block_matches)), 0 <= arr_ix(a) and arr_ix(a) < len(old(block_matches)) and block_matches[a] == old(block_matches)[arr_ix(a)] and "
        "   arr_rk(arr_ix(a)) == a and 0 <= arr_rk(a) and arr_rk(a) < len(old(block_matches)) and arr_ix(arr_rk(a)) == a))",
        "forall(lambda a, b: implies(0 <= a and a < b and b < len(old(block_matches)), lowest(block_matches[a]) >= lowest(block_matches[b])))",
    ],
    canary=[("block_sort_key = lambda x: min(x[0].keys())", "block_sort_key = lambda x: min(x[1].keys())"),
            ("block_matches = sorted(block_matches, key=block_sort_key, reverse=True)", "block_matches = sorted(block_matches, key=block_sort_key)"),
            ("block_matches = sorted(block_matches, key=block_sort_key, reverse=True)", "block_matches = sorted(block_matches, key=lambda x: -block_sort_key(x), reverse=True)")],
)
CONTRACTS.append(block_order)



# ------------------------------------------------------------------ do_mapping: the block placements, found and ordered (the two regions composed)
def setup_bmo(cx):
    args = setup_bm(cx)
    args.update({k: v for k, v in setup_bs(cx).items() if k != 'block_matches'})
    # between the two regions the modification placements are collected (modification_matches: not under this contract)
    cx.spec_env['modification_matches'] = Builtin(lambda e, mol, maps: Obj('mod_matches'), 'modification_matches')
    return args


placements_whole = FunctionContract(
    F, 'do_mapping', 'C01', short='do_mapping[the block placements, found and ordered]', setup=setup_bmo, spec_defs=SPEC_BM,
    region=dict(start="block_matches = []", end="mod_matches = sorted(mod_matches, key=mod_sort_key, reverse=True)"),
    blocks=[BlockSpec.of(block_matches), BlockSpec.of(block_order)],
    locals=dict(g_found=TSeq(MatchT), g_lo=TMap(TInt, TInt), block_matches=TSeq(MatchT)),
    ghost_at={'after:block:%s' % block_matches.short: "g_found = list(block_matches)"},
    allow_exc=(),
    ensures=[
        # g_found - the list before it is sorted - is everything the block mappings find, mapping by mapping (stretch g_lo[m] ...); the
        # list handed on is an arrangement of it (arr_ix / arr_rk: each placement once) by the lowest covered atom, highest first
    ] + [c.replace('_i', 'len(MAPPINGS)').replace('block_matches', 'g_found') for c in
         ["forall(lambda m: implies(0 <= m and m < _i, m in g_lo and 0 <= g_lo[m] and g_lo[m] + cnt(m) <= len(block_matches) and "
          "   forall(lambda q: implies(0 <= q and q < cnt(m), block_matches[g_lo[m] + q] == found(MAPPINGS[m])[q]))))"] + BM_INV[1:]] + [
        "len(block_matches) == len(g_found)",
        "forall(lambda a: implies(0 <= a and a < len(g_found), 0 <= arr_ix(a) and arr_ix(a) < len(g_found) and block_matches[a] == g_found[arr_ix(a)] and "
        "   arr_rk(arr_ix(a)) == a and 0 <= arr_rk(a) and arr_rk(a) < len(g_found) and arr_ix(arr_rk(a)) == a))",
        "forall(lambda a, b: implies(0 <= a and a < b and b < len(g_found), lowest(block_matches[a]) >= lowest(block_matches[b])))",
    ],
)
CONTRACTS.append(placements_whole)

"""C02 -- a written ITP states the molecule held in memory: the [ atoms ] loop of write_molecule_itp and its template."""
from pyvc.api import *
import ast as _ast
import os as _os
import re as _re

F = 'vermouth/gmx/itp.py'
Key = TKey('Key')
Event = TTuple(TInt, Key)               # an atom line: (index written, node whose attributes are written)
_REPO = _os.environ.get('VERIF_REPO', '/repo')


def _atoms_loop():
    tree = _ast.parse(open(_os.path.join(_REPO, F)).read())
    fn = next(st for st in tree.body if isinstance(st, _ast.FunctionDef) and st.name == 'write_molecule_itp')
    loop = next(n for n in _ast.walk(fn) if isinstance(n, _ast.For) and 'sorted_nodes' in _ast.unparse(n.iter) and '{atomname:' in _ast.unparse(n))
    template = max((c.value for c in _ast.walk(loop) if isinstance(c, _ast.Constant) and isinstance(c.value, str)), key=len)
    return fn, loop, template


def setup_atoms(cx):
    eng = cx.eng
    order = cx.val('sorted_nodes', TSeq(Key))
    cx.spec_env['order'] = order
    cx.uf('opos', [Key], TInt)
    EVENTS = cx.heap('EVENTS', Box(TSeq(Event)))
    from pyvc.builtins import list_append

    class AtomDict:
        pass

    def atomdict(node, over=None):
        o = Obj('atomdict')
        o.__dict__['node'] = node
        o.__dict__['over'] = dict(over or {})
        o.attrs['get'] = Builtin(lambda e, k, d=None: o.__dict__['over'].get(k, ('attr', k, node)), 'get')
        o.attrs['__setitem__'] = Builtin(lambda e, k, v: o.__dict__['over'].__setitem__(k, v), '[]=')
        o.attrs['__copy__'] = Builtin(lambda e: atomdict(node, o.__dict__['over']), 'copy')
        return o
    nodes = Obj('NodeView')
    nodes.attrs['__getitem__'] = Builtin(lambda e, k: atomdict(k), 'nodes[]')
    molecule = Obj('Molecule', nodes=nodes, sorted_nodes=order)
    template = _atoms_loop()[2]

    def fmt(e, idx=None, max_length=None, **kw):
        atom = kw.get('**')
        # the line states `idx` and the attributes of the node whose dict is passed with **
        return ('atomline', idx, atom.__dict__['node'])
    eng.format_hooks[template] = fmt
    out = Obj('outfile')
    # atom lines are recorded; other text (section header, user-supplied pre-section lines) is not an atom line
    out.attrs['write'] = Builtin(lambda e, line: list_append(e, EVENTS, (line[1], line[2])) if isinstance(line, tuple) else None, 'write')
    pre = Obj('pre_section_lines', get=Builtin(lambda e, k, d=None: cx.val('pre_lines', TSeq(TStr)), 'pre_section_lines.get'))
    copy_ = Obj('copy')
    copy_.attrs['copy'] = Builtin(lambda e, x: e.call(x.attrs['__copy__'], [], {}), 'copy.copy')
    cx.spec_env['copy'] = copy_
    import itertools as _it
    nodes.__dict__['iter'] = cx.val('node_order', TSeq(Key))      # iteration over molecule.nodes: insertion order, not sorted order
    return dict(molecule=molecule, outfile=out, max_length=Obj('max_length'), pre_section_lines=pre, seen_sections=Box(TSet(TStr)))


atoms_loop = FunctionContract(
    F, 'write_molecule_itp', 'C02', short='write_molecule_itp[atoms]', setup=setup_atoms, spec_env=dict(Key=Key),
    region=dict(start="correspondence =", end="for line in post_section_lines.get('atoms', []):"),
    locals=dict(correspondence=TMap(Key, TInt)),
    requires=["forall(lambda i: implies(0 <= i and i < len(order), opos(order[i]) == i))",       # no node twice
              "len(old(EVENTS)) == 0"],
    ensures=[
        # exactly N atom lines, the k-th numbered k and stating the attributes of the k-th node of sorted_nodes
        "len(EVENTS) == len(order)",
        "forall(lambda k: implies(0 <= k and k < len(order), EVENTS[k][0] == k + 1 and EVENTS[k][1] == order[k]))",
        # the renumbering used for the interactions maps exactly these nodes to exactly these numbers
        "forall(lambda k: implies(0 <= k and k < len(order), order[k] in correspondence and correspondence[order[k]] == k + 1))",
        "forall(lambda n: implies(n in correspondence, 0 <= opos(n) and opos(n) < len(order) and order[opos(n)] == n), Key)",
    ],
    modifies=['EVENTS', 'correspondence'],
    loops={'L1': LoopSpec(inv=["len(EVENTS) == 0", "len(correspondence) == 0"], modifies=[]),      # the user's pre-section lines
           'L2': LoopSpec(inv=[
        "len(EVENTS) == _i",
        "forall(lambda k: implies(0 <= k and k < _i, EVENTS[k][0] == k + 1 and EVENTS[k][1] == order[k]))",
        "forall(lambda k: implies(0 <= k and k < _i, order[k] in correspondence and correspondence[order[k]] == k + 1))",
        "forall(lambda n: implies(n in correspondence, 0 <= opos(n) and opos(n) < _i and order[opos(n)] == n), Key)"],
        modifies=['EVENTS', 'correspondence'], locals=dict(correspondence=TMap(Key, TInt)))},
    canary=[("enumerate(molecule.sorted_nodes, start=1)", "enumerate(molecule.sorted_nodes, start=0)"),
            ("correspondence[original_idx] = idx", "correspondence[original_idx] = idx + 1")],
)
CONTRACTS = [atoms_loop]
LEMMAS = []


def extra_obligations(tier):
    obs = []

    def ob(name, ok, detail, bad=True):
        obs.append(dict(name=name, status='unsat' if ok else ('sat' if bad else 'unknown'), backend='ast-eval', detail=detail, key=name,
                        function='write_molecule_itp'))
    try:
        fn, loop, template = _atoms_loop()
        fields = _re.findall(r'\{(\w+):', template)
        want = ['idx', 'atype', 'resid', 'resname', 'atomname', 'charge_group', 'charge', 'mass']
        ob('template:atom-fields', fields == want, 'the atom line states %s (statement: %s)' % (fields, want))
        call = next(n for n in _ast.walk(loop) if isinstance(n, _ast.Call) and isinstance(n.func, _ast.Attribute) and n.func.attr == 'format'
                    and any(k.arg is None for k in n.keywords))
        star = _ast.unparse(next(k.value for k in call.keywords if k.arg is None))
        src = {_ast.unparse(st.targets[0]): _ast.unparse(st.value) for st in loop.body if isinstance(st, _ast.Assign) and len(st.targets) == 1}
        ob('template:values-of-this-node', src.get(star) == 'copy.copy(atom)' and src.get('atom') == 'molecule.nodes[original_idx]',
           'the fields are filled from **%s = %s with atom = %s' % (star, src.get(star), src.get('atom')), bad=False)
        # sections: impropers are written under [ dihedrals ]; virtual_sitesn: first atom, parameters, then the other atoms
        text = _ast.unparse(fn)
        ob('sections:impropers-under-dihedrals', "if name == 'impropers'" in text.replace('"', "'") and "'dihedrals'" in text.replace('"', "'"),
           'impropers are renamed to dihedrals when the section header is written', bad=False)
        ob('sections:virtual_sitesn-layout', 'virtual_sitesn' in text and 'atoms[0]' in text.replace(' ', '') or 'atoms[:1]' in text.replace(' ', ''),
           'n-body virtual sites are written with the function type after the first atom', bad=False)
        keys = next((_ast.literal_eval(st.value) for st in _ast.walk(fn) if isinstance(st, _ast.Assign) and isinstance(st.targets[0], _ast.Name)
                     and st.targets[0].id == 'conditional_keys'), None)
        ob('guards:keywords', keys == {True: '#ifdef', False: '#ifndef'}, 'conditional_keys = %r' % (keys,), bad=keys is not None)
    except Exception as ex:
        obs.append(dict(name='template:extraction', status='unknown', backend='ast-eval', detail='%s: %s' % (type(ex).__name__, ex), key='template:extraction'))
    return obs

"""C02 -- a written ITP states the molecule held in memory: the [ atoms ] loop of write_molecule_itp and its template."""
from pyvc.api import *
import ast as _ast
import os as _os
import re as _re

F = 'vermouth/gmx/itp.py'
Key = TKey('Key')
Event = TTuple(TInt, Key)               # an atom line: (index written, node whose attributes are written)
_REPO = _os.environ.get('VERIF_REPO', '/repo')


def _atoms_loop():
    tree = _ast.parse(open(_os.path.join(_REPO, F)).read())
    fn = next(st for st in tree.body if isinstance(st, _ast.FunctionDef) and st.name == 'write_molecule_itp')
    loop = next(n for n in _ast.walk(fn) if isinstance(n, _ast.For) and 'sorted_nodes' in _ast.unparse(n.iter) and '{atomname:' in _ast.unparse(n))
    template = max((c.value for c in _ast.walk(loop) if isinstance(c, _ast.Constant) and isinstance(c.value, str)), key=len)
    return fn, loop, template


def setup_atoms(cx):
    eng = cx.eng
    order = cx.val('sorted_nodes', TSeq(Key))
    cx.spec_env['order'] = order
    cx.uf('opos', [Key], TInt)
    EVENTS = cx.heap('EVENTS', Box(TSeq(Event)))
    from pyvc.builtins import list_append

    class AtomDict:
        pass

    def atomdict(node, over=None):
        o = Obj('atomdict')
        o.__dict__['node'] = node
        o.__dict__['over'] = dict(over or {})
        o.attrs['get'] = Builtin(lambda e, k, d=None: o.__dict__['over'].get(k, ('attr', k, node)), 'get')
        o.attrs['__setitem__'] = Builtin(lambda e, k, v: o.__dict__['over'].__setitem__(k, v), '[]=')
        o.attrs['__copy__'] = Builtin(lambda e: atomdict(node, o.__dict__['over']), 'copy')
        return o
    nodes = Obj('NodeView')
    nodes.attrs['__getitem__'] = Builtin(lambda e, k: atomdict(k), 'nodes[]')
    molecule = Obj('Molecule', nodes=nodes, sorted_nodes=order)
    template = _atoms_loop()[2]

    def fmt(e, idx=None, max_length=None, **kw):
        atom = kw.get('**')
        # the line states `idx` and the attributes of the node whose dict is passed with **
        return ('atomline', idx, atom.__dict__['node'])
    eng.format_hooks[template] = fmt
    out = Obj('outfile')
    # atom lines are recorded; other text (section header, user-supplied pre-section lines) is not an atom line
    out.attrs['write'] = Builtin(lambda e, line: list_append(e, EVENTS, (line[1], line[2])) if isinstance(line, tuple) else None, 'write')
    pre = Obj('pre_section_lines', get=Builtin(lambda e, k, d=None: cx.val('pre_lines', TSeq(TStr)), 'pre_section_lines.get'))
    copy_ = Obj('copy')
    copy_.attrs['copy'] = Builtin(lambda e, x: e.call(x.attrs['__copy__'], [], {}), 'copy.copy')
    cx.spec_env['copy'] = copy_
    import itertools as _it
    nodes.__dict__['iter'] = cx.val('node_order', TSeq(Key))      # iteration over molecule.nodes: insertion order, not sorted order
    return dict(molecule=molecule, outfile=out, max_length=Obj('max_length'), pre_section_lines=pre, seen_sections=Box(TSet(TStr)))


atoms_loop = FunctionContract(
    F, 'write_molecule_itp', 'C02', short='write_molecule_itp[atoms]', setup=setup_atoms, spec_env=dict(Key=Key),
    region=dict(start="correspondence =", end="for line in post_section_lines.get('atoms', []):"),
    locals=dict(correspondence=TMap(Key, TInt)),
    requires=["forall(lambda i: implies(0 <= i and i < len(order), opos(order[i]) == i))",       # no node twice
              "len(old(EVENTS)) == 0"],
    ensures=[
        # exactly N atom lines, the k-th numbered k and stating the attributes of the k-th node of sorted_nodes
        "len(EVENTS) == len(order)",
        "forall(lambda k: implies(0 <= k and k < len(order), EVENTS[k][0] == k + 1 and EVENTS[k][1] == order[k]))",
        # the renumbering used for the interactions maps exactly these nodes to exactly these numbers
        "forall(lambda k: implies(0 <= k and k < len(order), order[k] in correspondence and correspondence[order[k]] == k + 1))",
        "forall(lambda n: implies(n in correspondence, 0 <= opos(n) and opos(n) < len(order) and order[opos(n)] == n), Key)",
    ],
    modifies=['EVENTS', 'correspondence'],
    loops={'L1': LoopSpec(inv=["len(EVENTS) == 0", "len(correspondence) == 0"], modifies=[]),      # the user's pre-section lines
           'L2': LoopSpec(inv=[
        "len(EVENTS) == _i",
        "forall(lambda k: implies(0 <= k and k < _i, EVENTS[k][0] == k + 1 and EVENTS[k][1] == order[k]))",
        "forall(lambda k: implies(0 <= k and k < _i, order[k] in correspondence and correspondence[order[k]] == k + 1))",
        "forall(lambda n: implies(n in correspondence, 0 <= opos(n) and opos(n) < _i and order[opos(n)] == n), Key)"],
        modifies=['EVENTS', 'correspondence'], locals=dict(correspondence=TMap(Key, TInt)))},
    canary=[("enumerate(molecule.sorted_nodes, start=1)", "enumerate(molecule.sorted_nodes, start=0)"),
            ("correspondence[original_idx] = idx", "correspondence[original_idx] = idx + 1")],
)
CONTRACTS = [atoms_loop]
LEMMAS = []


# ------------------------------------------------------------------ write_molecule_itp: one interaction line
Inter = TKey('Inter')
Line = TTuple(TSeq(TInt), TStr, names=['toks', 'comment'])


def world_lines(cx, lines):
    """interactions as abstract objects; an interaction line as the record (tokens, comment): a token is the new number
    of an atom or the negative token ptok(i) that stands for the joined parameters of interaction i"""
    eng = cx.eng
    from pyvc.values import IterV
    from pyvc.builtins import list_append, _int
    atoms_of = cx.uf('atoms_of', [Inter], TSeq(Key))
    ptok = cx.uf('ptok', [Inter], TInt)
    has_comment = cx.uf('has_comment', [Inter], TBool)
    comment_of = cx.uf('comment_of', [Inter], TStr)
    i_ = z3.Const('i', Inter.sort())
    cx.assume(z3.ForAll([i_], z3.And(ptok(i_) < 0, TSeq(Key).len(atoms_of(i_)) >= 0)))
    eng.attr_hooks[('Inter', 'atoms')] = lambda e, i: SV(TSeq(Key), atoms_of(to_z3(i, Inter)))

    def params(e, i):
        it = IterV(e.fresh(TInt, 'nparams'), lambda q: SV(TStr, e.fresh(TStr, 'param')))
        it.tag = to_z3(i, Inter)
        return it
    eng.attr_hooks[('Inter', 'parameters')] = params
    eng.attr_hooks[('Inter', 'meta')] = lambda e, i: Obj(
        'meta',
        __contains__=Builtin(lambda e2, k: wrap(TBool, has_comment(to_z3(i, Inter))) if k == 'comment' else
                             (_ for _ in ()).throw(EngineError('%r in meta' % (k,))), 'in meta'),
        __getitem__=Builtin(lambda e2, k: SV(TStr, comment_of(to_z3(i, Inter))) if k == 'comment' else
                            (_ for _ in ()).throw(EngineError('meta[%r]' % (k,))), 'meta[]'))
    eng.format_hooks['{atom_idx:>{max_length[idx]}}'] = lambda e, atom_idx=None, max_length=None: atom_idx
    cx.spec_env['str'] = Builtin(lambda e, x: x, 'str')

    def join(e, pieces):
        tag = getattr(pieces, 'tag', None)
        if tag is not None:
            return SV(TInt, ptok(tag))                       # ' '.join(str(x) for x in interaction.parameters)
        toks = to_z3(pieces, TSeq(TInt))                     # ' '.join(to_join): the line, as its tokens
        o = Obj('line', toks=SV(TSeq(TInt), toks), comment='')

        def add(e2, other):
            if other == '\n':
                return o
            cur = o.attrs['comment']
            if cur != '':
                raise EngineError('second comment on a line')
            o.attrs['comment'] = other
            return o
        o.attrs['__add__'] = Builtin(add, 'line +')
        return o
    eng.join_hooks[' '] = join

    def write(e, x):
        if isinstance(x, Obj) and x.cls == 'line':
            list_append(e, lines, (x.attrs['toks'], x.attrs['comment']))
            return
        return write_other(e, x)
    write_other = lambda e, x: None
    return write


def setup_line(cx):
    LINES = cx.heap('LINES', cx.box('LINES', TSeq(Line)))
    write = world_lines(cx, LINES)
    return dict(interaction=cx.val('interaction', Inter), correspondence=cx.val('correspondence', TMap(Key, TInt)),
                name=cx.val('name', TStr), max_length=Obj('max_length'), outfile=Obj('outfile', write=Builtin(write, 'outfile.write')))


SPEC_LINE = {
    'A': "lambda i: atoms_of(i)",
    'newno': "lambda i, j: correspondence[atoms_of(i)[j]]",
    # the layout of the line of interaction i in section `name`
    'layout': "lambda L, i: len(L.toks) == len(A(i)) + 1 and "
              "(L.toks[0] == newno(i, 0) and L.toks[1] == ptok(i) and "
              " forall(lambda j: implies(1 <= j and j < len(A(i)), L.toks[j + 1] == newno(i, j)))"
              " if name == 'virtual_sitesn' else "
              " forall(lambda j: implies(0 <= j and j < len(A(i)), L.toks[j] == newno(i, j))) and L.toks[len(A(i))] == ptok(i)) and "
              "L.comment == (' ; ' + comment_of(i) if has_comment(i) else '')",
}
one_line = FunctionContract(
    F, 'write_molecule_itp', 'C02', short='write_molecule_itp[one interaction line]', setup=setup_line, spec_defs=SPEC_LINE,
    spec_env=dict(Key=Key, Inter=Inter),
    region=dict(within=["for name in molecule.sort_interactions(molecule.interactions):",
                        "for (conditional, group), interactions_in_group in interaction_grouped:",
                        "for interaction in interactions_in_group:"], start="atoms = ["),
    requires=["len(atoms_of(interaction)) >= 1",
              "forall(lambda j: implies(0 <= j and j < len(atoms_of(interaction)), atoms_of(interaction)[j] in correspondence))"],
    ensures=[
        # exactly one line: the atoms by their new numbers, in the interaction's order, the parameters last - or, for n-body
        # virtual sites, right after the first atom -, followed by the interaction's comment if it has one
        "len(LINES) == len(old(LINES)) + 1",
        "layout(LINES[len(old(LINES))], interaction)",
        "forall(lambda k: implies(0 <= k and k < len(old(LINES)), LINES[k] == old(LINES)[k]))",
    ],
    modifies=['LINES'],
    canary=[("to_join = [atoms[0], parameters] + atoms[1:]", "to_join = [atoms[0], parameters] + atoms[2:]"),
            ("to_join = atoms + [parameters]", "to_join = [parameters] + atoms"),
            ("atom_idx=correspondence[x]", "atom_idx=correspondence[interaction.atoms[0]]")],
)
CONTRACTS.append(one_line)


# ------------------------------------------------------------------ write_molecule_itp: the groups of one section
Txt = TKey('Txt')                                           # pieces of text (an abstract sort: z3 strings are slow)
Ev = TTuple(TInt, Txt, Txt, names=['kind', 'a', 'b'])     # 0 guard (keyword, name)  1 group comment  2 interaction line
GUARD, COMMENT, LINE_, ENDIF, TEXT, BLANK = 0, 1, 2, 3, 4, 5  # 3 #endif  4 user's post-section line  5 empty line


def setup_groups(cx):
    eng = cx.eng
    from pyvc.values import IterV, COERCIONS
    from pyvc.builtins import _int, list_append, StatefulIter
    lits = {t: z3.Const('txt!' + (t or 'empty'), Txt.sort()) for t in ('#ifdef', '#ifndef', '')}
    cx.assume(z3.Distinct(*lits.values()))
    str2txt = cx.uf('str2txt', [TStr], Txt)
    def to_txt(e):
        if z3.is_string_value(e) and e.as_string() in lits:
            return lits[e.as_string()]
        if z3.is_app_of(e, z3.Z3_OP_ITE):
            return z3.If(e.arg(0), to_txt(e.arg(1)), to_txt(e.arg(2)))      # a choice between literals stays a choice
        return str2txt(e)
    COERCIONS[('Str', 'Txt')] = to_txt
    nonempty = cx.uf('nonempty', [Txt], TBool)
    eng.truth_hooks['Txt'] = lambda e, v: nonempty(v.e)
    EV = cx.heap('EV', cx.box('EV', TSeq(Ev)))
    srt = cx.val('sorted_interactions', TSeq(Inter))          # sorted(interactions, key=_interaction_sorting_key)
    cx.spec_env['srt'] = srt
    st = TSeq(Inter)
    se = to_z3(srt)
    # assumed contract of itertools.groupby(sorted, key): the maximal runs of equal keys, in order; a key is
    # (conditional, group) with conditional = () or (name, True) for #ifdef / (name, False) for #ifndef
    G = z3.Int('n_groups')
    cx.spec_env['n_groups'] = SV(TInt, G)
    start, size = cx.uf('g_start', [TInt], TInt), cx.uf('g_size', [TInt], TInt)
    cpres, cname, cflag = cx.uf('cond_present', [TInt], TBool), cx.uf('cond_name', [TInt], Txt), cx.uf('cond_flag', [TInt], TBool)
    grp = cx.uf('group_of', [TInt], Txt)
    g = z3.Int('g')
    n = st.len(se)
    cx.assume(z3.And(G >= 0, start(0) == 0, start(G) == n))
    cx.assume(z3.ForAll([g], z3.Implies(z3.And(0 <= g, g < G), z3.And(size(g) >= 1, start(g + 1) == start(g) + size(g), start(g) >= 0, start(g) + size(g) <= n)),
                        patterns=[size(g)]))

    def group(k):
        k = _int(k)
        cond = Obj('conditional')
        cond.__dict__['truth'] = cpres(k)
        cond.attrs['__getitem__'] = Builtin(lambda e, j: SV(Txt, cname(k)) if j == 0 else (SV(TBool, cflag(k)) if j == 1 else
                                            (_ for _ in ()).throw(EngineError('conditional[%r]' % (j,)))), 'conditional[]')
        members = StatefulIter(IterV(size(k), lambda q: SV(Inter, st.at(se, start(k) + _int(q)))))
        return ((cond, SV(Txt, grp(k))), members)
    groups = IterV(G, group)
    lines = Box(TSeq(Line))
    write_line = world_lines(cx, lines)
    eng.format_hooks['{} {}\n'] = lambda e, a, b: ('guard', a, b)
    eng.format_hooks['; {}\n'] = lambda e, a: ('comment', a)

    def write(e, x):
        if isinstance(x, Obj) and x.cls == 'line':
            return list_append(e, EV, (LINE_, '', ''))
        if isinstance(x, tuple) and x[0] == 'guard':
            return list_append(e, EV, (GUARD, x[1], x[2]))
        if isinstance(x, tuple) and x[0] == 'comment':
            return list_append(e, EV, (COMMENT, x[1], ''))
        if x == '#endif\n':
            return list_append(e, EV, (ENDIF, '', ''))
        if x == '\n':
            return list_append(e, EV, (BLANK, '', ''))
        if isinstance(x, SV) and x.ty == TStr:
            return list_append(e, EV, (TEXT, x, ''))
        raise EngineError('outfile.write of %r' % (x,))
    post_lines = cx.val('post_lines', TSeq(TStr))
    cx.spec_env['n_post'] = SV(TInt, TSeq(TStr).len(post_lines.e))
    post = Obj('post_section_lines', get=Builtin(lambda e, k, d=None: post_lines, 'post_section_lines.get'))
    cx.spec_env['itertools'] = Obj('itertools', groupby=Builtin(lambda e, seq, key=None: groups, 'itertools.groupby'))
    cx.spec_env['_interaction_sorting_key'] = Obj('_interaction_sorting_key')
    return dict(interactions_group_sorted=srt, conditional_keys={True: '#ifdef', False: '#ifndef'}, name=cx.val('name', TStr),
                correspondence=cx.val('correspondence', TMap(Key, TInt)), max_length=Obj('max_length'),
                outfile=Obj('outfile', write=Builtin(write, 'outfile.write')), post_section_lines=post)


SPEC_GR = {
    'kind': "lambda p: EV[p].kind",
    'c': "lambda g: 1 if cond_present(g) else 0",
    'h': "lambda g: (1 if cond_present(g) else 0) + (1 if nonempty(group_of(g)) else 0)",
    # the kind of event expected at offset `off` of the block of group g: the guard (if any), the group comment (if any), one
    # line per member, #endif (if guarded), the user's post-section lines, an empty line
    'expected': "lambda g, off: 0 if (cond_present(g) and off == 0) else (1 if off < h(g) else (2 if off < h(g) + g_size(g) else "
                "(3 if (cond_present(g) and off == h(g) + g_size(g)) else (4 if off < h(g) + g_size(g) + c(g) + n_post else 5))))",
    'blen': "lambda g: h(g) + g_size(g) + c(g) + n_post + 1",
    'block_ok': "lambda g: g in g_lo and 0 <= g_lo[g] and g_lo[g] + blen(g) <= len(EV) and "
                "forall(lambda p: implies(g_lo[g] <= p and p < g_lo[g] + blen(g), kind(p) == expected(g, p - g_lo[g]))) and "
                # the guard line states #ifdef / #ifndef as the interactions' meta says, with their macro name
                "implies(cond_present(g), EV[g_lo[g]].a == ('#ifdef' if cond_flag(g) else '#ifndef') and EV[g_lo[g]].b == cond_name(g))",
}
GR_INV = [
    "forall(lambda g: implies(0 <= g and g < _i, block_ok(g)))",
    "forall(lambda g: implies(0 <= g and g + 1 < _i, g_lo[g] + blen(g) == g_lo[g + 1]))",
    "implies(_i > 0, g_lo[0] == len(old(EV)) and g_lo[_i - 1] + blen(_i - 1) == len(EV))",
    "implies(_i == 0, len(EV) == len(old(EV)))",
    "forall(lambda k: implies(0 <= k and k < len(old(EV)), EV[k] == old(EV)[k]))",
]
group_blocks = FunctionContract(
    F, 'write_molecule_itp', 'C02', short='write_molecule_itp[groups of one section]', setup=setup_groups, spec_defs=SPEC_GR,
    spec_env=dict(Key=Key, Inter=Inter, Txt=Txt),
    region=dict(within=["for name in molecule.sort_interactions(molecule.interactions):"],
                start="interaction_grouped = itertools.groupby("),
    locals=dict(g_lo=TMap(TInt, TInt)),
    requires=["forall(lambda q: implies(0 <= q and q < len(srt), len(atoms_of(srt[q])) >= 1 and "
              "   forall(lambda j: implies(0 <= j and j < len(atoms_of(srt[q])), atoms_of(srt[q])[j] in correspondence))))"],
    ghost_at={'entry': "g_lo = {}"},
    ensures=[c.replace('_i', 'n_groups') for c in GR_INV],
    modifies=['EV'],
    loops={
        'L1': LoopSpec(inv=GR_INV, modifies=['EV', 'g_lo'], locals=dict(g_lo=TMap(TInt, TInt), g_e0=TInt, g_EV=TSeq(Ev)),
                       ghost_pre="g_e0 = len(EV)\ng_EV = list(EV)",
                       ghost_end="g_lo[_i] = g_e0\n"
                                 "prove(forall(lambda g: implies(0 <= g and g < _i, block_ok(g))), 'earlier-blocks-untouched')\n"
                                 "prove(block_ok(_i), 'this-block')"),
        'L1.1': LoopSpec(inv=["len(EV) == g_e0 + h(_iL1) + _i",
                              "forall(lambda p: implies(g_e0 <= p and p < g_e0 + h(_iL1) + _i, kind(p) == expected(_iL1, p - g_e0)))",
                              "implies(cond_present(_iL1), EV[g_e0].a == ('#ifdef' if cond_flag(_iL1) else '#ifndef') and EV[g_e0].b == cond_name(_iL1))",
                              "forall(lambda k: implies(0 <= k and k < g_e0, EV[k] == g_EV[k]))"],
                         modifies=['EV']),
        'L1.2': LoopSpec(inv=["len(EV) == g_e0 + h(_iL1) + g_size(_iL1) + c(_iL1) + _i",
                              "forall(lambda p: implies(g_e0 <= p and p < g_e0 + h(_iL1) + g_size(_iL1) + c(_iL1) + _i, kind(p) == expected(_iL1, p - g_e0)))",
                              "implies(cond_present(_iL1), EV[g_e0].a == ('#ifdef' if cond_flag(_iL1) else '#ifndef') and EV[g_e0].b == cond_name(_iL1))",
                              "forall(lambda k: implies(0 <= k and k < g_e0, EV[k] == g_EV[k]))"],
                         modifies=['EV']),
    },
    canary=[("conditional_key = conditional_keys[conditional[1]]", "conditional_key = conditional_keys[not conditional[1]]"),
            ("if conditional:\n                outfile.write('#endif\\n')", "if group:\n                outfile.write('#endif\\n')")],
)
CONTRACTS.append(group_blocks)


# ------------------------------------------------------------------ write_molecule_itp: the head of one section
HEv = TTuple(TInt, TStr, names=['kind', 'text'])           # 0 section header (the name between the brackets)  1 a user's pre-section line + newline


def setup_head(cx):
    from pyvc.builtins import list_append
    eng = cx.eng
    name0 = cx.val('name', TStr)
    cx.spec_env['NAME0'] = name0
    HEV = cx.heap('HEV', cx.box('HEV', TSeq(HEv)))
    inter = cx.val('INTER', TSeq(Inter))                     # molecule.interactions[name]
    srt = cx.val('SORTED', TSeq(Inter))                      # sorted(INTER, key=_interaction_sorting_key): by the contract of sorted()
    cx.spec_env.update(INTER=inter, SORTED=srt)
    pre = cx.uf('pre_lines', [TStr], TSeq(TStr))             # pre_section_lines.get(section, [])
    seen = cx.box('seen_sections', TSet(TStr))
    keyf = Obj('_interaction_sorting_key')

    def inter_of(e, k):
        e.oblige(to_z3(k, TStr) == name0.e, 'interactions:of-the-section-as-the-molecule-names-it')
        return inter

    def sorted_(e, xs, key=None, reverse=False):
        e.oblige(isinstance(xs, SV) and z3.eq(xs.e, inter.e) and key is keyf and not reverse, 'sorted:these-interactions-by-the-sorting-key')
        return srt
    eng.format_hooks['[ {} ]\n'] = lambda e, a: ('header', a)

    def write(e, x):
        if isinstance(x, tuple) and x[0] == 'header':
            return list_append(e, HEV, (0, x[1]))
        if isinstance(x, SV) and x.ty == TStr:
            return list_append(e, HEV, (1, x))
        raise EngineError('outfile.write of %r' % (x,))
    cx.spec_env['sorted'] = Builtin(sorted_, 'sorted')
    cx.spec_env['_interaction_sorting_key'] = keyf
    return dict(name=name0, molecule=Obj('Molecule', interactions=Obj('interactions', __getitem__=Builtin(inter_of, 'molecule.interactions[]'))),
                seen_sections=seen, outfile=Obj('outfile', write=Builtin(write, 'outfile.write')),
                pre_section_lines=Obj('pre_section_lines', get=Builtin(lambda e, k, d=None: SV(TSeq(TStr), pre(to_z3(k, TStr))), 'pre_section_lines.get')))


SPEC_HEAD = {
    'section': "lambda: 'dihedrals' if NAME0 == 'impropers' else NAME0",
}
section_head = FunctionContract(
    F, 'write_molecule_itp', 'C02', short='write_molecule_itp[head of one section]', setup=setup_head, spec_defs=SPEC_HEAD,
    spec_env=dict(Inter=Inter),
    region=dict(within=["for name in molecule.sort_interactions(molecule.interactions):"],
                start="interactions = molecule.interactions[name]", end="interaction_grouped = itertools.groupby("),
    ensures=[
        # the interactions the molecule keeps as impropers are written under [ dihedrals ], every other section under its own name;
        # that name is also the one the rest of the section goes by (the layout of n-body virtual sites, the post-section lines)
        "name == section()",
        "len(HEV) == len(old(HEV)) + 1 + len(pre_lines(section()))",
        "HEV[len(old(HEV))] == (0, section())",
        "forall(lambda k: implies(0 <= k and k < len(pre_lines(section())), HEV[len(old(HEV)) + 1 + k] == (1, pre_lines(section())[k] + '\\n')))",
        "forall(lambda k: implies(0 <= k and k < len(old(HEV)), HEV[k] == old(HEV)[k]))",
        "forall(lambda x: (x in seen_sections) == (x in old(seen_sections) or x == section()), TStr)",
        # what is written are the interactions the molecule holds under its own name for the section, arranged by sorted()
        "interactions_group_sorted == SORTED",
    ],
    modifies=['HEV', 'seen_sections'],
    loops={'L1': LoopSpec(inv=["len(HEV) == len(old(HEV)) + 1 + _i", "HEV[len(old(HEV))] == (0, section())",
                               "forall(lambda k: implies(0 <= k and k < _i, HEV[len(old(HEV)) + 1 + k] == (1, pre_lines(section())[k] + '\\n')))",
                               "forall(lambda k: implies(0 <= k and k < len(old(HEV)), HEV[k] == old(HEV)[k]))"],
                          modifies=['HEV'])},
    canary=[("if name == 'impropers':", "if name == 'dihedrals':"), ("seen_sections.add(name)", "seen_sections.add('dihedrals')"),
            ("            name = 'dihedrals'", "            name = 'impropers'")],
)
CONTRACTS.append(section_head)


def extra_obligations(tier):
    obs = []

    def ob(name, ok, detail, bad=True):
        obs.append(dict(name=name, status='unsat' if ok else ('sat' if bad else 'unknown'), backend='ast-eval', detail=detail, key=name,
                        function='write_molecule_itp'))
    try:
        fn, loop, template = _atoms_loop()
        fields = _re.findall(r'\{(\w+):', template)
        want = ['idx', 'atype', 'resid', 'resname', 'atomname', 'charge_group', 'charge', 'mass']
        ob('template:atom-fields', fields == want, 'the atom line states %s (statement: %s)' % (fields, want))
        call = next(n for n in _ast.walk(loop) if isinstance(n, _ast.Call) and isinstance(n.func, _ast.Attribute) and n.func.attr == 'format'
                    and any(k.arg is None for k in n.keywords))
        star = _ast.unparse(next(k.value for k in call.keywords if k.arg is None))
        src = {_ast.unparse(st.targets[0]): _ast.unparse(st.value) for st in loop.body if isinstance(st, _ast.Assign) and len(st.targets) == 1}
        ob('template:values-of-this-node', src.get(star) == 'copy.copy(atom)' and src.get('atom') == 'molecule.nodes[original_idx]',
           'the fields are filled from **%s = %s with atom = %s' % (star, src.get(star), src.get('atom')), bad=False)
        # (the renaming of impropers and the layout of n-body virtual sites are contracts now: section_head, one_line)
        keys = next((_ast.literal_eval(st.value) for st in _ast.walk(fn) if isinstance(st, _ast.Assign) and isinstance(st.targets[0], _ast.Name)
                     and st.targets[0].id == 'conditional_keys'), None)
        ob('guards:keywords', keys == {True: '#ifdef', False: '#ifndef'}, 'conditional_keys = %r' % (keys,), bad=keys is not None)
    except Exception as ex:
        obs.append(dict(name='template:extraction', status='unknown', backend='ast-eval', detail='%s: %s' % (type(ex).__name__, ex), key='template:extraction'))
    return obs


# ------------------------------------------------------------------ Molecule.sorted_nodes: the order both writers use
SNode = TKey('SNode')
INF = 10 ** 9                                               # stands for numpy.inf (larger than every atom id in the contract's world)


def setup_sn(cx):
    eng = cx.eng
    NODES = cx.val('NODES', TSeq(SNode))
    cx.spec_env['NODES'] = NODES
    has_id = cx.uf('has_id', [SNode], TBool)
    aid = cx.uf('aid', [SNode], TInt)
    KEYS = cx.heap('KEYS', Box(TSeq(TInt)))                # the sort key of every node, as sorted() computed it
    SORTED = cx.heap('SORTED', Box(TSeq(SNode)))
    n_ = z3.Const('n', SNode.sort())
    cx.assume(z3.ForAll([n_], aid(n_) < INF))

    def node(e, n):
        ne = to_z3(n, SNode)

        def get(e2, k, d=None):
            if k != 'atomid':
                raise EngineError('node.get(%r)' % (k,))
            if isinstance(d, Obj) and d.cls == 'inf':
                return SV(TInt, z3.If(has_id(ne), aid(ne), z3.IntVal(INF)))
            raise EngineError('node.get(atomid, %r)' % (d,))
        return Obj('atomdict', get=Builtin(get, 'node.get'))
    nodes = Obj('NodeView', __getitem__=Builtin(node, 'self.nodes[]'))
    nodes.__dict__['iter'] = NODES
    cx.spec_env['np'] = Obj('numpy', inf=Obj('inf'))

    def sorted_(e, xs, key=None, reverse=False):
        # sorted() by its contract: a stable arrangement of xs in increasing order of key(x).  The contract records the
        # key of every element (evaluated from the real lambda) and returns such an arrangement
        if xs is not nodes or key is None or reverse is not False:
            raise EngineError('sorted() of something else')
        from pyvc.builtins import _int
        st, it = TSeq(SNode), TSeq(TInt)
        ks = e.fresh_val(it, 'keys')
        i = z3.FreshInt('si')
        kv = e.call(key, [SV(SNode, st.at(NODES.e, i))], {})
        e.assume(it.len(ks.e) == st.len(NODES.e))
        if isinstance(kv, (tuple, list)) or not (isinstance(kv, int) or (isinstance(kv, SV) and kv.ty == TInt)):
            # a key of another shape (a tuple, say) is not the atom id: the obligation below cannot hold
            e.oblige(False, 'sort-key:is-the-atom-id-alone')
            kv = e.fresh_val(TInt, 'other_key')
        e.assume(z3.ForAll([i], z3.Implies(z3.And(0 <= i, i < st.len(NODES.e)), it.at(ks.e, i) == to_z3(kv, TInt))))
        KEYS.e = ks.e
        out = e.fresh_val(st, 'sorted')
        SORTED.e = out.e
        return out
    cx.spec_env['sorted'] = Builtin(sorted_, 'sorted')
    return dict(self=Obj('Molecule', nodes=nodes))


sorted_nodes = FunctionContract(
    'vermouth/molecule.py', 'Molecule.sorted_nodes', 'C02', setup=setup_sn, spec_env=dict(SNode=SNode), result_ty=TSeq(SNode),
    ensures=[
        # the atoms are yielded as sorted() arranges the molecule's nodes by one key: the atom id, atoms without one last
        # (sorted() is stable: atoms with equal keys stay in the molecule's order) - the order the ITP and the PDB writer share
        "len(KEYS) == len(NODES) and forall(lambda i: implies(0 <= i and i < len(NODES), "
        "   KEYS[i] == (aid(NODES[i]) if has_id(NODES[i]) else %d)))" % INF,
        "len(result) == len(SORTED) and forall(lambda i: implies(0 <= i and i < len(result), result[i] == SORTED[i]))",
    ],
    modifies=['KEYS', 'SORTED'],
    canary=[("self.nodes[n_idx].get('atomid', np.inf)", "self.nodes[n_idx].get('atomid', np.inf) + 1")],
)
CONTRACTS.append(sorted_nodes)


# ------------------------------------------------------------------ _interaction_sorting_key: the guard and group of a line
def setup_isk(cx):
    vals = {k: cx.val(k, TOpt(TStr)) for k in ('ifdef', 'ifndef', 'group')}
    cx.spec_env.update(vals)

    def get(e, k, d=None):
        if k not in vals or d is not None:
            raise EngineError('meta.get(%r, %r)' % (k, d))
        return vals[k]
    return dict(interaction=Obj('Interaction', meta=Obj('meta', get=Builtin(get, 'meta.get'))))


interaction_sorting_key = FunctionContract(
    F, '_interaction_sorting_key', 'C02', setup=setup_isk,
    ensures=[
        # the key under which interactions are grouped: the preprocessor guard - (macro, True) for #ifdef, (macro, False) for
        # #ifndef, () for none - and the group name ('' for none)
        "result[1] == ('' if group is None else group)",
        "implies(ifdef is not None, result[0] == (ifdef, True))",
        "implies(ifdef is None and ifndef is not None, result[0] == (ifndef, False))",
        "implies(ifdef is None and ifndef is None, result[0] == ())",
    ],
    # both guards at once: ValueError
    raises={'ValueError': ["ifdef is not None and ifndef is not None"]},
    canary=[("conditional = (ifndef, False)", "conditional = (ifndef, True)"),
            ("if ifdef is not None and ifndef is not None:", "if ifdef is not None or ifndef is not None:")],
)
CONTRACTS.append(interaction_sorting_key)


# ------------------------------------------------------------------ Molecule.sort_interactions: the order of the sections
SType, SAtoms = TKey('SType'), TKey('SAtom')
SInter = TTuple(TSeq(SAtoms), names=['atoms'])
SKey = TTuple(TInt, SType)


def setup_si(cx):
    ALL = cx.val('all_interactions', TMap(SType, TSeq(SInter)))
    cx.spec_env['ALL'] = ALL
    SORTKEY = cx.heap('SORTKEY', Box(TMap(SType, SKey)))    # what sorted() is given: the keys and, through the lambda, their sort key
    SORTED = cx.heap('SORTED', Box(TSeq(SType)))

    def sorted_(e, xs, key=None, reverse=False):
        # sorted(d, key=f) by its contract: the keys of d arranged in increasing order of f(k), stably.  The contract records d
        # and checks, for an arbitrary key, that f(k) is d[k]
        if key is None or reverse is not False or not isinstance(xs, Box) or xs.ty != TMap(SType, SKey):
            raise EngineError('sorted() of something else')
        mt = xs.ty
        k = SV(SType, z3.FreshConst(SType.sort(), 'sk'))
        e.assume(mt.has(xs.e, k.e))
        kv = e.call(key, [k], {})
        e.oblige(to_z3(kv, SKey) == mt.at(xs.e, k.e), 'sort-key:is-the-recorded-pair')
        SORTKEY.e = xs.e
        out = e.fresh_val(TSeq(SType), 'sorted')
        SORTED.e = out.e
        return out
    cx.spec_env['sorted'] = Builtin(sorted_, 'sorted')
    return dict(all_interactions=ALL)


sort_interactions = FunctionContract(
    'vermouth/molecule.py', 'Molecule.sort_interactions', 'C02', setup=setup_si, spec_env=dict(SType=SType),
    locals=dict(sort_keys=TMap(SType, SKey)), result_ty=TSeq(SType),
    ensures=[
        # the sections are the interaction types that have at least one interaction, arranged by sorted() under the key
        # (number of atoms of the type's first interaction, type name)
        "forall(lambda t: (t in SORTKEY) == (t in ALL and len(ALL[t]) > 0), SType)",
        "forall(lambda t: implies(t in SORTKEY, SORTKEY[t][0] == len(ALL[t][0].atoms) and SORTKEY[t][1] == t), SType)",
        "len(result) == len(SORTED) and forall(lambda i: implies(0 <= i and i < len(result), result[i] == SORTED[i]))",
    ],
    modifies=['SORTKEY', 'SORTED'],
    loops={'L1': LoopSpec(inv=[
        "forall(lambda t: (t in sort_keys) == (t in ALL and posof(ALL, t) < _i and len(ALL[t]) > 0), SType)",
        "forall(lambda t: implies(t in sort_keys, sort_keys[t][0] == len(ALL[t][0].atoms) and sort_keys[t][1] == t), SType)"],
        modifies=['sort_keys'])},
    canary=[("if not interactions:\n                continue", "if not interactions:\n                break"),
            ("sort_keys[interaction_type] = len(interactions[0].atoms), interaction_type", "sort_keys[interaction_type] = len(interactions), interaction_type"),
            ("return sorted(sort_keys, key=lambda k: sort_keys[k])", "return sorted(sort_keys, key=lambda k: sort_keys[k][::-1])")],
)
CONTRACTS.append(sort_interactions)

"""C19 -- mutation and modification requests hit exactly the residues they name."""
from pyvc.api import *

F = 'vermouth/processors/annotate_mut_mod.py'

SPEC = {
    'digit': "lambda c: c.isdigit()",
    # res = the part after the first '-' (or everything)
    'respart': "lambda s: s[s.find('-') + 1:] if '-' in s else s",
    # position where the residue name ends when there is no '#': start of the longest all-digit suffix.
    # dsfx is an uninterpreted function pinned by DSFX_AXIOM below.
    'name_of': "lambda r: r[:r.rfind('#')] if '#' in r else r[:dsfx(r)]",
    'rid_of': "lambda r: r[r.rfind('#') + 1:] if '#' in r else r[dsfx(r):]",
}


def setup_prs(cx):
    cx.uf('dsfx', [TCStr], TInt)
    return dict(resspec=cx.val('resspec', TCStr))


# definition of dsfx for the one string it is applied to (the residue part of the input):
#   0 <= d <= len; everything from d on is a digit; d == 0 or the character before d is not a digit
DSFX_AXIOM = ("0 <= dsfx(respart(resspec)) and dsfx(respart(resspec)) <= len(respart(resspec)) and "
              "forall(lambda p: implies(dsfx(respart(resspec)) <= p and p < len(respart(resspec)), digit(respart(resspec)[p]))) and "
              "(dsfx(respart(resspec)) == 0 or not digit(respart(resspec)[dsfx(respart(resspec)) - 1]))")
# assumed contract of int(): a non-empty string of ASCII digits is an integer literal
INT_AXIOM = ("implies(len(rid_of(respart(resspec))) > 0 and "
             "forall(lambda p: implies(0 <= p and p < len(rid_of(respart(resspec))), digit(rid_of(respart(resspec))[p]))),"
             " is_int_literal(rid_of(respart(resspec))))")

parse_residue_spec = FunctionContract(
    F, 'parse_residue_spec', 'C19', setup=setup_prs, spec_defs=SPEC,
    axioms=lambda cx, env: [cx.eng._b(cx.eng.spec_truth(DSFX_AXIOM, env)), cx.eng._b(cx.eng.spec_truth(INT_AXIOM, env))],
    ensures=[
        # chain: present iff there is a '-', and it is the text before the first '-'
        "result.get('chain') == (resspec[:resspec.find('-')] if '-' in resspec else None)",
        # residue name: the text before the last '#', or before the digit suffix; absent when empty
        "result.get('resname') == (name_of(respart(resspec)) if len(name_of(respart(resspec))) > 0 else None)",
        # residue number: the integer value of what follows; absent when empty
        "result.get('resid') == (int_of_str(rid_of(respart(resspec))) if len(rid_of(respart(resspec))) > 0 else None)",
        "len(result) == (1 if '-' in resspec else 0) + (1 if len(name_of(respart(resspec))) > 0 else 0)"
        " + (1 if len(rid_of(respart(resspec))) > 0 else 0)",
    ],
    # int() may only fail when '#' is followed by something that is not a number (malformed request)
    raises={'ValueError': ["'#' in respart(resspec)", "not is_int_literal(rid_of(respart(resspec)))"]},
    loops={'L1': LoopSpec(inv=[
        "forall(lambda p: implies(len(res) - _i <= p and p < len(res), digit(res[p])))",
        "idx == (0 if _i == 0 else len(res) - _i)"])},
    canary=[("idx += 1\n                break", "break"), ("rsplit('#', 1)", "split('#', 1)")],
)

CONTRACTS = [parse_residue_spec]
LEMMAS = []


# ------------------------------------------------------------------ _subdict: "all given parts of the specification match"
import itertools as _it

PARTS = {'chain': TStr, 'resname': TStr, 'resid': TInt}


def _cd(cx, tag, keys, types, opt=False):
    b = Box(None, kind='dict')
    b.cd = {k: cx.val('%s_%s' % (tag, k), TOpt(types[k]) if opt else types[k]) for k in keys}
    return b


def subdict_case(keys):
    def setup(cx):
        # dict2 is the residue's {chain, resid, resname, insertion_code} with res_node.get(key): any of them may be None
        return dict(dict1=_cd(cx, 'spec', keys, PARTS),
                    dict2=_cd(cx, 'res', ['chain', 'resid', 'resname', 'insertion_code'], dict(PARTS, insertion_code=TStr), opt=True))
    want = " and ".join("dict2['%s'] == dict1['%s']" % (k, k) for k in keys) or "True"
    return FunctionContract(F, '_subdict', 'C19', short='_subdict[%s]' % ','.join(keys), setup=setup,
                            ensures=["result == (%s)" % want],
                            canary=[("dict2[key] != val", "dict2[key] == val")] if keys else [])


SUBDICT = [subdict_case(list(ks)) for n in range(4) for ks in _it.combinations(['chain', 'resname', 'resid'], n)]
CONTRACTS.extend(SUBDICT)

for _c in SUBDICT:
    _c.modular = False          # callers inline it (one typed case per key set)

# ------------------------------------------------------------------ _terminal_matches, residue_matches
Res, GraphV = TKey('Res'), TKey('GraphV')


def residue_world(cx):
    nb = cx.uf('neighbours', [Res], TSeq(Res))
    rid = cx.uf('resid_of', [Res], TInt)
    hasrid = cx.uf('has_resid', [Res], TBool)
    gr = cx.uf('graph_of', [Res], GraphV)
    prot = cx.uf('is_protein_graph', [GraphV], TBool)
    attrs = {k: (cx.uf('has_' + k, [Res], TBool) if k != 'resid' else hasrid, cx.uf(k + '_of', [Res], t) if k != 'resid' else rid)
             for k, t in [('chain', TStr), ('resid', TInt), ('resname', TStr), ('insertion_code', TStr)]}

    def node_view(e, r):
        re_ = to_z3(r, Res)
        o = Obj('resnode')

        def get(e2, k, d=None):
            has, f = attrs[k]
            ty = TInt if k == 'resid' else TStr
            return e2.ite(has(re_), wrap(ty, f(re_)), d)
        o.attrs['get'] = Builtin(get, 'get')
        o.attrs['__getitem__'] = Builtin(lambda e2, k: wrap(GraphV, gr(re_)) if k == 'graph' else None, 'node[]')
        return o
    nodes = Obj('NodeView')
    nodes.attrs['__getitem__'] = Builtin(node_view, 'nodes[]')
    deg = Obj('DegreeView')
    deg.attrs['__getitem__'] = Builtin(lambda e, r: wrap(TInt, TSeq(Res).len(nb(to_z3(r, Res)))), 'degree[]')
    g = Obj('ResidueGraph', nodes=nodes, degree=deg)
    g.attrs['__getitem__'] = Builtin(lambda e, r: SV(TSeq(Res), nb(to_z3(r, Res))), 'graph[]')
    cx.spec_env['is_protein'] = Builtin(lambda e, x: wrap(TBool, prot(to_z3(x, GraphV))), 'is_protein')
    return g


SPEC_T = {
    'rid': "lambda r: resid_of(r) if has_resid(r) else 0",
    'nb0': "lambda r: neighbours(r)[0]",
    'prot': "lambda r: is_protein_graph(graph_of(r))",
    # 'nter' / 'cter': a protein residue whose single neighbour has a higher / lower residue number
    'terminal': "lambda name, r: prot(r) and ((rid(r) < rid(nb0(r))) if name == 'nter' else (rid(r) > rid(nb0(r))))",
}

terminal_matches = FunctionContract(
    F, '_terminal_matches', 'C19', spec_defs=SPEC_T, spec_env=dict(Res=Res),
    setup=lambda cx: dict(resname=cx.val('resname', TStr), residue_graph=residue_world(cx), res_idx=cx.val('res_idx', Res)),
    requires=["len(neighbours(res_idx)) == 1"],               # "It is assumed that the degree of the specified node is 1."
    ensures=["resname == 'nter' or resname == 'cter' or not prot(res_idx)", "result == terminal(resname, res_idx)"],
    raises={'KeyError': ["resname != 'nter' and resname != 'cter' and prot(res_idx)"]},
    result_ty=TBool,
    canary=[("return resid < neighbour_resid", "return resid > neighbour_resid"), ("if not is_protein(", "if is_protein(")],
)
CONTRACTS.append(terminal_matches)


def rm_case(keys):
    def setup(cx):
        g = residue_world(cx)
        return dict(resspec=_cd(cx, 'spec', keys, PARTS), residue_graph=g, res_idx=cx.val('res_idx', Res))
    parts = {k: "(has_%s(res_idx) and %s_of(res_idx) == old(resspec)['%s'])" % (k, k, k) for k in keys}
    plain = " and ".join(parts[k] for k in keys) or "True"
    if 'resname' in keys:
        rest = " and ".join(parts[k] for k in keys if k == 'chain') or "True"
        want = ("((terminal(old(resspec)['resname'], res_idx) and (%s)) if (len(neighbours(res_idx)) == 1 and "
                "(old(resspec)['resname'] == 'nter' or old(resspec)['resname'] == 'cter')) else (%s))" % (rest, plain))
    else:
        want = plain
    return FunctionContract(F, 'residue_matches', 'C19', short='residue_matches[%s]' % ','.join(keys), setup=setup,
                            spec_defs=SPEC_T, spec_env=dict(Res=Res),
                            ensures=["result == (%s)" % want],
                            canary=[("residue_graph.degree[res_idx] == 1", "residue_graph.degree[res_idx] >= 1")] if 'resname' in keys else [])


RM = [rm_case(list(ks)) for n in range(4) for ks in _it.combinations(['chain', 'resname', 'resid'], n)]
CONTRACTS.extend(RM)

for _c in RM:
    _c.modular = False

# ------------------------------------------------------------------ _resiter: the marks land on the atoms of the matching
# residues and on no other atom
Node = TKey('Node')
Marks = TMap(Node, TSeq(TStr))

SPEC_R = {
    'atoms': "lambda r: atoms_of(r)",
    'isatom': "lambda a: 0 <= rix(a) and rix(a) < len(RESIDUES) and 0 <= pix(a) and pix(a) < len(atoms_of(RESIDUES[rix(a)])) and "
              "atoms_of(RESIDUES[rix(a)])[pix(a)] == a",
    'marked': "lambda a: len(MARKS[a]) == (len(old(MARKS)[a]) if a in old(MARKS) else 0) + 1 and a in MARKS and "
              "MARKS[a][len(MARKS[a]) - 1] == mod and "
              "forall(lambda q: implies(a in old(MARKS) and 0 <= q and q < len(old(MARKS)[a]), MARKS[a][q] == old(MARKS)[a][q]))",
    'same': "lambda a: (a in MARKS) == (a in old(MARKS)) and implies(a in MARKS, len(MARKS[a]) == len(old(MARKS)[a]) and "
            "forall(lambda q: implies(0 <= q and q < len(MARKS[a]), MARKS[a][q] == old(MARKS)[a][q])))",
}


def setup_resiter(cx):
    eng = cx.eng
    from pyvc.builtins import getitem, dict_get, make_iter
    residues = cx.val('RESIDUES', TSeq(Res))
    cx.spec_env['RESIDUES'] = residues
    atoms_of = cx.uf('atoms_of', [Res], TSeq(Node))
    cx.uf('rix', [Node], TInt)
    cx.uf('pix', [Node], TInt)
    matches = cx.uf('matches', [Res], TBool)
    MARKS = cx.heap('MARKS', cx.box('MARKS', Marks))
    known = cx.val('known_targets', TSet(TStr))
    cx.spec_env['known_targets'] = known
    # residue_matches is a pure function of (specification, residue): abstracted to the predicate `matches`
    cx.spec_env['residue_matches'] = Builtin(lambda e, spec, g, r: wrap(TBool, matches(to_z3(r, Res))), 'residue_matches')
    cx.spec_env['_format_resname'] = Builtin(lambda e, r: 'res', '_format_resname')
    log = Obj('LOGGER')
    log.attrs['debug'] = Builtin(lambda e, *a, **k: None, 'debug')
    cx.spec_env['LOGGER'] = log

    def resnode(e, r):
        o = Obj('resnode')
        o.attrs['__getitem__'] = Builtin(lambda e2, k: SV(TSeq(Node), atoms_of(to_z3(r, Res))), 'res[]')
        return o
    rnodes = Obj('NodeView')
    rnodes.attrs['__getitem__'] = Builtin(resnode, 'nodes[]')
    graph = Obj('ResidueGraph', nodes=rnodes)
    graph.__dict__['iter'] = residues

    def atomdict(e, a):
        o = Obj('atomdict')
        ae = to_z3(a, Node)

        def get(e2, k, d=None):
            # molecule.nodes[a].get(key, []): the list of earlier requests, or a new empty list
            cur = MARKS.e
            return SV(TSeq(TStr), z3.If(Marks.has(cur, ae), Marks.at(cur, ae), TSeq(TStr).empty()))

        def setit(e2, k, v):
            MARKS.e = Marks.insert(MARKS.e, ae, to_z3(v, TSeq(TStr)))
        o.attrs['get'] = Builtin(get, 'get')
        o.attrs['__setitem__'] = Builtin(setit, '[]=')
        return o
    mnodes = Obj('NodeView')
    mnodes.attrs['__getitem__'] = Builtin(atomdict, 'nodes[]')
    ff = Obj('ff', name='ff')
    molecule = Obj('Molecule', nodes=mnodes, force_field=ff)
    library = Obj('library')
    library.__dict__['contains'] = known
    return dict(mod=cx.val('mod', TStr), residue_graph=graph, resspec=Obj('resspec'), library=library, key=cx.val('key', TStr),
                molecule=molecule)


PART = ["forall(lambda k, j: implies(0 <= k and k < len(RESIDUES) and 0 <= j and j < len(atoms_of(RESIDUES[k])), "
        "   rix(atoms_of(RESIDUES[k])[j]) == k and pix(atoms_of(RESIDUES[k])[j]) == j))",
        "forall(lambda r: len(atoms_of(r)) >= 0, Res)"]
DONE_UPTO = ("forall(lambda a: implies(isatom(a) and (rix(a) < {K} or (rix(a) == {K} and pix(a) < {J})) and matches(RESIDUES[rix(a)]), marked(a)), Node)",
             "forall(lambda a: implies(not (isatom(a) and (rix(a) < {K} or (rix(a) == {K} and pix(a) < {J})) and matches(RESIDUES[rix(a)])), same(a)), Node)")

resiter = FunctionContract(
    F, '_resiter', 'C19', setup=setup_resiter, spec_defs=SPEC_R, spec_env=dict(Res=Res, Node=Node),
    axioms=lambda cx, env: [cx.eng._b(cx.eng.spec_truth(a, env)) for a in PART],
    result_ty=TBool,
    ensures=[
        # every atom of every matching residue gets the request appended to its list -- and no other atom is touched
        DONE_UPTO[0].format(K='len(RESIDUES)', J='0'), DONE_UPTO[1].format(K='len(RESIDUES)', J='0'),
        # the request is reported as found exactly when some residue matches
        "result == exists(lambda k: 0 <= k and k < len(RESIDUES) and matches(RESIDUES[k]))",
        "implies(result, mod == 'none' or mod in known_targets)",
    ],
    # an unknown target is an error as soon as a residue matches
    raises={'NameError': ["exists(lambda k: 0 <= k and k < len(RESIDUES) and matches(RESIDUES[k]))", "mod != 'none' and not (mod in known_targets)"]},
    modifies=['MARKS'],
    loops={
        'L1': LoopSpec(inv=[DONE_UPTO[0].format(K='_i', J='0'), DONE_UPTO[1].format(K='_i', J='0'),
                            "mod_found == exists(lambda k: 0 <= k and k < _i and matches(RESIDUES[k]))",
                            "implies(mod_found, mod == 'none' or mod in known_targets)"], modifies=['MARKS']),
        'L1.1': LoopSpec(inv=[DONE_UPTO[0].format(K='_iL1', J='_i'), DONE_UPTO[1].format(K='_iL1', J='_i')], modifies=['MARKS']),
    },
    canary=[("+ [mod]", "+ [key]"), ("if residue_matches(resspec, residue_graph, res_idx):", "if not residue_matches(resspec, residue_graph, res_idx):")],
)
CONTRACTS.append(resiter)


# ------------------------------------------------------------------ AnnotateMutMod.run_system: which requests are reported
Entry = TTuple(TBool, TStr, TInt, names=['success', 'key', 'index'])     # one record per (molecule, request)
Warn = TTuple(TInt, TInt)              # a "not found" warning for request (list, position): list 0 = modifications, 1 = mutations


def setup_report(cx):
    from pyvc.values import IterV
    from pyvc.builtins import _int, list_append
    counts = cx.val('resspec_counts', TSeq(Entry))
    n_mod, n_mut = cx.val('n_modifications', TInt), cx.val('n_mutations', TInt)
    cx.spec_env['n_modifications'], cx.spec_env['n_mutations'] = n_mod, n_mut
    cx.assume(z3.And(n_mod.e >= 0, n_mut.e >= 0))
    WARN = cx.heap('WARNED', Box(TSeq(Warn)))

    def requests(n):
        o = Obj('requests')
        # a request unpacks into (resspec, value); only its position in the list matters here
        o.__dict__['iter'] = IterV(n.e, lambda i: (Obj('resspec', idx=SV(TInt, _int(i))), Obj('value')))
        return o
    self = cx.obj('AnnotateMutMod', resspec_counts=counts, modifications=requests(n_mod), mutations=requests(n_mut))
    cx.spec_env['_format_resname'] = Builtin(lambda e, r: r, '_format_resname')
    log = Obj('LOGGER')
    log.attrs['warning'] = Builtin(lambda e, fmt, spec, key, mod, **kw:
                                   list_append(e, WARN, ({'modification': 0, 'mutation': 1}[key], spec.attrs['idx'])), 'LOGGER.warning')
    cx.spec_env['LOGGER'] = log
    return dict(self=self, system=Obj('system'))


SPEC_REP = {
    'C': "lambda: self.resspec_counts",
    'kname': "lambda k: 'modification' if k == 0 else 'mutation'",
    'knum': "lambda key: 0 if key == 'modification' else 1",
    # the request matched in some molecule
    'matched': "lambda k, i: exists(lambda q: 0 <= q and q < len(C()) and C()[q].key == kname(k) and C()[q].index == i and C()[q].success)",
    'n_of': "lambda k: n_modifications if k == 0 else n_mutations",
    # the requests already looked at when the inner loop is at position I of list K
    'seen': "lambda k, i, K, I: 0 <= i and i < n_of(k) and (k == 0 or k == 1) and (k < K or (k == K and i < I))",
}
REP_INV = [
    "forall(lambda p: implies(0 <= p and p < len(WARNED), seen(WARNED[p][0], WARNED[p][1], knum(key), _i) and "
    "   not matched(WARNED[p][0], WARNED[p][1]) and g_at[WARNED[p]] == p))",
    "forall(lambda k, i: implies(seen(k, i, knum(key), _i) and not matched(k, i), "
    "   (k, i) in g_at and 0 <= g_at[(k, i)] and g_at[(k, i)] < len(WARNED) and WARNED[g_at[(k, i)]] == (k, i)))",
    "forall(lambda p, q: implies(0 <= p and p < q and q < len(WARNED), "
    "   WARNED[p][0] < WARNED[q][0] or (WARNED[p][0] == WARNED[q][0] and WARNED[p][1] < WARNED[q][1])))",
]
report_missing = FunctionContract(
    F, 'AnnotateMutMod.run_system', 'C19', short='run_system[reporting]', setup=setup_report, spec_defs=SPEC_REP,
    region=dict(start="requests = [('modification', self.modifications)"),
    filters={"entry['key'] == key and entry['index'] == idx": 'hit'},
    locals=dict(g_at=TMap(Warn, TInt)),
    requires=["len(old(WARNED)) == 0"],
    ghost_at={'entry': "g_at = {}"},
    ensures=[
        # a request is reported exactly when it matched in none of the molecules: once, modifications before mutations, in order
        "forall(lambda p: implies(0 <= p and p < len(WARNED), (WARNED[p][0] == 0 or WARNED[p][0] == 1) and "
        "   0 <= WARNED[p][1] and WARNED[p][1] < n_of(WARNED[p][0]) and not matched(WARNED[p][0], WARNED[p][1]) and g_at[WARNED[p]] == p))",
        "forall(lambda k, i: implies((k == 0 or k == 1) and 0 <= i and i < n_of(k) and not matched(k, i), "
        "   (k, i) in g_at and 0 <= g_at[(k, i)] and g_at[(k, i)] < len(WARNED) and WARNED[g_at[(k, i)]] == (k, i)))",
        REP_INV[2],
    ],
    modifies=['WARNED'],
    loops={'L1.1': LoopSpec(inv=REP_INV, modifies=['WARNED', 'g_at'], locals=dict(g_at=TMap(Warn, TInt), g_w0=TInt),
                            ghost_pre="g_w0 = len(WARNED)", ghost_end="if len(WARNED) > g_w0:\n    g_at[(knum(key), _i)] = g_w0")},
    canary=[("if not found:", "if found:"), ("if entry['key'] == key and entry['index'] == idx)", "if entry['key'] == key)")],
)
CONTRACTS.append(report_missing)


# ------------------------------------------------------------------ AnnotateMutMod.run_system as a whole
def setup_report_whole(cx):
    args = setup_report(cx)
    counts = cx.box('resspec_counts', TSeq(Entry))           # the processor keeps the records of a run in a list of its own
    args['self'].attrs['resspec_counts'] = counts
    system = args['system']

    def run_system(e, s):
        # Processor.run_system: run_molecule on every molecule, which appends one record per (molecule, request) - contract
        # annotate_modifications.  The records of an earlier run must be gone by now
        e.oblige(s is system, 'run:on-this-system')
        e.oblige(TSeq(Entry).len(counts.e) == 0, 'records:of-earlier-runs-are-dropped-first')
        counts.e = e.fresh(TSeq(Entry), 'records_of_this_run')
    cx.spec_env['super'] = Builtin(lambda e: Obj('super', run_system=Builtin(run_system, 'Processor.run_system')), 'super')
    return args


report_whole = FunctionContract(
    F, 'AnnotateMutMod.run_system', 'C19', short='run_system[whole]', setup=setup_report_whole, spec_defs=SPEC_REP,
    blocks=[BlockSpec.of(report_missing)],
    requires=["len(old(WARNED)) == 0"],
    ensures=[
        # the records of earlier runs are dropped before the molecules are processed, so that a request is reported exactly when it
        # matched in none of the molecules of *this* run: once, modifications before mutations, in order
    ] + list(report_missing.ensures),
    modifies=['WARNED', 'self.resspec_counts'],
    canary=[("del self.resspec_counts[:]", "pass")],
)
CONTRACTS.append(report_whole)


# ------------------------------------------------------------------ annotate_modifications: one record per request
ReqT = TKey('ReqT')
CallRec = TTuple(TInt, TInt, TStr, names=['list', 'index', 'library'])      # a _resiter call: which request, which library


def setup_annot(cx):
    from pyvc.values import IterV
    from pyvc.builtins import _int, list_append
    n_mod, n_mut = cx.val('n_modifications', TInt), cx.val('n_mutations', TInt)
    cx.spec_env['n_modifications'], cx.spec_env['n_mutations'] = n_mod, n_mut
    cx.assume(z3.And(n_mod.e >= 0, n_mut.e >= 0))
    found_in = cx.uf('found_in', [TInt, TInt], TBool)         # what _resiter returns for request (list, index) on this molecule
    COUNTS = cx.heap('COUNTS', cx.box('COUNTS', TSeq(Entry)))
    CALLS = cx.heap('CALLS', Box(TSeq(CallRec)))

    def requests(n, code):
        # a request is (resspec, value); only its list and position matter here
        it = IterV(n.e, lambda i: (Obj('resspec', code=code, idx=SV(TInt, _int(i))), Obj('value')))
        o = Obj('requests')
        o.__dict__['iter'] = it
        o.__dict__['truth'] = n.e > 0
        return o

    def resiter(e, mod, residue_graph, resspec, library, key, molecule):
        # _resiter by its contract (found exactly when a residue matches; marks on the matching residues; NameError for an
        # unknown target of a matching request): here only its result and the arguments it is given matter
        code, idx = resspec.attrs['code'], resspec.attrs['idx']
        if {'modification': 0, 'mutation': 1}[key] != code:
            raise EngineError('_resiter called with the key of the other list')
        list_append(e, CALLS, (code, idx, library.attrs['which']))
        return wrap(TBool, found_in(z3.IntVal(code), to_z3(idx, TInt)))
    cx.spec_env['_resiter'] = Builtin(resiter, '_resiter')
    cx.spec_env['_format_resname'] = Builtin(lambda e, r: 'spec', '_format_resname')
    rg = Obj('residue_graph', nodes=Obj('NodeView', __getitem__=Builtin(
        lambda e, k: Obj('resattrs', get=Builtin(lambda e2, key, d=None: None, 'get')), 'residue_graph.nodes[]')))
    cx.spec_env['make_residue_graph'] = Builtin(lambda e, m: rg, 'make_residue_graph')
    ff = Obj('ForceField', modifications=Obj('library', which='modifications'), blocks=Obj('library', which='blocks'))
    molecule = Obj('Molecule', force_field=ff)
    counts = Obj('resspec_counts')

    def append(e, entry):
        cd = entry.cd
        if not {'success', 'key', 'index'} <= set(cd) or not set(cd) <= {'success', 'key', 'index', 'mutmod', 'post'}:
            raise EngineError('entry with keys %s' % sorted(cd))
        list_append(e, COUNTS, (cd['success'], cd['key'], cd['index']))
    counts.attrs['append'] = Builtin(append, 'resspec_counts.append')
    return dict(molecule=molecule, modifications=requests(n_mod, 0), mutations=requests(n_mut, 1), resspec_counts=counts)


SPEC_AN = {
    'n0': "lambda: len(old(COUNTS))",
    'kname': "lambda k: 'modification' if k == 0 else 'mutation'",
    # position of request (list k, index i) among the records of this molecule
    'at': "lambda k, i: n0() + (i if k == 0 else n_modifications + i)",
}
AN_DONE = ("forall(lambda i: implies(0 <= i and i < {I}, COUNTS[at({K}, i)].key == kname({K}) and COUNTS[at({K}, i)].index == i and "
           "COUNTS[at({K}, i)].success == found_in({K}, i) and CALLS[at({K}, i) - n0()].list == {K} and CALLS[at({K}, i) - n0()].index == i and "
           "CALLS[at({K}, i) - n0()].library == ('modifications' if {K} == 0 else 'blocks')))")
annotate = FunctionContract(
    F, 'annotate_modifications', 'C19', setup=setup_annot, spec_defs=SPEC_AN,
    requires=["len(old(CALLS)) == 0"],
    ensures=[
        # one record per request, modifications first, in list order: which list, which position, and whether _resiter
        # found a matching residue in this molecule; modifications are looked up among the force field's modifications,
        # mutations among its blocks; earlier records are kept
        "len(COUNTS) == n0() + n_modifications + n_mutations and len(CALLS) == n_modifications + n_mutations",
        AN_DONE.format(K='0', I='n_modifications'), AN_DONE.format(K='1', I='n_mutations'),
        "forall(lambda p: implies(0 <= p and p < n0(), COUNTS[p] == old(COUNTS)[p]))",
    ],
    modifies=['COUNTS', 'CALLS'],
    loops={'L1.1': LoopSpec(inv=[
        "len(COUNTS) == n0() + (_i if key == 'modification' else n_modifications + _i) and len(CALLS) == len(COUNTS) - n0()",
        "forall(lambda i: implies(0 <= i and i < (_i if key == 'modification' else n_modifications), COUNTS[at(0, i)].key == 'modification' and "
        "   COUNTS[at(0, i)].index == i and COUNTS[at(0, i)].success == found_in(0, i) and CALLS[i].list == 0 and CALLS[i].index == i and "
        "   CALLS[i].library == 'modifications'))",
        "forall(lambda i: implies(0 <= i and key == 'mutation' and i < _i, COUNTS[at(1, i)].key == 'mutation' and "
        "   COUNTS[at(1, i)].index == i and COUNTS[at(1, i)].success == found_in(1, i) and CALLS[n_modifications + i].list == 1 and "
        "   CALLS[n_modifications + i].index == i and CALLS[n_modifications + i].library == 'blocks'))",
        "forall(lambda p: implies(0 <= p and p < n0(), COUNTS[p] == old(COUNTS)[p]))"],
        modifies=['COUNTS', 'CALLS'])},
    canary=[("(mutations, 'mutation', molecule.force_field.blocks)", "(mutations, 'mutation', molecule.force_field.modifications)"),
            ("entry = {'success': mod_found, 'key': key, 'index': idx}", "entry = {'success': True, 'key': key, 'index': idx}")],
)
CONTRACTS.append(annotate)

# the grouping of atoms into residues this property rests on (make_residue_graph = collect_residues, then partition_graph, then
# the common attributes of each residue): re-verified here from the current source
from contracts import graph_utils as _gu
CONTRACTS.append(_gu.collect_residues('C19'))
CONTRACTS.append(_gu.partition_graph('C19'))
CONTRACTS.append(_gu.items_with_common_values('C19'))

# the atoms of an edited residue that the new block does not account for are removed (the marking step of repair_graph, contract
# of C04): re-verified here because "surplus atoms of the old residue are removed" is part of this property
import copy as _copy
from contracts import c04 as _c04
_m = _copy.copy(_c04.mark_extra)
_m.prop = 'C19'
CONTRACTS.append(_m)
CONTRACTS.append(_gu.make_residue_graph('C19'))

"""C19 -- mutation and modification requests hit exactly the residues they name."""
from pyvc.api import *

F = 'vermouth/processors/annotate_mut_mod.py'

SPEC = {
    'digit': "lambda c: c.isdigit()",
    # res = the part after the first '-' (or everything)
    'respart': "lambda s: s[s.find('-') + 1:] if '-' in s else s",
    # position where the residue name ends when there is no '#': start of the longest all-digit suffix.
    # dsfx is an uninterpreted function pinned by DSFX_AXIOM below.
    'name_of': "lambda r: r[:r.rfind('#')] if '#' in r else r[:dsfx(r)]",
    'rid_of': "lambda r: r[r.rfind('#') + 1:] if '#' in r else r[dsfx(r):]",
}


def setup_prs(cx):
    cx.uf('dsfx', [TCStr], TInt)
    return dict(resspec=cx.val('resspec', TCStr))


# definition of dsfx for the one string it is applied to (the residue part of the input):
#   0 <= d <= len; everything from d on is a digit; d == 0 or the character before d is not a digit
DSFX_AXIOM = ("0 <= dsfx(respart(resspec)) and dsfx(respart(resspec)) <= len(respart(resspec)) and "
              "forall(lambda p: implies(dsfx(respart(resspec)) <= p and p < len(respart(resspec)), digit(respart(resspec)[p]))) and "
              "(dsfx(respart(resspec)) == 0 or not digit(respart(resspec)[dsfx(respart(resspec)) - 1]))")
# assumed contract of int(): a non-empty string of ASCII digits is an integer literal
INT_AXIOM = ("implies(len(rid_of(respart(resspec))) > 0 and "
             "forall(lambda p: implies(0 <= p and p < len(rid_of(respart(resspec))), digit(rid_of(respart(resspec))[p]))),"
             " is_int_literal(rid_of(respart(resspec))))")

parse_residue_spec = FunctionContract(
    F, 'parse_residue_spec', 'C19', setup=setup_prs, spec_defs=SPEC,
    axioms=lambda cx, env: [cx.eng._b(cx.eng.spec_truth(DSFX_AXIOM, env)), cx.eng._b(cx.eng.spec_truth(INT_AXIOM, env))],
    ensures=[
        # chain: present iff there is a '-', and it is the text before the first '-'
        "result.get('chain') == (resspec[:resspec.find('-')] if '-' in resspec else None)",
        # residue name: the text before the last '#', or before the digit suffix; absent when empty
        "result.get('resname') == (name_of(respart(resspec)) if len(name_of(respart(resspec))) > 0 else None)",
        # residue number: the integer value of what follows; absent when empty
        "result.get('resid') == (int_of_str(rid_of(respart(resspec))) if len(rid_of(respart(resspec))) > 0 else None)",
        "len(result) == (1 if '-' in resspec else 0) + (1 if len(name_of(respart(resspec))) > 0 else 0)"
        " + (1 if len(rid_of(respart(resspec))) > 0 else 0)",
    ],
    # int() may only fail when '#' is followed by something that is not a number (malformed request)
    raises={'ValueError': ["'#' in respart(resspec)", "not is_int_literal(rid_of(respart(resspec)))"]},
    loops={'L1': LoopSpec(inv=[
        "forall(lambda p: implies(len(res) - _i <= p and p < len(res), digit(res[p])))",
        "idx == (0 if _i == 0 else len(res) - _i)"])},
    canary=[("idx += 1\n                break", "break"), ("rsplit('#', 1)", "split('#', 1)")],
)

CONTRACTS = [parse_residue_spec]
LEMMAS = []

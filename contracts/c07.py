"""C07 -- existing files are never lost: the deferred writer over a ghost file system."""
from pyvc.api import *
from pyvc.builtins import contains, getitem
from pyvc.interp import PyExc

F = 'vermouth/file_writer.py'
Path, Content = TKey('Path'), TKey('Content')
FSMap = TMap(Path, Content)                     # FS[p] = content of the existing file p; absent = no such file

SPEC = {
    # every file that existed at the start still exists, byte for byte, under its own name or under a backup name
    'safe': "lambda fs, fs0, keep: forall(lambda p: implies(p in fs0 and p != keep, (p in fs and fs[p] == fs0[p]) or "
            "(0 < where(p) and backup(p, where(p)) in fs and fs[backup(p, where(p))] == fs0[p])), Path)",
}


def world(cx):
    """ghost file system + assumed contracts of pathlib / shutil / os on it"""
    eng = cx.eng
    FS = cx.heap('FS', cx.box('FS', FSMap))
    backup = cx.uf('backup', [Path, TInt], Path)           # '#name.N#' next to the file
    cx.uf('where', [Path], TInt)                           # ghost witness: under which backup index an old file lives
    p, q = z3.Const('p', Path.sort()), z3.Const('q', Path.sort())
    i, j = z3.Ints('i j')
    # backup names are injective in (file, index) and differ from the file itself (names start with '#')
    cx.assume(z3.ForAll([p, q, i, j], z3.Implies(z3.And(i >= 1, j >= 1, backup(p, i) == backup(q, j)), z3.And(p == q, i == j))))
    eng.methods[('Path', 'exists')] = lambda e, x: contains(e, FS, x)
    eng.attr_hooks[('Path', 'name')] = lambda e, x: x

    class BackupName:
        def __init__(self, base, idx):
            self.base, self.idx = base, idx
    eng.format_hooks['#{name}.{idx}#'] = lambda e, name=None, idx=None: BackupName(name, idx)
    eng.methods[('Path', 'with_name')] = lambda e, x, n: wrap(Path, backup(to_z3(n.base, Path), to_z3(n.idx, TInt)))
    pathlib = Obj('pathlib')
    pathlib.attrs['Path'] = Builtin(lambda e, x: x, 'pathlib.Path')
    cx.spec_env['pathlib'] = pathlib
    cx.spec_env['str'] = Builtin(lambda e, x: x, 'str')       # str(path): the same path

    def move(e, src, dst):
        # shutil.move within one directory: an atomic rename (the destination is replaced)
        se, de = to_z3(src, Path), to_z3(dst, Path)
        e.maybe_raise(FSMap.has(FS.e, se), 'FileNotFoundError')
        cur = FS.e
        val = FSMap.at(cur, se)
        r = e.fresh(FSMap, 'fs')
        x = z3.FreshConst(Path.sort(), 'fx')
        e.assume(z3.ForAll([x], z3.And(FSMap.has(r, x) == z3.If(x == de, True, z3.If(x == se, False, FSMap.has(cur, x))),
                                       FSMap.at(r, x) == z3.If(x == de, val, FSMap.at(cur, x)))))
        FS.e = r
    shutil = Obj('shutil')
    shutil.attrs['move'] = Builtin(move, 'shutil.move')
    cx.spec_env['shutil'] = shutil
    lock = Obj('lock')
    cx.spec_env['lock'] = lock
    log = Obj('LOGGER')
    log.attrs['info'] = Builtin(lambda e, *a, **k: None, 'LOGGER.info')
    log.attrs['debug'] = Builtin(lambda e, *a, **k: None, 'LOGGER.debug')
    cx.spec_env['LOGGER'] = log
    return FS


# ------------------------------------------------------------------ _find_free_path
def setup_ffp(cx):
    world(cx)
    return dict(file_path=cx.val('file_path', Path))


find_free_path = FunctionContract(
    F, 'DeferredFileWriter._find_free_path', 'C07', setup=setup_ffp, spec_defs=SPEC, spec_env=dict(Path=Path),
    result_ty=Path,
    ensures=[
        "not (result in FS)",
        # the file itself when it is free, otherwise the first free '#name.N#'
        "implies(not (file_path in FS), result == file_path)",
        "implies(file_path in FS, exists(lambda k: k >= 1 and result == backup(file_path, k) and "
        "   forall(lambda j: implies(1 <= j and j < k, backup(file_path, j) in FS))))",
        "FS == old(FS)",
    ],
    loops={'L1': LoopSpec(inv=[
        "idx >= 1",
        "(idx == 1 and backup_path == file_path) or (idx >= 2 and backup_path == backup(file_path, idx - 1) and file_path in FS)",
        "forall(lambda j: implies(1 <= j and j < idx - 1, backup(file_path, j) in FS))"])},
    canary=[("idx += 1", "idx += 2"), ("idx = 1", "idx = 0")],
)


# ------------------------------------------------------------------ _write_file
def setup_wf(cx):
    world(cx)
    return dict(self=cx.obj('DeferredFileWriter'), tmp_path=cx.val('tmp_path', Path), final_path=cx.val('final_path', Path))


SAFE_NOW = "safe(FS, old(FS), tmp_path)"
write_file = FunctionContract(
    F, 'DeferredFileWriter._write_file', 'C07', setup=setup_wf, spec_defs=SPEC, spec_env=dict(Path=Path),
    requires=["tmp_path in FS", "tmp_path != final_path",
              # temporary files are not backup names and not destinations (mkstemp: fresh random names in the temp dir)
              "forall(lambda p, k: backup(p, k) != tmp_path, Path, TInt)"],
    ensures=[
        # the destination holds exactly what was written for it
        "final_path in FS and FS[final_path] == old(FS)[tmp_path] and not (tmp_path in FS)",
        # a file that was already there is kept, byte for byte, under the first free '#name.N#'
        "implies(final_path in old(FS), exists(lambda k: k >= 1 and backup(final_path, k) in FS and "
        "   FS[backup(final_path, k)] == old(FS)[final_path] and not (backup(final_path, k) in old(FS)) and "
        "   forall(lambda j: implies(1 <= j and j < k, backup(final_path, j) in old(FS))) and "
        "   forall(lambda p: implies(p != final_path and p != tmp_path and p != backup(final_path, k), "
        "       (p in FS) == (p in old(FS)) and implies(p in FS, FS[p] == old(FS)[p])), Path)))",
        "implies(not (final_path in old(FS)), forall(lambda p: implies(p != final_path and p != tmp_path, "
        "   (p in FS) == (p in old(FS)) and implies(p in FS, FS[p] == old(FS)[p])), Path))",
    ],
    modifies=['FS'],
    # crash points: after each effectful statement every pre-existing file is still there under its own or a backup name
    ghost_at={
        'after:stmt:shutil.move(str(final_path), str(free_path))':
            "prove(forall(lambda p: implies(p in old(FS) and p != tmp_path, (p in FS and FS[p] == old(FS)[p]) or "
            "(p == final_path and free_path in FS and FS[free_path] == old(FS)[p])), Path), 'crash-after-backup')",
        'after:stmt:shutil.move(tmp_path, str(final_path))':
            "prove(forall(lambda p: implies(p in old(FS) and p != tmp_path, (p in FS and FS[p] == old(FS)[p]) or "
            "(p == final_path and free_path in FS and FS[free_path] == old(FS)[p])), Path), 'crash-after-move')",
    },
    canary=[("shutil.move(str(final_path), str(free_path))", "shutil.move(tmp_path, str(free_path))"),
            ("if free_path != final_path:", "if free_path == final_path:")],
)

CONTRACTS = [find_free_path, write_file]
LEMMAS = []


# ------------------------------------------------------------------ _append_file, close, write
Entry = TTuple(Path, Path, TStr)          # [temporary file, destination, mode] of DeferredFileWriter.open_files


def world2(cx):
    FS = world(cx)
    eng = cx.eng
    cat = cx.uf('cat', [Content, Content], Content)
    empty = z3.Const('empty_content', Content.sort())
    cx.spec_env['EMPTY'] = SV(Content, empty)

    def _open(e, path, mode='r'):
        pe = to_z3(path, Path)
        h = Obj('Handle')
        md = mode['mode'] if isinstance(mode, dict) else mode
        if md in ('rb', 'r'):
            e.maybe_raise(FSMap.has(FS.e, pe), 'FileNotFoundError')
            h.attrs['read'] = Builtin(lambda e2: wrap(Content, FSMap.at(FS.e, pe)), 'read')
        elif md in ('ab', 'a'):
            # opening for append creates the file when it does not exist
            FS.e = z3.If(FSMap.has(FS.e, pe), FS.e, FSMap.insert(FS.e, pe, empty))

            def write(e2, c):
                FS.e = FSMap.insert(FS.e, pe, cat(FSMap.at(FS.e, pe), to_z3(c, Content)))
            h.attrs['write'] = Builtin(write, 'write')
        else:
            from pyvc.values import EngineError
            raise EngineError('file mode %r is not modelled' % (md,))
        return h
    cx.spec_env['_open'] = Builtin(lambda e, path, mode='r': _open(e, path, mode), '_open')

    def remove(e, path):
        pe = to_z3(path, Path)
        e.maybe_raise(FSMap.has(FS.e, pe), 'FileNotFoundError')
        cur = FS.e
        r = e.fresh(FSMap, 'fs')
        x = z3.FreshConst(Path.sort(), 'fx')
        e.assume(z3.ForAll([x], z3.And(FSMap.has(r, x) == z3.And(x != pe, FSMap.has(cur, x)), FSMap.at(r, x) == FSMap.at(cur, x))))
        FS.e = r
    os_ = Obj('os')
    os_.attrs['remove'] = Builtin(remove, 'os.remove')
    cx.spec_env['os'] = os_
    return FS


def setup_af(cx):
    world2(cx)
    return dict(tmp_path=cx.val('tmp_path', Path), final_path=cx.val('final_path', Path), mode=cx.val('mode', TStr))


OTHERS_SAME = ("forall(lambda p: implies(p != final_path and p != tmp_path, (p in FS) == (p in old(FS)) and "
               "implies(p in FS, FS[p] == old(FS)[p])), Path)")
append_file = FunctionContract(
    F, 'DeferredFileWriter._append_file', 'C07', setup=setup_af, spec_defs=SPEC, spec_env=dict(Path=Path),
    requires=["tmp_path in FS", "tmp_path != final_path"],
    ensures=[
        # the destination holds its old content followed by exactly what was written (created when it did not exist)
        "final_path in FS and FS[final_path] == cat(old(FS)[final_path] if final_path in old(FS) else EMPTY, old(FS)[tmp_path])",
        "not (tmp_path in FS)", OTHERS_SAME,
    ],
    modifies=['FS'],
    # crash points: before the temporary file is removed the old content is still a prefix of the destination
    ghost_at={'before:stmt:os.remove(tmp_path)':
              "prove(final_path in FS and FS[final_path] == cat(old(FS)[final_path] if final_path in old(FS) else EMPTY, old(FS)[tmp_path]) "
              "and tmp_path in FS and FS[tmp_path] == old(FS)[tmp_path], 'crash-before-remove')"},
    canary=[("final_file.write(tmp_file.read())", "pass")],
)
CONTRACTS.append(append_file)


# ------------------------------------------------------------------ write(): finalisation of all pending files
SPECW = dict(SPEC)
SPECW.update({
    'is_write': "lambda m: 'w' in m or '+' in m",
    'is_append': "lambda m: not is_write(m) and not ('r' in m) and 'a' in m",
})


def setup_write(cx):
    world2(cx)
    q = cx.box('open_files', TSeq(Entry))
    cx.spec_env['q0'] = SV(TSeq(Entry), q.e)
    cx.uf('first_free', [FSMap, Path], TInt)
    return dict(self=cx.obj('DeferredFileWriter', open_files=q))


# class invariant of the pending table (established by open(): one entry per destination, fresh temporary files)
PENDING_OK = [
    "forall(lambda i, j: implies(0 <= i and i < j and j < len(q0), q0[i][0] != q0[j][0] and q0[i][1] != q0[j][1]))",
    "forall(lambda i, j: implies(0 <= i and i < len(q0) and 0 <= j and j < len(q0), q0[i][0] != q0[j][1]))",
    "forall(lambda i: implies(0 <= i and i < len(q0), q0[i][0] in FS and (is_write(q0[i][2]) or is_append(q0[i][2]))))",
    # temporary files and destinations are not '#name.N#' backup names
    "forall(lambda i, p, k: implies(0 <= i and i < len(q0), backup(p, k) != q0[i][0] and backup(p, k) != q0[i][1]), TInt, Path, TInt)",
]
# what the callee contracts say, with the backup index named: first_free(fs, p) is the first N with '#p.N#' free
FIRST_FREE = ("forall(lambda fs, p: implies(p in fs, first_free(fs, p) >= 1 and not (backup(p, first_free(fs, p)) in fs) and "
              "forall(lambda j: implies(1 <= j and j < first_free(fs, p), backup(p, j) in fs))), TFS, Path)")

write_all = FunctionContract(
    F, 'DeferredFileWriter.write', 'C07', setup=setup_write, spec_defs=SPECW, spec_env=dict(Path=Path, TFS=FSMap),
    requires=PENDING_OK,
    axioms=lambda cx, env: [cx.eng._b(cx.eng.spec_truth(FIRST_FREE, env))],
    locals=dict(g_where=TMap(Path, TInt)),
    ghost_at={'entry': "g_done = 0\ng_where = {}"},
    ensures=[
        "len(self.open_files) == 0",
        # every destination ends up holding exactly what was written for it (appended to the old content in append mode)
        "forall(lambda i: implies(0 <= i and i < len(q0) and is_write(q0[i][2]), q0[i][1] in FS and FS[q0[i][1]] == old(FS)[q0[i][0]]))",
        "forall(lambda i: implies(0 <= i and i < len(q0) and is_append(q0[i][2]), q0[i][1] in FS and FS[q0[i][1]] == "
        "   cat(old(FS)[q0[i][1]] if q0[i][1] in old(FS) else EMPTY, old(FS)[q0[i][0]])))",
        # every file that was already there is still there, byte for byte, under its own name or under a '#name.N#' backup
        "forall(lambda p: implies(p in old(FS) and forall(lambda i: implies(0 <= i and i < len(q0), p != q0[i][0])), "
        "   (p in FS and FS[p] == old(FS)[p]) or (p in g_where and g_where[p] >= 1 and backup(p, g_where[p]) in FS and "
        "   FS[backup(p, g_where[p])] == old(FS)[p]) or "
        "   exists(lambda i: 0 <= i and i < len(q0) and is_append(q0[i][2]) and q0[i][1] == p)), Path)",
    ],
    modifies=['FS', 'self.open_files'],
    loops={'L1': LoopSpec(
        inv=["0 <= g_done and g_done <= len(q0) and len(self.open_files) == len(q0) - g_done",
             "forall(lambda i: implies(0 <= i and i < len(self.open_files), self.open_files[i] == q0[g_done + i]))",
             # pending temporary files are untouched
             "forall(lambda i: implies(g_done <= i and i < len(q0), q0[i][0] in FS and FS[q0[i][0]] == old(FS)[q0[i][0]]))",
             # destinations not yet finalised are untouched
             "forall(lambda i: implies(g_done <= i and i < len(q0), (q0[i][1] in FS) == (q0[i][1] in old(FS)) and "
             "   implies(q0[i][1] in FS, FS[q0[i][1]] == old(FS)[q0[i][1]])))",
             "forall(lambda i: implies(0 <= i and i < g_done and is_write(q0[i][2]), q0[i][1] in FS and FS[q0[i][1]] == old(FS)[q0[i][0]]))",
             "forall(lambda i: implies(0 <= i and i < g_done and is_append(q0[i][2]), q0[i][1] in FS and FS[q0[i][1]] == "
             "   cat(old(FS)[q0[i][1]] if q0[i][1] in old(FS) else EMPTY, old(FS)[q0[i][0]])))",
             # safety at every iteration boundary (= every crash point between two files)
             "forall(lambda p: implies(p in old(FS) and forall(lambda i: implies(0 <= i and i < len(q0), p != q0[i][0])), "
             "   (p in FS and FS[p] == old(FS)[p]) or (p in g_where and g_where[p] >= 1 and backup(p, g_where[p]) in FS and "
             "   FS[backup(p, g_where[p])] == old(FS)[p]) or "
             "   exists(lambda i: 0 <= i and i < g_done and is_append(q0[i][2]) and q0[i][1] == p)), Path)",
             # backups that have been made are '#name.N#' names of finalised destinations only
             "forall(lambda p: implies(p in g_where, exists(lambda i: 0 <= i and i < g_done and q0[i][1] == p)), Path)"],
        modifies=['FS', 'self.open_files', 'g_where'],
        ghost_pre="g_fs = dict(FS)",
        ghost_end="if ('w' in mode or '+' in mode) and final_path in g_fs:\n    g_where[final_path] = first_free(g_fs, final_path)\ng_done += 1",
        locals=dict(g_fs=FSMap, g_where=TMap(Path, TInt)))},
    canary=[("self._write_file(tmp_path, final_path)", "self._write_file(final_path, tmp_path)")],
)
CONTRACTS.append(write_all)


# ------------------------------------------------------------------ close(): discarding the writer
def setup_close(cx):
    world2(cx)
    q = cx.box('open_files', TSeq(Entry))
    cx.spec_env['q0'] = SV(TSeq(Entry), q.e)
    return dict(self=cx.obj('DeferredFileWriter', open_files=q))


close_all = FunctionContract(
    F, 'DeferredFileWriter.close', 'C07', setup=setup_close, spec_defs=SPECW, spec_env=dict(Path=Path),
    locals=dict(),
    ghost_at={'entry': "g_done = 0"},
    ensures=[
        "len(self.open_files) == 0",
        # discarding the writer leaves every destination (every file that is not one of its temporary files) untouched for good
        "forall(lambda p: implies(forall(lambda i: implies(0 <= i and i < len(q0), p != q0[i][0])), "
        "   (p in FS) == (p in old(FS)) and implies(p in FS, FS[p] == old(FS)[p])), Path)",
    ],
    modifies=['FS', 'self.open_files'],
    loops={'L1': LoopSpec(
        inv=["0 <= g_done and g_done <= len(q0) and len(self.open_files) == len(q0) - g_done",
             "forall(lambda i: implies(0 <= i and i < len(self.open_files), self.open_files[i] == q0[g_done + i]))",
             "forall(lambda p: implies(forall(lambda i: implies(0 <= i and i < len(q0), p != q0[i][0])), "
             "   (p in FS) == (p in old(FS)) and implies(p in FS, FS[p] == old(FS)[p])), Path)"],
        modifies=['FS', 'self.open_files'],
        ghost_end="g_done += 1")},
    canary=[("os.remove(tmp_path)", "os.remove(_[0])")],
)
CONTRACTS.append(close_all)


# ------------------------------------------------------------------ __init__: the pending table starts empty
init_writer = FunctionContract(
    F, 'DeferredFileWriter.__init__', 'C07', setup=lambda cx: (world2(cx), dict(self=cx.obj('DeferredFileWriter')))[1],
    spec_defs=SPECW, spec_env=dict(Path=Path), locals={'self.open_files': TSeq(Entry)},
    ensures=["len(self.open_files) == 0", "FS == old(FS)" if False else
             "forall(lambda p: (p in FS) == (p in old(FS)) and implies(p in FS, FS[p] == old(FS)[p]), Path)"],
)
CONTRACTS.append(init_writer)


# ------------------------------------------------------------------ open(): the pending table and its class invariant
def setup_open(cx):
    FS = world2(cx)
    eng = cx.eng
    q = cx.box('open_files', TSeq(Entry))
    cx.spec_env['q0'] = SV(TSeq(Entry), q.e)
    joinp = cx.uf('joinp', [Path, Path], Path)             # path.parent.resolve() / path.name
    is_tmp = cx.uf('is_tmp', [Path], TBool)                # names handed out by tempfile.mkstemp
    backup = cx.uf('backup', [Path, TInt], Path)
    empty = z3.Const('empty_content', Content.sort())
    p_, k_ = z3.Const('p', Path.sort()), z3.Int('k')
    cx.assume(z3.ForAll([p_, k_], z3.Not(is_tmp(backup(p_, k_)))))

    def parent(e, x):
        d, r = Obj('Dir'), Obj('AbsDir')
        d.attrs['resolve'] = Builtin(lambda e2: r, 'resolve')
        r.attrs['__truediv__'] = Builtin(lambda e2, name: wrap(Path, joinp(to_z3(x, Path), to_z3(name, Path))), '/')
        return d
    eng.attr_hooks[('Path', 'parent')] = parent
    eng.attr_hooks[('Path', 'suffix')] = lambda e, x: wrap(TStr, e.fresh(TStr, 'suffix'))

    def mkstemp(e, suffix=None, dir=None):
        # assumed contract of tempfile.mkstemp: creates a new, empty file under a name that did not exist
        t = e.fresh(Path, 'tmp')
        e.assume(z3.And(z3.Not(FSMap.has(FS.e, t)), is_tmp(t)))
        FS.e = FSMap.insert(FS.e, t, empty)
        return (Obj('fd'), SV(Path, t))
    tempfile = Obj('tempfile')
    tempfile.attrs['mkstemp'] = Builtin(mkstemp, 'tempfile.mkstemp')
    cx.spec_env['tempfile'] = tempfile

    def may_fail(e):
        e.maybe_raise(e.fresh(TBool, 'os_ok'), 'OSError')

    def _open_sym(e, path, mode='r', *a, **k):
        # assumed contract of builtins.open: may fail; touches at most the named file, and not even that when the mode
        # only reads
        pe, m = to_z3(path, Path), to_z3(mode, TStr)
        may_fail(e)
        readonly = z3.Not(z3.Or(*[z3.Contains(m, z3.StringVal(c)) for c in 'wa+x']))
        cur = FS.e
        r = e.fresh(FSMap, 'fs')
        x = z3.FreshConst(Path.sort(), 'fx')
        e.assume(z3.ForAll([x], z3.Implies(z3.Or(x != pe, readonly),
                                           z3.And(FSMap.has(r, x) == FSMap.has(cur, x), FSMap.at(r, x) == FSMap.at(cur, x)))))
        e.assume(z3.Implies(z3.Not(readonly), FSMap.has(r, pe)))
        FS.e = r
        return Obj('Handle')
    cx.spec_env['_open'] = Builtin(_open_sym, '_open')

    def fdopen(e, fd, mode='r', *a, **k):
        may_fail(e)
        return Obj('Handle')
    cx.spec_env['os'].attrs['fdopen'] = Builtin(fdopen, 'os.fdopen')

    def copy2(e, src, dst):
        se, de = to_z3(src, Path), to_z3(dst, Path)
        e.maybe_raise(FSMap.has(FS.e, se), 'FileNotFoundError')
        FS.e = FSMap.insert(FS.e, de, FSMap.at(FS.e, se))
    cx.spec_env['shutil'].attrs['copy2'] = Builtin(copy2, 'shutil.copy2')
    return dict(self=cx.obj('DeferredFileWriter', open_files=q, _tmpdir=None), filename=cx.val('filename', Path),
                mode=cx.val('mode', TStr), args=(), kwargs={})


def pending_ok(q):
    return [c.replace('q0', q) for c in PENDING_OK] + [
        "forall(lambda i: implies(0 <= i and i < len(%s), is_tmp(%s[i][0]) and not is_tmp(%s[i][1])))" % (q, q, q)]


SPECO = dict(SPECW)
SPECO.update({
    'dest': "lambda: joinp(filename, filename)",
    'pending': "lambda: exists(lambda i: 0 <= i and i < len(q0) and q0[i][1] == dest())",
    'deferred': "lambda m: '+' in m or 'a' in m or 'w' in m",
    # a Python file mode names exactly one of read / write / append / create
    'valid_mode': "lambda m: ((1 if 'r' in m else 0) + (1 if 'w' in m else 0) + (1 if 'a' in m else 0) + (1 if 'x' in m else 0)) == 1",
    'untouched_except': "lambda t: forall(lambda p: implies(p != t, (p in FS) == (p in old(FS)) and "
                        "implies(p in FS, FS[p] == old(FS)[p])), Path)",
})
OPEN_FRAME_EXC = ("forall(lambda p: implies(not is_tmp(p), (p in FS) == (p in old(FS)) and implies(p in FS, FS[p] == old(FS)[p])), Path)")
open_deferred = FunctionContract(
    F, 'DeferredFileWriter.open', 'C07', setup=setup_open, spec_defs=SPECO, spec_env=dict(Path=Path), params=['self', 'filename', 'mode'],
    modular=False,
    requires=pending_ok('q0') + [
        "valid_mode(mode)",
        # the destination is not itself a temporary-file name or a '#name.N#' backup name
        "not is_tmp(dest())", "forall(lambda p, k: backup(p, k) != dest(), Path, TInt)",
        # the file named for a pure read is not one of the writer's own temporary files
        "not is_tmp(filename)"],
    ensures=pending_ok('self.open_files') + [
        # destinations (everything that is not one of the writer's temporary files) are untouched until finalisation
        OPEN_FRAME_EXC,
        # a destination that is already pending, or a file opened only for reading: the pending table is unchanged
        "implies(pending() or not deferred(mode), len(self.open_files) == len(q0) and "
        "   forall(lambda i: implies(0 <= i and i < len(q0), self.open_files[i] == q0[i])))",
        "implies(not pending() and not deferred(mode), untouched_except(filename) and FS == old(FS))" if False else
        "implies(not pending() and not deferred(mode), forall(lambda p: (p in FS) == (p in old(FS)) and "
        "   implies(p in FS, FS[p] == old(FS)[p]), Path))",
        # a new destination opened for writing: exactly one new entry (fresh temporary file, destination, mode) at the end
        "implies(not pending() and deferred(mode), len(self.open_files) == len(q0) + 1 and "
        "   forall(lambda i: implies(0 <= i and i < len(q0), self.open_files[i] == q0[i])) and "
        "   self.open_files[len(q0)][1] == dest() and self.open_files[len(q0)][2] == mode and "
        "   not (self.open_files[len(q0)][0] in old(FS)) and untouched_except(self.open_files[len(q0)][0]))",
    ],
    raises={'OSError': pending_ok('self.open_files') + [OPEN_FRAME_EXC],
            'KeyError': ["not pending() and not deferred(mode) and not ('r' in mode)", "len(self.open_files) == len(q0)"]},
    modifies=['FS', 'self.open_files'],
    loops={'L1': LoopSpec(inv=["forall(lambda i: implies(0 <= i and i < _i, q0[i][1] != path))", "path == dest()"])},
    canary=[("if '+' in mode or 'a' in mode or 'w' in mode:", "if 'a' in mode or 'w' in mode:"),
            ("if open_path == path:", "if tmp_path == path:")],
)
CONTRACTS.append(open_deferred)


# ------------------------------------------------------------------ the gate of the command line (region of entry())
def setup_gate(cx):
    eng = cx.eng
    ev = Box(TSeq(TStr))                                # ghost trace of the effects of the region (starts empty)
    cx.heap('EVENTS', ev)
    from pyvc.builtins import list_append
    left = cx.val('leftover', TInt)
    cx.spec_env['leftover'] = left
    cx.spec_env['ignore_warnings_and_count'] = Builtin(lambda e, c, s: left, 'ignore_warnings_and_count')   # by its C08 contract
    cx.spec_env['COUNTER'] = Obj('COUNTER')
    log = Obj('LOGGER')
    log.attrs['error'] = Builtin(lambda e, *a, **k: None, 'LOGGER.error')
    cx.spec_env['LOGGER'] = log
    sys_ = Obj('sys')

    def sys_exit(e, code=0):
        list_append(e, ev, 'exit')
        cx.note_input('exit_code', code)
        eng.heap['EXIT_CODE'] = code
        raise PyExc('SystemExit', (code,), e.line)
    sys_.attrs['exit'] = Builtin(sys_exit, 'sys.exit')
    cx.spec_env['sys'] = sys_
    w = Obj('DeferredFileWriter')
    w.attrs['write'] = Builtin(lambda e: list_append(e, ev, 'finalise'), 'write')
    cx.spec_env['DeferredFileWriter'] = Builtin(lambda e: w, 'DeferredFileWriter')
    quoter = Obj('Quoter')
    quoter.attrs['run_system'] = Builtin(lambda e, s: None, 'run_system')
    v = Obj('vermouth')
    v.attrs['Quoter'] = Builtin(lambda e: quoter, 'Quoter')
    cx.spec_env['vermouth'] = v
    return dict(args=cx.obj('Namespace', maxwarn=Obj('specs')), system=Obj('system'))


cli_gate = FunctionContract(
    'bin/martinize2', 'entry', 'C07', short='entry[gate]', setup=setup_gate,
    region=dict(start="leftover_warnings = ignore_warnings_and_count(COUNTER, args.maxwarn)"),
    requires=["leftover >= 0"],            # C08: the number of warnings left is never negative (proved there)
    ensures=[
        # finalisation happens exactly when no warning is left, and then exactly once
        "leftover == 0", "len(EVENTS) == 1 and EVENTS[0] == 'finalise'"],
    raises={'SystemExit': ["leftover != 0", "len(EVENTS) == 1 and EVENTS[0] == 'exit'", "EXIT_CODE != 0"]},
    modifies=['EVENTS'],
    canary=[("if leftover_warnings:", "if leftover_warnings > 1:"), ("sys.exit(2)", "sys.exit(0)")],
)
CONTRACTS.append(cli_gate)

# "the warnings left after -maxwarn": the gate's input is the value of ignore_warnings_and_count, whose contract (the exact
# count of warnings that are not waived, C08) is re-verified here so that the gate's `leftover` means what C07 says it means.
import copy as _copy
from contracts import c08 as _c08
for _c in (_c08.number_of_counts_by, _c08.ignore_warnings_and_count):
    _c = _copy.copy(_c)
    _c.prop = 'C07'
    CONTRACTS.append(_c)
_l = _copy.copy(_c08.L_split)
_l.prop = 'C07'
LEMMAS.append(_l)


# ------------------------------------------------------------------ frame: nothing writes a file except through the
# deferred writer (decided on the AST of the real sources; backend 'ast-scan')
import ast as _ast
import os as _os

_REPO = _os.environ.get('VERIF_REPO', '/repo')
WRITE_PRIMS = {'mkstemp', 'mkdtemp', 'move', 'copy', 'copy2', 'copyfile', 'rmtree', 'remove', 'unlink', 'rename', 'replace',
               'write_text', 'write_bytes', 'save', 'savetxt', 'savez', 'dump', 'NamedTemporaryFile', 'TemporaryFile'}
# explicitly requested debug dumps: the three defer_writing=False calls under -write-graph / -write-repair / -write-canon
ALLOWED_UNDEFERRED = {('bin/martinize2', 'pdb_to_universal', 'write_graph'), ('bin/martinize2', 'pdb_to_universal', 'write_repair'),
                      ('bin/martinize2', 'pdb_to_universal', 'write_canon')}


def _mode_of(call):
    m = None
    if len(call.args) >= 2 and isinstance(call.args[1], _ast.Constant):
        m = call.args[1].value
    for k in call.keywords:
        if k.arg == 'mode' and isinstance(k.value, _ast.Constant):
            m = k.value.value
    return m


def _has_defer_idiom(fn):
    """`if defer_writing: open = deferred_open` in the function, and the parameter defaults to True"""
    ok = False
    for n in _ast.walk(fn):
        if isinstance(n, _ast.If) and isinstance(n.test, _ast.Name) and n.test.id == 'defer_writing':
            for st in n.body:
                if isinstance(st, _ast.Assign) and isinstance(st.targets[0], _ast.Name) and st.targets[0].id == 'open' \
                        and isinstance(st.value, _ast.Name) and st.value.id == 'deferred_open':
                    ok = True
    if not ok:
        return False
    a = fn.args
    names = [x.arg for x in a.args]
    if 'defer_writing' in names:
        d = a.defaults[names.index('defer_writing') - (len(names) - len(a.defaults))]
        return isinstance(d, _ast.Constant) and d.value is True
    return False


def extra_obligations(tier):
    obs = []

    def ob(name, ok, detail, function=''):
        obs.append(dict(name=name, status='unsat' if ok else 'sat', backend='ast-scan', detail=detail, key=name, function=function))
    files = [('bin/martinize2', _os.path.join(_REPO, 'bin/martinize2'))]
    for root, dirs, fs in _os.walk(_os.path.join(_REPO, 'vermouth')):
        dirs[:] = [d for d in dirs if d not in ('tests', '__pycache__', 'data')]
        for f in fs:
            if f.endswith('.py'):
                full = _os.path.join(root, f)
                files.append((_os.path.relpath(full, _REPO), full))
    n_sites = 0
    finalisers = []
    undeferred_calls = []
    for rel, full in sorted(files):
        try:
            tree = _ast.parse(open(full).read())
        except SyntaxError as ex:
            ob('frame:%s:parse' % rel, False, str(ex))
            continue
        # enclosing function of every node
        parents = {}
        for fn in _ast.walk(tree):
            if isinstance(fn, (_ast.FunctionDef, _ast.AsyncFunctionDef)):
                for n in _ast.walk(fn):
                    parents.setdefault(id(n), fn)
        for n in _ast.walk(tree):
            if not isinstance(n, _ast.Call):
                continue
            fn = parents.get(id(n))
            fname = fn.name if fn is not None else '<module>'
            callee = n.func.id if isinstance(n.func, _ast.Name) else (n.func.attr if isinstance(n.func, _ast.Attribute) else '?')
            # .write() of the deferred writer
            if callee == 'write' and isinstance(n.func, _ast.Attribute) and isinstance(n.func.value, _ast.Call) \
                    and _ast.unparse(n.func.value.func).endswith('DeferredFileWriter'):
                finalisers.append('%s:%s' % (rel, fname))
            for k in n.keywords:
                if k.arg == 'defer_writing' and isinstance(k.value, _ast.Constant) and k.value.value is False:
                    tgt = next((_ast.unparse(a) for a in n.args[1:2]), '')
                    undeferred_calls.append((rel, fname, tgt, _ast.unparse(n.func)))
            if rel == 'vermouth/file_writer.py':
                continue
            if callee in ('open', 'fdopen'):
                mode = _mode_of(n)
                writes = mode is not None and any(ch in str(mode) for ch in 'wax+')
                if not writes and mode is None and len(n.args) < 2 and not any(k.arg == 'mode' for k in n.keywords):
                    continue                                  # default mode 'r'
                if not writes and isinstance(mode, str):
                    continue
                n_sites += 1
                ok = callee == 'open' and fn is not None and _has_defer_idiom(fn)
                ob('frame:%s:%s:%s' % (rel, fname, callee), ok,
                   'write-mode %s(%s) at line %d: %s' % (callee, mode, n.lineno, 'deferred by the `if defer_writing: open = deferred_open` '
                                                         'idiom (default True)' if ok else 'NOT routed through the deferred writer'),
                   function=fname)
            elif callee in WRITE_PRIMS and not (isinstance(n.func, _ast.Attribute) and _ast.unparse(n.func.value) in ('self', 'json', 'str')):
                if callee in ('copy', 'replace', 'remove', 'dump', 'save') and isinstance(n.func, _ast.Attribute) and \
                        _ast.unparse(n.func.value) not in ('shutil', 'os', 'np', 'numpy', 'tempfile', 'pathlib', 'pickle'):
                    continue                                  # dict.copy(), str.replace(), list.remove(), ...
                if callee in ('mkstemp', 'mkdtemp', 'move', 'copy2', 'copyfile', 'rmtree', 'unlink', 'rename', 'write_text', 'write_bytes',
                              'savetxt', 'savez', 'NamedTemporaryFile', 'TemporaryFile', 'copy', 'replace', 'remove', 'dump', 'save'):
                    n_sites += 1
                    ob('frame:%s:%s:%s' % (rel, fname, callee), False,
                       'file-system effect %s at line %d outside the deferred writer' % (_ast.unparse(n.func), n.lineno), function=fname)
    ob('frame:finalised-from-one-place', finalisers == ['bin/martinize2:entry'], 'DeferredFileWriter().write() is called from %s' % finalisers)
    for rel, fname, tgt, callee in undeferred_calls:
        key = (rel, fname, tgt.replace('str(', '').replace(')', ''))
        ob('frame:undeferred:%s:%s:%s' % key, key in ALLOWED_UNDEFERRED,
           '%s(..., defer_writing=False) writes %s directly; allowed only for the -write-* debug dumps' % (callee, tgt), function=fname)
    ob('frame:scan-nonempty', n_sites >= 3 and len(files) > 50, '%d write-capable call sites in %d files scanned' % (n_sites, len(files)))
    return obs

"""C16 -- structure files round-trip: the truncating formatter and the writer/reader column agreement."""
from pyvc.api import *

F = 'vermouth/truncating_formatter.py'


def setup_ff(cx):
    # every field of the FormatSpec namedtuple (fill align sign alt zero_padding width comma decimal precision type); the
    # truncation reads width and align, the others are arbitrary strings
    spec = cx.obj('FormatSpec', width=cx.val('width', TInt), align=cx.val('align', TStr),
                  **{f: cx.val('spec_' + f, TStr) for f in ('fill', 'sign', 'alt', 'zero_padding', 'comma', 'decimal', 'precision', 'type')})
    return dict(result=cx.val('result', TCStr), spec=spec)


# Region: the truncation itself (from `overflow = ...` to the return).  What precedes it -- parsing the format
# specification with a regular expression and the call of str.format -- is an assumed contract:
#   result = format(value, spec) is longer than the requested width, width > 0, align is one of < > = ^.
format_field_trunc = FunctionContract(
    F, 'TruncFormatter.format_field', 'C16', short='format_field[truncation]', setup=setup_ff,
    region=dict(start="overflow = len(result) - spec.width"),
    requires=["spec.width > 0", "len(result) > spec.width",
              "spec.align == '<' or spec.align == '>' or spec.align == '=' or spec.align == '^'"],
    ensures=[
        # a field that overflows is cut to exactly its width: neighbouring fields never shift
        "len(result) == spec.width",
        # left aligned: the prefix is kept;  right aligned: the suffix;  centred: the middle
        "implies(spec.align == '<', forall(lambda i: implies(0 <= i and i < spec.width, result[i] == old(result)[i])))",
        "implies(spec.align == '>', forall(lambda i: implies(0 <= i and i < spec.width,"
        "    result[i] == old(result)[len(old(result)) - spec.width + i])))",
        "implies(spec.align == '^', forall(lambda i: implies(0 <= i and i < spec.width,"
        "    result[i] == old(result)[(len(old(result)) - spec.width) // 2 + i])))",
        "spec.align != '='",
    ],
    raises={'NotImplementedError': ["spec.align == '='"]},
    canary=[("result[overflow:]", "result[overflow + 1:]"), ("result[overflow//2:-overflow//2]", "result[overflow//2:-(overflow//2)]"),
            ("result[:-overflow]", "result[:-overflow + 1]")],
)

CONTRACTS = [format_field_trunc]
LEMMAS = []


# ------------------------------------------------------------------------------------------------------------------
# Column agreement between writers and readers: constants extracted from the real sources on every run (ast), decided
# by evaluation (backend 'ast-eval').  A field-width change on either side fails the obligation of that field.
import ast as _ast
import os as _os
import re as _re
import string as _string

_REPO = _os.environ.get('VERIF_REPO', '/repo')


def _fn(tree, qual):
    body = tree.body
    node = None
    for p in qual.split('.'):
        node = next(st for st in body if isinstance(st, (_ast.FunctionDef, _ast.ClassDef)) and st.name == p)
        body = node.body
    return node


def _assign_value(fn, name, pick=-1):
    vals = [st.value for st in _ast.walk(fn) if isinstance(st, _ast.Assign) and len(st.targets) == 1
            and isinstance(st.targets[0], _ast.Name) and st.targets[0].id == name]
    return vals[pick]


def _spans(template):
    """[(kind, start, width, text)] for a str.format template with fixed-width fields."""
    out, col = [], 0
    for lit_, field, spec, _ in _string.Formatter().parse(template):
        if lit_:
            out.append(('lit', col, len(lit_), lit_))
            col += len(lit_)
        if field is not None:
            m = _re.fullmatch(r'(?:.?[<>=^])?[+\- ]?#?0?(\d+)(?:\.\d+)?[a-zA-Z%]?t?', spec)
            w = int(m.group(1))
            out.append(('field', col, w, spec))
            col += w
    return out


# ------------------------------------------------------------------ write_pdb_string: the CONECT records of one atom
FP = 'vermouth/pdb/pdb.py'
Rec = TTuple(TInt, TInt, TSeq(TInt), names=['nfields', 'center', 'partners'])


def setup_conect(cx):
    from pyvc.builtins import list_append
    from pyvc.interp import StarArgs
    OUT = cx.heap('OUT', cx.box('OUT', TSeq(Rec)))        # the CONECT lines appended to `out`, as records
    todo = cx.box('todo', TSeq(TInt))
    cx.spec_env['T0'] = SV(TSeq(TInt), todo.e)
    center = cx.val('center', TInt)                         # nodeidx2atomid[(mol_idx, node_idx)]
    cx.spec_env['center'] = center
    n2a = Obj('nodeidx2atomid', __getitem__=Builtin(lambda e, k: center, 'nodeidx2atomid[]'))

    class N:
        pass
    number_fmt = Obj('number_fmt')                          # '{:>5dt}': one right-aligned five-column integer field

    def times(e, n):
        o = Obj('fields', n=n)
        o.attrs['__radd__'] = Builtin(lambda e2, head: o if head == 'CONECT' else (_ for _ in ()).throw(EngineError('record head')), 'CONECT+')
        return o
    number_fmt.attrs['__mul__'] = Builtin(times, 'number_fmt*')

    def fmt(e, f, first, *rest):
        if len(rest) != 1 or not isinstance(rest[0], StarArgs):
            raise EngineError('formatter.format call of another shape')
        return (f.attrs['n'], first, rest[0].seq)           # the line as a record: fields declared, first value, other values
    b = Builtin(fmt, 'formatter.format')
    b.star_ok = True
    formatter = Obj('formatter', format=b)
    out = Obj('out', append=Builtin(lambda e, line: list_append(e, OUT, line), 'out.append'))
    return dict(todo=todo, nodeidx2atomid=n2a, mol_idx=cx.val('mol_idx', TInt), node_idx=cx.val('node_idx', TInt),
                number_fmt=number_fmt, formatter=formatter, out=out)


LINE_J = ("{L}[len(old(OUT)) + j].center == center and {L}[len(old(OUT)) + j].nfields == len({L}[len(old(OUT)) + j].partners) + 1 and "
          "len({L}[len(old(OUT)) + j].partners) == (4 if len(T0) - 4 * j >= 4 else len(T0) - 4 * j) and "
          "forall(lambda q: implies(0 <= q and q < len({L}[len(old(OUT)) + j].partners), {L}[len(old(OUT)) + j].partners[q] == T0[4 * j + q]))")
conect_chunks = FunctionContract(
    FP, 'write_pdb_string', 'C16', short='write_pdb_string[CONECT records of one atom]', setup=setup_conect,
    region=dict(within=["if conect:", "for mol_idx, molecule in enumerate(system.molecules):", "for node_idx in molecule:"], start="while todo:"),
    ghost_at={'entry': "g_done = 0"},
    ensures=[
        # ceil(n / 4) records, each for this atom, each with 1..4 bonded atoms and exactly as many fields as values
        "len(OUT) == len(old(OUT)) + (len(T0) + 3) // 4",
        "forall(lambda j: implies(0 <= j and j < (len(T0) + 3) // 4, " + LINE_J.format(L='OUT') + "))",
        # ... so that the p-th bonded atom is the (p mod 4)-th value of record p div 4: every bond is written exactly once
        "forall(lambda p: implies(0 <= p and p < len(T0), OUT[len(old(OUT)) + p // 4].partners[p % 4] == T0[p]))",
        "forall(lambda k: implies(0 <= k and k < len(old(OUT)), OUT[k] == old(OUT)[k]))",
    ],
    modifies=['OUT', 'todo'],
    loops={'L1': LoopSpec(
        inv=["g_done >= 0 and len(OUT) == len(old(OUT)) + g_done",
             "len(todo) == (len(T0) - 4 * g_done if len(T0) - 4 * g_done >= 0 else 0)",
             "implies(len(todo) == 0, g_done == (len(T0) + 3) // 4)",
             "forall(lambda q: implies(0 <= q and q < len(todo), todo[q] == T0[4 * g_done + q]))",
             "forall(lambda j: implies(0 <= j and j < g_done, " + LINE_J.format(L='OUT') + "))",
             "forall(lambda k: implies(0 <= k and k < len(old(OUT)), OUT[k] == old(OUT)[k]))"],
        modifies=['OUT', 'todo'], locals=dict(g_done=TInt), decreases="len(todo)",
        ghost_end="g_done = g_done + 1")},
    canary=[("current, todo = todo[:4], todo[4:]", "current, todo = todo[:4], todo[5:]"),
            ("fmt = 'CONECT' + number_fmt*(len(current) + 1)", "fmt = 'CONECT' + number_fmt*len(current)"),
            ("current, todo = todo[:4], todo[4:]", "current, todo = todo[:5], todo[5:]")],
)
CONTRACTS.append(conect_chunks)


# ------------------------------------------------------------------ write_pdb_string: serial numbers, ATOM and TER records
MolT, NodeT = TKey('MolT'), TKey('NodeT')
AtomEv = TTuple(TInt, TInt, TStr, TStr, TInt, TStr, names=['kind', 'serial', 'atomname', 'resname', 'resid', 'chain'])   # kind 0 ATOM, 1 TER


def setup_serials(cx):
    eng = cx.eng
    from pyvc.values import IterV
    from pyvc.builtins import _int, list_append
    mols = cx.val('molecules', TSeq(MolT))
    cx.spec_env['mols'] = mols
    nodes_of = cx.uf('nodes_of', [MolT], TSeq(NodeT))               # molecule.sorted_nodes
    attr_s = cx.uf('attr_s', [MolT, NodeT, TStr], TStr)              # get_not_none(node, <name>, default) for text attributes
    attr_i = cx.uf('attr_i', [MolT, NodeT, TStr], TInt)              # ... for numbers
    m_ = z3.Const('m', MolT.sort())
    cx.assume(z3.ForAll([m_], TSeq(NodeT).len(nodes_of(m_)) >= 0))
    EV = cx.heap('EV', Box(TSeq(AtomEv)))
    eng.attr_hooks[('MolT', 'sorted_nodes')] = lambda e, m: SV(TSeq(NodeT), nodes_of(to_z3(m, MolT)))

    def node_view(e, m):
        def item(e2, n):
            o = Obj('atomdict', mol=m, node=n)
            pos = Obj('position')
            pos.attrs['__mul__'] = Builtin(lambda e3, f: (e3.fresh_val(TReal, 'x'), e3.fresh_val(TReal, 'y'), e3.fresh_val(TReal, 'z')), '*')
            o.attrs['__getitem__'] = Builtin(lambda e3, k: pos if k == 'position' else (_ for _ in ()).throw(EngineError('node[%r]' % (k,))), 'node[]')
            return o
        return Obj('NodeView', __getitem__=Builtin(item, 'molecule.nodes[]'))
    eng.attr_hooks[('MolT', 'nodes')] = node_view

    def get_not_none(e, node, attr, default):
        m, n = to_z3(node.attrs['mol'], MolT), to_z3(node.attrs['node'], NodeT)
        if isinstance(default, str):
            return SV(TStr, attr_s(m, n, z3.StringVal(attr)))
        return SV(TInt, attr_i(m, n, z3.StringVal(attr)))
    cx.spec_env['get_not_none'] = Builtin(get_not_none, 'get_not_none')

    def fmt(e, template, *vals):
        if template.startswith('ATOM'):
            return (0, vals[0], vals[1], vals[3], vals[5], vals[4])      # serial, atomname, resname, resid, chain
        if template.startswith('TER'):
            return (1, vals[0], '', vals[1], vals[3], vals[2])           # serial, resname, resid, chain
        raise EngineError('formatter.format(%r...)' % template[:10])
    formatter = Obj('formatter', format=Builtin(fmt, 'formatter.format'))
    out = Obj('out', append=Builtin(lambda e, line: list_append(e, EV, line), 'out.append'))
    system = Obj('System', molecules=mols)
    # resname / chain / resid / insertion_code leak from the inner loop to the TER line; every molecule has an atom (required
    # below), so they are always assigned before they are used - the arbitrary initial values stand for "unbound"
    return dict(system=system, formatter=formatter, out=out, omit_charges=True, nan_missing_pos=cx.val('nan_missing_pos', TBool),
                format_string='ATOM  {: >5dt} ...', resname=cx.val('resname0', TStr), chain=cx.val('chain0', TStr),
                resid=cx.val('resid0', TInt), insertion_code=cx.val('icode0', TStr))


SPEC_SER = {
    'nat': "lambda m: len(nodes_of(mols[m]))",
    'nd': "lambda m, q: nodes_of(mols[m])[q]",
    # position in the output of atom q of molecule m: all atoms and TER lines of the earlier molecules come first
    'at': "lambda m, q: NAT(mols, m) + m + q",
    'is_atom': "lambda ev, m, q: ev.kind == 0 and ev.serial == at(m, q) + 1 and ev.atomname == attr_s(mols[m], nd(m, q), 'atomname') and "
               "ev.resname == attr_s(mols[m], nd(m, q), 'resname') and ev.resid == attr_i(mols[m], nd(m, q), 'resid') and "
               "ev.chain == attr_s(mols[m], nd(m, q), 'chain')",
    'is_ter': "lambda ev, m: ev.kind == 1 and ev.serial == NAT(mols, m + 1) + m + 1 and "
              "ev.resname == attr_s(mols[m], nd(m, nat(m) - 1), 'resname') and ev.resid == attr_i(mols[m], nd(m, nat(m) - 1), 'resid') and "
              "ev.chain == attr_s(mols[m], nd(m, nat(m) - 1), 'chain')",
}
RECS_SER = [('NAT', [('ms', TSeq(MolT)), ('i', TInt)], TInt, "0 if i <= 0 else NAT(ms, i - 1) + len(nodes_of(ms[i - 1]))")]
L_nat_nonneg = Lemma('L_nat_nonneg', [('ms', TSeq(MolT)), ('i', TInt)], spec_recs=RECS_SER, prop='C16', file=FP,
                     requires=["i <= len(ms)", "forall(lambda k: implies(0 <= k and k < len(ms), len(nodes_of(ms[k])) >= 0))"],
                     ensures=["NAT(ms, i) >= 0"], induction='i', ufs=[('nodes_of', [MolT], TSeq(NodeT))])
# the block of molecule m in the output starts at lo(m) = NAT(m) + m: nat(m) ATOM records, then its TER record
SPEC_SER['lo'] = "lambda m: NAT(mols, m) + m"
SPEC_SER['block_ok'] = ("lambda m: lo(m) + nat(m) < len(EV) and "
                        "forall(lambda p: implies(lo(m) <= p and p < lo(m) + nat(m), is_atom(EV[p], m, p - lo(m)))) and "
                        "is_ter(EV[lo(m) + nat(m)], m) and "
                        "forall(lambda q: implies(0 <= q and q < nat(m), (m, nd(m, q)) in nodeidx2atomid and "
                        "   nodeidx2atomid[(m, nd(m, q))] == lo(m) + q + 1))")
L_nat_mono = Lemma('L_nat_mono', [('ms', TSeq(MolT)), ('i', TInt), ('j', TInt)], spec_recs=RECS_SER, prop='C16', file=FP,
                   requires=["0 <= i and i <= j and j <= len(ms)", "forall(lambda k: implies(0 <= k and k < len(ms), len(nodes_of(ms[k])) >= 0))"],
                   ensures=["NAT(ms, i) <= NAT(ms, j)"], induction='j', ufs=[('nodes_of', [MolT], TSeq(NodeT))])
SER_INV = ["forall(lambda m: implies(0 <= m and m < {M}, block_ok(m)))"]
serials = FunctionContract(
    FP, 'write_pdb_string', 'C16', short='write_pdb_string[ATOM and TER records]', setup=setup_serials, spec_defs=SPEC_SER,
    spec_recs=RECS_SER, spec_env=dict(MolT=MolT, NodeT=NodeT), lemmas=[L_nat_nonneg, L_nat_mono],
    region=dict(start="nodeidx2atomid = {}", end="if conect:"),
    locals=dict(nodeidx2atomid=TMap(TTuple(TInt, NodeT), TInt)),
    requires=["len(old(EV)) == 0",
              # every molecule has at least one atom (the TER record repeats the residue of the molecule's last atom), and a
              # molecule lists each of its atoms once
              "forall(lambda m: implies(0 <= m and m < len(mols), nat(m) >= 1))",
              "forall(lambda m, p, q: implies(0 <= m and m < len(mols) and 0 <= p and p < q and q < nat(m), nd(m, p) != nd(m, q)))"],
    ensures=[
        # every atom of every molecule, in order, with consecutive serial numbers; one TER record after each molecule, which
        # takes a serial number of its own; the table used for the CONECT records maps each atom to its serial number
        "len(EV) == NAT(mols, len(mols)) + len(mols)",
        SER_INV[0].format(M='len(mols)'),
    ],
    modifies=['EV'],
    ghost_at={'entry': "use_lemma('L_nat_nonneg', mols, ANY)\nuse_lemma('L_nat_mono', mols, ANY, ANY)"},
    loops={
        'L1': LoopSpec(inv=["atomid == lo(_i) + 1 and len(EV) == lo(_i)", SER_INV[0].format(M='_i'),
                            "forall(lambda k: implies(k in nodeidx2atomid, 0 <= k[0] and k[0] < _i), TK)"],
                       modifies=['EV', 'nodeidx2atomid'], locals=dict(nodeidx2atomid=TMap(TTuple(TInt, NodeT), TInt), g_EV=TSeq(AtomEv)),
                       ghost_pre="g_EV = list(EV)\ng_tab = dict(nodeidx2atomid)",
                       ghost_end="prove(forall(lambda m: implies(0 <= m and m < _i, block_ok(m))), 'earlier-molecules-untouched')\n"
                                 "prove(block_ok(_i), 'this-molecule')"),
        'L1.1': LoopSpec(inv=["atomid == lo(_iL1) + _i + 1 and len(EV) == lo(_iL1) + _i",
                              "forall(lambda p: implies(0 <= p and p < lo(_iL1), EV[p] == g_EV[p]))",
                              "forall(lambda k: implies(k in g_tab, k in nodeidx2atomid and nodeidx2atomid[k] == g_tab[k]), TK)",
                              "forall(lambda p: implies(lo(_iL1) <= p and p < lo(_iL1) + _i, is_atom(EV[p], _iL1, p - lo(_iL1))))",
                              "forall(lambda q: implies(0 <= q and q < _i, (_iL1, nd(_iL1, q)) in nodeidx2atomid and "
                              "   nodeidx2atomid[(_iL1, nd(_iL1, q))] == lo(_iL1) + q + 1))",
                              "forall(lambda k: implies(k in nodeidx2atomid, 0 <= k[0] and k[0] <= _iL1), TK)",
                              "implies(_i > 0, resname == attr_s(mols[_iL1], nd(_iL1, _i - 1), 'resname') and "
                              "   resid == attr_i(mols[_iL1], nd(_iL1, _i - 1), 'resid') and chain == attr_s(mols[_iL1], nd(_iL1, _i - 1), 'chain'))"],
                         modifies=['EV', 'nodeidx2atomid'],
                         locals=dict(nodeidx2atomid=TMap(TTuple(TInt, NodeT), TInt), resname=TStr, resid=TInt, chain=TStr)),
    },
    canary=[("atomid += 1\n        out.append(terline)", "out.append(terline)"),
            ("nodeidx2atomid[(mol_idx, node_idx)] = atomid", "nodeidx2atomid[(mol_idx, node_idx)] = atomid + 1")],
)
serials.spec_env['TK'] = TTuple(TInt, NodeT)
CONTRACTS.append(serials)
LEMMAS.extend([L_nat_nonneg, L_nat_mono])


# ------------------------------------------------------------------ write_gro: the atom lines
FG = 'vermouth/gmx/gro.py'
GroEv = TTuple(TInt, TInt, TStr, TStr, TBool, names=['serial', 'resid', 'resname', 'atomname', 'with_velocity'])


def setup_gro(cx):
    eng = cx.eng
    from pyvc.builtins import list_append
    mols = cx.val('molecules', TSeq(MolT))
    cx.spec_env['mols'] = mols
    nodes_of = cx.uf('nodes_of', [MolT], TSeq(NodeT))               # iteration over molecule.nodes
    attr_s = cx.uf('attr_s', [MolT, NodeT, TStr], TStr)
    attr_i = cx.uf('attr_i', [MolT, NodeT, TStr], TInt)
    m_ = z3.Const('m', MolT.sort())
    cx.assume(z3.ForAll([m_], TSeq(NodeT).len(nodes_of(m_)) >= 0))
    EV = cx.heap('EV', Box(TSeq(GroEv)))

    def node_view(e, m):
        def item(e2, n):
            me, ne = to_z3(m, MolT), to_z3(n, NodeT)

            def get(e3, k):
                if k in ('atomname', 'resname'):
                    return SV(TStr, attr_s(me, ne, z3.StringVal(k)))
                if k == 'resid':
                    return SV(TInt, attr_i(me, ne, z3.StringVal(k)))
                if k in ('position', 'velocity'):
                    return (e3.fresh_val(TReal, 'x'), e3.fresh_val(TReal, 'y'), e3.fresh_val(TReal, 'z'))
                raise EngineError('node[%r]' % (k,))
            return Obj('atomdict', __getitem__=Builtin(get, 'node[]'))
        nv = Obj('NodeView', __getitem__=Builtin(item, 'molecule.nodes[]'))
        nv.__dict__['iter'] = SV(TSeq(NodeT), nodes_of(to_z3(m, MolT)))
        return nv
    eng.attr_hooks[('MolT', 'nodes')] = node_view

    def fmt(e, template, *vals):
        if len(vals) == 7:
            o = Obj('groline', serial=vals[3], resid=vals[0], resname=vals[1], atomname=vals[2], vel=False)

            def add(e2, other):
                if other == '\n':
                    return o
                if isinstance(other, Obj) and other.cls == 'velocities':
                    o.attrs['vel'] = True
                    return o
                raise EngineError('line + %r' % (other,))
            o.attrs['__add__'] = Builtin(add, 'line +')
            return o
        if len(vals) == 3:
            return Obj('velocities')
        raise EngineError('formatter.format with %d values' % len(vals))
    formatter = Obj('formatter', format=Builtin(fmt, 'formatter.format'))
    out = Obj('out', write=Builtin(lambda e, o: list_append(e, EV, (o.attrs['serial'], o.attrs['resid'], o.attrs['resname'],
                                                                     o.attrs['atomname'], o.attrs['vel'])), 'out.write'))
    return dict(system=Obj('System', molecules=mols), formatter=formatter, out=out, has_vel=cx.val('has_vel', TBool),
                format_string='{:5dt}{:<5st}{:>5st}{:5dt}...', vel_format_string='{:8.4ft}' * 3)


SPEC_GRO = {
    'nat': "lambda m: len(nodes_of(mols[m]))",
    'nd': "lambda m, q: nodes_of(mols[m])[q]",
    'is_line': "lambda ev, m, q: ev.serial == NAT(mols, m) + q + 1 and ev.atomname == attr_s(mols[m], nd(m, q), 'atomname') and "
               "ev.resname == attr_s(mols[m], nd(m, q), 'resname') and ev.resid == attr_i(mols[m], nd(m, q), 'resid') and "
               "ev.with_velocity == has_vel",
    'block_ok': "lambda m: NAT(mols, m) + nat(m) <= len(EV) and "
                "forall(lambda p: implies(NAT(mols, m) <= p and p < NAT(mols, m) + nat(m), is_line(EV[p], m, p - NAT(mols, m))))",
}
gro_lines = FunctionContract(
    FG, 'write_gro', 'C16', short='write_gro[atom lines]', setup=setup_gro, spec_defs=SPEC_GRO, spec_recs=RECS_SER,
    spec_env=dict(MolT=MolT, NodeT=NodeT), lemmas=[L_nat_nonneg, L_nat_mono],
    region=dict(within=["with open(str(file_name), 'w') as out:"], start="atomid = 1", end="out.write(' '.join("),
    requires=["len(old(EV)) == 0"],
    ensures=[
        # one line per atom, molecule after molecule in the molecule's own atom order, numbered consecutively from 1, each
        # with its own residue number, residue name and atom name (and velocities for all atoms or for none)
        "len(EV) == NAT(mols, len(mols))",
        "forall(lambda m: implies(0 <= m and m < len(mols), block_ok(m)))",
    ],
    modifies=['EV'],
    ghost_at={'entry': "use_lemma('L_nat_nonneg', mols, ANY)\nuse_lemma('L_nat_mono', mols, ANY, ANY)"},
    loops={
        'L1': LoopSpec(inv=["atomid == NAT(mols, _i) + 1 and len(EV) == NAT(mols, _i)", "forall(lambda m: implies(0 <= m and m < _i, block_ok(m)))"],
                       modifies=['EV'], locals=dict(g_EV=TSeq(GroEv)), ghost_pre="g_EV = list(EV)",
                       ghost_end="prove(forall(lambda m: implies(0 <= m and m < _i, block_ok(m))), 'earlier-molecules-untouched')\n"
                                 "prove(block_ok(_i), 'this-molecule')"),
        'L1.1': LoopSpec(inv=["atomid == NAT(mols, _iL1) + _i + 1 and len(EV) == NAT(mols, _iL1) + _i",
                              "forall(lambda p: implies(0 <= p and p < NAT(mols, _iL1), EV[p] == g_EV[p]))",
                              "forall(lambda p: implies(NAT(mols, _iL1) <= p and p < NAT(mols, _iL1) + _i, is_line(EV[p], _iL1, p - NAT(mols, _iL1))))"],
                         modifies=['EV']),
    },
    canary=[("atomid += 1\n                out.write(line + '\\n')", "out.write(line + '\\n')"),
            ("line = formatter.format(format_string, resid, resname, atomname,", "line = formatter.format(format_string, resid, atomname, resname,")],
)
CONTRACTS.append(gro_lines)


def extra_obligations(tier):
    obs = []

    def ob(name, ok, detail, line=None, function=''):
        obs.append(dict(name=name, status='unsat' if ok else 'sat', backend='ast-eval', detail=detail, line=line,
                        key=name, function=function))
    try:
        src = open(_os.path.join(_REPO, 'vermouth/pdb/pdb.py')).read()
        tree = _ast.parse(src)
        wfn = _fn(tree, 'write_pdb_string')
        template = _ast.literal_eval(_assign_value(wfn, 'format_string', pick=0))
        wspans = _spans(template)
        call = next(n for n in _ast.walk(wfn) if isinstance(n, _ast.Call) and isinstance(n.func, _ast.Attribute)
                    and n.func.attr == 'format' and n.args and isinstance(n.args[0], _ast.Name)
                    and n.args[0].id == 'format_string' and len(n.args) > 10)
        wnames = [a.id for a in call.args[1:]]
        wfields = [s for s in wspans if s[0] == 'field']
        ob('column:ATOM:writer-arity', len(wfields) == len(wnames), '%d fields for %d values' % (len(wfields), len(wnames)),
           function='write_pdb_string')
        rfn = _fn(tree, 'PDBParser._atom')
        rfields = [(e.elts[0].value, e.elts[2].value) for e in _assign_value(rfn, 'fields').elts]
        rmap, col = {}, 0
        for name, w in rfields:
            if name:
                rmap[name] = (col, w)
            col += w
        alias = {'atomid': 'atomid'}
        for (kind, start, w, spec), name in zip(wfields, wnames):
            r = rmap.get(alias.get(name, name))
            if r is None:
                ob('column:ATOM:%s' % name, False, 'the reader has no field %s' % name, function='PDBParser._atom')
                continue
            rs, rw = r
            inside = rs <= start and start + w <= rs + rw
            surplus_blank = all(template_char(wspans, c) == ' ' for c in list(range(rs, start)) + list(range(start + w, rs + rw)))
            ob('column:ATOM:%s' % name, inside and surplus_blank,
               'writer columns [%d,%d) reader slice [%d,%d)' % (start, start + w, rs, rs + rw), function='write_pdb_string')
        ob('column:ATOM:record-name', wspans[0][0] == 'lit' and wspans[0][3].startswith('ATOM  ') and rfields[0] == ('', 6),
           'record name occupies columns 1-6')
        # CONECT: writer 'CONECT' + number_fmt * n, reader start=6 width=5
        number_fmt = _ast.literal_eval(_assign_value(wfn, 'number_fmt'))
        nw = _spans(number_fmt)[0][2]
        cfn = _fn(tree, 'PDBParser.do_conect')
        cstart = _ast.literal_eval(_assign_value(cfn, 'start'))
        cwidth = _ast.literal_eval(_assign_value(cfn, 'width'))
        fmt_expr = _ast.unparse(next(st.value for st in _ast.walk(wfn) if isinstance(st, _ast.Assign)
                                     and isinstance(st.targets[0], _ast.Name) and st.targets[0].id == 'fmt'))
        adjacent = _norm(fmt_expr) == _norm("'CONECT' + number_fmt * (len(current) + 1)")
        ob('column:CONECT:width', nw == cwidth and cstart == len('CONECT') and adjacent,
           'writer field width %d (template %s), reader start %d width %d' % (nw, fmt_expr, cstart, cwidth),
           function='write_pdb_string')
        # capacity: the property promises bonds for every system that fits the five-digit atom numbering
        serial_w = wfields[0][2]
        ob('capacity:CONECT:serial', nw >= serial_w == 5, 'CONECT serial field holds %d digits, ATOM serial field %d' % (nw, serial_w),
           function='write_pdb_string')
        ter = next(n.args[0].value for n in _ast.walk(wfn) if isinstance(n, _ast.Call) and isinstance(n.func, _ast.Attribute)
                   and n.func.attr == 'format' and n.args and isinstance(n.args[0], _ast.Constant)
                   and str(n.args[0].value).startswith('TER'))
        tsp = _spans(ter)
        ob('column:TER:serial', tsp[1][1] == 6 and tsp[1][2] == 5, 'TER serial at columns [%d,%d)' % (tsp[1][1], tsp[1][1] + tsp[1][2]),
           function='write_pdb_string')
    except Exception as ex:       # anchor moved: undecided, never a violation
        obs.append(dict(name='column:PDB:extraction', status='unknown', backend='ast-eval', detail='%s: %s' % (type(ex).__name__, ex),
                        key='column:PDB:extraction'))
    try:
        src = open(_os.path.join(_REPO, 'vermouth/gmx/gro.py')).read()
        tree = _ast.parse(src)
        wfn = _fn(tree, 'write_gro')
        head = _ast.literal_eval(_assign_value(wfn, 'format_string').left)
        hw = [s[2] for s in _spans(head) if s[0] == 'field']
        rfn = next(n for n in _ast.walk(tree) if isinstance(n, _ast.FunctionDef) and any(
            isinstance(s, _ast.Assign) and isinstance(s.targets[0], _ast.Name) and s.targets[0].id == 'field_widths'
            for s in _ast.walk(n)))
        rw = _ast.literal_eval(_assign_value(rfn, 'field_widths', pick=0))
        ob('column:GRO:head', hw == rw, 'writer widths %s reader widths %s' % (hw, rw), function='write_gro')
        pos = _ast.unparse(_assign_value(wfn, 'pos_format_string'))
        ob('column:GRO:position', _norm(pos) == _norm("'{{:{ntx}.3ft}}'.format(ntx=precision + 1)"),
           'position field is precision+1 wide with 3 decimals (the reader recovers the width from the dot distance): %s' % pos,
           function='write_gro')
    except Exception as ex:
        obs.append(dict(name='column:GRO:extraction', status='unknown', backend='ast-eval', detail='%s: %s' % (type(ex).__name__, ex),
                        key='column:GRO:extraction'))
    return obs


def template_char(spans, col):
    for kind, start, w, text in spans:
        if start <= col < start + w:
            return text[col - start] if kind == 'lit' else '#'
    return ' '


def _norm(s):
    return ''.join(s.split())


# ------------------------------------------------------------------ read_gro: the columns of the fields
SliceT = TTuple(TInt, TInt, names=['start', 'stop'])
RECS_GRO = [('AW', [('w', TSeq(TInt)), ('i', TInt)], TInt, "0 if i <= 0 else AW(w, i - 1) + (w[i - 1] if w[i - 1] >= 0 else -w[i - 1])")]


def setup_gro_cols(cx):
    widths = cx.val('field_widths', TSeq(TInt))
    cx.spec_env['WIDTHS'] = widths
    cx.spec_env['slice'] = Builtin(lambda e, a, b: (a, b) if True else None, 'slice')
    return dict(field_widths=widths)


GRO_INV = [
    "start == AW(WIDTHS, {I})",
    "len(g_src) == len(slices)",
    # the q-th column comes from a field of positive width: it starts where the widths of all earlier fields (skipped ones counted
    # by their absolute value) end, and is as wide as that field
    "forall(lambda q: implies(0 <= q and q < len(slices), 0 <= g_src[q] and g_src[q] < {I} and WIDTHS[g_src[q]] > 0 and "
    "   slices[q].start == AW(WIDTHS, g_src[q]) and slices[q].stop == slices[q].start + WIDTHS[g_src[q]]))",
    "forall(lambda p, q: implies(0 <= p and p < q and q < len(g_src), g_src[p] < g_src[q]))",
    "forall(lambda i: implies(0 <= i and i < {I} and WIDTHS[i] > 0, i in g_pos and 0 <= g_pos[i] and g_pos[i] < len(g_src) and g_src[g_pos[i]] == i))",
]
gro_columns = FunctionContract(
    'vermouth/gmx/gro.py', 'read_gro', 'C16', short='read_gro[columns]', spec_recs=RECS_GRO, setup=setup_gro_cols,
    region=dict(within=["with open(str(file_name)) as gro:"], start="start = 0", end="for line_idx, line in enumerate(chain([first_line], gro)):"),
    locals=dict(slices=TSeq(SliceT), g_src=TSeq(TInt), g_pos=TMap(TInt, TInt), start=TInt), ghost_at={'entry': "g_src = []\ng_pos = {}"},
    ensures=[x.format(I='len(WIDTHS)') for x in GRO_INV],
    loops={'L1': LoopSpec(inv=[x.format(I='_i') for x in GRO_INV], modifies=['slices', 'g_src', 'g_pos'],
                          locals=dict(g_n0=TInt, start=TInt), ghost_pre="g_n0 = len(slices)",
                          ghost_end="if len(slices) > g_n0:\n    g_src.append(_i)\n    g_pos[_i] = len(g_src) - 1")},
    canary=[("start = start + abs(width)", "start = start + width"),
            ("slices.append(slice(start, start + width))", "slices.append(slice(start, start + width + 1))"),
            ("if width > 0:", "if width >= 0:")],
)
CONTRACTS.append(gro_columns)


# ------------------------------------------------------------------ write_pdb_string: which bonded atoms are listed for an atom
def setup_partners(cx):
    from pyvc.builtins import make_iter, _int
    eng = cx.eng
    nbrs = cx.val('NBRS', TSeq(TInt))                        # molecule[node_idx]: the atoms bonded to node_idx, each once (networkx adjacency)
    cx.spec_env['NBRS'] = nbrs
    serial = cx.uf('serial', [TInt, TInt], TInt)            # nodeidx2atomid[(molecule, node)]: by the contract of the serial-number region
    mol_idx, node_idx = cx.val('mol_idx', TInt), cx.val('node_idx', TInt)
    for f in ('up_ix', 'up_rk', 'srt_ix', 'srt_rk'):
        cx.uf(f, [TInt], TInt)
    cx.spec_env['up_len'] = SV(TInt, z3.Int('up_len'))

    def n2a(e, k):
        if not (isinstance(k, tuple) and len(k) == 2):
            raise EngineError('nodeidx2atomid key of another shape')
        return SV(TInt, serial(to_z3(k[0], TInt), to_z3(k[1], TInt)))

    def adj(e, k):
        e.oblige(z3.eq(to_z3(k, TInt), node_idx.e), 'neighbours:of-this-atom')
        return nbrs

    def sorted_(e, xs, key=None, reverse=False):
        # sorted() by its contract: an arrangement of the given elements (index maps srt_ix / srt_rk, inverse of each other) in
        # non-decreasing order
        if key is not None or reverse:
            raise EngineError('sorted() with a key')
        it = make_iter(e, xs)
        n = _int(it.n)
        st = TSeq(TInt)
        out = e.fresh_val(st, 'sorted')
        ix, rk = e.uf('srt_ix', [TInt], TInt), e.uf('srt_rk', [TInt], TInt)
        a, b = z3.FreshInt('sa'), z3.FreshInt('sb')
        e.assume(st.len(out.e) == n)
        e.assume(z3.ForAll([a], z3.Implies(z3.And(0 <= a, a < n), z3.And(0 <= ix(a), ix(a) < n, rk(ix(a)) == a, 0 <= rk(a), rk(a) < n, ix(rk(a)) == a,
                                                                      st.at(out.e, a) == to_z3(it.get(ix(a)), TInt)))))
        e.assume(z3.ForAll([a, b], z3.Implies(z3.And(0 <= a, a < b, b < n), st.at(out.e, a) <= st.at(out.e, b))))
        return out
    cx.spec_env['sorted'] = Builtin(sorted_, 'sorted')
    return dict(nodeidx2atomid=Obj('nodeidx2atomid', __getitem__=Builtin(n2a, 'nodeidx2atomid[]')), mol_idx=mol_idx, node_idx=node_idx,
                molecule=Obj('Molecule', __getitem__=Builtin(adj, 'molecule[]')))


conect_partners = FunctionContract(
    FP, 'write_pdb_string', 'C16', short='write_pdb_string[which bonded atoms are listed for an atom]', setup=setup_partners,
    region=dict(within=["if conect:", "for mol_idx, molecule in enumerate(system.molecules):", "for node_idx in molecule:"],
                start="todo = sorted(", end="while todo:"),
    filters={"n_idx > node_idx": 'up'},
    ensures=[
        # the atoms listed for an atom are exactly its bonded atoms with a larger key - every bond is listed at one of its two atoms
        # only - as the serial numbers of this molecule, in non-decreasing order
        "len(todo) == up_len",
        "forall(lambda p: implies(0 <= p and p < len(NBRS) and NBRS[p] > node_idx, 0 <= srt_rk(up_rk(p)) and srt_rk(up_rk(p)) < len(todo) and "
        "   todo[srt_rk(up_rk(p))] == serial(mol_idx, NBRS[p])))",
        "forall(lambda q: implies(0 <= q and q < len(todo), 0 <= up_ix(srt_ix(q)) and up_ix(srt_ix(q)) < len(NBRS) and "
        "   NBRS[up_ix(srt_ix(q))] > node_idx and todo[q] == serial(mol_idx, NBRS[up_ix(srt_ix(q))])))",
        # two positions of the list are two different bonded atoms
        "forall(lambda q, r: implies(0 <= q and q < r and r < len(todo), up_ix(srt_ix(q)) != up_ix(srt_ix(r))))",
        "forall(lambda q, r: implies(0 <= q and q < r and r < len(todo), todo[q] <= todo[r]))",
    ],
    canary=[("if n_idx > node_idx)", "if n_idx >= node_idx)"), ("if n_idx > node_idx)", "if n_idx < node_idx)"),
            ("todo = sorted(nodeidx2atomid[(mol_idx, n_idx)]", "todo = sorted(nodeidx2atomid[(mol_idx, node_idx)]")],
)
CONTRACTS.append(conect_partners)


# ------------------------------------------------------------------ PDBParser._do_single_conect: one CONECT record read back
Edge3 = TTuple(MolT, TInt, TInt, names=['mol', 'a', 'b'])


def setup_dsc(cx):
    from pyvc.builtins import list_append
    eng = cx.eng
    mols = cx.heap('MOLS', cx.box('MOLS', TSeq(MolT)))                      # self.molecules
    id2 = cx.box('id2idxs', TSeq(TMap(TInt, TInt)))                        # per molecule: serial number -> node key
    rec = cx.val('conect_record', TSeq(TInt))
    EDGES = cx.heap('EDGES', cx.box('EDGES', TSeq(Edge3)))                  # add_edge calls, in order
    H = cx.val('H', TInt)                                                   # the molecule the serial numbers of this record belong to
    cx.spec_env.update(H=H, MolT=MolT)
    eng.identity_sorts = {'MolT'}                                           # a value of MolT is a molecule object: `is` is equality
    pos = cx.uf('pos_of', [MolT, TInt], TInt)
    cx.uf('dist', [TInt, TInt], TInt)

    def node_view(e, m):
        me = to_z3(m, MolT)
        return Obj('NodeView', __getitem__=Builtin(lambda e2, k: Obj('atomdict', __getitem__=Builtin(
            lambda e3, a: SV(TInt, pos(me, to_z3(k, TInt))) if a == 'position' else (_ for _ in ()).throw(EngineError('attribute %r' % (a,))),
            'node[]')), 'nodes[]'))
    eng.attr_hooks[('MolT', 'nodes')] = node_view

    def add_edge(e, m, a, b, distance=None):
        e.oblige(distance is not None and to_z3(distance, TInt) == cx.eng.ufs['dist'](pos(to_z3(m, MolT), to_z3(a, TInt)), pos(to_z3(m, MolT), to_z3(b, TInt))),
                 'distance:between-the-two-bonded-atoms')
        list_append(e, EDGES, (m, a, b))
    eng.methods[('MolT', 'add_edge')] = add_edge
    cx.spec_env['distance'] = Builtin(lambda e, p, q: SV(TInt, cx.eng.ufs['dist'](to_z3(p, TInt), to_z3(q, TInt))), 'distance')
    cx.spec_env['LOGGER'] = Obj('LOGGER', info=Builtin(lambda e, *a, **k: None, 'LOGGER.info'))
    cx.spec_env['format_atom_string'] = Builtin(lambda e, *a, **k: Obj('text'), 'format_atom_string')
    return dict(self=Obj('PDBParser', molecules=mols), conect_record=rec, id2idxs=id2)


SPEC_DSC = {
    # the q-th number of the record names an atom that was read
    'known': "lambda q: conect_record[q] in id2idxs[H]",
    'key': "lambda q: id2idxs[H][conect_record[q]]",
}
do_single_conect = FunctionContract(
    FP, 'PDBParser._do_single_conect', 'C16', setup=setup_dsc, spec_defs=SPEC_DSC,
    requires=[
        "len(conect_record) >= 1 and len(id2idxs) == len(MOLS) and 0 <= H and H < len(MOLS)",
        "forall(lambda a, b: implies(0 <= a and a < b and b < len(MOLS), MOLS[a] != MOLS[b]))",
        # the record stays within one molecule - what the writer produces (its records list bonded atoms of the atom's own molecule,
        # and the TER records restore the division into molecules); a record that joins two molecules is outside this contract
        "forall(lambda q, k: implies(0 <= q and q < len(conect_record) and 0 <= k and k < len(id2idxs) and conect_record[q] in id2idxs[k], k == H))",
        "len(old(EDGES)) == 0",
    ],
    ensures=[
        # every number after the first that names an atom that was read gives exactly one bond, between the atom the first number names
        # and that atom, in its molecule and in the order of the record; numbers of skipped atoms give nothing; a record whose first
        # atom was skipped gives nothing
        "implies(not known(0), len(EDGES) == 0)",
        "forall(lambda e: implies(0 <= e and e < len(EDGES), 1 <= g_src[e] and g_src[e] < len(conect_record) and known(0) and known(g_src[e]) and "
        "   g_pos[g_src[e]] == e and EDGES[e] == (MOLS[H], key(0), key(g_src[e]))))",
        "forall(lambda q: implies(1 <= q and q < len(conect_record) and known(0) and known(q), 0 <= g_pos[q] and g_pos[q] < len(EDGES) and g_src[g_pos[q]] == q))",
        "forall(lambda k: implies(0 <= k and k < len(MOLS), MOLS[k] == old(MOLS)[k])) and len(MOLS) == len(old(MOLS))",
    ],
    ghost_at={'entry': "g_src = {}\ng_pos = {}",
              # the number names an atom of some molecule: by the precondition it is the molecule of the first atom - no merging
              'before:stmt:if mol is not mol2:': "prove(mol2 == mol and known(_i + 1) and atomidx == key(_i + 1), 'the-second-atom-is-in-the-same-molecule')",
              'before:stmt:mol.add_edge(atomidx0, atomidx, distance=dist)': "g_src[len(EDGES)] = _i + 1\ng_pos[_i + 1] = len(EDGES)"},
    locals=dict(g_src=TMap(TInt, TInt), g_pos=TMap(TInt, TInt)),
    modifies=['EDGES'],
    loops={
        'L1': LoopSpec(inv=["forall(lambda k: implies(0 <= k and k < _i, conect_record[0] not in id2idxs[k]))"], modifies=[]),
        'L2': LoopSpec(
            inv=["mol == MOLS[H] and known(0) and atomidx0 == key(0)",
                 "forall(lambda e: implies(0 <= e and e < len(EDGES), 1 <= g_src[e] and g_src[e] < _i + 1 and known(g_src[e]) and "
                 "   g_pos[g_src[e]] == e and EDGES[e] == (MOLS[H], key(0), key(g_src[e]))))",
                 "forall(lambda q: implies(1 <= q and q < _i + 1 and known(q), 0 <= g_pos[q] and g_pos[q] < len(EDGES) and g_src[g_pos[q]] == q))"],
            modifies=['EDGES', 'g_src', 'g_pos']),
        'L2.1': LoopSpec(inv=["forall(lambda k: implies(0 <= k and k < _i, atomid not in id2idxs[k]))"], modifies=[]),
    },
    canary=[("mol.add_edge(atomidx0, atomidx, distance=dist)", "mol.add_edge(atomidx0, atomidx0, distance=dist)"),
            ("for atomid in conect_record[1:]:", "for atomid in conect_record[2:]:"),
            ("atomidx = id2idx[atomid]", "atomidx = id2idx[atomid0]")],
)
CONTRACTS.append(do_single_conect)


# ------------------------------------------------------------------ PDBParser.do_conect: the fixed columns of a CONECT line
LineT, FieldT = TKey('LineT'), TKey('FieldT')


def _id2idxs_source():
    tree = _ast.parse(open(_os.path.join(_REPO, FP)).read())
    fn = next(f for c in tree.body if isinstance(c, _ast.ClassDef) and c.name == 'PDBParser' for f in c.body
              if isinstance(f, _ast.FunctionDef) and f.name == 'do_conect')
    st = next(s for s in fn.body if isinstance(s, _ast.Assign) and _ast.unparse(s.targets[0]) == 'id2idxs')
    return ' '.join(_ast.unparse(st.value).split())


def setup_dc(cx):
    from pyvc.builtins import list_append
    eng = cx.eng
    lines = cx.val('CONECT_LINES', TSeq(LineT))              # self._conects: the CONECT lines of the file, in order
    cx.spec_env.update(CONECT_LINES=lines, LineT=LineT)
    CALLS = cx.heap('RECORDS', cx.box('RECORDS', TSeq(TSeq(TInt))))   # the records handed to _do_single_conect, in order
    rlen = cx.uf('rlen', [LineT], TInt)                      # len(line.rstrip())
    field = cx.uf('field', [LineT, TInt, TInt], FieldT)      # line[a:b]
    num_of = cx.uf('num_of', [FieldT], TInt)                 # int(text): a function of the text (ValueError for a blank field: not modelled)
    l_ = z3.Const('l', LineT.sort())
    cx.assume(z3.ForAll([l_], rlen(l_) >= 0))
    eng.methods[('LineT', 'rstrip')] = lambda e, v: Obj('rstripped', __len__=Builtin(lambda e2: SV(TInt, rlen(to_z3(v, LineT))), 'len'))

    def getslice_(e, v, lo, hi):
        if lo is None or hi is None:
            raise EngineError('open slice of a CONECT line')
        return SV(FieldT, field(to_z3(v, LineT), to_z3(e.numval(e.num(lo)), TInt), to_z3(e.numval(e.num(hi)), TInt)))
    eng.methods[('LineT', '__getslice__')] = getslice_
    cx.spec_env['int'] = Builtin(lambda e, x: SV(TInt, num_of(to_z3(x, FieldT))), 'int')
    table = Obj('id2idxs')                                   # the serial-number tables of the molecules read so far (comprehension: opaque)
    eng.opaque_exprs[_id2idxs_source()] = lambda e: table

    def dsc(e, atids, t):
        e.oblige(t is table, 'tables:of-the-molecules-read')
        list_append(e, CALLS, SV(TSeq(TInt), to_z3(atids, TSeq(TInt))))
    return dict(self=Obj('PDBParser', _conects=lines, _do_single_conect=Builtin(dsc, '_do_single_conect'), molecules=Obj('molecules')))


SPEC_DC = {
    # the number of five-column fields after the record name, up to the last non-blank character
    'nfields': "lambda l: ((rlen(l) - 6 + 4) // 5 if rlen(l) > 6 else 0)",
}
do_conect = FunctionContract(
    FP, 'PDBParser.do_conect', 'C16', setup=setup_dc, spec_defs=SPEC_DC,
    requires=["len(old(RECORDS)) == 0"],
    ensures=[
        # every CONECT line gives one record, in file order: the numbers in columns 7-11, 12-16, ... (five columns each, adjacent -
        # what the writer produces), as many as reach the last non-blank character
        "len(RECORDS) == len(CONECT_LINES)",
        "forall(lambda r: implies(0 <= r and r < len(CONECT_LINES), len(RECORDS[r]) == nfields(CONECT_LINES[r])))",
        "forall(lambda r, k: implies(0 <= r and r < len(CONECT_LINES) and 0 <= k and k < nfields(CONECT_LINES[r]), "
        "   RECORDS[r][k] == num_of(field(CONECT_LINES[r], 6 + 5 * k, 11 + 5 * k))))",
    ],
    modifies=['RECORDS'],
    loops={'L1': LoopSpec(inv=["len(RECORDS) == _i",
                               "forall(lambda r: implies(0 <= r and r < _i, len(RECORDS[r]) == nfields(CONECT_LINES[r])))",
                               "forall(lambda r, k: implies(0 <= r and r < _i and 0 <= k and k < nfields(CONECT_LINES[r]), "
                               "   RECORDS[r][k] == num_of(field(CONECT_LINES[r], 6 + 5 * k, 11 + 5 * k))))"],
                          modifies=['RECORDS']),
           'L1.1': LoopSpec(inv=["len(atids) == _i", "start == 6 and width == 5",
                                 "forall(lambda k: implies(0 <= k and k < _i, atids[k] == num_of(field(line, 6 + 5 * k, 11 + 5 * k))))"],
                            modifies=['atids'])},
    locals=dict(atids=TSeq(TInt)),
    canary=[("start = 6", "start = 7"), ("width = 5", "width = 4"), ("atom = int(line[num:num + width])", "atom = int(line[num:num + width - 1])")],
)
CONTRACTS.append(do_conect)


# ------------------------------------------------------------------ write_pdb_string: the CONECT records of one atom, composed
# One vocabulary for the two regions of the loop body (which atoms are listed; how they are chunked into records), so that they can
# stand as block contracts in the contract of the whole loop body.
def setup_conect_atom(cx):
    args = setup_conect(cx)
    args2 = setup_partners(cx)
    serial = cx.eng.ufs['serial']
    mol_idx, node_idx = args2['mol_idx'], args2['node_idx']
    cx.spec_env['center'] = SV(TInt, serial(mol_idx.e, node_idx.e))          # nodeidx2atomid[(mol_idx, node_idx)]
    args.update(args2)                                                        # one nodeidx2atomid (by serial), one mol_idx / node_idx
    return args


def _t0(x):
    return x.replace('T0', 'old(todo)')


conect_chunks.setup = conect_partners.setup = setup_conect_atom
conect_chunks.ensures = [_t0(e) for e in conect_chunks.ensures]
for _ls in conect_chunks.loops.values():
    _ls.inv = [_t0(e) for e in _ls.inv]
conect_partners.locals = dict(conect_partners.locals, todo=TSeq(TInt))
conect_chunks.locals = dict(conect_chunks.locals, todo=TSeq(TInt))
B_PARTNERS, B_CHUNKS = BlockSpec.of(conect_partners), BlockSpec.of(conect_chunks)
conect_atom = FunctionContract(
    FP, 'write_pdb_string', 'C16', short='write_pdb_string[CONECT records of one atom, whole]', setup=setup_conect_atom,
    region=dict(within=["if conect:", "for mol_idx, molecule in enumerate(system.molecules):", "for node_idx in molecule:"], start="todo = sorted("),
    filters={"n_idx > node_idx": 'up'}, blocks=[B_PARTNERS, B_CHUNKS],
    ensures=[
        # for one atom: ceil(n / 4) records, n the number of its bonded atoms with a larger key; every record is for this atom; the p-th
        # listed number (record p div 4, place p mod 4) is the serial number of the p-th such atom in the order sorted() gave - every
        # bond of the molecule is therefore written exactly once, at its atom with the smaller key
        "len(OUT) == len(old(OUT)) + (up_len + 3) // 4",
        "forall(lambda j: implies(0 <= j and j < (up_len + 3) // 4, OUT[len(old(OUT)) + j].center == serial(mol_idx, node_idx) and "
        "   OUT[len(old(OUT)) + j].nfields == len(OUT[len(old(OUT)) + j].partners) + 1))",
        "forall(lambda p: implies(0 <= p and p < up_len, 0 <= up_ix(srt_ix(p)) and up_ix(srt_ix(p)) < len(NBRS) and NBRS[up_ix(srt_ix(p))] > node_idx and "
        "   OUT[len(old(OUT)) + p // 4].partners[p % 4] == serial(mol_idx, NBRS[up_ix(srt_ix(p))])))",
        "forall(lambda k: implies(0 <= k and k < len(old(OUT)), OUT[k] == old(OUT)[k]))",
    ],
    modifies=['OUT'],
)
CONTRACTS.append(conect_atom)


# ------------------------------------------------------------------ PDBParser._finish_molecule (TER / ENDMDL / END): the division into molecules
def setup_fm(cx):
    eng = cx.eng
    mols = cx.box('molecules', TSeq(MolT))
    active = cx.val('ACTIVE', MolT)
    fresh = cx.val('NEW_MOLECULE', MolT)                      # Molecule(): a new, empty molecule
    cx.spec_env.update(ACTIVE=active, NEW_MOLECULE=fresh, MolT=MolT)
    nonempty = cx.uf('has_atoms', [MolT], TBool)              # truth of a molecule: it has atoms
    eng.truth_hooks['MolT'] = lambda e, v: nonempty(v.e)
    cx.assume(z3.Not(nonempty(fresh.e)))
    cx.spec_env['Molecule'] = Builtin(lambda e: fresh, 'Molecule')
    # no CRYST1 record was read (the box of the molecule is not part of this contract)
    from pyvc.builtins import ConcreteList
    return dict(self=Obj('PDBParser', active_molecule=active, molecules=mols, cryst=Obj('cryst', keys=Builtin(lambda e: ConcreteList([]), 'cryst.keys'))))


finish_molecule = FunctionContract(
    FP, 'PDBParser._finish_molecule', 'C16', setup=setup_fm,
    ensures=[
        # a TER (or ENDMDL / END) record closes the molecule being read: it is handed on - after the molecules closed before, and only
        # if it has atoms - and a new, empty molecule is begun: the atoms between two TER records form one molecule
        "implies(has_atoms(ACTIVE), len(self.molecules) == len(old(self.molecules)) + 1 and self.molecules[len(old(self.molecules))] == ACTIVE)",
        "implies(not has_atoms(ACTIVE), len(self.molecules) == len(old(self.molecules)))",
        "forall(lambda k: implies(0 <= k and k < len(old(self.molecules)), self.molecules[k] == old(self.molecules)[k]))",
        "self.active_molecule == NEW_MOLECULE and not has_atoms(self.active_molecule)",
    ],
    modifies=['self.molecules', 'self.active_molecule'],
    canary=[("if self.active_molecule:", "if not self.active_molecule:"), ("self.active_molecule = Molecule()", "pass"),
            ("self.molecules.append(self.active_molecule)", "self.molecules = [self.active_molecule]")],
)
CONTRACTS.append(finish_molecule)

"""graph_utils.collect_residues / partition_graph: the grouping of atoms into residues that several properties rest on
(C10 residue serials, C15 residue separation, C19 / C17 residue walks).  The contracts are built per property so that each
check re-verifies them from the current source."""
from pyvc.api import *
from pyvc.builtins import _int

F = 'vermouth/graph_utils.py'
GNode, GVal = TKey('GNode'), TKey('GVal')
ATTRS = ('chain', 'resid', 'resname', 'insertion_code')    # the default grouping of make_residue_graph
ATTRS_BONDS = ('mol_idx', 'chain', 'resid', 'resname', 'insertion_code')   # what make_bonds passes


def collect_residues(prop, attrs=ATTRS):
    RKey = TTuple(*[TOpt(GVal) for _ in attrs])

    def setup_collect(cx):
        from pyvc.builtins import make_iter
        NODESET = cx.val('NODESET', TSet(GNode))               # the atoms of the graph
        cx.spec_env['NODESET'] = NODESET
        av = {a: cx.uf('attr_' + a, [GNode], TOpt(GVal)) for a in attrs}   # node.get(attribute): None when the atom lacks it

        def node(e, n):
            ne = to_z3(n, GNode)

            def get(e2, k, d=None):
                if k not in av or d is not None:
                    raise EngineError('node.get(%r, %r)' % (k, d))
                return SV(TOpt(GVal), av[k](ne))
            return Obj('atomdict', get=Builtin(get, 'node.get'))
        graph = Obj('Graph', nodes=Obj('NodeView', __getitem__=Builtin(node, 'graph.nodes[]')))
        graph.__dict__['iter'] = make_iter(cx.eng, NODESET)
        return dict(graph=graph, attrs=tuple(attrs))           # the attribute names the caller passes (or the default)

    return FunctionContract(
        F, 'collect_residues', prop, setup=setup_collect, spec_env=dict(GNode=GNode, RKey=RKey),
        short='collect_residues' if attrs == ATTRS else 'collect_residues[%s]' % ' '.join(attrs),
        # the residue an atom belongs to: the values of the grouping attributes, in order
        spec_defs={'keyf': "lambda n: (%s)" % ', '.join('attr_%s(n)' % a for a in attrs)},
        locals=dict(residues=TMap(RKey, TSet(GNode)), g_rep=TMap(RKey, GNode)),
        ghost_at={'entry': "g_rep = {}"},
        ensures=[
            # every atom is in the group of its own key ...
            "forall(lambda n: implies(n in NODESET, keyf(n) in result and n in result[keyf(n)]), GNode)",
            # ... and in no other: a group holds only atoms of the graph with exactly that key; no group is empty
            "forall(lambda k, n: implies(k in result and n in result[k], n in NODESET and keyf(n) == k), RKey, GNode)",
            "forall(lambda k: implies(k in result, g_rep[k] in result[k]), RKey)",
        ],
        loops={'L1': LoopSpec(inv=[
            "forall(lambda n: implies(n in NODESET and _posL1(n) < _i, keyf(n) in residues and n in residues[keyf(n)]), GNode)",
            "forall(lambda k, n: implies(k in residues and n in residues[k], n in NODESET and _posL1(n) < _i and keyf(n) == k), RKey, GNode)",
            "forall(lambda k: implies(k in residues, k in g_rep and g_rep[k] in residues[k]), RKey)"],
            modifies=['residues', 'g_rep'], ghost_end="g_rep[key] = node_idx")},
        canary=[("residues[key].add(node_idx)", "residues[key] = {node_idx}"),
                ("return tuple(node.get(attr) for attr in attrs)", "return tuple(node.get(attr) for attr in attrs[:2])")],
    )


# ------------------------------------------------------------------ partition_graph
GEdge = TTuple(GNode, GNode, names=['a', 'b'])
REdge = TTuple(TInt, TInt)
Groups = TSeq(TSet(GNode))


def setup_partition(cx):
    from pyvc.values import IterV
    from pyvc.builtins import setitem
    eng = cx.eng
    partitions = cx.val('partitions', Groups)
    EDGES = cx.val('EDGES', TSeq(GEdge))                   # graph.edges
    cx.spec_env.update(PARTS=partitions, EDGES=EDGES)
    SORTED = cx.heap('SORTED', Box(Groups))                # what sorted(partitions, key=min) returned
    RES = cx.heap('RES', Box(TMap(TInt, TSet(GNode))))     # new_graph: node -> the atoms of its 'graph' attribute
    RE = cx.heap('RE', Box(TSet(REdge)))                   # new_graph: the edges as added (undirected: see has_edge)
    sigma, sigma_inv = cx.uf('sigma', [TInt], TInt), cx.uf('sigma_inv', [TInt], TInt)
    minf = cx.uf('minf', [TSet(GNode)], TInt)              # min(group): opaque (the smallest atom key of the group)
    cx.uf('in_some', [GNode], TBool)
    cx.uf('grp_of', [GNode], TInt)
    n = Groups.len(partitions.e)

    def sorted_(e, xs, key=None):
        # sorted(xs, key=min) by its contract: a permutation of xs (sigma, with inverse), in the order of the keys
        if not z3.eq(to_z3(xs), partitions.e) or getattr(key, 'name', None) != 'min':
            raise EngineError('sorted() of something else')
        out = e.fresh_val(Groups, 'sorted')
        i, j = z3.Ints('si sj')
        e.assume(Groups.len(out.e) == n)
        e.assume(z3.ForAll([i], z3.Implies(z3.And(0 <= i, i < n), z3.And(0 <= sigma(i), sigma(i) < n, sigma_inv(sigma(i)) == i,
                                                                        Groups.at(out.e, i) == Groups.at(partitions.e, sigma(i)))),
                           patterns=[sigma(i), Groups.at(out.e, i)]))
        e.assume(z3.ForAll([i], z3.Implies(z3.And(0 <= i, i < n), z3.And(0 <= sigma_inv(i), sigma_inv(i) < n, sigma(sigma_inv(i)) == i)),
                           patterns=[sigma_inv(i)]))
        e.assume(z3.ForAll([i, j], z3.Implies(z3.And(0 <= i, i < j, j < n), minf(Groups.at(out.e, i)) <= minf(Groups.at(out.e, j)))))
        SORTED.e = out.e
        return out
    cx.spec_env['sorted'] = Builtin(sorted_, 'sorted')

    def subgraph(e, g, nodes):
        if g is not graph:
            raise EngineError('subgraph of another graph')
        o = Obj('subgraph', edges=Obj('EdgeView', __len__=Builtin(lambda e2: e2.fresh_val(TInt, 'nedges'), 'len(subgraph.edges)')))
        o.attrs['__len__'] = Builtin(lambda e2: e2.fresh_val(TInt, 'nnodes'), 'len(subgraph)')
        o.__dict__['nodeset'] = to_z3(nodes, TSet(GNode))
        return o

    def add_node(e, idx, graph=None, **other):
        if sorted(other) != ['density', 'nedges', 'nnodes'] or graph is None:
            raise EngineError('add_node(%s)' % sorted(other))
        setitem(e, RES, idx, SV(TSet(GNode), graph.__dict__['nodeset']))

    def pair(a, b):
        return REdge.mk(to_z3(a, TInt), to_z3(b, TInt))

    def has_edge(e, a, b):
        return wrap(TBool, z3.Or(z3.Select(RE.e, pair(a, b)), z3.Select(RE.e, pair(b, a))))

    def add_edge(e, a, b, **attrs):
        RE.e = z3.Store(RE.e, pair(a, b), True)
    new_graph = Obj('Graph', add_node=Builtin(add_node, 'new_graph.add_node'), has_edge=Builtin(has_edge, 'new_graph.has_edge'),
                    add_edge=Builtin(add_edge, 'new_graph.add_edge'))
    new_graph.attrs['edges'] = Obj('EdgeView', __getitem__=Builtin(
        lambda e, k: Obj('edge_attrs', clear=Builtin(lambda e2: None, 'clear')), 'new_graph.edges[]'))
    cx.spec_env['nx'] = Obj('networkx', Graph=Builtin(lambda e: new_graph, 'networkx.Graph'), subgraph=Builtin(subgraph, 'networkx.subgraph'),
                            density=Builtin(lambda e, g: e.fresh_val(TReal, 'density'), 'networkx.density'))
    cx.spec_env['NEW_GRAPH'] = new_graph
    # the attributes of a merged edge (those the parallel bonds agree on) are outside the contract
    eng.opaque_exprs["{key: old_attrs[key] for key in old_attrs.keys() & edge_attrs.keys() if old_attrs[key] == edge_attrs[key]}"] = \
        lambda e: Obj('edge_attrs')
    ev = Obj('EdgeView', __getitem__=Builtin(lambda e, k: Obj('edge_attrs'), 'graph.edges[]'))
    ev.__dict__['iter'] = EDGES
    graph = Obj('Graph', edges=ev)
    return dict(graph=graph, partitions=partitions)


SPEC_PART = {
    # the number, in the sorted order, of the group an atom is in (grp_of: its number in the order given)
    'gi': "lambda n: sigma_inv(grp_of(n))",
    'hasedge': "lambda i, j: (i, j) in RE or (j, i) in RE",
}
PART_MAP = ["forall(lambda n: (n in mapping) == (in_some(n) and gi(n) < {I}), GNode)",
            "forall(lambda n: implies(n in mapping, mapping[n] == gi(n)), GNode)"]
PART_NODES = ["forall(lambda i: implies(0 <= i and i < {I}, i in RES and RES[i] == SORTED[i]))",
              "forall(lambda i: implies(i in RES, 0 <= i and i < {I}))"]
PART_E = ["forall(lambda q: implies(0 <= q and q < {Q} and gi(EDGES[q].a) != gi(EDGES[q].b), hasedge(gi(EDGES[q].a), gi(EDGES[q].b))))",
          "forall(lambda i, j: implies((i, j) in RE, i != j and (i, j) in g_w and 0 <= g_w[(i, j)] and g_w[(i, j)] < {Q} and "
          "   gi(EDGES[g_w[(i, j)]].a) == i and gi(EDGES[g_w[(i, j)]].b) == j))"]


def partition_graph(prop):
    return FunctionContract(
        F, 'partition_graph', prop, setup=setup_partition, spec_defs=SPEC_PART, spec_env=dict(GNode=GNode),
        locals=dict(mapping=TMap(GNode, TInt), g_w=TMap(REdge, TInt)),
        ghost_at={'entry': "g_w = {}",
                  # which atoms the i-th group of the sorted order holds, in terms of the atoms' own group numbers
                  'after:stmt:partitions = sorted(partitions, key=min)':
                  "prove(forall(lambda i, n: implies(0 <= i and i < len(SORTED), (n in SORTED[i]) == (in_some(n) and gi(n) == i)), TInt, GNode), "
                  "      'sorted-groups')\n"
                  "prove(forall(lambda n: implies(in_some(n), 0 <= gi(n) and gi(n) < len(SORTED)), GNode), 'group-numbers')"},
        requires=[
            # the groups are disjoint (grp_of names the group of an atom that is in one), and every bonded atom is in a group
            "forall(lambda n: implies(in_some(n), 0 <= grp_of(n) and grp_of(n) < len(PARTS) and n in PARTS[grp_of(n)]), GNode)",
            "forall(lambda i, n: implies(0 <= i and i < len(PARTS) and n in PARTS[i], in_some(n) and grp_of(n) == i), TInt, GNode)",
            "forall(lambda q: implies(0 <= q and q < len(EDGES), in_some(EDGES[q].a) and in_some(EDGES[q].b)))",
            "len(old(RES)) == 0 and forall(lambda i, j: not ((i, j) in old(RE)))",
        ],
        ensures=[
            "result is NEW_GRAPH",
            # one node per group, numbered in the sorted order, holding exactly the atoms of the group
            "len(SORTED) == len(PARTS)", PART_NODES[0].format(I='len(PARTS)'), PART_NODES[1].format(I='len(PARTS)'),
            # two nodes are bonded exactly when some bond of the graph joins an atom of the one group to an atom of the other
            PART_E[0].format(Q='len(EDGES)'), PART_E[1].format(Q='len(EDGES)'),
        ],
        modifies=['SORTED', 'RES', 'RE'],
        loops={
            'L1': LoopSpec(inv=[PART_NODES[0].format(I='_i'), PART_NODES[1].format(I='_i'), PART_MAP[0].format(I='_i'), PART_MAP[1],
                                "len(SORTED) == len(PARTS)"],
                           modifies=['RES', 'mapping']),
            'L2': LoopSpec(inv=[PART_E[0].format(Q='_i'), PART_E[1].format(Q='_i')], modifies=['RE', 'g_w'],
                           locals=dict(g_had=TBool),
                           ghost_pre="g_had = (mapping[idx] != mapping[jdx]) and not ((mapping[idx], mapping[jdx]) in RE)",
                           ghost_end="if g_had:\n    g_w[(mapping[idx], mapping[jdx])] = _i"),
        },
        canary=[("if mapping[idx] != mapping[jdx]:", "if mapping[idx] == mapping[jdx]:"),
                ("mapping.update({node_idx: idx for node_idx in node_idxs})", "mapping.update({node_idx: 0 for node_idx in node_idxs})"),
                ("new_graph.add_edge(new_idx, new_jdx, **edge_attrs)", "new_graph.add_edge(new_idx, new_idx, **edge_attrs)")],
    )


# ------------------------------------------------------------------ _items_with_common_values: what a residue node is given
GAttr = TKey('GAttr')
AttrMap = TMap(GAttr, GVal)


def setup_common(cx):
    from pyvc.builtins import make_iter
    NODESET = cx.val('NODESET', TSet(GNode))               # the atoms of the (sub)graph
    cx.spec_env['NODESET'] = NODESET
    attrs_of = cx.uf('attrs_of', [GNode], AttrMap)         # graph.nodes[idx]: the attribute dictionary of an atom
    n = z3.Const('n', GNode.sort())
    cx.assume(z3.ForAll([n], AttrMap.inv(attrs_of(n))))
    excl = cx.val('EXCL', TSet(GAttr))
    cx.spec_env['EXCL'] = excl
    nodes = Obj('NodeView', __getitem__=Builtin(lambda e, k: SV(AttrMap, attrs_of(to_z3(k, GNode))), 'graph.nodes[]'))
    nodes.__dict__['iter'] = NODESET
    graph = Obj('Graph', nodes=nodes)

    def aae(e, lst):
        # utils.are_all_equal by its contract (proved under C17 for a list): all elements equal the first
        ty = TSeq(GVal)
        le = to_z3(lst, ty)
        k = z3.FreshInt('ak')
        return wrap(TBool, z3.ForAll([k], z3.Implies(z3.And(0 <= k, k < ty.len(le)), ty.at(le, k) == ty.at(le, 0))))
    cx.spec_env['are_all_equal'] = Builtin(aae, 'are_all_equal')
    return dict(graph=graph, nodes=None, excluded_keys=excl)


SPEC_COMMON = {
    'has': "lambda n, k: k in attrs_of(n)",
    'aval': "lambda n, k: attrs_of(n)[k]",
    # every atom seen so far (places < i of the enumeration) has the attribute
    'all_have': "lambda k, i: forall(lambda n: implies(n in NODESET and _posL1(n) < i, has(n, k)), GNode)",
    'clen': "lambda C, k: len(C[k]) if k in C else 0",
}
COMMON_INV = [
    # a key is collected once an atom has it (and it is not excluded); it holds one value per atom that has it
    "forall(lambda k: implies(k in common_attrs, not (k in EXCL) and 1 <= len(common_attrs[k]) and len(common_attrs[k]) <= {I}), GAttr)",
    "forall(lambda k, n: implies(n in NODESET and _posL1(n) < {I} and has(n, k) and not (k in EXCL), k in common_attrs), GAttr, GNode)",
    # as many values as atoms exactly when every atom so far has it - and then the values are the atoms' values, in order
    "forall(lambda k: implies(k in common_attrs and len(common_attrs[k]) == {I}, all_have(k, {I}) and "
    "   forall(lambda j: implies(0 <= j and j < {I}, common_attrs[k][j] == aval(_itL1(j), k)))), GAttr)",
    "forall(lambda k: implies(k in common_attrs and len(common_attrs[k]) < {I}, not all_have(k, {I})), GAttr)",
]


def items_with_common_values(prop):
    return FunctionContract(
        F, '_items_with_common_values', prop, setup=setup_common, spec_defs=SPEC_COMMON,
        spec_env=dict(GNode=GNode, GAttr=GAttr, GVal=GVal),
        locals=dict(common_attrs=TMap(GAttr, TSeq(GVal)), g_C=TMap(GAttr, TSeq(GVal))),
        requires=["exists(lambda n: n in NODESET, GNode)"],      # a residue has at least one atom
        ensures=[
            # the result holds exactly the attributes, other than the excluded ones, that every atom has with one and the same
            # value - and that value
            "forall(lambda k: implies(k in result, not (k in EXCL) and forall(lambda n: implies(n in NODESET, has(n, k)), GNode) and "
            "   forall(lambda n, m: implies(n in NODESET and m in NODESET, aval(n, k) == aval(m, k)), GNode, GNode)), GAttr)",
            "forall(lambda k: implies(not (k in EXCL) and forall(lambda n: implies(n in NODESET, has(n, k)), GNode) and "
            "   forall(lambda n, m: implies(n in NODESET and m in NODESET, aval(n, k) == aval(m, k)), GNode, GNode), k in result), GAttr)",
            "forall(lambda k, n: implies(k in result and n in NODESET, result[k] == aval(n, k)), GAttr, GNode)",
        ],
        loops={
            'L1': LoopSpec(inv=[x.format(I='_i') for x in COMMON_INV], modifies=['common_attrs']),
            'L1.1': LoopSpec(inv=[
                # the attributes of this atom handled so far added one value each; everything else is as before this atom
                "forall(lambda k: implies(has(_itL1(_iL1), k) and posof(attrs_of(_itL1(_iL1)), k) < _i and not (k in EXCL), "
                "   k in common_attrs and len(common_attrs[k]) == clen(g_C, k) + 1 and "
                "   common_attrs[k][clen(g_C, k)] == aval(_itL1(_iL1), k) and "
                "   forall(lambda q: implies(0 <= q and q < clen(g_C, k), common_attrs[k][q] == g_C[k][q]))), GAttr)",
                "forall(lambda k: implies(not (has(_itL1(_iL1), k) and posof(attrs_of(_itL1(_iL1)), k) < _i and not (k in EXCL)), "
                "   (k in common_attrs) == (k in g_C) and implies(k in g_C, len(common_attrs[k]) == len(g_C[k]) and "
                "   forall(lambda q: implies(0 <= q and q < len(g_C[k]), common_attrs[k][q] == g_C[k][q])))), GAttr)"],
                modifies=['common_attrs'], ghost_init="g_C = dict(common_attrs)"),
        },
        canary=[("if len(vals) == len(nodes) and are_all_equal(vals)}", "if are_all_equal(vals)}"),
                ("if key not in excluded_keys:", "if key in excluded_keys:"),
                ("common_attrs[key].append(val)", "common_attrs[key] = [val]")],
    )


# ------------------------------------------------------------------ make_residue_graph: the three steps chained
def setup_mrg(cx):
    from pyvc.builtins import setitem
    RN = cx.val('RESNODES', TSeq(TInt))                     # the nodes of the partitioned graph, in order
    cx.spec_env['RESNODES'] = RN
    common = cx.uf('common_of', [TInt], AttrMap)            # _items_with_common_values(<graph of residue r>, excluded_keys=['graph'])
    base = cx.uf('base_of', [TInt], AttrMap)                # what partition_graph stored on the node (graph, nnodes, nedges, density)
    r_ = z3.Int('mr')
    cx.assume(z3.ForAll([r_], z3.And(AttrMap.inv(common(r_)), AttrMap.inv(base(r_)))))
    RESATTR = cx.heap('RESATTR', cx.box('RESATTR', TMap(TInt, AttrMap)))
    graph, attrs = Obj('Graph'), Obj('attrs')
    groups = Obj('residue_idxs')
    groups_values = Obj('residue_idxs.values')
    groups.attrs['values'] = Builtin(lambda e: groups_values, 'residue_idxs.values')
    cx.spec_env['collect_residues'] = Builtin(
        lambda e, g, a: groups if (g is graph and a is attrs) else (_ for _ in ()).throw(EngineError('collect_residues of something else')), 'collect_residues')

    def res_node(e, r):
        re_ = to_z3(r, TInt)
        sub = Obj('subgraph')
        sub.__dict__['res'] = re_

        def update(e2, other):
            cur = to_z3(getitem(e2, RESATTR, SV(TInt, re_)), AttrMap)
            oe = to_z3(other, AttrMap)
            new = e2.fresh(AttrMap, 'updated')
            x = z3.FreshConst(GAttr.sort(), 'ux')
            e2.assume(z3.ForAll([x], z3.And(AttrMap.has(new, x) == z3.Or(AttrMap.has(cur, x), AttrMap.has(oe, x)),
                                            AttrMap.at(new, x) == z3.If(AttrMap.has(oe, x), AttrMap.at(oe, x), AttrMap.at(cur, x)))))
            e2.assume(AttrMap.inv(new))
            setitem(e2, RESATTR, SV(TInt, re_), SV(AttrMap, new))
        return Obj('resattrs', update=Builtin(update, 'res_node.update'),
                   __getitem__=Builtin(lambda e2, k: sub if k == 'graph' else (_ for _ in ()).throw(EngineError('res_node[%r]' % (k,))), 'res_node[]'))
    from pyvc.builtins import getitem
    res_graph = Obj('res_graph', nodes=Obj('NodeView', __getitem__=Builtin(res_node, 'res_graph.nodes[]')))
    res_graph.__dict__['iter'] = RN
    cx.spec_env['RES_GRAPH'] = res_graph
    def pg(e, g, parts):
        # the wiring this contract is about: the graph is partitioned into the groups collect_residues found
        e.oblige(g is graph and parts is groups_values, 'partition:of-the-collected-groups')
        return res_graph
    cx.spec_env['partition_graph'] = Builtin(pg, 'partition_graph')

    def iwcv(e, sub, excluded_keys=None):
        ok = False
        if isinstance(excluded_keys, Box) and excluded_keys.ty == TSeq(TStr):
            st = TSeq(TStr)
            n, first = z3.simplify(st.len(excluded_keys.e)), z3.simplify(st.at(excluded_keys.e, 0))
            ok = z3.is_int_value(n) and n.as_long() == 1 and z3.is_string_value(first) and first.as_string() == 'graph'
        # the contract of _items_with_common_values is used for the exclusion list ['graph'] only; any other list fails the obligation
        e.oblige(ok, 'excluded-keys:is-graph-only')
        return SV(AttrMap, common(sub.__dict__['res']))
    cx.spec_env['_items_with_common_values'] = Builtin(iwcv, '_items_with_common_values')
    cx.spec_env['base_is'] = None
    return dict(graph=graph, attrs=attrs)


def make_residue_graph(prop):
    return FunctionContract(
        F, 'make_residue_graph', prop, setup=setup_mrg, spec_env=dict(GAttr=GAttr),
        requires=["forall(lambda i, j: implies(0 <= i and i < j and j < len(RESNODES), RESNODES[i] != RESNODES[j]))",
                  "forall(lambda i: implies(0 <= i and i < len(RESNODES), RESNODES[i] in RESATTR))"],
        ensures=[
            # the residue graph is partition_graph(graph, collect_residues(graph, attrs).values()) - both proved above -, and every
            # residue node is given, on top of what partition_graph stored, the attributes that all atoms of the residue share
            # (_items_with_common_values of the residue's own graph, 'graph' excluded - proved above)
            "result is RES_GRAPH",
            "forall(lambda i, x: implies(0 <= i and i < len(RESNODES), (x in RESATTR[RESNODES[i]]) == (x in old(RESATTR)[RESNODES[i]] or x in common_of(RESNODES[i])) and "
            "   implies(x in RESATTR[RESNODES[i]], RESATTR[RESNODES[i]][x] == (common_of(RESNODES[i])[x] if x in common_of(RESNODES[i]) else "
            "   old(RESATTR)[RESNODES[i]][x]))), TInt, GAttr)",
        ],
        modifies=['RESATTR'],
        loops={'L1': LoopSpec(inv=[
            "forall(lambda i, x: implies(0 <= i and i < _i, (x in RESATTR[RESNODES[i]]) == (x in old(RESATTR)[RESNODES[i]] or x in common_of(RESNODES[i])) and "
            "   implies(x in RESATTR[RESNODES[i]], RESATTR[RESNODES[i]][x] == (common_of(RESNODES[i])[x] if x in common_of(RESNODES[i]) else "
            "   old(RESATTR)[RESNODES[i]][x]))), TInt, GAttr)",
            "forall(lambda i: implies(_i <= i and i < len(RESNODES), RESNODES[i] in RESATTR and RESATTR[RESNODES[i]] == old(RESATTR)[RESNODES[i]]))",
            "forall(lambda i: implies(0 <= i and i < len(RESNODES), RESNODES[i] in RESATTR))"],
            modifies=['RESATTR'])},
        canary=[("excluded_keys=['graph']", "excluded_keys=[]"),
                ("res_graph = partition_graph(graph, residue_idxs.values())", "res_graph = partition_graph(graph, residue_idxs)")],
    )

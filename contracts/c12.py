"""C12 -- editing a molecule keeps atoms, bonds and interactions consistent."""
from pyvc.api import *

F = 'vermouth/molecule.py'
Key, Params, Meta = TKey('Key'), TKey('Params'), TKey('Meta')
Atoms = TSeq(Key)
IT = TTuple(Atoms, Params, Meta, names=['atoms', 'parameters', 'meta'])      # vermouth.molecule.Interaction
Inter = TMap(TStr, TSeq(IT))

SPEC = {
    # class invariant (the part C12 is about): every atom of every interaction is an atom of the molecule
    'wf': "lambda inter, nodes: forall(lambda t, i, a: implies(t in inter and 0 <= i and i < len(inter[t]) and 0 <= a "
          "and a < len(inter[t][i].atoms), inter[t][i].atoms[a] in nodes), TStr, TInt, TInt)",
    'version': "lambda m: version_of(m)",
    'same_seq': "lambda a, b: len(a) == len(b) and forall(lambda q: implies(0 <= q and q < len(a), a[q] == b[q]))",
    # interaction lists of all other types are untouched
    'others_same': "lambda new, old_, t0: forall(lambda t: implies(t != t0, (t in new) == (t in old_) and "
                   "implies(t in new, len(new[t]) == len(old_[t]) and "
                   "forall(lambda i: implies(0 <= i and i < len(new[t]), new[t][i] == old_[t][i])))), TStr)",
}


def molecule(cx):
    eng = cx.eng
    nodes = cx.box('nodes', TSet(Key))
    inter = cx.box('interactions', Inter)
    inter.default = lambda e: Box(TSeq(IT))                       # defaultdict(list)
    vf = cx.uf('version_of', [Meta], TInt)
    # meta.get('version', 0) of an opaque meta mapping; the empty dict literal has no version
    eng.methods[('Meta', 'get')] = lambda e, m, k, d=None: wrap(TInt, vf(to_z3(m, Meta))) if k == 'version' else _no(k)
    cx.assume(vf(z3.Const('empty_Meta', Meta.sort())) == 0)
    o = cx.obj('Molecule', interactions=inter)
    o.__dict__['contains'] = nodes
    cx.heap('NODESET', nodes)
    return o


def _no(k):
    from pyvc.values import EngineError
    raise EngineError('meta key %r is not modelled' % (k,))


def setup_add(cx):
    return dict(self=molecule(cx), type_=cx.val('type_', TStr), atoms=cx.val('atoms', Atoms),
                parameters=cx.val('parameters', Params), meta=cx.val('meta', TOpt(Meta)))


ADDED = ("len(self.interactions[type_]) == (len(old(self.interactions)[type_]) if type_ in old(self.interactions) else 0) + 1 and "
         "same_seq(self.interactions[type_][len(self.interactions[type_]) - 1].atoms, atoms) and "
         "self.interactions[type_][len(self.interactions[type_]) - 1].parameters == parameters and "
         "forall(lambda i: implies(type_ in old(self.interactions) and 0 <= i and i < len(old(self.interactions)[type_]), "
         "   self.interactions[type_][i] == old(self.interactions)[type_][i]))")

add_interaction = FunctionContract(
    F, 'Molecule.add_interaction', 'C12', setup=setup_add, spec_defs=SPEC,
    requires=["wf(self.interactions, NODESET)"],
    ensures=[
        "forall(lambda q: implies(0 <= q and q < len(atoms), atoms[q] in NODESET))",
        "type_ in self.interactions", ADDED,
        "others_same(self.interactions, old(self.interactions), type_)",
        "wf(self.interactions, NODESET)",
        "NODESET == old(NODESET)",
    ],
    raises={'KeyError': ["exists(lambda q: 0 <= q and q < len(atoms) and not (atoms[q] in NODESET))",
                         "wf(self.interactions, NODESET)", "NODESET == old(NODESET)",
                         "forall(lambda t: (t in self.interactions) == (t in old(self.interactions)) and "
                         "implies(t in self.interactions, same_seq(self.interactions[t], old(self.interactions)[t])), TStr)"]},
    modifies=['self.interactions'],
    loops={'L1': LoopSpec(inv=["forall(lambda q: implies(0 <= q and q < _i, atoms[q] in NODESET))"])},
    canary=[("if atom not in self:", "if atom in self:"), ("Interaction(atoms=tuple(atoms), parameters=parameters, meta=meta)",
                                                           "Interaction(atoms=tuple(atoms[1:]), parameters=parameters, meta=meta)")],
)

CONTRACTS = [add_interaction]
LEMMAS = []

# ------------------------------------------------------------------ add_or_replace_interaction
SPEC2 = dict(SPEC)
SPEC2.update({
    'vmeta': "lambda m: 0 if m is None else version_of(m)",
    # the existing interaction i of this type has the same atoms and the same version
    'match': "lambda lst, i, atoms, meta: same_seq(lst[i].atoms, atoms) and version_of(lst[i].meta) == vmeta(meta)",
    'oldlist_len': "lambda inter, t: len(inter[t]) if t in inter else 0",
})


def setup_aor(cx):
    d = setup_add(cx)
    d['citations'] = None
    return d


NO_MATCH_BEFORE = "forall(lambda j: implies(0 <= j and j < {I}, not match(old(self.interactions)[type_], j, atoms, meta)))"

add_or_replace_interaction = FunctionContract(
    F, 'Molecule.add_or_replace_interaction', 'C12', setup=setup_aor, spec_defs=SPEC2,
    requires=["wf(self.interactions, NODESET)"],
    ensures=[
        # replace: the first interaction with equal atoms and equal version is replaced in place, nothing else changes
        "forall(lambda i: implies(0 <= i and i < oldlist_len(old(self.interactions), type_) and "
        "   match(old(self.interactions)[type_], i, atoms, meta) and " + NO_MATCH_BEFORE.format(I='i') + ", "
        "   len(self.interactions[type_]) == len(old(self.interactions)[type_]) and "
        "   same_seq(self.interactions[type_][i].atoms, atoms) and self.interactions[type_][i].parameters == parameters and "
        "   forall(lambda k: implies(0 <= k and k < len(self.interactions[type_]) and k != i, "
        "       self.interactions[type_][k] == old(self.interactions)[type_][k]))))",
        # otherwise: appended (and then all atoms must exist)
        "implies(" + NO_MATCH_BEFORE.format(I='oldlist_len(old(self.interactions), type_)') + ", " + ADDED + " and "
        "   forall(lambda q: implies(0 <= q and q < len(atoms), atoms[q] in NODESET)))",
        "others_same(self.interactions, old(self.interactions), type_)",
        "wf(self.interactions, NODESET)", "NODESET == old(NODESET)",
    ],
    raises={'KeyError': [NO_MATCH_BEFORE.format(I='oldlist_len(old(self.interactions), type_)'),
                         "exists(lambda q: 0 <= q and q < len(atoms) and not (atoms[q] in NODESET))",
                         "wf(self.interactions, NODESET)", "NODESET == old(NODESET)"]},
    modifies=['self.interactions'],
    loops={'L1': LoopSpec(inv=[
        NO_MATCH_BEFORE.format(I='_i'),
        "type_ in self.interactions and len(self.interactions[type_]) == oldlist_len(old(self.interactions), type_)",
        "forall(lambda k: implies(0 <= k and k < len(self.interactions[type_]), self.interactions[type_][k] == old(self.interactions)[type_][k]))",
        "others_same(self.interactions, old(self.interactions), type_)"])},
    canary=[("interaction.atoms == tuple(atoms)", "interaction.atoms != tuple(atoms)"),
            ("self.interactions[type_][idx] = new_interaction", "self.interactions[type_][0] = new_interaction")],
)
CONTRACTS.append(add_or_replace_interaction)

# ------------------------------------------------------------------ remove_interaction
SPEC3 = dict(SPEC)
SPEC3.update({
    'matchv': "lambda lst, i, atoms, version: same_seq(lst[i].atoms, atoms) and version_of(lst[i].meta) == version",
    'oldlist_len': "lambda inter, t: len(inter[t]) if t in inter else 0",
})
NO_MATCHV = "forall(lambda j: implies(0 <= j and j < {I}, not matchv(old(self.interactions)[type_], j, atoms, version)))"


def setup_rm(cx):
    return dict(self=molecule(cx), type_=cx.val('type_', TStr), atoms=cx.val('atoms', Atoms), version=cx.val('version', TInt))


remove_interaction = FunctionContract(
    F, 'Molecule.remove_interaction', 'C12', setup=setup_rm, spec_defs=SPEC3,
    requires=["wf(self.interactions, NODESET)"],
    ensures=[
        # the first interaction with these atoms and this version is removed, the others keep their order
        "forall(lambda i: implies(0 <= i and i < oldlist_len(old(self.interactions), type_) and "
        "   matchv(old(self.interactions)[type_], i, atoms, version) and " + NO_MATCHV.format(I='i') + ", "
        "   (len(old(self.interactions)[type_]) == 1 and not (type_ in self.interactions)) or "
        "   (type_ in self.interactions and len(self.interactions[type_]) == len(old(self.interactions)[type_]) - 1 and "
        "    forall(lambda k: implies(0 <= k and k < len(self.interactions[type_]), "
        "       self.interactions[type_][k] == old(self.interactions)[type_][k + 1 if k >= i else k])))))",
        "exists(lambda i: 0 <= i and i < oldlist_len(old(self.interactions), type_) and matchv(old(self.interactions)[type_], i, atoms, version))",
        "others_same(self.interactions, old(self.interactions), type_)",
        "wf(self.interactions, NODESET)", "NODESET == old(NODESET)",
    ],
    raises={'KeyError': [NO_MATCHV.format(I='oldlist_len(old(self.interactions), type_)'),
                         "wf(self.interactions, NODESET)", "NODESET == old(NODESET)",
                         "others_same(self.interactions, old(self.interactions), type_)"]},
    modifies=['self.interactions'],
    loops={'L1': LoopSpec(inv=[
        NO_MATCHV.format(I='_i'),
        "type_ in self.interactions and len(self.interactions[type_]) == oldlist_len(old(self.interactions), type_)",
        "forall(lambda k: implies(0 <= k and k < len(self.interactions[type_]), self.interactions[type_][k] == old(self.interactions)[type_][k]))",
        "others_same(self.interactions, old(self.interactions), type_)",
        "idx == (0 if _i == 0 else _i - 1)"])},
    canary=[("del self.interactions[type_][idx]", "del self.interactions[type_][0]"),
            ("interaction.meta.get('version', 0) == version", "interaction.meta.get('version', 0) != version")],
)
CONTRACTS.append(remove_interaction)

# ------------------------------------------------------------------ remove_matching_interaction
Template = TKey('Template')
SPEC3M = dict(SPEC3)
NO_IMATCH = "forall(lambda j: implies(0 <= j and j < {I}, not imatch(old(self.interactions)[type_][j], template_interaction)))"


def setup_rmm(cx):
    m = molecule(cx)
    # interaction_match(molecule, interaction, template): a pure predicate of the interaction and the template (the molecule's
    # atoms and their attributes are not changed by this method)
    im = cx.uf('imatch', [IT, Template], TBool)
    cx.spec_env['interaction_match'] = Builtin(
        lambda e, mol, inter, tmpl: wrap(TBool, im(to_z3(inter, IT), to_z3(tmpl, Template))) if mol is m else
        (_ for _ in ()).throw(EngineError('interaction_match on another molecule')), 'interaction_match')
    return dict(self=m, type_=cx.val('type_', TStr), template_interaction=cx.val('template_interaction', Template))


remove_matching_interaction = FunctionContract(
    F, 'Molecule.remove_matching_interaction', 'C12', setup=setup_rmm, spec_defs=SPEC3M, spec_env=dict(Template=Template),
    requires=["wf(self.interactions, NODESET)"],
    ensures=[
        # the first interaction of that type that matches the template is removed, the others keep their order
        "forall(lambda i: implies(0 <= i and i < oldlist_len(old(self.interactions), type_) and "
        "   imatch(old(self.interactions)[type_][i], template_interaction) and " + NO_IMATCH.format(I='i') + ", "
        "   type_ in self.interactions and len(self.interactions[type_]) == len(old(self.interactions)[type_]) - 1 and "
        "   forall(lambda k: implies(0 <= k and k < len(self.interactions[type_]), "
        "       self.interactions[type_][k] == old(self.interactions)[type_][k + 1 if k >= i else k]))))",
        "exists(lambda i: 0 <= i and i < oldlist_len(old(self.interactions), type_) and "
        "   imatch(old(self.interactions)[type_][i], template_interaction))",
        "others_same(self.interactions, old(self.interactions), type_)",
        "wf(self.interactions, NODESET)", "NODESET == old(NODESET)",
    ],
    # no interaction of that type matches: ValueError, and every list is as it was (asking a defaultdict for a type it does not
    # have leaves an empty list of that type behind)
    raises={'ValueError': [NO_IMATCH.format(I='oldlist_len(old(self.interactions), type_)'),
                           "wf(self.interactions, NODESET)", "NODESET == old(NODESET)",
                           "others_same(self.interactions, old(self.interactions), type_)",
                           "type_ in self.interactions and len(self.interactions[type_]) == oldlist_len(old(self.interactions), type_) and "
                           "forall(lambda k: implies(0 <= k and k < len(self.interactions[type_]), "
                           "   self.interactions[type_][k] == old(self.interactions)[type_][k]))"]},
    modifies=['self.interactions'],
    loops={'L1': LoopSpec(inv=[
        NO_IMATCH.format(I='_i'),
        "type_ in self.interactions and len(self.interactions[type_]) == oldlist_len(old(self.interactions), type_)",
        "forall(lambda k: implies(0 <= k and k < len(self.interactions[type_]), self.interactions[type_][k] == old(self.interactions)[type_][k]))",
        "others_same(self.interactions, old(self.interactions), type_)"])},
    canary=[("del self.interactions[type_][idx]", "del self.interactions[type_][0]"),
            ("if interaction_match(self, interaction, template_interaction):", "if not interaction_match(self, interaction, template_interaction):")],
)
CONTRACTS.append(remove_matching_interaction)

# ------------------------------------------------------------------ interaction_match
AttrD, PVal = TKey('AttrD'), TKey('PVal')
ITM = TTuple(Atoms, TSeq(PVal), AttrD, names=['atoms', 'parameters', 'meta'])


def setup_im(with_attrs):
    def setup(cx):
        attrs_of = cx.uf('attrs_of', [Key], AttrD)         # molecule.nodes[atom]
        am = cx.uf('am', [AttrD, AttrD], TBool)            # attributes_match(attributes, template) by its contract (proved under C05)
        # ... of which one consequence is used: an empty template matches everything
        x = z3.Const('x', AttrD.sort())
        cx.assume(z3.ForAll([x], am(x, z3.Const('empty_AttrD', AttrD.sort()))))
        cx.spec_env['attributes_match'] = Builtin(lambda e, a, t: wrap(TBool, am(to_z3(a, AttrD), to_z3(t, AttrD))), 'attributes_match')
        molecule = Obj('Molecule', nodes=Obj('NodeView', __getitem__=Builtin(
            lambda e, k: SV(AttrD, attrs_of(to_z3(k, Key))), 'molecule.nodes[]')))
        tmpl = Obj('DeleteInteraction' if with_attrs else 'Interaction', atoms=cx.val('t_atoms', Atoms),
                   parameters=cx.val('t_parameters', TSeq(PVal)), meta=cx.val('t_meta', AttrD))
        if with_attrs:
            tmpl.attrs['atom_attrs'] = cx.val('t_atom_attrs', TSeq(AttrD))
        tmpl.__dict__['closed'] = True                     # no other attribute: AttributeError
        cx.spec_env['T'] = tmpl
        return dict(molecule=molecule, interaction=cx.val('interaction', ITM), template_interaction=tmpl)
    return setup


SPEC_IM = {
    'same_seq': SPEC['same_seq'],
    # same atoms in the same order; the template's parameters, when it has any, are the interaction's
    'base': "lambda: same_seq(T.atoms, interaction.atoms) and (len(T.parameters) == 0 or same_seq(T.parameters, interaction.parameters))",
}
for _wa in (False, True):
    CONTRACTS.append(FunctionContract(
        F, 'interaction_match', 'C12', short='interaction_match[%s]' % ('DeleteInteraction' if _wa else 'Interaction'),
        setup=setup_im(_wa), spec_defs=SPEC_IM, spec_env=dict(Key=Key, AttrD=AttrD),
        ensures=[
            # an interaction matches a template exactly when the atoms (and the parameters, if the template gives any) are the
            # same, the template's meta matches the interaction's, and - for a DeleteInteraction - every atom's attributes match
            # the template's attributes for that place
            ("result == (base() and am(interaction.meta, T.meta) and forall(lambda k: implies(0 <= k and k < len(interaction.atoms) and "
             "   k < len(T.atom_attrs), am(attrs_of(interaction.atoms[k]), T.atom_attrs[k]))))") if _wa else
            "result == (base() and am(interaction.meta, T.meta))",
        ],
        loops={'L1': LoopSpec(inv=[
            ("forall(lambda k: implies(0 <= k and k < _i, am(attrs_of(interaction.atoms[k]), T.atom_attrs[k])))") if _wa else "True"])},
        canary=[("return attributes_match(interaction.meta, template_interaction.meta)", "return True"),
                ("if not attributes_match(atom, template_atom):", "if attributes_match(atom, template_atom):"),
                ("not template_interaction.parameters\n        or", "template_interaction.parameters\n        and")],
    ))

# ------------------------------------------------------------------ _remove_interactions_with_node
SPEC4 = dict(SPEC)
SPEC4.update({
    # no interaction of the list mentions the node
    'nonode': "lambda lst, node: forall(lambda p, a: implies(0 <= p and p < len(lst) and 0 <= a and a < len(lst[p].atoms), lst[p].atoms[a] != node))",
    # every atom of every interaction of the list is a node
    'wfl': "lambda lst, nodes: forall(lambda p, a: implies(0 <= p and p < len(lst) and 0 <= a and a < len(lst[p].atoms), lst[p].atoms[a] in nodes))",
    # ... or is the node that is being removed
    'wflx': "lambda lst, nodes, node: forall(lambda p, a: implies(0 <= p and p < len(lst) and 0 <= a and a < len(lst[p].atoms), "
            "lst[p].atoms[a] in nodes or lst[p].atoms[a] == node))",
})


def setup_rin(cx):
    m = molecule(cx)
    cx.heap('ALLOWED', cx.box('ALLOWED', TSet(Key)))     # ghost: the atoms interactions may refer to besides `node`
    return dict(self=m, node=cx.val('node', Key))


DOM_SAME = "forall(lambda t: (t in self.interactions) == (t in c0), TStr)"

remove_interactions_with_node = FunctionContract(
    F, 'Molecule._remove_interactions_with_node', 'C12', setup=setup_rin, spec_defs=SPEC4,
    requires=["forall(lambda t: implies(t in self.interactions, wflx(self.interactions[t], ALLOWED, node)), TStr)"],
    locals=dict(c0=Inter, c1=Inter),
    ensures=[
        # afterwards no interaction mentions the node ...
        "forall(lambda t: implies(t in self.interactions, nonode(self.interactions[t], node)), TStr)",
        # ... every remaining interaction still refers to atoms of the molecule, and no interaction type appears
        "forall(lambda t: implies(t in self.interactions, wfl(self.interactions[t], ALLOWED)), TStr)",
        "forall(lambda t: implies(t in self.interactions, t in old(self.interactions)), TStr)",
        "NODESET == old(NODESET)", "ALLOWED == old(ALLOWED)",
    ],
    modifies=['self.interactions'],
    ghost_at={'entry': "c0 = dict(self.interactions)"},
    loops={
        'L1': LoopSpec(
            inv=[DOM_SAME,
                 "forall(lambda a: implies(0 <= a and a < _i, nonode(self.interactions[keyat(c0, a)], node)))",
                 "forall(lambda a: implies(_i <= a and a < len(c0), len(self.interactions[keyat(c0, a)]) == len(c0[keyat(c0, a)]) and "
                 "   forall(lambda p: implies(0 <= p and p < len(c0[keyat(c0, a)]), self.interactions[keyat(c0, a)][p] == c0[keyat(c0, a)][p]))))",
                 "forall(lambda t: implies(t in self.interactions, wflx(self.interactions[t], ALLOWED, node)), TStr)"],
            modifies=['self.interactions']),
        'L1.1': LoopSpec(
            ghost_init="g_kept = 0\nc1 = dict(self.interactions)\ng_copy = list(interactions)",
            locals=dict(c1=Inter),
            inv=["0 <= g_kept and len(self.interactions[name]) == g_kept + len(g_copy) - _i",
                 # the part already decided holds no interaction with the node ...
                 "forall(lambda p, a: implies(0 <= p and p < g_kept and 0 <= a and a < len(self.interactions[name][p].atoms), "
                 "   self.interactions[name][p].atoms[a] != node))",
                 # ... the rest is the not yet visited tail of the copy
                 "forall(lambda p: implies(g_kept <= p and p < len(self.interactions[name]), raw_eq(self.interactions[name][p], g_copy[_i + p - g_kept])))",
                 "wflx(self.interactions[name], ALLOWED, node)",
                 # the other interaction types are not touched by the inner loop
                 "forall(lambda t: implies(t != name, (t in self.interactions) == (t in c1) and len(self.interactions[t]) == len(c1[t]) and "
                 "   forall(lambda p: implies(0 <= p and p < len(c1[t]), self.interactions[t][p] == c1[t][p]))), TStr)",
                 "name in self.interactions"],
            modifies=['self.interactions'],
            ghost_pre="prove(raw_eq(self.interactions[name][g_kept], interaction), 'head-is-current')",
            ghost_end="if not (node in interaction.atoms):\n    g_kept += 1"),
        'L2': LoopSpec(
            inv=["forall(lambda t: implies(t in self.interactions, nonode(self.interactions[t], node) and "
                 "   wfl(self.interactions[t], ALLOWED) and t in c0), TStr)"],
            modifies=['self.interactions']),
    },
    canary=[("if node in interaction.atoms:", "if node not in interaction.atoms:"),
            ("for interaction in list(interactions):", "for interaction in list(interactions)[1:]:")],
)
CONTRACTS.append(remove_interactions_with_node)

# ------------------------------------------------------------------ remove_node / remove_nodes_from
def nx_super(cx, m):
    """assumed contract of networkx.Graph.remove_node / remove_nodes_from on the node set (edges are not modelled)"""
    eng = cx.eng
    from pyvc.builtins import contains, make_iter
    from pyvc.interp import PyExc

    def remove_node(e, node):
        ns = e.heap['NODESET']
        e.maybe_raise(contains(e, ns, node), 'NetworkXError')
        ns.e = z3.Store(ns.e, to_z3(node, Key), False)

    def remove_nodes_from(e, nodes):
        ns = e.heap['NODESET']
        it = make_iter(e, nodes)
        n = it.n if it.concrete is None else len(it.concrete)
        # every listed node is removed, the others stay (Skolemised membership in the list: listed / listed_at)
        listed = e.uf('listed', [Key], TBool)
        at = e.uf('listed_at', [Key], TInt)
        i = z3.FreshInt('li')
        x = z3.FreshConst(Key.sort(), 'lx')
        if it.concrete is None:
            e.assume(z3.ForAll([i], z3.Implies(z3.And(0 <= i, i < n), listed(to_z3(it.get(i), Key)))))
            e.assume(z3.ForAll([x], z3.Implies(listed(x), z3.And(0 <= at(x), at(x) < n, to_z3(it.get(at(x)), Key) == x))))
        else:
            e.assume(z3.ForAll([x], z3.Not(listed(x))))
        ns.e = z3.Lambda([x], z3.And(z3.Select(ns.e, x), z3.Not(listed(x))))
    sup = Obj('super')
    sup.attrs['remove_node'] = Builtin(remove_node, 'Graph.remove_node')
    sup.attrs['remove_nodes_from'] = Builtin(remove_nodes_from, 'Graph.remove_nodes_from')
    return Builtin(lambda e: sup, 'super')


def setup_rn(cx):
    m = molecule(cx)
    m.attrs['max_node'] = cx.val('max_node', TOpt(TInt))
    cx.heap('ALLOWED', cx.box('ALLOWED', TSet(Key)))
    cx.spec_env['super'] = nx_super(cx, m)
    return dict(self=m, node=cx.val('node', Key))


remove_node = FunctionContract(
    F, 'Molecule.remove_node', 'C12', setup=setup_rn, spec_defs=SPEC4,
    requires=["wf(self.interactions, NODESET)"],
    ensures=[
        # the atom is gone, and no interaction refers to an atom that is not present any more
        "not (node in NODESET)",
        "forall(lambda x: implies(x != node, (x in NODESET) == (x in old(NODESET))), Key)",
        "wf(self.interactions, NODESET)",
        "forall(lambda t: implies(t in self.interactions, t in old(self.interactions)), TStr)",
    ],
    raises={'NetworkXError': ["not (node in NODESET)"]},
    modifies=['self.interactions', 'NODESET'],
    ghost_at={},
    canary=[("self._remove_interactions_with_node(node)", "pass")],
)
# the callee is used through its contract: before the call the ghost set ALLOWED is the set of atoms still present
remove_node.ghost_before_call = {'_remove_interactions_with_node': "set_heap('ALLOWED', NODESET)"}
CONTRACTS.append(remove_node)


def setup_rnf(cx):
    m = molecule(cx)
    m.attrs['max_node'] = cx.val('max_node', TOpt(TInt))
    cx.heap('ALLOWED', cx.box('ALLOWED', TSet(Key)))
    cx.spec_env['super'] = nx_super(cx, m)
    cx.uf('listed', [Key], TBool)
    cx.uf('listed_at', [Key], TInt)
    seq = cx.val('nodes_seq', TSeq(Key))
    cx.spec_env['nodes_seq'] = seq
    # `nodes` is documented as an iterable: the weakest such thing is a one-shot iterator over some sequence
    return dict(self=m, nodes=OneShot(seq))


PENDING = ("forall(lambda t: implies(t in self.interactions, forall(lambda p, a: implies(0 <= p and p < len(self.interactions[t]) and "
           "0 <= a and a < len(self.interactions[t][p].atoms), self.interactions[t][p].atoms[a] in NODESET or "
           "(listed(self.interactions[t][p].atoms[a]) and forall(lambda j: implies(0 <= j and j < _i, nodes[j] != self.interactions[t][p].atoms[a])))))), TStr)")

remove_nodes_from = FunctionContract(
    F, 'Molecule.remove_nodes_from', 'C12', setup=setup_rnf, spec_defs=SPEC4,
    requires=["wf(self.interactions, NODESET)"],
    ensures=[
        "forall(lambda i: implies(0 <= i and i < len(nodes_seq), not (nodes_seq[i] in NODESET)))",
        "forall(lambda x: implies(not listed(x), (x in NODESET) == (x in old(NODESET))), Key)",
        # no interaction refers to an atom that is not present any more -- also when `nodes` is a generator
        "wf(self.interactions, NODESET)",
    ],
    modifies=['self.interactions', 'NODESET'],
    loops={'L1': LoopSpec(inv=[PENDING, "len(nodes) == len(nodes_seq)",
                               "forall(lambda j: implies(0 <= j and j < len(nodes), nodes[j] == nodes_seq[j]))"],
                          modifies=['self.interactions'])},
    canary=[("nodes = list(nodes)", "pass"), ("self._remove_interactions_with_node(node)", "pass")],
)
remove_nodes_from.ghost_before_call = {'_remove_interactions_with_node':
                                       "set_heap('ALLOWED', setof(lambda x: x in NODESET or (listed(x) and "
                                       "forall(lambda j: implies(0 <= j and j <= _i, nodes[j] != x))), Key))"}
CONTRACTS.append(remove_nodes_from)

for _c in CONTRACTS:
    _c.spec_env.setdefault('Key', Key)

from contracts.c12_merge import CONTRACTS as _MERGE
CONTRACTS.extend(_MERGE)


# ------------------------------------------------------------------ Molecule.subgraph: which interactions the part keeps
SGType = TKey('SGType')                                     # interaction types (strings; abstract here: z3 strings under quantifiers hang)
SGInter = TMap(SGType, TSeq(IT))
SPEC_SG = {
    'wf': "lambda inter, nodes: forall(lambda t, i, a: implies(t in inter and 0 <= i and i < len(inter[t]) and 0 <= a "
          "and a < len(inter[t][i].atoms), inter[t][i].atoms[a] in nodes), SGType, TInt, TInt)",
    'allin': "lambda it: forall(lambda a: implies(0 <= a and a < len(it.atoms), it.atoms[a] in nodes))",
}
# the first Q interactions of the list W (of type T) have been dealt with: the part's list of that type holds exactly those whose
# atoms are all in the part, in the same order (src: where an interaction of the part comes from; pos: where one of the whole went);
# the part has no list for a type of which it keeps nothing
def _kept(T, W, Q, src, pos):
    return [x.format(T=T, W=W, Q=Q, src=src, pos=pos) for x in (
        "({T} in SUB) == (len({src}) > 0) and implies({T} in SUB, len(SUB[{T}]) == len({src}))",
        "forall(lambda p: implies(0 <= p and p < len({src}), 0 <= {src}[p] and {src}[p] < {Q} and SUB[{T}][p] == {W}[{src}[p]] and allin({W}[{src}[p]])))",
        "forall(lambda p, r: implies(0 <= p and p < r and r < len({src}), {src}[p] < {src}[r]))",
        "forall(lambda q: implies(0 <= q and q < {Q} and allin({W}[q]), q in {pos} and 0 <= {pos}[q] and {pos}[q] < len({src}) and {src}[{pos}[q]] == q))")]


def _done_types(I):
    return ["forall(lambda t: implies(t in SELF and posof(SELF, t) < %s, t in g_srcs and t in g_poss and (%s)), SGType)" % (I, x)
            for x in _kept('t', 'SELF[t]', 'len(SELF[t])', 'g_srcs[t]', 'g_poss[t]')]


def setup_sg(cx):
    inter = cx.val('interactions', SGInter)
    cx.spec_env['SELF'] = inter
    nodes = cx.val('nodes', TSet(Key))
    cx.spec_env['NODES'] = nodes
    sub_inter = cx.box('sub_interactions', SGInter)
    sub_inter.default = lambda e: Box(TSeq(IT))             # defaultdict(list)
    cx.heap('SUB', sub_inter)
    return dict(self=Obj('Molecule', interactions=inter), nodes=nodes, subgraph=Obj('Molecule', interactions=sub_inter))


subgraph_interactions = FunctionContract(
    F, 'Molecule.subgraph', 'C12', short='Molecule.subgraph[interactions]', setup=setup_sg, spec_defs=SPEC_SG, spec_env=dict(SGType=SGType),
    region=dict(start="for interaction_type, interactions in self.interactions.items():", end="return subgraph"),
    locals=dict(g_srcs=TMap(SGType, TSeq(TInt)), g_poss=TMap(SGType, TMap(TInt, TInt)), g_s=TSeq(TInt), g_p=TMap(TInt, TInt)),
    requires=["len(old(SUB)) == 0"],
    ghost_at={'entry': "g_srcs = {}\ng_poss = {}"},
    ensures=(
        # the part keeps, type by type and in order, exactly the interactions whose atoms all belong to it - so every atom of
        # every interaction of the part is an atom of the part (the class invariant of the new molecule)
        _done_types('len(SELF)') + ["forall(lambda t: implies(t in SUB, t in SELF), SGType)", "wf(SUB, nodes)"]),
    modifies=['SUB'],
    loops={
        'L1': LoopSpec(inv=_done_types('_i') + [
            "forall(lambda t: implies(t in SUB, t in SELF and posof(SELF, t) < _i), SGType)",
            "wf(SUB, nodes)"],
            modifies=['SUB', 'g_srcs', 'g_poss'],
            ghost_end="g_srcs[interaction_type] = g_s\ng_poss[interaction_type] = g_p"),
        'L1.1': LoopSpec(inv=[
            "interaction_type in SELF and posof(SELF, interaction_type) == _iL1"] +
            _kept('interaction_type', 'interactions', '_i', 'g_s', 'g_p') + [
            "forall(lambda t: implies(t != interaction_type, (t in SUB) == (t in g_S0) and implies(t in SUB, SUB[t] == g_S0[t])), SGType)"],
            modifies=['SUB', 'g_s', 'g_p'], locals=dict(g_n0=TInt, g_S0=SGInter),
            ghost_init="g_s = []\ng_p = {}\ng_S0 = dict(SUB)",
            ghost_pre="g_n0 = len(g_s)",
            ghost_end="if interaction_type in SUB and len(SUB[interaction_type]) > g_n0:\n    g_s.append(_i)\n    g_p[_i] = g_n0"),
    },
    canary=[("if all(atom in nodes for atom in interaction.atoms):", "if any(atom in nodes for atom in interaction.atoms):"),
            ("subgraph.interactions[interaction_type].append(interaction)", "subgraph.interactions[interaction_type] = [interaction]")],
)
CONTRACTS.append(subgraph_interactions)


# ------------------------------------------------------------------ Molecule.edges_between: the bonds between two sets of atoms
EBPair = TTuple(Key, Key)


def setup_eb(cx):
    s1, s2 = cx.val('S1', TSet(Key)), cx.val('S2', TSet(Key))
    cx.spec_env.update(S1=s1, S2=s2)
    adj = cx.uf('adj', [Key], TSet(Key))                    # self[node]: the neighbours of an atom
    self = Obj('Molecule', __getitem__=Builtin(lambda e, n: SV(TSet(Key), adj(to_z3(n, Key))), 'self[]'))
    return dict(self=self, n_bunch1=s1, n_bunch2=s2, data=False)


EB_INV = [
    "len(g_at) == len(__yielded__)",
    # every pair yielded so far is a bond from the first set into the second ...
    "forall(lambda p: implies(0 <= p and p < len(__yielded__), __yielded__[p][0] in S1 and __yielded__[p][1] in S2 and "
    "   __yielded__[p][1] in adj(__yielded__[p][0]) and g_at[p] == __yielded__[p] and __yielded__[p] in g_pos and g_pos[__yielded__[p]] == p))",
    # ... and no pair was yielded twice
    "forall(lambda k: implies(k in g_pos, 0 <= g_pos[k] and g_pos[k] < len(__yielded__) and __yielded__[g_pos[k]] == k), EBPair)",
]
edges_between = FunctionContract(
    F, 'Molecule.edges_between', 'C12', short='Molecule.edges_between[pairs]', setup=setup_eb, spec_env=dict(EBPair=EBPair, Key=Key),
    result_ty=TSeq(EBPair), locals=dict(g_at=TSeq(EBPair), g_pos=TMap(EBPair, TInt)), ghost_at={'entry': "g_at = []\ng_pos = {}"},
    ensures=[x.replace('__yielded__', 'result') for x in EB_INV] + [
        # every bond from an atom of the first set to an atom of the second is yielded (once, by the clause above)
        "forall(lambda a, b: implies(a in S1 and b in S2 and b in adj(a), (a, b) in g_pos), Key, Key)",
    ],
    loops={
        'L1': LoopSpec(inv=EB_INV + [
            "forall(lambda a, b: implies(a in S1 and _posL1(a) < _i and b in S2 and b in adj(a), (a, b) in g_pos), Key, Key)",
            "forall(lambda k: implies(k in g_pos, k[0] in S1 and _posL1(k[0]) < _i), EBPair)"],
            modifies=['__yielded__', 'g_at', 'g_pos']),
        'L1.1': LoopSpec(inv=EB_INV + [
            "forall(lambda a, b: implies(a in S1 and _posL1(a) < _iL1 and b in S2 and b in adj(a), (a, b) in g_pos), Key, Key)",
            "forall(lambda b: implies(b in cross and _posL1_1(b) < _i, (node1, b) in g_pos), Key)",
            "forall(lambda k: implies(k in g_pos, k[0] in S1 and (_posL1(k[0]) < _iL1 or (k[0] == node1 and k[1] in cross and _posL1_1(k[1]) < _i))), EBPair)"],
            modifies=['__yielded__', 'g_at', 'g_pos'],
            ghost_end="g_at.append((node1, node2))\ng_pos[(node1, node2)] = len(g_at) - 1"),
    },
    canary=[("cross = set_2 & set(self[node1])", "cross = set_2"), ("yield (node1, node2)", "yield (node2, node1)")],
)
CONTRACTS.append(edges_between)


# ------------------------------------------------------------------ Molecule.copy
def setup_copy(cx):
    nodes = Obj('NodeView')
    new = Obj('Molecule', name=None, citations=None, log_entries=None)
    cit, cit_copy = Obj('citations'), Obj('citations-copy')
    cit.attrs['copy'] = Builtin(lambda e: cit_copy, 'citations.copy')
    logs, logs_copy = Obj('log_entries'), Obj('log_entries-deepcopy')
    name = Obj('name')

    def subgraph(e, n):
        if n is not nodes:
            raise EngineError('subgraph of other nodes')
        return new
    me = Obj('Molecule', nodes=nodes, name=name, citations=cit, log_entries=logs, subgraph=Builtin(subgraph, 'self.subgraph'))
    cx.spec_env.update(NEW=new, NAME=name, CIT_COPY=cit_copy, LOGS_COPY=logs_copy)
    cx.spec_env['copy'] = Obj('copy', deepcopy=Builtin(lambda e, x: logs_copy if x is logs else (_ for _ in ()).throw(EngineError('deepcopy')), 'copy.deepcopy'))
    return dict(self=me)


copy_molecule = FunctionContract(
    F, 'Molecule.copy', 'C12', setup=setup_copy,
    ensures=[
        # a copy is the subgraph of all atoms (whose contract gives the atoms, bonds and interactions) with the same name, its own
        # copy of the citations and a deep copy of the log entries
        "result is NEW and result.name is NAME and result.citations is CIT_COPY and result.log_entries is LOGS_COPY",
    ],
    modifies=[],
    canary=[("new.citations = self.citations.copy()", "new.citations = self.citations")],
)
CONTRACTS.append(copy_molecule)


# ------------------------------------------------------------------ MergeAllMolecules.run_system and merge_chains: what is merged into what
MolM = TKey('MolM')
MergeEv = TTuple(MolM, MolM, names=['into', 'other'])


def merge_world(cx):
    from pyvc.builtins import list_append
    mols = cx.val('MOLS_IN', TSeq(MolM))
    cx.spec_env['MOLS_IN'] = mols
    MERGES = cx.heap('MERGES', cx.box('MERGES', TSeq(MergeEv)))      # calls of merge_molecule (whose contract is proved above)
    cx.eng.methods[('MolM', 'merge_molecule')] = lambda e, m, other: list_append(e, MERGES, (m, other))
    return mols, Obj('System', molecules=Box(TSeq(MolM), mols.e), force_field=Obj('ff'))


def setup_mam(cx):
    mols, system = merge_world(cx)
    return dict(self=Obj('MergeAllMolecules'), system=system)


merge_all = FunctionContract(
    'vermouth/processors/merge_all_molecules.py', 'MergeAllMolecules.run_system', 'C12', setup=setup_mam, spec_env=dict(MolM=MolM),
    requires=["len(old(MERGES)) == 0"],
    ensures=[
        # every other molecule is merged into the first one, once, in the system's order; the system then holds that one molecule
        "implies(len(MOLS_IN) > 0, len(system.molecules) == 1 and system.molecules[0] == MOLS_IN[0] and len(MERGES) == len(MOLS_IN) - 1 and "
        "   forall(lambda k: implies(0 <= k and k < len(MERGES), MERGES[k].into == MOLS_IN[0] and MERGES[k].other == MOLS_IN[k + 1])))",
        "implies(len(MOLS_IN) == 0, len(system.molecules) == 0 and len(MERGES) == 0)",
    ],
    modifies=['system.molecules', 'MERGES'],
    loops={'L1': LoopSpec(inv=["len(MERGES) == _i and forall(lambda k: implies(0 <= k and k < _i, MERGES[k].into == MOLS_IN[0] and MERGES[k].other == MOLS_IN[k + 1]))",
                               "len(system.molecules) == len(MOLS_IN)"], modifies=['MERGES'])},
    canary=[("for other in system.molecules[1:]:", "for other in system.molecules[2:]:"), ("system.molecules = [molecule]", "pass")],
)
CONTRACTS.append(merge_all)


def setup_mc(cx):
    mols, system = merge_world(cx)
    wanted = cx.uf('chains_wanted', [MolM], TBool)          # every chain of the molecule is one of the chains to merge
    merged_c = z3.Const('MERGED', MolM.sort())
    cx.spec_env['MERGED'] = SV(MolM, merged_c)
    chains = Obj('_chains')
    cx.spec_env['Molecule'] = Builtin(lambda e: SV(MolM, merged_c), 'Molecule')
    cx.eng.setattr_hooks[('MolM', '_force_field')] = lambda e, m, v: None
    cx.eng.setattr_hooks[('MolM', 'nrexcl')] = lambda e, m, v: None
    cx.eng.attr_hooks[('MolM', 'nrexcl')] = lambda e, m: Obj('nrexcl')

    # set(node.get('chain') for node in molecule.nodes.values()): the chains of `molecule`, of which only .issubset(_chains) is used
    def chains_of(e, env):
        m = to_z3(env.lookup('molecule'), MolM)
        o = Obj('chains-of-molecule')
        o.__dict__['mol'] = m
        return o
    chains_of.wants_env = True
    cx.eng.opaque_exprs["(node.get('chain') for node in molecule.nodes.values())"] = chains_of

    def set_(e, g=None):
        if not (isinstance(g, Obj) and g.cls == 'chains-of-molecule'):
            raise EngineError('set() of something else')
        m = g.__dict__['mol']
        return Obj('chainset', issubset=Builtin(lambda e2, other: wrap(TBool, wanted(m)) if other is chains else
                                               (_ for _ in ()).throw(EngineError('issubset of another set')), 'issubset'))
    cx.spec_env['set'] = Builtin(set_, 'set')
    return dict(system=system, _chains=chains)


SPEC_MC = {
    'w': "lambda i: chains_wanted(MOLS_IN[i])",
}
MC_INV = [
    # the molecules to merge have been merged into the new molecule, once each and in order ...
    "len(g_m) == len(MERGES) and forall(lambda k: implies(0 <= k and k < len(MERGES), 0 <= g_m[k] and g_m[k] < {I} and w(g_m[k]) and "
    "   MERGES[k].into == MERGED and MERGES[k].other == MOLS_IN[g_m[k]]))",
    "forall(lambda p, q: implies(0 <= p and p < q and q < len(g_m), g_m[p] < g_m[q]))",
    "forall(lambda i: implies(0 <= i and i < {I} and w(i), i in g_mp and 0 <= g_mp[i] and g_mp[i] < len(g_m) and g_m[g_mp[i]] == i))",
    "has_merged == (len(MERGES) > 0)",
    # ... and the new list holds the other molecules in order, with the new molecule where the first merged one was
    "len(g_n) == len(new_molecules)",
    "forall(lambda q: implies(0 <= q and q < len(g_n), 0 <= g_n[q] and g_n[q] < {I} and "
    "   ((new_molecules[q] == MERGED and g_mp[g_n[q]] == 0) if w(g_n[q]) else (new_molecules[q] == MOLS_IN[g_n[q]]))))",
    "forall(lambda p, q: implies(0 <= p and p < q and q < len(g_n), g_n[p] < g_n[q]))",
    "forall(lambda i: implies(0 <= i and i < {I} and (not w(i) or g_mp[i] == 0), i in g_np and 0 <= g_np[i] and g_np[i] < len(g_n) and g_n[g_np[i]] == i))",
]
merge_chains_loop = FunctionContract(
    'vermouth/processors/merge_chains.py', 'merge_chains', 'C12', short='merge_chains[which molecules are merged]', setup=setup_mc,
    spec_defs=SPEC_MC, spec_env=dict(MolM=MolM),
    region=dict(start="merged = Molecule()"),
    locals=dict(new_molecules=TSeq(MolM), g_m=TSeq(TInt), g_mp=TMap(TInt, TInt), g_n=TSeq(TInt), g_np=TMap(TInt, TInt), has_merged=TBool),
    ghost_at={'entry': "g_m = []\ng_mp = {}\ng_n = []\ng_np = {}"},
    requires=["len(old(MERGES)) == 0"],
    ensures=[x.format(I='len(MOLS_IN)').replace('new_molecules', 'system.molecules').replace('has_merged == (len(MERGES) > 0)', 'True') for x in MC_INV],
    modifies=['system.molecules', 'MERGES'],
    loops={'L1': LoopSpec(inv=[x.format(I='_i') for x in MC_INV] + ["len(system.molecules) == len(MOLS_IN)"],
                          modifies=['MERGES', 'new_molecules', 'g_m', 'g_mp', 'g_n', 'g_np'],
                          locals=dict(g_m0=TInt, g_n0=TInt, has_merged=TBool), ghost_pre="g_m0 = len(MERGES)\ng_n0 = len(new_molecules)",
                          ghost_end="if len(MERGES) > g_m0:\n    g_m.append(_i)\n    g_mp[_i] = len(g_m) - 1\n"
                                    "if len(new_molecules) > g_n0:\n    g_n.append(_i)\n    g_np[_i] = len(g_n) - 1")},
    canary=[("if not has_merged:", "if has_merged:"), ("new_molecules.append(molecule)", "pass"),
            ("merged.merge_molecule(molecule)", "molecule.merge_molecule(merged)")],
)
CONTRACTS.append(merge_chains_loop)


# ------------------------------------------------------------------ Molecule.subgraph: the new molecule, its atoms and its bonds
SGAttrs = TKey('SGAttrs')                                   # attribute dictionaries of atoms
SGNode = TTuple(Key, SGAttrs)


def setup_sgh(cx):
    eng = cx.eng
    nodes = cx.val('NODE_LIST', TSeq(Key))                   # the atoms asked for, in the order given
    cx.spec_env.update(NODE_LIST=nodes, SGAttrs=SGAttrs)
    attrs_of = cx.uf('attrs_of', [Key], SGAttrs)             # self.nodes[n]
    copy_of = cx.uf('copy_of', [SGAttrs], SGAttrs)           # copy.copy(d): a new dictionary with the same items
    ADDED = cx.heap('ADDED', cx.box('ADDED', TSeq(SGNode)))
    EDGE_ARGS = cx.heap('EDGE_CALLS', cx.box('EDGE_CALLS', TSeq(TInt)))
    sub = Obj('NewMolecule')
    # the vocabulary of the interactions region (contract above): the whole's interactions, and those of the new molecule (empty
    # when it is created: assumed contract of Molecule.__init__)
    inter = cx.val('interactions', SGInter)
    cx.spec_env['SELF'] = inter
    sub_inter = cx.box('sub_interactions', SGInter)
    sub_inter.default = lambda e: Box(TSeq(IT))
    cx.heap('SUB', sub_inter)
    sub.attrs['interactions'] = sub_inter
    meta, ff, cit = Obj('meta'), Obj('force_field'), Obj('citations')
    edges = Obj('edges_between(nodes, nodes, data=True)')

    def copy_(e, x):
        if isinstance(x, SV) and x.ty == SGAttrs:
            return SV(SGAttrs, copy_of(x.e))
        if isinstance(x, Obj):
            return Obj('copy', of=x)
        raise EngineError('copy.copy of %r' % (x,))

    def add_nodes_from(e, xs):
        from pyvc.builtins import list_extend
        list_extend(e, ADDED, xs)

    def edges_between(e, a, b, data=False):
        ok = isinstance(a, (SV, Box)) and isinstance(b, (SV, Box)) and isinstance(type_of(a), TSet) and data is True
        e.oblige(ok, 'bonds:between-the-atoms-of-the-part-with-their-attributes')
        x = z3.Const('bx', Key.sort())
        i = z3.Int('bi')
        st = TSeq(Key)
        # both arguments are the set of the atoms asked for
        for s in (a, b):
            se = to_z3(s, TSet(Key))
            e.oblige(z3.ForAll([x], z3.Select(se, x) == z3.Exists([i], z3.And(0 <= i, i < st.len(nodes.e), st.at(nodes.e, i) == x))),
                     'bonds:among-exactly-the-atoms-asked-for')
        return edges

    def add_edges_from(e, xs):
        from pyvc.builtins import list_append
        e.oblige(xs is edges, 'bonds:those-of-the-whole-molecule')
        list_append(e, EDGE_ARGS, 1)
    sub.attrs.update(add_nodes_from=Builtin(add_nodes_from, 'add_nodes_from'), add_edges_from=Builtin(add_edges_from, 'add_edges_from'))
    self = Obj('Molecule', name=cx.val('NAME', TStr), meta=meta, _force_field=ff, nrexcl=cx.val('NREXCL', TOpt(TInt)), citations=cit,
               nodes=Obj('NodeView', __getitem__=Builtin(lambda e, n: SV(SGAttrs, attrs_of(to_z3(n, Key))), 'self.nodes[]')),
               edges_between=Builtin(edges_between, 'self.edges_between'))
    def construct(e):
        sub_inter.e = SGInter.empty()
        return sub
    self.attrs['__class__'] = Builtin(construct, 'self.__class__')
    self.attrs['interactions'] = inter
    cx.spec_env['copy'] = Obj('copy', copy=Builtin(copy_, 'copy.copy'))
    cx.spec_env.update(SELF_META=meta, SELF_FF=ff, SELF_CIT=cit, SUBM=sub, Key=Key)
    return dict(self=self, nodes=nodes)


def _new_molecule(env):
    # the new molecule as the head block leaves it (used where the block stands for its statements: its attributes have to exist for
    # the block's postcondition, which is assumed there, to be evaluated; values that disagreed with it would end the path, which the
    # vacuity check of the composed contract reports)
    o, me = env.lookup('SUBM'), env.lookup('self')
    o.attrs.update(name=me.attrs['name'], meta=Obj('copy', of=me.attrs['meta']), _force_field=me.attrs['_force_field'],
                   nrexcl=me.attrs['nrexcl'], citations=me.attrs['citations'])
    return o


subgraph_head = FunctionContract(
    F, 'Molecule.subgraph', 'C12', short='Molecule.subgraph[atoms and bonds]', setup=setup_sgh,
    region=dict(start="subgraph = self.__class__()", end="for interaction_type, interactions in self.interactions.items():"),
    locals=dict(nodes=TSet(Key), subgraph=lambda env: _new_molecule(env)),
    requires=["len(old(ADDED)) == 0 and len(old(EDGE_CALLS)) == 0"],
    ensures=[
        # the part is a new molecule of the same class with the whole's name, force field, nrexcl and citations and a copy of its meta
        "subgraph is SUBM and subgraph.name == self.name and subgraph._force_field is SELF_FF and subgraph.nrexcl == self.nrexcl and "
        "subgraph.citations is SELF_CIT and subgraph.meta.of is SELF_META",
        # it holds exactly the atoms asked for, in the order given, each with a copy of its attribute dictionary ...
        "len(ADDED) == len(NODE_LIST)",
        "forall(lambda j: implies(0 <= j and j < len(NODE_LIST), ADDED[j] == (NODE_LIST[j], copy_of(attrs_of(NODE_LIST[j])))))",
        # ... and the bonds the whole has among these atoms (edges_between: contract Molecule.edges_between[pairs]), added once
        "len(EDGE_CALLS) == 1",
        # from here on `nodes` is the set of the atoms asked for, and the new molecule has no interactions yet
        "forall(lambda x: (x in nodes) == exists(lambda i: 0 <= i and i < len(NODE_LIST) and NODE_LIST[i] == x), Key)",
        "len(SUB) == 0",
    ],
    modifies=['ADDED', 'EDGE_CALLS', 'SUB'],
    canary=[("node_copies = [(node, copy.copy(self.nodes[node])) for node in nodes]", "node_copies = [(node, self.nodes[node]) for node in nodes]"),
            ("subgraph._force_field = self._force_field", "subgraph._force_field = None"),
            ("subgraph.add_edges_from(self.edges_between(nodes, nodes, data=True))", "subgraph.add_edges_from(self.edges_between(nodes, nodes))")],
)
CONTRACTS.append(subgraph_head)



# ------------------------------------------------------------------ Molecule.subgraph as a whole: the two regions composed
B_SG_HEAD = BlockSpec.of(subgraph_head)
B_SG_INTER = BlockSpec.of(subgraph_interactions)
subgraph_whole = FunctionContract(
    F, 'Molecule.subgraph', 'C12', short='Molecule.subgraph[whole]', setup=setup_sgh, spec_defs=SPEC_SG, spec_env=dict(SGType=SGType),
    blocks=[B_SG_HEAD, B_SG_INTER],
    requires=["len(old(ADDED)) == 0 and len(old(EDGE_CALLS)) == 0"],
    ensures=[
        # the result is the new molecule: the atoms asked for (copies of their attributes), the whole's bonds among them ...
        "result is SUBM",
        "len(ADDED) == len(NODE_LIST)",
        "forall(lambda j: implies(0 <= j and j < len(NODE_LIST), ADDED[j] == (NODE_LIST[j], copy_of(attrs_of(NODE_LIST[j])))))",
        "len(EDGE_CALLS) == 1",
        # ... and, type by type and in order, exactly the interactions of the whole whose atoms all are among the atoms asked for: so every
        # atom of every interaction of the part is an atom of the part
        "forall(lambda t, i, a: implies(t in SUB and 0 <= i and i < len(SUB[t]) and 0 <= a and a < len(SUB[t][i].atoms), "
        "   exists(lambda q: 0 <= q and q < len(NODE_LIST) and NODE_LIST[q] == SUB[t][i].atoms[a])), SGType, TInt, TInt)",
        "forall(lambda t: implies(t in SUB, t in SELF), SGType)",
    ] + _done_types('len(SELF)'),
    modifies=['ADDED', 'EDGE_CALLS', 'SUB'],
)
CONTRACTS.append(subgraph_whole)

"""C18 -- Go-model sites mirror the backbone: VirtualSiteCreator.add_virtual_sites."""
from pyvc.api import *
from pyvc.builtins import make_iter

F = 'vermouth/rcsu/go_vs_includes.py'
Atom, Pos = TKey('Atom'), TKey('Pos')
SiteAttrs = TTuple(TInt, TInt, TStr, TStr, TInt, TStr, Pos, TStr, TReal, TReal, TOpt(TStr),
                   names=['resid', '_old_resid', 'resname', 'atype', 'charge_group', 'chain', 'position', 'atomname', 'charge',
                          'mass', 'cgsecstruct'])
Site = TTuple(TInt, SiteAttrs)
VSMeta = TTuple(TBool, TStr, names=['go_vs', 'group'])
VS = TTuple(TSeq(TInt), TSeq(TStr), VSMeta, names=['atoms', 'parameters', 'meta'])
NodeRec = TTuple(TInt, Atom)

SPEC = {
    'is_bb': "lambda a: has_name(a) and name_of(a) == backbone",
}
RECS = [
    # number of backbone particles among the first i atoms
    ('NB', [('atoms', TSeq(NodeRec)), ('bb', TStr), ('i', TInt)], TInt,
     "0 if i <= 0 else NB(atoms, bb, i - 1) + (1 if (has_name(atoms[i - 1][1]) and name_of(atoms[i - 1][1]) == bb) else 0)"),
]


def setup(cx):
    eng = cx.eng
    f = {}
    for n, t in [('name_of', TStr), ('resid_of', TInt), ('oldresid_of', TInt), ('resname_of', TStr), ('chain_of', TStr),
                 ('pos_of', Pos), ('css_of', TOpt(TStr)), ('has_name', TBool)]:
        f[n] = cx.uf(n, [Atom], t)
    atype_of = cx.uf('atype_of', [TStr, TInt], TStr)          # '{}_{}'.format(prefix, resid)
    eng.format_hooks['{}_{}'] = lambda e, p, r: wrap(TStr, atype_of(to_z3(p, TStr), to_z3(r, TInt)))
    atoms = cx.val('atoms', TSeq(NodeRec))
    cx.spec_env['atoms'] = atoms
    maxkey = cx.val('maxkey', TInt)
    cx.spec_env['maxkey'] = maxkey
    maxcg = cx.val('maxcg', TInt)
    cx.spec_env['maxcg'] = maxcg

    def atom_view(a):
        ae = to_z3(a, Atom)
        keys = {'resid': (TInt, f['resid_of']), '_old_resid': (TInt, f['oldresid_of']), 'resname': (TStr, f['resname_of']),
                'chain': (TStr, f['chain_of']), 'position': (Pos, f['pos_of'])}
        o = Obj('atomdict')
        o.attrs['__getitem__'] = Builtin(lambda e, k: wrap(keys[k][0], keys[k][1](ae)), 'atom[]')

        def get(e, k, d=None):
            if k == 'atomname':
                return e.ite(f['has_name'](ae), wrap(TStr, f['name_of'](ae)), d)
            if k == 'cgsecstruct':
                return wrap(TOpt(TStr), f['css_of'](ae))
            raise KeyError(k)
        o.attrs['get'] = Builtin(get, 'atom.get')
        return o
    nodes = Obj('NodeView')
    nodes.__dict__['truth'] = True

    def nodes_call(e, data=False):
        it = make_iter(e, atoms)
        from pyvc.values import IterV
        return IterV(it.n, lambda i: (it.get(i)[0], atom_view(it.get(i)[1])))
    nodes.attrs['__call__'] = Builtin(nodes_call, 'nodes(data=True)')
    nodes.attrs['__len__'] = Builtin(lambda e: e.numval(TSeq(NodeRec).len(to_z3(atoms))), 'len(nodes)')
    ADDED = cx.heap('ADDED_NODES', Box(TSeq(Site)))
    ADDED_VS = cx.heap('ADDED_VS', Box(TSeq(VS)))
    TYPES = cx.heap('ATOMTYPES', Box(TSeq(TTuple(TInt))))
    mol = cx.obj('Molecule', nodes=nodes)
    mol.attrs['add_nodes_from'] = Builtin(lambda e, lst: setattr(ADDED, 'e', to_z3(lst)), 'add_nodes_from')
    inter = Box(None, kind='dict')
    vsn = Box(TSeq(VS))
    inter.cd = {'virtual_sitesn': vsn}
    mol.attrs['interactions'] = inter
    cx.heap('VSN', vsn)
    # max(molecule.nodes): the largest key;  max(charge groups) or 0
    def my_max(e, x):
        if x is nodes:
            return maxkey
        return maxcg
    cx.spec_env['max'] = Builtin(my_max, 'max')
    nx = Obj('nx')
    cgs = Obj('cgs')
    cgs.attrs['values'] = Builtin(lambda e: True, 'values')
    nx.attrs['get_node_attributes'] = Builtin(lambda e, m, a: cgs, 'get_node_attributes')
    cx.spec_env['nx'] = nx
    cx.spec_env['Interaction'] = Builtin(lambda e, atoms=None, parameters=None, meta=None: (atoms, parameters, meta), 'Interaction')
    cx.spec_env['Atomtype'] = Builtin(lambda e, node=None, molecule=None, sigma=None, epsilon=None, meta=None: (node,), 'Atomtype')
    system = Obj('system')
    gtp = Box(None, kind='dict')
    gtp.cd = {'atomtypes': TYPES}
    system.attrs['gmx_topology_params'] = gtp
    self = cx.obj('VirtualSiteCreator', system=system)
    return dict(self=self, molecule=mol, prefix=cx.val('prefix', TStr), backbone=cx.val('backbone', TStr),
                atomname=cx.val('atomname', TStr), charge=cx.val('charge', TReal))


SITE_K = ("{lst}[k][0] == maxkey + 1 + k and {lst}[k][1].resid == resid_of(atoms[g_src[k]][1]) and "
          "{lst}[k][1]._old_resid == oldresid_of(atoms[g_src[k]][1]) and {lst}[k][1].resname == resname_of(atoms[g_src[k]][1]) and "
          "{lst}[k][1].chain == chain_of(atoms[g_src[k]][1]) and {lst}[k][1].position == pos_of(atoms[g_src[k]][1]) and "
          "{lst}[k][1].mass == 0 and {lst}[k][1].charge == charge and {lst}[k][1].atomname == atomname and "
          "{lst}[k][1].atype == atype_of(prefix, resid_of(atoms[g_src[k]][1])) and {lst}[k][1].charge_group == maxcg + 1 + k")
VS_K = ("len({vs}[k].atoms) == 2 and {vs}[k].atoms[0] == maxkey + 1 + k and {vs}[k].atoms[1] == atoms[g_src[k]][0] and "
        "len({vs}[k].parameters) == 1 and {vs}[k].parameters[0] == '1'")
SRC_OK = ("forall(lambda k: implies(0 <= k and k < len(g_src), 0 <= g_src[k] and g_src[k] < {I} and is_bb(atoms[g_src[k]][1])))",
          "forall(lambda a, b: implies(0 <= a and a < b and b < len(g_src), g_src[a] < g_src[b]))")

add_virtual_sites = FunctionContract(
    F, 'VirtualSiteCreator.add_virtual_sites', 'C18', setup=setup, spec_defs=SPEC, spec_recs=RECS, spec_env=dict(Atom=Atom),
    locals=dict(virtual_site_nodes=TSeq(Site), virtual_sites=TSeq(VS), g_src=TSeq(TInt)),
    requires=["len(atoms) > 0", "forall(lambda i: implies(0 <= i and i < len(atoms), atoms[i][0] <= maxkey))", "maxcg >= 0"],
    ghost_at={'entry': "g_src = []"},
    ensures=[
        # exactly one site per backbone particle ...
        "len(ADDED_NODES) == NB(atoms, backbone, len(atoms))", "len(g_src) == len(ADDED_NODES)",
        SRC_OK[0].format(I='len(atoms)'), SRC_OK[1],
        # ... placed after all existing atoms, carrying its backbone particle's residue identity and position,
        # zero mass, the requested charge, and a type named after the molecule and the residue
        "forall(lambda k: implies(0 <= k and k < len(ADDED_NODES), " + SITE_K.format(lst='ADDED_NODES') + "))",
        # ... and constructed from exactly that particle
        "len(VSN) == len(old(VSN)) + len(ADDED_NODES)",
        "forall(lambda k: implies(0 <= k and k < len(ADDED_NODES), " + VS_K.format(vs='VSN[len(old(VSN)) + k:]') + "))"
        if False else
        "forall(lambda k: implies(0 <= k and k < len(ADDED_NODES), len(VSN[len(old(VSN)) + k].atoms) == 2 and "
        "   VSN[len(old(VSN)) + k].atoms[0] == maxkey + 1 + k and VSN[len(old(VSN)) + k].atoms[1] == atoms[g_src[k]][0] and "
        "   len(VSN[len(old(VSN)) + k].parameters) == 1 and VSN[len(old(VSN)) + k].parameters[0] == '1'))",
        "len(ATOMTYPES) == len(old(ATOMTYPES)) + len(ADDED_NODES)",
    ],
    modifies=['ADDED_NODES', 'VSN', 'ATOMTYPES'],
    loops={'L1': LoopSpec(
        inv=["len(virtual_site_nodes) == NB(atoms, backbone, _i) and len(virtual_sites) == len(virtual_site_nodes) and "
             "len(g_src) == len(virtual_site_nodes)",
             "new_node_id == maxkey + len(virtual_site_nodes) and new_charge_group == maxcg + len(virtual_site_nodes)",
             SRC_OK[0].format(I='_i'), SRC_OK[1],
             "forall(lambda k: implies(0 <= k and k < len(virtual_site_nodes), " + SITE_K.format(lst='virtual_site_nodes') + "))",
             "forall(lambda k: implies(0 <= k and k < len(virtual_sites), " + VS_K.format(vs='virtual_sites') + "))",
             "len(ATOMTYPES) == len(old(ATOMTYPES)) + len(virtual_site_nodes)"],
        modifies=['virtual_site_nodes', 'virtual_sites', 'ATOMTYPES', 'g_src'],
        locals=dict(g_src=TSeq(TInt)),
        ghost_end="if atom.get('atomname') == backbone:\n    g_src.append(_i)")},
    canary=[("new_node_id += 1", "new_node_id += 2"), ("atoms=[new_node_id, node_id]", "atoms=[new_node_id, new_node_id]"),
            ("'mass': 0.0", "'mass': 1.0")],
)
CONTRACTS = [add_virtual_sites]
LEMMAS = []


# ------------------------------------------------------------------ ComputeStructuralGoBias.compute_go_interaction
FG = 'vermouth/rcsu/go_structure_bias.py'
Contact3 = TTuple(TStr, TStr, TReal)                        # (site type a, site type b, backbone distance)
NBP = TTuple(TStr, TStr, TReal, TReal, names=['a', 'b', 'sigma', 'epsilon'])


def setup_cgi(cx):
    NB = cx.heap('NONBOND', cx.box('NONBOND', TSeq(NBP)))
    gtp = Box(None, kind='dict')
    gtp.cd = {'nonbond_params': NB}
    system = Obj('system', gmx_topology_params=gtp)
    cx.spec_env['NonbondParam'] = Builtin(lambda e, atoms=None, sigma=None, epsilon=None, meta=None: (atoms[0], atoms[1], sigma, epsilon),
                                          'NonbondParam')
    cf = cx.val('conversion_factor', TReal)
    cx.assume(cf.e > 0)
    self = cx.obj('ComputeStructuralGoBias', system=system, conversion_factor=cf, go_eps=cx.val('go_eps', TReal))
    return dict(self=self, contacts=cx.val('contacts', TSeq(Contact3)))


compute_go_interaction = FunctionContract(
    FG, 'ComputeStructuralGoBias.compute_go_interaction', 'C18', setup=setup_cgi,
    ensures=[
        # one pair potential per selected contact, in order, between the two site types, with sigma = distance / conversion
        # factor (2^(1/6): see the ast-eval obligation on __init__) and the requested depth; earlier entries are kept
        "len(NONBOND) == len(old(NONBOND)) + len(contacts)",
        "forall(lambda k: implies(0 <= k and k < len(old(NONBOND)), NONBOND[k] == old(NONBOND)[k]))",
        "forall(lambda k: implies(0 <= k and k < len(contacts), NONBOND[len(old(NONBOND)) + k].a == contacts[k][0] and "
        "   NONBOND[len(old(NONBOND)) + k].b == contacts[k][1] and "
        "   NONBOND[len(old(NONBOND)) + k].sigma * self.conversion_factor == contacts[k][2] and "
        "   NONBOND[len(old(NONBOND)) + k].epsilon == self.go_eps))",
    ],
    modifies=['NONBOND'],
    loops={'L1': LoopSpec(inv=[
        "len(NONBOND) == len(old(NONBOND)) + _i",
        "forall(lambda k: implies(0 <= k and k < len(old(NONBOND)), NONBOND[k] == old(NONBOND)[k]))",
        "forall(lambda k: implies(0 <= k and k < _i, NONBOND[len(old(NONBOND)) + k].a == contacts[k][0] and "
        "   NONBOND[len(old(NONBOND)) + k].b == contacts[k][1] and "
        "   NONBOND[len(old(NONBOND)) + k].sigma * self.conversion_factor == contacts[k][2] and "
        "   NONBOND[len(old(NONBOND)) + k].epsilon == self.go_eps))"], modifies=['NONBOND'])},
    canary=[("sigma = dist / self.conversion_factor", "sigma = dist * self.conversion_factor"),
            ("atoms=(atype_a, atype_b)", "atoms=(atype_a, atype_a)")],
)
CONTRACTS.append(compute_go_interaction)


# ------------------------------------------------------------------ ComputeStructuralGoBias.contact_selector
ResN, BBN = TKey('ResN'), TKey('BBN')
MapEntry = TTuple(TInt, TStr, TInt, TStr)                   # (resid A, chain A, resid B, chain B) of the contact map
Excl = TTuple(BBN, BBN)


def _res(v):
    # the residue node behind a value that the code has tested against None (the payload of an optional value)
    if isinstance(v, SV) and isinstance(v.ty, TOpt):
        return v.ty.get(v.e)
    return to_z3(v, ResN)


def setup_cs(cx):
    eng = cx.eng
    from pyvc.values import IterV
    from pyvc.builtins import _int, list_append
    from pyvc.interp import PyExc
    gomap = cx.val('go_map', TSeq(MapEntry))
    cx.spec_env['go_map'] = gomap
    resnode = cx.uf('resnode', [TStr, TInt], TOpt(ResN))   # self._chain_id_to_resnode(chain, resid)
    near = cx.uf('near', [ResN, ResN], TBool)              # within res_dist along the residue graph
    n_bb = cx.uf('n_bb', [ResN], TInt)                     # number of backbone beads found in the residue
    bb = cx.uf('bb', [ResN], BBN)                          # the first of them
    distf = cx.uf('distbb', [BBN, BBN], TReal)             # numpy.linalg.norm(pos[a] - pos[b])
    gotype = cx.uf('gotype', [ResN, TInt, TStr], TStr)     # type of the residue's Go site (get_go_type_from_attributes)
    r_ = z3.Const('r', ResN.sort())
    cx.assume(z3.ForAll([r_], n_bb(r_) >= 0))
    EXCL = cx.heap('EXCL', cx.box('EXCL', TSeq(Excl)))
    WARNED = cx.heap('WARNED', Box(TSeq(TStr)))
    gp = Box(None, kind='dict')
    gp.cd = {'go_map': (gomap,)}
    system = Obj('system', go_params=gp)

    def res_view(e, r):
        return {'graph': Obj('resgraph', res=r)}
    rnodes = Obj('NodeView', __getitem__=Builtin(res_view, 'res_graph.nodes[]'))
    res_graph = Obj('res_graph', nodes=rnodes)
    cp = Obj('connected_pairs')
    cp.attrs['__getitem__'] = Builtin(lambda e, a: Obj('reach', __contains__=Builtin(lambda e2, b: wrap(TBool, near(_res(a), _res(b))), 'in')),
                                      'connected_pairs[]')
    nx = Obj('nx', all_pairs_shortest_path_length=Builtin(lambda e, g, cutoff=None: cp, 'all_pairs_shortest_path_length'))
    cx.spec_env['nx'] = nx
    cx.spec_env['dict'] = Builtin(lambda e, x: x, 'dict')
    cx.spec_env['select_backbone'] = Obj('select_backbone')

    def filter_minimal(e, graph, sel, bb_atomname=None):
        r = _res(graph.attrs['res'])
        return IterV(n_bb(r), lambda i: SV(BBN, bb(r)))      # only its first element is taken
    cx.spec_env['filter_minimal'] = Builtin(filter_minimal, 'filter_minimal')

    def ggt(e, graph, _old_resid=None, chain=None, prefix=None):
        r = _res(graph.attrs['res'])
        return IterV(1, None, concrete=[SV(TStr, gotype(r, to_z3(_old_resid, TInt), to_z3(chain, TStr)))])
    cx.spec_env['get_go_type_from_attributes'] = Builtin(ggt, 'get_go_type_from_attributes')

    def mol_node(e, n):
        class P:
            pass
        o = Obj('pos', node=n)
        o.attrs['__sub__'] = Builtin(lambda e2, other: Obj('diff', a=n, b=other.attrs['node']), '-')
        return {'position': o}
    mnodes = Obj('NodeView', __getitem__=Builtin(mol_node, 'molecule.nodes[]'))
    inter = Box(None, kind='dict')
    inter.cd = {'exclusions': EXCL}
    molecule = cx.obj('Molecule', nodes=mnodes, interactions=inter)
    linalg = Obj('linalg', norm=Builtin(lambda e, d: SV(TReal, distf(to_z3(d.attrs['a'], BBN), to_z3(d.attrs['b'], BBN))), 'norm'))
    cx.spec_env['np'] = Obj('numpy', linalg=linalg)
    cx.spec_env['Interaction'] = Builtin(lambda e, atoms=None, parameters=None, meta=None: (atoms[0], atoms[1]), 'Interaction')
    log = Obj('LOGGER')
    log.attrs['warning'] = Builtin(lambda e, *a, **k: list_append(e, WARNED, 'warning'), 'LOGGER.warning')
    cx.spec_env['LOGGER'] = log

    def sys_exit(e, code=0):
        raise PyExc('SystemExit', (code,), e.line)
    cx.spec_env['sys'] = Obj('sys', exit=Builtin(sys_exit, 'sys.exit'))
    self = cx.obj('ComputeStructuralGoBias', system=system, res_graph=res_graph, res_dist=cx.val('res_dist', TInt),
                  backbone=cx.val('backbone', TStr), moltype=cx.val('moltype', TStr),
                  cutoff_long=cx.val('cutoff_long', TReal), cutoff_short=cx.val('cutoff_short', TReal))
    self.attrs['_chain_id_to_resnode'] = Builtin(lambda e, chain, resid: SV(TOpt(ResN), resnode(to_z3(chain, TStr), to_z3(resid, TInt))),
                                                 '_chain_id_to_resnode')
    return dict(self=self, molecule=molecule)


SPEC_CS = {
    'rA': "lambda k: resnode(go_map[k][1], go_map[k][0])",
    'rB': "lambda k: resnode(go_map[k][3], go_map[k][2])",
    'dk': "lambda k: distbb(bb(rA(k)), bb(rB(k)))",
    'tA': "lambda k: gotype(rA(k), go_map[k][0], go_map[k][1])",
    'tB': "lambda k: gotype(rB(k), go_map[k][2], go_map[k][3])",
    # the k-th listed contact is eligible: both residues exist, they are further apart along the residue graph than the
    # minimum separation, and the backbone distance lies strictly between the cut-offs
    'elig': "lambda k: rA(k) is not None and rB(k) is not None and not near(rA(k), rB(k)) and "
            "self.cutoff_short < dk(k) and dk(k) < self.cutoff_long",
    # the j-th listing is the reverse direction of the k-th
    'reverse': "lambda j, k: tA(j) == tB(k) and tB(j) == tA(k) and dk(j) == dk(k)",
}
CS_INV = [
    # contact_matrix: the eligible listings still waiting for their reverse direction, in order
    "len(g_cm) == len(contact_matrix)",
    "forall(lambda p: implies(0 <= p and p < len(contact_matrix), 0 <= g_cm[p] and g_cm[p] < _i and elig(g_cm[p]) and "
    "   contact_matrix[p][0] == tA(g_cm[p]) and contact_matrix[p][1] == tB(g_cm[p]) and contact_matrix[p][2] == dk(g_cm[p])))",
    # symmetrical_matrix / exclusions: one per listing whose reverse direction was listed (and eligible) before it
    "len(g_sym) == len(symmetrical_matrix) and len(EXCL) == len(old(EXCL)) + len(g_sym)",
    "forall(lambda q: implies(0 <= q and q < len(symmetrical_matrix), 0 <= g_sym[q] and g_sym[q] < _i and elig(g_sym[q]) and "
    "   symmetrical_matrix[q][0] == tA(g_sym[q]) and symmetrical_matrix[q][1] == tB(g_sym[q]) and symmetrical_matrix[q][2] == dk(g_sym[q])))",
    "forall(lambda q: implies(0 <= q and q < len(symmetrical_matrix), "
    "   EXCL[len(old(EXCL)) + q][0] == bb(rA(g_sym[q])) and EXCL[len(old(EXCL)) + q][1] == bb(rB(g_sym[q]))))",
    "len(g_par) == len(g_sym) and forall(lambda q: implies(0 <= q and q < len(symmetrical_matrix), "
    "   0 <= g_par[q] and g_par[q] < g_sym[q] and elig(g_par[q]) and reverse(g_par[q], g_sym[q])))",
    "forall(lambda q, r: implies(0 <= q and q < r and r < len(symmetrical_matrix), g_sym[q] < g_sym[r]))",
    # every eligible listing went to exactly one of the two lists; it waits only if no waiting listing was its reverse
    "forall(lambda k: implies(0 <= k and k < _i and elig(k), k in g_where))",
    "forall(lambda k: implies(k in g_where and g_where[k] >= 0, g_where[k] < len(symmetrical_matrix) and g_sym[g_where[k]] == k))",
    "forall(lambda k: implies(k in g_where and g_where[k] < 0, 0 <= -g_where[k] - 1 and -g_where[k] - 1 < len(contact_matrix) and "
    "   g_cm[-g_where[k] - 1] == k and "
    "   forall(lambda p: implies(0 <= p and p < -g_where[k] - 1, not reverse(g_cm[p], k)))))",
    "forall(lambda k: implies(k in g_where, 0 <= k and k < _i and elig(k)))",
    "forall(lambda k: implies(0 <= k and k < len(old(EXCL)), EXCL[k] == old(EXCL)[k]))",
]
contact_selector = FunctionContract(
    FG, 'ComputeStructuralGoBias.contact_selector', 'C18', setup=setup_cs, spec_defs=SPEC_CS,
    spec_env=dict(ResN=ResN, BBN=BBN),
    locals=dict(contact_matrix=TSeq(Contact3), symmetrical_matrix=TSeq(Contact3), g_cm=TSeq(TInt), g_sym=TSeq(TInt), g_par=TSeq(TInt),
                g_where=TMap(TInt, TInt)),
    requires=["forall(lambda k: implies(0 <= k and k < len(go_map) and rA(k) is not None and rB(k) is not None, n_bb(rA(k)) > 0 and n_bb(rB(k)) > 0))"],
    ghost_at={'entry': "g_cm = []\ng_sym = []\ng_par = []\ng_where = {}"},
    result_ty=TSeq(Contact3),
    ensures=[c.replace('_i', 'len(go_map)').replace('symmetrical_matrix', 'result') for c in CS_INV[2:]],
    modifies=['EXCL', 'WARNED'],
    loops={'L1': LoopSpec(
        inv=CS_INV, modifies=['EXCL', 'WARNED', 'contact_matrix', 'symmetrical_matrix', 'g_cm', 'g_sym', 'g_par', 'g_where'],
        locals=dict(contact_matrix=TSeq(Contact3), symmetrical_matrix=TSeq(Contact3), g_cm=TSeq(TInt), g_sym=TSeq(TInt), g_par=TSeq(TInt),
                    g_where=TMap(TInt, TInt), g_c0=TInt, g_s0=TInt, bad_chains_warning=TBool),
        ghost_pre="g_c0 = len(contact_matrix)\ng_s0 = len(symmetrical_matrix)",
        ghost_end="if len(contact_matrix) > g_c0:\n    g_cm.append(_i)\n    g_where[_i] = -g_c0 - 1\n"
                  "if len(symmetrical_matrix) > g_s0:\n    g_sym.append(_i)\n    g_where[_i] = g_s0\n"
                  "    g_par.append(g_cm[contact_matrix.index((atype_b, atype_a, dist))])")},
    canary=[("if self.cutoff_long > dist > self.cutoff_short:", "if self.cutoff_long >= dist > self.cutoff_short:"),
            ("if resB not in connected_pairs[resA]:", "if resB in connected_pairs[resA]:"),
            ("excl = Interaction(atoms=(bb_node_A, bb_node_B),", "excl = Interaction(atoms=(bb_node_A, bb_node_A),")],
)
CONTRACTS.append(contact_selector)


# ------------------------------------------------------------------ constants, evaluated from the real source (ast)
import ast as _ast
import os as _os


def extra_obligations(tier):
    obs = []
    try:
        src = open(_os.path.join(_os.environ.get('VERIF_REPO', '/repo'), FG)).read()
        tree = _ast.parse(src)
        cls = next(st for st in tree.body if isinstance(st, _ast.ClassDef) and st.name == 'ComputeStructuralGoBias')
        init = next(st for st in cls.body if isinstance(st, _ast.FunctionDef) and st.name == '__init__')
        assigns = [st for st in _ast.walk(cls) if isinstance(st, _ast.Assign) and _ast.unparse(st.targets[0]) == 'self.conversion_factor']
        ok, detail = False, 'no single assignment of self.conversion_factor in __init__'
        if len(assigns) == 1 and assigns[0] in list(_ast.walk(init)):
            expr = assigns[0].value
            if all(isinstance(n, (_ast.BinOp, _ast.Constant, _ast.operator, _ast.UnaryOp, _ast.unaryop)) for n in _ast.walk(expr)):
                val = eval(compile(_ast.Expression(expr), '<conversion_factor>', 'eval'), {'__builtins__': {}})
                ok = abs(val - 2 ** (1 / 6)) < 1e-12
                detail = 'self.conversion_factor = %s = %r; statement: 2^(1/6) = %r' % (_ast.unparse(expr), val, 2 ** (1 / 6))
            else:
                detail = 'self.conversion_factor = %s is not a constant expression' % _ast.unparse(expr)
                obs.append(dict(name='constant:conversion_factor', status='unknown', backend='ast-eval', detail=detail,
                                key='constant:conversion_factor', function='ComputeStructuralGoBias.__init__'))
                return obs
        obs.append(dict(name='constant:conversion_factor', status='unsat' if ok else 'sat', backend='ast-eval', detail=detail,
                        key='constant:conversion_factor', function='ComputeStructuralGoBias.__init__'))
    except Exception as ex:
        obs.append(dict(name='constant:conversion_factor', status='unknown', backend='ast-eval',
                        detail='extraction failed: %s: %s' % (type(ex).__name__, ex), key='constant:conversion_factor',
                        function='ComputeStructuralGoBias.__init__'))
    return obs


# ------------------------------------------------------------------ get_go_type_from_attributes: which bead types are Go sites
GNd, GAt, GKw = TKey('GNd'), TKey('GAt'), TKey('GKw')


def setup_ggt(cx):
    eng = cx.eng
    NODES = cx.val('NODES', TSeq(GNd))                      # molecule.nodes, in order
    cx.spec_env['NODES'] = NODES
    attrs_of = cx.uf('attrs_of', [GNd], GAt)
    atype = cx.uf('atype', [GAt], TStr)                    # attrs['atype']
    am = cx.uf('am', [GAt, GKw], TBool)                    # attributes_match(attrs, kwargs) (its contract: proved under C05)
    cx.spec_env['attributes_match'] = Builtin(lambda e, a, k: wrap(TBool, am(to_z3(a, GAt), to_z3(k, GKw))), 'attributes_match')
    eng.methods[('GAt', '__getitem__')] = lambda e, a, k: SV(TStr, atype(to_z3(a, GAt))) if k == 'atype' else \
        (_ for _ in ()).throw(EngineError('attrs[%r]' % (k,)))
    eng.methods[('GKw', '__getitem__')] = lambda e, a, k: 'value' if k in ('resid', 'chain') else \
        (_ for _ in ()).throw(EngineError('kwargs[%r]' % (k,)))
    nodes = Obj('NodeView', __getitem__=Builtin(lambda e, n: SV(GAt, attrs_of(to_z3(n, GNd))), 'molecule.nodes[]'))
    nodes.__dict__['iter'] = NODES
    kw = cx.val('kwargs', GKw)
    cx.spec_env['KW'] = kw
    return dict(molecule=Obj('Molecule', nodes=nodes), prefix=cx.val('prefix', TStr), kwargs=kw)


SPEC_GGT = {
    # the node is a Go site of this molecule: its attributes match and its type is "<prefix>_..."
    'is_site': "lambda n: am(attrs_of(n), KW) and atype(attrs_of(n)).startswith(prefix + '_')",
}
GGT_INV = [
    "len(g_src) == len(__yielded__)",
    "forall(lambda q: implies(0 <= q and q < len(g_src), 0 <= g_src[q] and g_src[q] < {I} and is_site(NODES[g_src[q]]) and "
    "   __yielded__[q] == atype(attrs_of(NODES[g_src[q]]))))",
    "forall(lambda p, q: implies(0 <= p and p < q and q < len(g_src), g_src[p] < g_src[q]))",
    "forall(lambda i: implies(0 <= i and i < {I} and is_site(NODES[i]), i in g_pos and 0 <= g_pos[i] and g_pos[i] < len(g_src) and "
    "   g_src[g_pos[i]] == i))",
]
go_types = FunctionContract(
    'vermouth/rcsu/go_utils.py', 'get_go_type_from_attributes', 'C18', setup=setup_ggt, spec_defs=SPEC_GGT,
    spec_env=dict(GNd=GNd), result_ty=TSeq(TStr),
    locals=dict(g_src=TSeq(TInt), g_pos=TMap(TInt, TInt)), ghost_at={'entry': "g_src = []\ng_pos = {}"},
    ensures=["False"],                                      # the generator never ends normally: after the last node it raises
    # what has been yielded when the KeyError comes: the types of exactly the Go sites, in the molecule's order
    raises={'KeyError': [x.format(I='len(NODES)') for x in GGT_INV]},
    loops={'L1': LoopSpec(inv=[x.format(I='_i') for x in GGT_INV], modifies=['__yielded__', 'g_src', 'g_pos'],
                          locals=dict(g_y0=TInt), ghost_pre="g_y0 = len(__yielded__)",
                          ghost_end="if len(__yielded__) > g_y0:\n    g_src.append(_i)\n    g_pos[_i] = g_y0")},
    canary=[("attrs['atype'].startswith(prefix + '_')", "attrs['atype'].startswith(prefix)"),
            ("if attributes_match(attrs, kwargs) and", "if attributes_match(attrs, kwargs) or")],
)
CONTRACTS.append(go_types)


# ------------------------------------------------------------------ read_go_map: which lines of the contact map are contacts
LineT, TokT = TKey('LineT'), TKey('TokT')
Contact = TTuple(TInt, TokT, TInt, TokT)


def setup_rgm(cx):
    from pyvc.values import COERCIONS
    from pyvc.builtins import list_append
    eng = cx.eng
    LINES = cx.val('LINES', TSeq(LineT))
    cx.spec_env['LINES'] = LINES
    toks = cx.uf('toks', [LineT], TSeq(TokT))              # line.strip().split()
    num = cx.uf('num', [TokT], TInt)                       # int(token)
    isnum = cx.uf('isnum', [TokT], TBool)
    l_ = z3.Const('ln', LineT.sort())
    cx.assume(z3.ForAll([l_], TSeq(TokT).len(toks(l_)) >= 0))
    consts = {k: z3.Const('tok!' + k, TokT.sort()) for k in ('R', '1', '0')}
    cx.assume(z3.Distinct(*consts.values()))
    COERCIONS[('Str', 'TokT')] = lambda e: consts[e.as_string()] if z3.is_string_value(e) and e.as_string() in consts else \
        (_ for _ in ()).throw(EngineError('token literal %s' % e))
    eng.methods[('LineT', 'strip')] = lambda e, l: Obj('stripped', split=Builtin(lambda e2: SV(TSeq(TokT), toks(to_z3(l, LineT))), 'split'))

    def int_(e, x):
        if isinstance(x, SV) and x.ty == TokT:
            e.maybe_raise(isnum(x.e), 'ValueError')
            return SV(TInt, num(x.e))
        raise EngineError('int(%r)' % (x,))
    cx.spec_env['int'] = Builtin(int_, 'int')
    f = Obj('file')
    f.__dict__['iter'] = LINES
    f.attrs['__enter__'] = Builtin(lambda e: f, '__enter__')
    f.attrs['__exit__'] = Builtin(lambda e, *a: None, '__exit__')
    cx.spec_env['open'] = Builtin(lambda e, path, mode='r', encoding=None: f, 'open')
    MAPS = cx.heap('GO_MAPS', cx.box('GO_MAPS', TSeq(TSeq(Contact))))
    go_map = Obj('go_map', append=Builtin(lambda e, c: list_append(e, MAPS, c), 'go_map.append'))
    system = Obj('System', go_params=Obj('go_params', __getitem__=Builtin(lambda e, k: go_map if k == 'go_map' else
                                                                         (_ for _ in ()).throw(EngineError('go_params[%r]' % (k,))), 'go_params[]')))
    return dict(system=system, file_path=Obj('path'))


SPEC_RGM = {
    'T': "lambda i: toks(LINES[i])",
    # a contact line: 18 columns, the first one R, and either the overlap column says 1 or it says 0 and the rCSU column says 1
    'is_contact': "lambda i: len(T(i)) == 18 and T(i)[0] == 'R' and (T(i)[11] == '1' or (T(i)[11] == '0' and T(i)[14] == '1'))",
    'contact_of': "lambda c, i: c[0] == num(T(i)[5]) and c[1] == T(i)[4] and c[2] == num(T(i)[9]) and c[3] == T(i)[8]",
}
RGM_INV = [
    "len(g_src) == len(contacts)",
    "forall(lambda q: implies(0 <= q and q < len(g_src), 0 <= g_src[q] and g_src[q] < {I} and is_contact(g_src[q]) and contact_of(contacts[q], g_src[q])))",
    "forall(lambda p, q: implies(0 <= p and p < q and q < len(g_src), g_src[p] < g_src[q]))",
    "forall(lambda i: implies(0 <= i and i < {I} and is_contact(i), i in g_pos and 0 <= g_pos[i] and g_pos[i] < len(g_src) and g_src[g_pos[i]] == i))",
]
read_go_map = FunctionContract(
    'vermouth/rcsu/contact_map.py', 'read_go_map', 'C18', setup=setup_rgm, spec_defs=SPEC_RGM, spec_env=dict(TokT=TokT),
    locals=dict(contacts=TSeq(Contact), g_src=TSeq(TInt), g_pos=TMap(TInt, TInt)), ghost_at={'entry': "g_src = []\ng_pos = {}"},
    allow_exc=('ValueError',),          # a residue number that is not a number
    requires=["len(old(GO_MAPS)) == 0"],
    ensures=[
        # the contact map handed to the system holds, in file order, exactly the contact lines - (residue number, chain, residue
        # number, chain) of columns 6, 5, 10, 9 -, and there is at least one
        "len(GO_MAPS) == 1 and len(GO_MAPS[0]) == len(g_src) and len(g_src) > 0",
        "forall(lambda q: implies(0 <= q and q < len(g_src), 0 <= g_src[q] and g_src[q] < len(LINES) and is_contact(g_src[q]) and "
        "   contact_of(GO_MAPS[0][q], g_src[q])))",
        RGM_INV[2], RGM_INV[3].format(I='len(LINES)'),
    ],
    # no contact line at all: IOError, nothing handed over
    raises={'OSError': ["forall(lambda i: implies(0 <= i and i < len(LINES), not is_contact(i)))", "len(GO_MAPS) == 0"]},
    modifies=['GO_MAPS'],
    loops={'L1': LoopSpec(inv=[x.format(I='_i') for x in RGM_INV] + ["len(GO_MAPS) == 0"], modifies=['contacts', 'g_src', 'g_pos'],
                          locals=dict(g_n0=TInt), ghost_pre="g_n0 = len(contacts)",
                          ghost_end="if len(contacts) > g_n0:\n    g_src.append(_i)\n    g_pos[_i] = g_n0")},
    canary=[("if tokens[11] == \"1\" or (tokens[11] == \"0\" and tokens[14] == \"1\"):", "if tokens[11] == \"1\" or tokens[14] == \"1\":"),
            ("contacts.append((int(tokens[5]), tokens[4], int(tokens[9]), tokens[8]))", "contacts.append((int(tokens[5]), tokens[4], int(tokens[5]), tokens[8]))"),
            ("len(tokens) == 18", "len(tokens) >= 18")],
)
CONTRACTS.append(read_go_map)


# ------------------------------------------------------------------ ComputeStructuralGoBias._chain_id_to_resnode
ChainT = TKey('ChainT')
CRKey = TTuple(TOpt(ChainT), TOpt(TInt))
CRMap = TMap(CRKey, TInt)


def setup_cir(cx):
    from pyvc.builtins import list_append
    RN = cx.val('RESNODES', TSeq(TInt))                     # self.res_graph.nodes, in order
    cx.spec_env['RESNODES'] = RN
    chain_of = cx.uf('chain_of', [TInt], TOpt(ChainT))      # res_graph.nodes[r].get('chain', None)
    rid_of = cx.uf('old_resid_of', [TInt], TOpt(TInt))      # res_graph.nodes[r].get('_old_resid')
    cur_rid_of = cx.uf('resid_of', [TInt], TOpt(TInt))
    cache = cx.box('CACHE', CRMap)
    cx.heap('CACHE', cache)
    DEBUG = cx.heap('DEBUGGED', cx.box('DEBUGGED', TSeq(TStr)))

    def node(e, r):
        re_ = to_z3(r, TInt)

        def get(e2, k, d=None):
            if k == 'chain' and d is None:
                return SV(TOpt(ChainT), chain_of(re_))
            if k == '_old_resid' and d is None:
                return SV(TOpt(TInt), rid_of(re_))
            if k == 'resid' and d is None:
                return SV(TOpt(TInt), cur_rid_of(re_))      # the renumbered residue number: something else
            raise EngineError('resnode.get(%r)' % (k,))
        return Obj('resattrs', get=Builtin(get, 'get'))
    nodes = Obj('NodeView', __getitem__=Builtin(node, 'res_graph.nodes[]'))
    nodes.__dict__['iter'] = RN
    self = Obj('ComputeStructuralGoBias', res_graph=Obj('res_graph', nodes=nodes))
    self.attrs['__chain_id_to_resnode'] = cache             # the name-mangled private attribute, under the name the method uses
    cx.spec_env['LOGGER'] = Obj('LOGGER', debug=Builtin(lambda e, *a, **k: list_append(e, DEBUG, 'not-found'), 'LOGGER.debug'))
    return dict(self=self, chain=cx.val('chain', ChainT), resid=cx.val('resid', TInt))


SPEC_CIR = {
    'keyof': "lambda j: (chain_of(RESNODES[j]), old_resid_of(RESNODES[j]))",
    'wanted': "lambda j: chain_of(RESNODES[j]) == chain and old_resid_of(RESNODES[j]) == resid",
    # the table of all residues: every residue under its (chain, old residue number), nothing else
    'table': "lambda C, J: forall(lambda j: implies(0 <= j and j < J, keyof(j) in C and C[keyof(j)] == RESNODES[j])) and "
             "forall(lambda k: implies(k in C, exists(lambda j: 0 <= j and j < J and keyof(j) == k and C[k] == RESNODES[j])), CRKey)",
}
chain_id_to_resnode = FunctionContract(
    FG, 'ComputeStructuralGoBias._chain_id_to_resnode', 'C18', setup=setup_cir, spec_defs=SPEC_CIR, spec_env=dict(CRKey=CRKey),
    result_ty=TOpt(TInt),
    requires=[
        # different residues have different (chain, old residue number); the cache is either empty or the complete table
        "forall(lambda i, j: implies(0 <= i and i < j and j < len(RESNODES), keyof(i) != keyof(j)))",
        "len(old(CACHE)) == 0 or table(old(CACHE), len(RESNODES))",
    ],
    ensures=[
        # the residue with this chain and (old) residue number, or None - with a debug message - when there is none; afterwards
        # the cache is the complete table
        "implies(result is not None, exists(lambda j: 0 <= j and j < len(RESNODES) and wanted(j) and payload(result) == RESNODES[j]))",
        "implies(result is None, forall(lambda j: implies(0 <= j and j < len(RESNODES), not wanted(j))) and len(DEBUGGED) > len(old(DEBUGGED)))",
        "implies(result is None or len(old(CACHE)) == 0, table(CACHE, len(RESNODES)))",
    ],
    modifies=['CACHE', 'DEBUGGED'],
    loops={'L1': LoopSpec(inv=["forall(lambda j: implies(0 <= j and j < _i, keyof(j) in CACHE and CACHE[keyof(j)] == RESNODES[j]))",
                               "forall(lambda k: implies(k in CACHE, exists(lambda j: 0 <= j and j < len(RESNODES) and keyof(j) == k and "
                               "   CACHE[k] == RESNODES[j])), CRKey)",
                               "len(old(CACHE)) == 0 or table(old(CACHE), len(RESNODES))"],
                          modifies=['CACHE'])},
    canary=[("resid_key = self.res_graph.nodes[resnode].get('_old_resid')", "resid_key = self.res_graph.nodes[resnode].get('resid')"),
            ("self.__chain_id_to_resnode[(chain_key, resid_key)] = resnode", "self.__chain_id_to_resnode[(chain_key, resid_key)] = 0")],
)
CONTRACTS.append(chain_id_to_resnode)


# ------------------------------------------------------------------ ComputeStructuralGoBias.run_molecule: the three steps chained
def setup_go_run(cx):
    from pyvc.builtins import list_append
    molecule, rg, contacts = Obj('Molecule'), Obj('res_graph'), Obj('contacts')
    CALLS = cx.heap('CALLS', cx.box('CALLS', TSeq(TStr)))
    cx.spec_env.update(MOLECULE=molecule, RES_GRAPH=rg)

    def mrg(e, m):
        e.oblige(m is molecule, 'residue-graph:of-this-molecule')
        list_append(e, CALLS, 'make_residue_graph')
        return rg

    def selector(e, m):
        e.oblige(m is molecule and self.attrs.get('res_graph') is rg, 'contact_selector:on-this-molecule-with-its-residue-graph')
        list_append(e, CALLS, 'contact_selector')
        return contacts

    def compute(e, c):
        e.oblige(c is contacts, 'compute_go_interaction:of-the-selected-contacts')
        list_append(e, CALLS, 'compute_go_interaction')
    cx.spec_env['make_residue_graph'] = Builtin(mrg, 'make_residue_graph')
    self = Obj('ComputeStructuralGoBias', res_graph=None, contact_selector=Builtin(selector, 'self.contact_selector'),
               compute_go_interaction=Builtin(compute, 'self.compute_go_interaction'))
    return dict(self=self, molecule=molecule)


go_run_molecule = FunctionContract(
    FG, 'ComputeStructuralGoBias.run_molecule', 'C18', setup=setup_go_run,
    requires=["len(old(CALLS)) == 0"],
    ensures=[
        # the residue graph of this molecule is built first, the contacts are selected on this molecule with that residue graph, and
        # the Go interactions are computed from exactly those contacts (the three parts are proved above / under C19)
        "result is MOLECULE and self.res_graph is RES_GRAPH",
        "len(CALLS) == 3 and CALLS[0] == 'make_residue_graph' and CALLS[1] == 'contact_selector' and CALLS[2] == 'compute_go_interaction'",
    ],
    modifies=['CALLS', 'self.res_graph'],
    canary=[("self.compute_go_interaction(contacts)", "pass"), ("self.res_graph = make_residue_graph(molecule)", "res_graph = make_residue_graph(molecule)")],
)
CONTRACTS.append(go_run_molecule)


# ------------------------------------------------------------------ VirtualSiteCreator.run_molecule: the sites are named after the molecule's own type
def setup_vs_run(cx):
    from pyvc.builtins import list_append
    moltype = cx.val('MOLTYPE', TOpt(TStr))                  # molecule.meta.get('moltype')
    has_system = cx.val('HAS_SYSTEM', TBool)
    cx.spec_env.update(MOLTYPE=moltype, HAS_SYSTEM=has_system)
    VS = cx.heap('VS_CALLS', cx.box('VS_CALLS', TSeq(TStr)))     # calls of add_virtual_sites: the prefix given
    CIT = cx.heap('CITED', cx.box('CITED', TSeq(TStr)))
    backbone, atomname = Obj('backbone'), Obj('atomname')

    def meta_get(e, k, d=None):
        if k != 'moltype' or d is not None:
            raise EngineError('meta.get(%r, %r)' % (k, d))
        return moltype
    molecule = Obj('Molecule', meta=Obj('meta', get=Builtin(meta_get, 'meta.get')),
                   citations=Obj('citations', add=Builtin(lambda e, c: list_append(e, CIT, c), 'citations.add')))

    def avs(e, mol, prefix=None, backbone=None, atomname=None, **kw):
        e.oblige(mol is molecule and backbone is bb and atomname is an and not kw, 'sites:on-this-molecule-with-the-configured-selection-and-name')
        ot = TOpt(TStr)
        if isinstance(prefix, SV) and prefix.ty == ot:
            e.oblige(z3.Not(ot.is_none(prefix.e)), 'sites:prefix-is-a-name')
            prefix = SV(TStr, ot.get(prefix.e))
        list_append(e, VS, prefix)
    bb, an = backbone, atomname
    sysobj = Obj('system')
    sysobj.__dict__['truth'] = has_system.e
    me = Obj('VirtualSiteCreator', system=sysobj, backbone=backbone, atomname=atomname, add_virtual_sites=Builtin(avs, 'add_virtual_sites'))
    return dict(self=me, molecule=molecule)


vs_run_molecule = FunctionContract(
    F, 'VirtualSiteCreator.run_molecule', 'C18', short='VirtualSiteCreator.run_molecule', setup=setup_vs_run,
    requires=["len(old(VS_CALLS)) == 0 and len(old(CITED)) == 0"],
    ensures=[
        # the sites of a molecule are created once, with the molecule's own type name as prefix of their bead types ("named after the
        # molecule"), on the configured backbone selection and atom name; the Go model is cited
        "MOLTYPE is not None and len(payload(MOLTYPE)) > 0 and HAS_SYSTEM",
        "len(VS_CALLS) == 1 and VS_CALLS[0] == payload(MOLTYPE)",
        "len(CITED) == 1 and CITED[0] == 'M3_GO'",
    ],
    # no type name, or no system: ValueError before anything is created
    raises={'ValueError': ["MOLTYPE is None or len(payload(MOLTYPE)) == 0 or not HAS_SYSTEM", "len(VS_CALLS) == 0 and len(CITED) == 0"]},
    modifies=['VS_CALLS', 'CITED'],
    canary=[("prefix=moltype,", "prefix='molecule_0',"), ("if not moltype:", "if moltype:")],
)
CONTRACTS.append(vs_run_molecule)

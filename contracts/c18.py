"""C18 -- Go-model sites mirror the backbone: VirtualSiteCreator.add_virtual_sites."""
from pyvc.api import *
from pyvc.builtins import make_iter

F = 'vermouth/rcsu/go_vs_includes.py'
Atom, Pos = TKey('Atom'), TKey('Pos')
SiteAttrs = TTuple(TInt, TInt, TStr, TStr, TInt, TStr, Pos, TStr, TReal, TReal, TOpt(TStr),
                   names=['resid', '_old_resid', 'resname', 'atype', 'charge_group', 'chain', 'position', 'atomname', 'charge',
                          'mass', 'cgsecstruct'])
Site = TTuple(TInt, SiteAttrs)
VSMeta = TTuple(TBool, TStr, names=['go_vs', 'group'])
VS = TTuple(TSeq(TInt), TSeq(TStr), VSMeta, names=['atoms', 'parameters', 'meta'])
NodeRec = TTuple(TInt, Atom)

SPEC = {
    'is_bb': "lambda a: has_name(a) and name_of(a) == backbone",
}
RECS = [
    # number of backbone particles among the first i atoms
    ('NB', [('atoms', TSeq(NodeRec)), ('bb', TStr), ('i', TInt)], TInt,
     "0 if i <= 0 else NB(atoms, bb, i - 1) + (1 if (has_name(atoms[i - 1][1]) and name_of(atoms[i - 1][1]) == bb) else 0)"),
]


def setup(cx):
    eng = cx.eng
    f = {}
    for n, t in [('name_of', TStr), ('resid_of', TInt), ('oldresid_of', TInt), ('resname_of', TStr), ('chain_of', TStr),
                 ('pos_of', Pos), ('css_of', TOpt(TStr)), ('has_name', TBool)]:
        f[n] = cx.uf(n, [Atom], t)
    atype_of = cx.uf('atype_of', [TStr, TInt], TStr)          # '{}_{}'.format(prefix, resid)
    eng.format_hooks['{}_{}'] = lambda e, p, r: wrap(TStr, atype_of(to_z3(p, TStr), to_z3(r, TInt)))
    atoms = cx.val('atoms', TSeq(NodeRec))
    cx.spec_env['atoms'] = atoms
    maxkey = cx.val('maxkey', TInt)
    cx.spec_env['maxkey'] = maxkey
    maxcg = cx.val('maxcg', TInt)
    cx.spec_env['maxcg'] = maxcg

    def atom_view(a):
        ae = to_z3(a, Atom)
        keys = {'resid': (TInt, f['resid_of']), '_old_resid': (TInt, f['oldresid_of']), 'resname': (TStr, f['resname_of']),
                'chain': (TStr, f['chain_of']), 'position': (Pos, f['pos_of'])}
        o = Obj('atomdict')
        o.attrs['__getitem__'] = Builtin(lambda e, k: wrap(keys[k][0], keys[k][1](ae)), 'atom[]')

        def get(e, k, d=None):
            if k == 'atomname':
                return e.ite(f['has_name'](ae), wrap(TStr, f['name_of'](ae)), d)
            if k == 'cgsecstruct':
                return wrap(TOpt(TStr), f['css_of'](ae))
            raise KeyError(k)
        o.attrs['get'] = Builtin(get, 'atom.get')
        return o
    nodes = Obj('NodeView')
    nodes.__dict__['truth'] = True

    def nodes_call(e, data=False):
        it = make_iter(e, atoms)
        from pyvc.values import IterV
        return IterV(it.n, lambda i: (it.get(i)[0], atom_view(it.get(i)[1])))
    nodes.attrs['__call__'] = Builtin(nodes_call, 'nodes(data=True)')
    nodes.attrs['__len__'] = Builtin(lambda e: e.numval(TSeq(NodeRec).len(to_z3(atoms))), 'len(nodes)')
    ADDED = cx.heap('ADDED_NODES', Box(TSeq(Site)))
    ADDED_VS = cx.heap('ADDED_VS', Box(TSeq(VS)))
    TYPES = cx.heap('ATOMTYPES', Box(TSeq(TTuple(TInt))))
    mol = cx.obj('Molecule', nodes=nodes)
    mol.attrs['add_nodes_from'] = Builtin(lambda e, lst: setattr(ADDED, 'e', to_z3(lst)), 'add_nodes_from')
    inter = Box(None, kind='dict')
    vsn = Box(TSeq(VS))
    inter.cd = {'virtual_sitesn': vsn}
    mol.attrs['interactions'] = inter
    cx.heap('VSN', vsn)
    # max(molecule.nodes): the largest key;  max(charge groups) or 0
    def my_max(e, x):
        if x is nodes:
            return maxkey
        return maxcg
    cx.spec_env['max'] = Builtin(my_max, 'max')
    nx = Obj('nx')
    cgs = Obj('cgs')
    cgs.attrs['values'] = Builtin(lambda e: True, 'values')
    nx.attrs['get_node_attributes'] = Builtin(lambda e, m, a: cgs, 'get_node_attributes')
    cx.spec_env['nx'] = nx
    cx.spec_env['Interaction'] = Builtin(lambda e, atoms=None, parameters=None, meta=None: (atoms, parameters, meta), 'Interaction')
    cx.spec_env['Atomtype'] = Builtin(lambda e, node=None, molecule=None, sigma=None, epsilon=None, meta=None: (node,), 'Atomtype')
    system = Obj('system')
    gtp = Box(None, kind='dict')
    gtp.cd = {'atomtypes': TYPES}
    system.attrs['gmx_topology_params'] = gtp
    self = cx.obj('VirtualSiteCreator', system=system)
    return dict(self=self, molecule=mol, prefix=cx.val('prefix', TStr), backbone=cx.val('backbone', TStr),
                atomname=cx.val('atomname', TStr), charge=cx.val('charge', TReal))


SITE_K = ("{lst}[k][0] == maxkey + 1 + k and {lst}[k][1].resid == resid_of(atoms[g_src[k]][1]) and "
          "{lst}[k][1]._old_resid == oldresid_of(atoms[g_src[k]][1]) and {lst}[k][1].resname == resname_of(atoms[g_src[k]][1]) and "
          "{lst}[k][1].chain == chain_of(atoms[g_src[k]][1]) and {lst}[k][1].position == pos_of(atoms[g_src[k]][1]) and "
          "{lst}[k][1].mass == 0 and {lst}[k][1].charge == charge and {lst}[k][1].atomname == atomname and "
          "{lst}[k][1].atype == atype_of(prefix, resid_of(atoms[g_src[k]][1])) and {lst}[k][1].charge_group == maxcg + 1 + k")
VS_K = ("len({vs}[k].atoms) == 2 and {vs}[k].atoms[0] == maxkey + 1 + k and {vs}[k].atoms[1] == atoms[g_src[k]][0] and "
        "len({vs}[k].parameters) == 1 and {vs}[k].parameters[0] == '1'")
SRC_OK = ("forall(lambda k: implies(0 <= k and k < len(g_src), 0 <= g_src[k] and g_src[k] < {I} and is_bb(atoms[g_src[k]][1])))",
          "forall(lambda a, b: implies(0 <= a and a < b and b < len(g_src), g_src[a] < g_src[b]))")

add_virtual_sites = FunctionContract(
    F, 'VirtualSiteCreator.add_virtual_sites', 'C18', setup=setup, spec_defs=SPEC, spec_recs=RECS, spec_env=dict(Atom=Atom),
    locals=dict(virtual_site_nodes=TSeq(Site), virtual_sites=TSeq(VS), g_src=TSeq(TInt)),
    requires=["len(atoms) > 0", "forall(lambda i: implies(0 <= i and i < len(atoms), atoms[i][0] <= maxkey))", "maxcg >= 0"],
    ghost_at={'entry': "g_src = []"},
    ensures=[
        # exactly one site per backbone particle ...
        "len(ADDED_NODES) == NB(atoms, backbone, len(atoms))", "len(g_src) == len(ADDED_NODES)",
        SRC_OK[0].format(I='len(atoms)'), SRC_OK[1],
        # ... placed after all existing atoms, carrying its backbone particle's residue identity and position,
        # zero mass, the requested charge, and a type named after the molecule and the residue
        "forall(lambda k: implies(0 <= k and k < len(ADDED_NODES), " + SITE_K.format(lst='ADDED_NODES') + "))",
        # ... and constructed from exactly that particle
        "len(VSN) == len(old(VSN)) + len(ADDED_NODES)",
        "forall(lambda k: implies(0 <= k and k < len(ADDED_NODES), " + VS_K.format(vs='VSN[len(old(VSN)) + k:]') + "))"
        if False else
        "forall(lambda k: implies(0 <= k and k < len(ADDED_NODES), len(VSN[len(old(VSN)) + k].atoms) == 2 and "
        "   VSN[len(old(VSN)) + k].atoms[0] == maxkey + 1 + k and VSN[len(old(VSN)) + k].atoms[1] == atoms[g_src[k]][0] and "
        "   len(VSN[len(old(VSN)) + k].parameters) == 1 and VSN[len(old(VSN)) + k].parameters[0] == '1'))",
        "len(ATOMTYPES) == len(old(ATOMTYPES)) + len(ADDED_NODES)",
    ],
    modifies=['ADDED_NODES', 'VSN', 'ATOMTYPES'],
    loops={'L1': LoopSpec(
        inv=["len(virtual_site_nodes) == NB(atoms, backbone, _i) and len(virtual_sites) == len(virtual_site_nodes) and "
             "len(g_src) == len(virtual_site_nodes)",
             "new_node_id == maxkey + len(virtual_site_nodes) and new_charge_group == maxcg + len(virtual_site_nodes)",
             SRC_OK[0].format(I='_i'), SRC_OK[1],
             "forall(lambda k: implies(0 <= k and k < len(virtual_site_nodes), " + SITE_K.format(lst='virtual_site_nodes') + "))",
             "forall(lambda k: implies(0 <= k and k < len(virtual_sites), " + VS_K.format(vs='virtual_sites') + "))",
             "len(ATOMTYPES) == len(old(ATOMTYPES)) + len(virtual_site_nodes)"],
        modifies=['virtual_site_nodes', 'virtual_sites', 'ATOMTYPES', 'g_src'],
        locals=dict(g_src=TSeq(TInt)),
        ghost_end="if atom.get('atomname') == backbone:\n    g_src.append(_i)")},
    canary=[("new_node_id += 1", "new_node_id += 2"), ("atoms=[new_node_id, node_id]", "atoms=[new_node_id, new_node_id]"),
            ("'mass': 0.0", "'mass': 1.0")],
)
CONTRACTS = [add_virtual_sites]
LEMMAS = []

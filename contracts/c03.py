"""C03 -- coordinates, molecule types and .top agree: naming of molecule types, the include list, the shared atom order."""
from pyvc.api import *
from pyvc.builtins import getitem, setitem

F = 'vermouth/processors/name_moltype.py'
Mol = TKey('Mol')
Rep = TTuple(TInt, Mol)

SPEC = {
    'mols': "lambda: system.molecules",
}


def setup_dedup(cx):
    eng = cx.eng
    share = cx.uf('share', [Mol, Mol], TBool)        # Molecule.share_moltype_with (its own contract: see DESIGN C03)
    fmt = cx.uf('fmt', [TStr, TInt], TStr)           # '{}_{}'.format(molname, id)
    cx.uf('idx_of', [Mol], TInt)
    NAME = cx.heap('NAME', cx.box('NAME', TMap(Mol, TStr)))
    a, b = z3.Ints('a b')
    s = z3.String('s')
    cx.assume(z3.ForAll([s, a, b], z3.Implies(fmt(s, a) == fmt(s, b), a == b)))      # distinct ids give distinct names
    m = z3.Const('m', Mol.sort())
    cx.assume(z3.ForAll([m], share(m, m)))                                           # a molecule shares its own moltype
    eng.methods[('Mol', 'share_moltype_with')] = lambda e, x, y: wrap(TBool, share(to_z3(x, Mol), to_z3(y, Mol)))
    eng.format_hooks['{}_{}'] = lambda e, p, i: wrap(TStr, fmt(to_z3(p, TStr), to_z3(i, TInt)))

    def meta_of(e, mol):
        o = Obj('meta')
        o.attrs['__setitem__'] = Builtin(lambda e2, k, v: setitem(e2, NAME, mol, v), 'meta[]=')
        return o
    eng.attr_hooks[('Mol', 'meta')] = meta_of
    mols = cx.val('molecules', TSeq(Mol))
    return dict(self=cx.obj('NameMolType', meta_key='moltype', molname=cx.val('molname', TStr)),
                system=cx.obj('System', molecules=mols))


GOOD = ("forall(lambda i: implies(0 <= i and i < {I}, system.molecules[i] in g_grp and 0 <= g_grp[system.molecules[i]] and "
        "g_grp[system.molecules[i]] < len(representatives) and "
        "share(system.molecules[i], representatives[g_grp[system.molecules[i]]][1]) and "
        "NAME[system.molecules[i]] == fmt(self.molname, g_grp[system.molecules[i]]) and system.molecules[i] in NAME))")
REPS_OK = ("forall(lambda g: implies(0 <= g and g < len(representatives), representatives[g][0] == g))",
           "len(representatives) == group_id + 1")

name_with_dedup = FunctionContract(
    F, 'NameMolType._name_with_deduplication', 'C03', setup=setup_dedup, spec_defs=SPEC, spec_env=dict(Mol=Mol),
    requires=["len(system.molecules) > 0",
              # the molecules of a system are distinct objects
              "forall(lambda i: implies(0 <= i and i < len(system.molecules), idx_of(system.molecules[i]) == i))"],
    locals=dict(g_grp=TMap(Mol, TInt), representatives=TSeq(Rep)),
    ghost_at={'entry': "g_grp = {}"},
    ensures=[
        GOOD.format(I='len(system.molecules)'),
        # two molecules get the same name only if both share their molecule type with one and the same representative
        "forall(lambda i, j: implies(0 <= i and i < len(system.molecules) and 0 <= j and j < len(system.molecules) and "
        "   NAME[system.molecules[i]] == NAME[system.molecules[j]], "
        "   share(system.molecules[i], representatives[g_grp[system.molecules[i]]][1]) and "
        "   share(system.molecules[j], representatives[g_grp[system.molecules[i]]][1])))",
    ],
    modifies=['NAME'],
    loops={
        'L1': LoopSpec(inv=[GOOD.format(I='_i'), REPS_OK[0], REPS_OK[1],
                            "forall(lambda m: implies(m in g_grp, 0 <= idx_of(m) and idx_of(m) < _i and system.molecules[idx_of(m)] == m), Mol)"],
                       modifies=['NAME', 'g_grp', 'representatives'], locals=dict(g_grp=TMap(Mol, TInt), representatives=TSeq(Rep)),
                       ghost_end="g_grp[molecule] = match_id"),
        'L1.1': LoopSpec(inv=["forall(lambda j: implies(0 <= j and j < _i, not share(molecule, representatives[j][1])))"]),
    },
    canary=[("molecule.share_moltype_with(template)", "not molecule.share_moltype_with(template)"),
            ("match_id = group_id", "match_id = 0")],
)

CONTRACTS = [name_with_dedup]
LEMMAS = []


# ------------------------------------------------------------------ structural obligations on the real AST (ast-eval)
import ast as _ast
import os as _os
import re as _re

_REPO = _os.environ.get('VERIF_REPO', '/repo')


def _parse(rel):
    return _ast.parse(open(_os.path.join(_REPO, rel)).read())


def _find(tree, qual):
    body, node = tree.body, None
    for p in qual.split('.'):
        node = next(st for st in body if isinstance(st, (_ast.FunctionDef, _ast.ClassDef)) and st.name == p)
        body = node.body
    return node


# ------------------------------------------------------------------ write_gmx_topology: groups of successive molecules
FT = 'vermouth/gmx/topology.py'
Count = TTuple(TStr, TInt)
Written = TTuple(TStr, Mol)


def setup_top(cx):
    eng = cx.eng
    from pyvc.values import IterV
    from pyvc.builtins import _int, list_append, StatefulIter
    mols = cx.val('molecules', TSeq(Mol))
    cx.spec_env['all_mols'] = mols
    mty = TSeq(Mol)
    me = to_z3(mols)
    moltype = cx.uf('moltype', [Mol], TStr)                # molecule.meta['moltype']
    has_ff = cx.uf('has_ff', [Mol], TBool)
    ncit = cx.uf('ncit', [Mol], TInt)
    m_ = z3.Const('m', Mol.sort())
    cx.assume(z3.ForAll([m_], ncit(m_) >= 0))
    # assumed contract of itertools.groupby(seq, key): the maximal runs of successive elements with equal keys, in order
    G = z3.Int('n_groups')
    cx.spec_env['n_groups'] = SV(TInt, G)
    start = cx.uf('g_start', [TInt], TInt)
    size = cx.uf('g_size', [TInt], TInt)
    g, i = z3.Ints('g i')
    n = mty.len(me)
    cx.assume(z3.And(G >= 0, (G == 0) == (n == 0), start(0) == 0, start(G) == n))
    cx.assume(z3.ForAll([g], z3.Implies(z3.And(0 <= g, g < G), z3.And(size(g) >= 1, start(g + 1) == start(g) + size(g), start(g) >= 0,
                                                                     start(g) + size(g) <= n)), patterns=[size(g)]))
    cx.assume(z3.ForAll([g], z3.Implies(z3.And(0 <= g, g + 1 < G), moltype(mty.at(me, start(g))) != moltype(mty.at(me, start(g + 1)))),
                        patterns=[size(g)]))
    WRITTEN = cx.heap('WRITTEN', Box(TSeq(Written)))       # write_molecule_itp(molecule, <moltype>.itp) calls, in order
    groups = IterV(G, lambda k: (SV(TStr, moltype(mty.at(me, start(_int(k))))),
                                 StatefulIter(IterV(size(_int(k)), lambda j: SV(Mol, mty.at(me, start(_int(k)) + _int(j)))))))
    eng.attr_hooks[('Mol', 'force_field')] = lambda e, m: (Obj('ForceField', citations=Obj('citations'))
                                                           if e.branch(has_ff(to_z3(m, Mol))) else None)

    def meta(e, m):
        o = Obj('meta')
        o.attrs['__getitem__'] = Builtin(lambda e2, k: SV(TStr, moltype(to_z3(m, Mol))) if k == 'moltype' else
                                         (_ for _ in ()).throw(EngineError('meta[%r]' % (k,))), 'meta[]')
        return o
    eng.attr_hooks[('Mol', 'meta')] = meta
    eng.attr_hooks[('Mol', 'citations')] = lambda e, m: IterV(ncit(to_z3(m, Mol)), lambda j: Obj('citation'))
    cx.spec_env['ChainMap'] = Builtin(lambda e, *a: Obj('ChainMap', __getitem__=Builtin(lambda e2, k: Obj('entry'), 'map[]')), 'ChainMap')
    cx.spec_env['COMMON_CITATIONS'] = Obj('COMMON_CITATIONS', __getitem__=Builtin(lambda e2, k: Obj('entry'), 'map[]'))
    cx.spec_env['citation_formatter'] = Builtin(lambda e, c: SV(TStr, e.fresh(TStr, 'cite')), 'citation_formatter')
    log = Obj('LOGGER')
    log.attrs['info'] = Builtin(lambda e, *a, **k: None, 'LOGGER.info')
    cx.spec_env['LOGGER'] = log
    opened = {}

    def deferred_open(e, name, mode):
        h = Obj('outfile')
        h.__dict__['name'] = name
        return h
    cx.spec_env['deferred_open'] = Builtin(deferred_open, 'deferred_open')
    fmt_itp = cx.uf('itp_name', [TStr], TStr)
    eng.format_hooks['{}.itp'] = lambda e, mt: SV(TStr, fmt_itp(to_z3(mt, TStr)))

    def write_itp(e, molecule, outfile, header=None):
        nm = outfile.__dict__['name']
        list_append(e, WRITTEN, (nm, molecule))
    itp = Obj('itp', write_molecule_itp=Builtin(write_itp, 'write_molecule_itp'))
    cx.spec_env['vermouth'] = Obj('vermouth', gmx=Obj('gmx', itp=itp))
    header = cx.box('header', TSeq(TStr))
    cx.assume(TSeq(TStr).len(header.e) >= 1)
    return dict(molecule_groups=groups, header=header, moltype_written=Box(TSet(TStr)), moltype_count=Box(TSeq(Count)),
                max_name_length=0)


SPEC_TOP = {
    'gtype': "lambda g: moltype(all_mols[g_start(g)])",
    # the first group in which a molecule type occurs
    'first_group': "lambda g: forall(lambda h: implies(0 <= h and h < g, gtype(h) != gtype(g)))",
}
COUNTS = ("len(moltype_count) == {G} and forall(lambda g: implies(0 <= g and g < {G}, moltype_count[g][0] == gtype(g) and "
          "moltype_count[g][1] == g_size(g)))")
WRITES = [
    "forall(lambda w: implies(0 <= w and w < len(WRITTEN), 0 <= g_wsrc[w] and g_wsrc[w] < {G} and first_group(g_wsrc[w]) and "
    "   WRITTEN[w][0] == itp_name(gtype(g_wsrc[w])) and WRITTEN[w][1] == all_mols[g_start(g_wsrc[w])]))",
    "forall(lambda w, v: implies(0 <= w and w < v and v < len(WRITTEN), g_wsrc[w] < g_wsrc[v]))",
    "forall(lambda g: implies(0 <= g and g < {G} and not (g in g_wpos), 0 <= g_dup[g] and g_dup[g] < g and gtype(g_dup[g]) == gtype(g)))",
    "forall(lambda g: implies(g in g_wpos, 0 <= g and g < {G} and 0 <= g_wpos[g] and g_wpos[g] < len(WRITTEN) and g_wsrc[g_wpos[g]] == g))",
    "forall(lambda t: implies(t in moltype_written, t in g_tw and 0 <= g_tw[t] and g_tw[t] < {G} and gtype(g_tw[t]) == t), TStr)",
    "forall(lambda g: implies(0 <= g and g < {G}, gtype(g) in moltype_written))",
    "len(g_wsrc) == len(WRITTEN)",
]
top_groups = FunctionContract(
    FT, 'write_gmx_topology', 'C03', short='write_gmx_topology[groups]', setup=setup_top, spec_defs=SPEC_TOP, spec_env=dict(Mol=Mol),
    region=dict(start="for moltype, molecules in molecule_groups:", end="template = textwrap.dedent("),
    locals=dict(moltype_count=TSeq(Count), moltype_written=TSet(TStr), g_wsrc=TSeq(TInt), g_wpos=TMap(TInt, TInt),
                g_dup=TMap(TInt, TInt), g_tw=TMap(TStr, TInt)),
    requires=["len(old(WRITTEN)) == 0"],
    ghost_at={'entry': "g_wsrc = []\ng_wpos = {}\ng_dup = {}\ng_tw = {}"},
    ensures=[
        # the [ molecules ] entries: one per group of successive molecules of one type, in order, with the size of the group
        COUNTS.format(G='n_groups'),
        # one ITP per molecule type: written for the first molecule of the first group of that type, under that type's name,
        # and never again
        WRITES[0].format(G='n_groups'), WRITES[1],
        # (a group without a write of its own repeats the type of an earlier group)
        WRITES[2].format(G='n_groups'), WRITES[3].format(G='n_groups'),
    ],
    modifies=['WRITTEN', 'header'],
    loops={
        'L1': LoopSpec(inv=[COUNTS.format(G='_i')] + [w.format(G='_i') for w in WRITES] + ["len(header) >= 1"],
                       modifies=['WRITTEN', 'header', 'moltype_count', 'moltype_written', 'g_wsrc', 'g_wpos', 'g_dup', 'g_tw'],
                       locals=dict(moltype_count=TSeq(Count), moltype_written=TSet(TStr), g_wsrc=TSeq(TInt), g_wpos=TMap(TInt, TInt),
                                   g_dup=TMap(TInt, TInt), g_tw=TMap(TStr, TInt), g_w0=TInt, max_name_length=TInt),
                       ghost_pre="g_w0 = len(WRITTEN)\ng_seen = moltype in moltype_written",
                       ghost_end="if len(WRITTEN) > g_w0:\n    g_wsrc.append(_i)\n    g_wpos[_i] = g_w0\n"
                                 "if g_seen:\n    g_dup[_i] = g_tw[moltype]\nelse:\n    g_tw[moltype] = _i"),
        'L1.1': LoopSpec(inv=["len(header) >= 1", "len(WRITTEN) == g_w0"], modifies=['header']),
    },
    canary=[("moltype_count.append([moltype, 1 + len(list(molecules))])", "moltype_count.append([moltype, len(list(molecules))])"),
            ("if moltype not in moltype_written:", "if True:")],
)
CONTRACTS.append(top_groups)


# ------------------------------------------------------------------ the shared atom order: both writers follow sorted_nodes
# "the k-th coordinate record of a molecule is the k-th atom of the ITP of its molecule type": the ITP's k-th atom line is the
# k-th node of molecule.sorted_nodes (contract of the [ atoms ] region, C02) and the k-th ATOM record of a molecule in the PDB
# is the k-th node of molecule.sorted_nodes (contract of the ATOM / TER loop, C16).  Both are re-verified here.
import copy as _copy
from contracts import c02 as _c02, c16 as _c16
for _c in (_c02.atoms_loop, _c16.serials, _c02.sorted_nodes):
    _c = _copy.copy(_c)
    _c.prop = 'C03'
    CONTRACTS.append(_c)
for _l in (_c16.L_nat_nonneg, _c16.L_nat_mono):
    _l = _copy.copy(_l)
    _l.prop = 'C03'
    LEMMAS.append(_l)


def extra_obligations(tier):
    obs = []

    def ob(name, ok, detail, function='', bad=True):
        # ok: the expected shape is there (discharged); not ok and `bad`: the shape known to violate the property is there
        # (failed); not ok and not bad: the code was restructured beyond what this scan recognises (undecided, no alarm)
        obs.append(dict(name=name, status='unsat' if ok else ('sat' if bad else 'unknown'), backend='ast-eval', detail=detail,
                        key=name, function=function))
    try:
        itp = _find(_parse('vermouth/gmx/itp.py'), 'write_molecule_itp')
        pdb = _find(_parse('vermouth/pdb/pdb.py'), 'write_pdb_string')
        # L1: the k-th coordinate record and the k-th ITP atom are both the k-th element of molecule.sorted_nodes
        itp_loop = [n for n in _ast.walk(itp) if isinstance(n, _ast.For) and 'correspondence[' in _ast.unparse(n)]
        itp_iter = _ast.unparse(itp_loop[0].iter) if itp_loop else '?'
        ob('order:itp-atoms-follow-sorted_nodes', itp_iter == 'enumerate(molecule.sorted_nodes, start=1)',
           'the [ atoms ] loop iterates %s' % itp_iter, 'write_molecule_itp',
           bad='sorted_nodes' not in itp_iter or 'start=1' not in itp_iter)
        pdb_loop = [n for n in _ast.walk(pdb) if isinstance(n, _ast.For) and 'nodeidx2atomid[' in _ast.unparse(n) and
                    isinstance(n.target, _ast.Name) and n.target.id == 'node_idx']
        pdb_iter = _ast.unparse(pdb_loop[0].iter) if pdb_loop else '?'
        ob('order:pdb-records-follow-sorted_nodes', pdb_iter == 'molecule.sorted_nodes', 'the ATOM loop iterates %s' % pdb_iter, 'write_pdb_string',
           bad='sorted_nodes' not in pdb_iter)
        # L2: molecules that share a moltype have the same written topology: no attribute that the ITP atom line or the
        # atom order depends on may be ignored by share_moltype_with
        mol = _parse('vermouth/molecule.py')
        smw = _find(mol, 'Molecule.share_moltype_with')
        ignore = next(_ast.literal_eval(st.value) for st in _ast.walk(smw) if isinstance(st, _ast.Assign)
                      and isinstance(st.targets[0], _ast.Name) and st.targets[0].id == 'ignore_attrs')
        fmt = ''.join(c.value for c in _ast.walk(itp_loop[0]) if isinstance(c, _ast.Constant) and isinstance(c.value, str))
        written = set(_re.findall(r'\{(\w+):', fmt)) - {'idx'}
        srt = _find(mol, 'Molecule.sorted_nodes')
        order_keys = {c.value for c in _ast.walk(srt) if isinstance(c, _ast.Constant) and isinstance(c.value, str) and c.value.isidentifier()}
        needed = written | order_keys
        ob('dedup:ignored-attributes-not-written', not (set(ignore) & needed) and {'atomname', 'resname', 'resid'} <= written,
           'share_moltype_with ignores %s; the ITP atom line states %s, the atom order depends on %s'
           % (sorted(ignore), sorted(written), sorted(order_keys)), 'Molecule.share_moltype_with')
        cmp_ = _ast.unparse(next(n for n in _ast.walk(smw) if isinstance(n, _ast.Return)).value)
        ob('dedup:compares-nodes-edges-interactions', all(x in cmp_ for x in ('self.nrexcl == other.nrexcl', 'self.same_nodes(other, ignore_attr=ignore_attrs)',
                                                                              'self.same_edges(other)', 'self.same_interactions(other)')),
           'share_moltype_with returns %s' % cmp_, 'Molecule.share_moltype_with')
        # the .top: one [ molecules ] line per run of equal names, includes from the distinct names
        top = _find(_parse('vermouth/gmx/topology.py'), 'write_gmx_topology')
        loop = next(n for n in _ast.walk(top) if isinstance(n, _ast.For) and _ast.unparse(n.iter) == 'molecule_groups')
        direct = [_ast.unparse(st) for st in loop.body]
        ob('top:one-count-per-run', 'moltype_count.append([moltype, 1 + len(list(molecules))])' in direct and
           _ast.unparse(loop.body[0]) == 'molecule = next(molecules)',
           'the loop over groupby runs appends [moltype, 1 + len(list(molecules))] once per run (direct statements: %d)' % len(direct),
           'write_gmx_topology', bad=any('moltype_count.append' in _ast.unparse(n) for st in loop.body if isinstance(st, (_ast.If, _ast.For, _ast.With, _ast.Try))
                                         for n in [st]) or not any('moltype_count.append' in d for d in direct))
        groups = next(_ast.unparse(st.value) for st in _ast.walk(top) if isinstance(st, _ast.Assign)
                      and isinstance(st.targets[0], _ast.Name) and st.targets[0].id == 'molecule_groups')
        ob('top:runs-in-coordinate-order', _norm(groups) == _norm("itertools.groupby(system.molecules, key=lambda x: x.meta['moltype'])"),
           'runs are %s' % groups, 'write_gmx_topology', bad='sorted' in groups or 'groupby' not in groups)
        inc = next((_ast.unparse(st.value) for st in _ast.walk(top) if isinstance(st, _ast.Assign)
                    and isinstance(st.targets[0], _ast.Name) and st.targets[0].id == 'included_moltypes'), None)
        inc_use = next((_ast.unparse(n) for n in _ast.walk(top) if isinstance(n, _ast.GeneratorExp) and '#include' in _ast.unparse(n)), '')
        ob('top:include-once', inc is not None and _norm(inc).startswith('dict.fromkeys(') and 'for molecule_type in included_moltypes' in inc_use,
           'the include lines are generated from %s = %s (the keys of a dict: each name once)' % ('included_moltypes', inc), 'write_gmx_topology',
           bad='in moltype_count' in inc_use)
        wr = [n for n in _ast.walk(loop) if isinstance(n, _ast.If) and _ast.unparse(n.test) == 'moltype not in moltype_written']
        ob('top:itp-written-once-per-name', len(wr) == 1 and 'write_molecule_itp(molecule, outfile' in _ast.unparse(wr[0]) and
           'moltype_written.add(moltype)' in _ast.unparse(wr[0]),
           'the ITP of a name is written from the first molecule of its first run, guarded by moltype_written', 'write_gmx_topology', bad=False)
    except Exception as ex:
        obs.append(dict(name='structure:extraction', status='unknown', backend='ast-eval', detail='%s: %s' % (type(ex).__name__, ex),
                        key='structure:extraction'))
    return obs


def _norm(s):
    return ''.join(s.split())


# ------------------------------------------------------------------ Molecule.same_nodes: when two molecules may share a molecule type
NKey3, AKey3, AVal3 = TKey('NKey3'), TKey('AKey3'), TKey('AVal3')
Attr3 = TMap(AKey3, AVal3)
FM3 = 'vermouth/molecule.py'


def setup_same_nodes(cx):
    from pyvc.values import IterV
    from pyvc.builtins import _int
    ka, kb = cx.val('KEYS_A', TSeq(NKey3)), cx.val('KEYS_B', TSeq(NKey3))
    va, vb = cx.val('ATTRS_A', TSeq(Attr3)), cx.val('ATTRS_B', TSeq(Attr3))
    ign = cx.val('IGNORED', TSet(AKey3))
    cx.spec_env.update(KEYS_A=ka, KEYS_B=kb, ATTRS_A=va, ATTRS_B=vb, IGNORED=ign)
    cx.assume(z3.And(TSeq(NKey3).len(ka.e) == TSeq(Attr3).len(va.e), TSeq(NKey3).len(kb.e) == TSeq(Attr3).len(vb.e)))
    diff = cx.uf('differ', [AVal3, AVal3], TBool)            # utils.are_different(a, b)
    cx.spec_env['utils'] = Obj('utils', are_different=Builtin(lambda e, a, b: wrap(TBool, diff(to_z3(a, AVal3), to_z3(b, AVal3))), 'utils.are_different'))

    def mol(keys, vals):
        return Obj('Molecule', nodes=Obj('NodeView', keys=Builtin(lambda e: keys, 'nodes.keys'), values=Builtin(lambda e: vals, 'nodes.values')))
    return dict(self=mol(ka, va), other=mol(kb, vb), ignore_attr=ign)


SPEC_SN3 = {
    'same_keys': "lambda: len(KEYS_A) == len(KEYS_B) and forall(lambda k: implies(0 <= k and k < len(KEYS_A), KEYS_A[k] == KEYS_B[k]))",
    # the k-th atoms agree on every attribute that is not ignored: both have it or neither, and the values are not different
    'agree': "lambda k: forall(lambda a: implies(not (a in IGNORED), (a in ATTRS_A[k]) == (a in ATTRS_B[k]) and "
             "implies(a in ATTRS_A[k], not differ(ATTRS_A[k][a], ATTRS_B[k][a]))), AKey3)",
}
same_nodes = FunctionContract(
    FM3, 'Molecule.same_nodes', 'C03', setup=setup_same_nodes, spec_defs=SPEC_SN3, spec_env=dict(AKey3=AKey3),
    ensures=[
        # two molecules have the same nodes exactly when they have the same node keys in the same order and every pair of
        # corresponding atoms agrees on all attributes outside the ignored ones
        "implies(result, same_keys() and forall(lambda k: implies(0 <= k and k < len(KEYS_A), agree(k))))",
        "implies(not result, not (same_keys() and forall(lambda k: implies(0 <= k and k < len(KEYS_A), agree(k)))))",
    ],
    loops={'L1': LoopSpec(inv=["same_keys()", "forall(lambda k: implies(0 <= k and k < _i, agree(k)))"]),
           'L1.1': LoopSpec(inv=["forall(lambda a: implies(a in self_keys and _posL1_1(a) < _i, not differ(self_node[a], other_node[a])), AKey3)"])},
    canary=[("if self_keys != other_keys:", "if not self_keys <= other_keys:"),
            ("if utils.are_different(self_value, other_value):", "if not utils.are_different(self_value, other_value):"),
            ("if key not in ignore_attr)\n            other_keys", "if key in ignore_attr)\n            other_keys")],
)
CONTRACTS.append(same_nodes)



# ------------------------------------------------------------------ Molecule.share_moltype_with: what is compared, what is ignored
def setup_smw(cx):
    flags = {k: cx.val(k, TBool) for k in ('NREXCL_EQ', 'FF_EQ', 'NODES_EQ', 'EDGES_EQ', 'INTER_EQ')}
    cx.spec_env.update(flags)
    IGN = cx.heap('IGNORED_ATTRS', Box(TSeq(TStr)))         # the attributes same_nodes is told to ignore
    other = Obj('Molecule', nrexcl=Obj('nrexcl-other'), _force_field=Obj('ff-other'))

    class Eq:
        pass

    def eq_obj(flag):
        o = Obj('value')
        o.__dict__['eq_flag'] = flag
        return o
    nrexcl, ff = eq_obj(flags['NREXCL_EQ']), eq_obj(flags['FF_EQ'])
    cx.eng.eq_hooks = getattr(cx.eng, 'eq_hooks', {})

    def same_nodes_(e, o, ignore_attr=()):
        if o is not other or not isinstance(ignore_attr, tuple) or not all(isinstance(a, str) for a in ignore_attr):
            raise EngineError('same_nodes(%r, %r)' % (o, ignore_attr))
        IGN.e = to_z3(Box(TSeq(TStr)), TSeq(TStr))
        from pyvc.builtins import list_append
        for a in ignore_attr:
            list_append(e, IGN, a)
        return flags['NODES_EQ']
    me = Obj('Molecule', nrexcl=nrexcl, _force_field=ff, same_nodes=Builtin(same_nodes_, 'self.same_nodes'),
             same_edges=Builtin(lambda e, o: flags['EDGES_EQ'] if o is other else (_ for _ in ()).throw(EngineError('same_edges')), 'self.same_edges'),
             same_interactions=Builtin(lambda e, o: flags['INTER_EQ'] if o is other else (_ for _ in ()).throw(EngineError('same_interactions')),
                                       'self.same_interactions'))
    nrexcl.attrs['__eq__'] = Builtin(lambda e, o: flags['NREXCL_EQ'] if o is other.attrs['nrexcl'] else (_ for _ in ()).throw(EngineError('==')), '==')
    ff.attrs['__eq__'] = Builtin(lambda e, o: flags['FF_EQ'] if o is other.attrs['_force_field'] else (_ for _ in ()).throw(EngineError('==')), '==')
    return dict(self=me, other=other)


share_moltype_with = FunctionContract(
    FM3, 'Molecule.share_moltype_with', 'C03', setup=setup_smw,
    ensures=[
        # two molecules share a molecule type exactly when they agree on nrexcl, the force field, the nodes - ignoring only
        # position, chain, the mapped subgraph and the mapping weights -, the bonds and the interactions
        "result == (NREXCL_EQ and FF_EQ and NODES_EQ and EDGES_EQ and INTER_EQ)",
        "implies(NREXCL_EQ and FF_EQ, len(IGNORED_ATTRS) == 4 and IGNORED_ATTRS[0] == 'position' and IGNORED_ATTRS[1] == 'chain' and "
        "   IGNORED_ATTRS[2] == 'graph' and IGNORED_ATTRS[3] == 'mapping_weights')",
    ],
    modifies=['IGNORED_ATTRS'],
    canary=[("ignore_attrs = ('position', 'chain', 'graph', 'mapping_weights')", "ignore_attrs = ('position', 'chain', 'graph', 'mapping_weights', 'atomid')"),
            ("self.same_edges(other) and", "")],
)
CONTRACTS.append(share_moltype_with)


# ------------------------------------------------------------------ Molecule.same_interactions
IType3, Inter3 = TKey('IType3'), TKey('Inter3')
ITable3 = TMap(IType3, TSeq(Inter3))


def setup_same_inter(cx):
    a, b = cx.val('INTER_A', ITable3), cx.val('INTER_B', ITable3)
    cx.spec_env.update(INTER_A=a, INTER_B=b)
    return dict(self=Obj('Molecule', interactions=a), other=Obj('Molecule', interactions=b))


SPEC_SI3 = {
    'live': "lambda T, t: t in T and len(T[t]) > 0",
    'same_list': "lambda x, y: len(x) == len(y) and forall(lambda i: implies(0 <= i and i < len(x), x[i] == y[i]))",
}
same_interactions = FunctionContract(
    FM3, 'Molecule.same_interactions', 'C03', setup=setup_same_inter, spec_defs=SPEC_SI3, spec_env=dict(IType3=IType3),
    ensures=[
        # the same interactions: the same types have interactions at all (empty lists do not count), and for each of them the
        # two lists are equal, element by element and in order
        "result == (forall(lambda t: live(INTER_A, t) == live(INTER_B, t), IType3) and "
        "   forall(lambda t: implies(live(INTER_A, t), same_list(INTER_A[t], INTER_B[t])), IType3))",
    ],
    canary=[("if keys_self != keys_other:", "if not keys_self <= keys_other:"),
            ("return all(", "return any(")],
)
CONTRACTS.append(same_interactions)


# ------------------------------------------------------------------ Molecule.same_edges
PairK3, EAttr3 = TKey('PairK3'), TKey('EAttr3')
Edge3 = TTuple(NKey3, NKey3, EAttr3, names=['a', 'b', 'attrs'])


def setup_same_edges(cx):
    from pyvc.values import IterV
    from pyvc.builtins import _int
    ea, eb = cx.val('EDGES_A', TSeq(Edge3)), cx.val('EDGES_B', TSeq(Edge3))
    cx.spec_env.update(EDGES_A=ea, EDGES_B=eb)
    pk = cx.uf('pk', [NKey3, NKey3], PairK3)                # frozenset((a, b)): the unordered pair
    x, y = z3.Const('px', NKey3.sort()), z3.Const('py', NKey3.sort())
    cx.assume(z3.ForAll([x, y], pk(x, y) == pk(y, x)))
    diff = cx.uf('differ_e', [EAttr3, EAttr3], TBool)
    cx.spec_env['utils'] = Obj('utils', are_different=Builtin(lambda e, a, b: wrap(TBool, diff(to_z3(a, EAttr3), to_z3(b, EAttr3))), 'utils.are_different'))

    def frozenset_(e, t):
        if not isinstance(t, tuple) or len(t) != 2:
            raise EngineError('frozenset(%r)' % (t,))
        return SV(PairK3, pk(to_z3(t[0], NKey3), to_z3(t[1], NKey3)))
    cx.spec_env['frozenset'] = Builtin(frozenset_, 'frozenset')

    def mol(edges):
        st = TSeq(Edge3)

        def edges_(e, data=False):
            if data is not True:
                raise EngineError('edges(data=%r)' % (data,))
            return IterV(st.len(edges.e), lambda i: tuple(SV(t, Edge3.get(st.at(edges.e, _int(i)), k)) for k, t in enumerate(Edge3.ts)))
        return Obj('Molecule', edges=Builtin(edges_, 'edges'))
    return dict(self=mol(ea), other=mol(eb))


SPEC_SE3 = {
    'key': "lambda E, q: pk(E[q].a, E[q].b)",
    'has': "lambda E, p: exists(lambda q: 0 <= q and q < len(E) and key(E, q) == p)",
    # a graph holds every bond once
    'simple': "lambda E: forall(lambda q, r: implies(0 <= q and q < r and r < len(E), key(E, q) != key(E, r)))",
}
same_edges = FunctionContract(
    FM3, 'Molecule.same_edges', 'C03', setup=setup_same_edges, spec_defs=SPEC_SE3, spec_env=dict(PairK3=PairK3),
    requires=["simple(EDGES_A) and simple(EDGES_B)"],
    ensures=[
        # the same bonds: the same unordered pairs of atoms are bonded, and the attributes of corresponding bonds are not different
        "result == (forall(lambda p: has(EDGES_A, p) == has(EDGES_B, p), PairK3) and "
        "   forall(lambda q, r: implies(0 <= q and q < len(EDGES_A) and 0 <= r and r < len(EDGES_B) and key(EDGES_A, q) == key(EDGES_B, r), "
        "      not differ_e(EDGES_A[q].attrs, EDGES_B[r].attrs))))",
    ],
    canary=[("if set(edges_self.keys()) != set(edges_other.keys()):", "if not set(edges_self.keys()) <= set(edges_other.keys()):"),
            ("not utils.are_different(edges_self[edge], edges_other[edge])", "utils.are_different(edges_self[edge], edges_other[edge])")],
)
CONTRACTS.append(same_edges)


# ------------------------------------------------------------------ SortMoleculeAtoms.run_molecule: the atoms end up in sorted order
FS = 'vermouth/processors/sort_molecule_atoms.py'
SKeyN, SAttr, SVal = TKey('SKeyN'), TKey('SAttr'), TKey('SVal')


def setup_sma(cx):
    from pyvc.builtins import _int
    eng = cx.eng
    order = cx.val('NODE_ORDER', TSeq(SKeyN))                # sorted(molecule, key=...): an arrangement of the molecule's atoms
    cx.spec_env.update(NODE_ORDER=order, SKeyN=SKeyN, SAttr=SAttr)
    st = TSeq(SKeyN)
    n = st.len(order.e)
    POS = cx.heap('POS', cx.box('POS', TMap(SKeyN, TInt)))   # molecule._node (an ordered dictionary): atom -> its place in the order
    ATTR = cx.heap('ATTR', cx.box('ATTR', TMap(TTuple(SKeyN, SAttr), TInt)))      # integer attributes written by this processor
    target = cx.val('TARGET', TOpt(SAttr))
    sortby = Obj('sortby_attrs')
    cx.spec_env['TARGET'] = target
    molecule = Obj('Molecule')
    keyfunc = Obj('_keyfunc')

    def partial_(e, f, *a, **k):
        return Obj('partial', func=f, args=a, kw=k)

    def sorted_(e, xs, key=None, reverse=False):
        ok = xs is molecule and isinstance(key, Obj) and key.cls == 'partial' and key.attrs['func'] is keyfunc and \
            len(key.attrs['args']) == 1 and key.attrs['args'][0] is molecule and set(key.attrs['kw']) == {'attrs'} and \
            key.attrs['kw']['attrs'] is sortby and not reverse
        e.oblige(ok, 'sorted:the-atoms-of-this-molecule-by-the-attributes-asked-for')
        return order

    def move_to_end(e, k):
        # OrderedDict.move_to_end(k): k becomes the last one; those behind it move up by one; the others stay
        ke = to_z3(k, SKeyN)
        mt = POS.ty
        e.maybe_raise(mt.has(POS.e, ke), 'KeyError')
        new = e.fresh_val(mt, 'moved')
        x = z3.Const('mx', SKeyN.sort())
        p = mt.at(POS.e, ke)
        e.assume(z3.ForAll([x], z3.And(mt.has(new.e, x) == mt.has(POS.e, x),
                                       mt.at(new.e, x) == z3.If(x == ke, mt.n(POS.e) - 1,
                                                                z3.If(mt.at(POS.e, x) > p, mt.at(POS.e, x) - 1, mt.at(POS.e, x))))))
        e.assume(mt.n(new.e) == mt.n(POS.e))
        POS.e = new.e

    def node(e, k):
        def set_(e2, a, v):
            from pyvc.builtins import setitem
            setitem(e2, ATTR, (k, a), v)
        return Obj('atomdict', __setitem__=Builtin(set_, 'node[]='))
    cx.spec_env['partial'] = Builtin(partial_, 'partial')
    cx.spec_env['sorted'] = Builtin(sorted_, 'sorted')
    cx.spec_env['_keyfunc'] = keyfunc
    molecule.attrs.update(_node=Obj('OrderedDict', move_to_end=Builtin(move_to_end, 'move_to_end')),
                          nodes=Obj('NodeView', __getitem__=Builtin(node, 'molecule.nodes[]')))
    return dict(self=Obj('SortMoleculeAtoms', sortby_attrs=sortby, target_attr=target), molecule=molecule)


SMA_PRE = [
    # sorted() returns an arrangement of the molecule's atoms: each atom once; the ordered dictionary holds exactly them, at the places 0..n-1
    "len(POS) == len(NODE_ORDER)",
    "forall(lambda a, b: implies(0 <= a and a < b and b < len(NODE_ORDER), NODE_ORDER[a] != NODE_ORDER[b]))",
    "forall(lambda a: implies(0 <= a and a < len(NODE_ORDER), NODE_ORDER[a] in POS and 0 <= POS[NODE_ORDER[a]] and POS[NODE_ORDER[a]] < len(NODE_ORDER)))",
    "forall(lambda a, b: implies(0 <= a and a < b and b < len(NODE_ORDER), POS[NODE_ORDER[a]] != POS[NODE_ORDER[b]]))",
]
sort_atoms = FunctionContract(
    FS, 'SortMoleculeAtoms.run_molecule', 'C03', setup=setup_sma, requires=SMA_PRE,
    ensures=[
        # afterwards the molecule lists its atoms in exactly the order sorted() gave - the keys are untouched - and, when a target
        # attribute was asked for, the atom at place j carries j + 1 there; nothing else is written
        "forall(lambda j: implies(0 <= j and j < len(NODE_ORDER), NODE_ORDER[j] in POS and POS[NODE_ORDER[j]] == j))",
        "len(POS) == len(old(POS))",
        "implies(TARGET is not None, forall(lambda j: implies(0 <= j and j < len(NODE_ORDER), ATTR[(NODE_ORDER[j], payload(TARGET))] == j + 1)))",
        "forall(lambda k, a: implies((k, a) in ATTR and not ((k, a) in old(ATTR)), TARGET is not None and a == payload(TARGET)), SKeyN, SAttr)",
        "implies(TARGET is None, forall(lambda k, a: ((k, a) in ATTR) == ((k, a) in old(ATTR)) and ATTR[(k, a)] == old(ATTR)[(k, a)], SKeyN, SAttr))",
    ],
    modifies=['POS', 'ATTR'],
    loops={'L1': LoopSpec(
        inv=["len(POS) == len(NODE_ORDER)",
             "forall(lambda j: implies(0 <= j and j < _i, NODE_ORDER[j] in POS and POS[NODE_ORDER[j]] == len(NODE_ORDER) - _i + j))",
             "forall(lambda j: implies(_i <= j and j < len(NODE_ORDER), NODE_ORDER[j] in POS and 0 <= POS[NODE_ORDER[j]] and POS[NODE_ORDER[j]] < len(NODE_ORDER) - _i))",
             "forall(lambda a, b: implies(_i <= a and a < b and b < len(NODE_ORDER), POS[NODE_ORDER[a]] != POS[NODE_ORDER[b]]))",
             "implies(TARGET is not None, forall(lambda j: implies(0 <= j and j < _i, ATTR[(NODE_ORDER[j], payload(TARGET))] == j + 1)))",
             "forall(lambda k, a: implies((k, a) in ATTR and not ((k, a) in old(ATTR)), TARGET is not None and a == payload(TARGET)), SKeyN, SAttr)",
             "implies(TARGET is None, forall(lambda k, a: ((k, a) in ATTR) == ((k, a) in old(ATTR)) and ATTR[(k, a)] == old(ATTR)[(k, a)], SKeyN, SAttr))"],
        modifies=['POS', 'ATTR'])},
    canary=[("for new_idx, node_key in enumerate(node_order, 1):", "for new_idx, node_key in enumerate(node_order, 0):"),
            ("molecule._node.move_to_end(node_key)", "molecule._node.move_to_end(node_order[0])"),
            ("for new_idx, node_key in enumerate(node_order, 1):", "for new_idx, node_key in enumerate(node_order[1:], 1):")],
)
CONTRACTS.append(sort_atoms)


def setup_kf(cx):
    attrs = cx.val('attrs', TSeq(SAttr))
    value_of = cx.uf('value_of', [SKeyN, SAttr], TOpt(SVal))     # graph.nodes[n].get(a): None when the atom lacks it
    node_idx = cx.val('node_idx', SKeyN)

    def node(e, k):
        ke = to_z3(k, SKeyN)

        def get(e2, a, d=None):
            if d is not None:
                raise EngineError('node.get with a default')
            return SV(TOpt(SVal), value_of(ke, to_z3(a, SAttr)))
        return Obj('atomdict', get=Builtin(get, 'node.get'))
    return dict(graph=Obj('Molecule', nodes=Obj('NodeView', __getitem__=Builtin(node, 'graph.nodes[]'))), node_idx=node_idx, attrs=attrs)


keyfunc = FunctionContract(
    FS, '_keyfunc', 'C03', setup=setup_kf, spec_env=dict(SKeyN=SKeyN, SAttr=SAttr), result_ty=TSeq(TOpt(SVal)),
    ensures=[
        # the sort key of an atom: its values of the attributes asked for, in their order (None where it has none)
        "len(result) == len(attrs)",
        "forall(lambda j: implies(0 <= j and j < len(attrs), result[j] == value_of(node_idx, attrs[j])))",
    ],
    canary=[("for attr in attrs]", "for attr in attrs[1:]]"), ("graph.nodes[node_idx].get(attr)", "graph.nodes[node_idx].get(attrs[0])")],
)
CONTRACTS.append(keyfunc)


# ------------------------------------------------------------------ NameMolType: naming without deduplication, and the choice between the two
name_without_dedup = FunctionContract(
    F, 'NameMolType._name_without_deduplication', 'C03', setup=setup_dedup, spec_env=dict(Mol=Mol),
    requires=["forall(lambda i: implies(0 <= i and i < len(system.molecules), idx_of(system.molecules[i]) == i))"],      # distinct objects
    ensures=[
        # every molecule gets a name of its own: the common stem and its position in the system
        "forall(lambda i: implies(0 <= i and i < len(system.molecules), system.molecules[i] in NAME and NAME[system.molecules[i]] == fmt(self.molname, i)))",
        "forall(lambda i, j: implies(0 <= i and i < j and j < len(system.molecules), NAME[system.molecules[i]] != NAME[system.molecules[j]]))",
        "forall(lambda m: implies(not (0 <= idx_of(m) and idx_of(m) < len(system.molecules) and system.molecules[idx_of(m)] == m), "
        "   (m in NAME) == (m in old(NAME)) and NAME[m] == old(NAME)[m]), Mol)",
    ],
    modifies=['NAME'],
    loops={'L1': LoopSpec(inv=["forall(lambda i: implies(0 <= i and i < _i, system.molecules[i] in NAME and NAME[system.molecules[i]] == fmt(self.molname, i)))",
                               "forall(lambda m: implies(not (0 <= idx_of(m) and idx_of(m) < _i and system.molecules[idx_of(m)] == m), "
                               "   (m in NAME) == (m in old(NAME)) and NAME[m] == old(NAME)[m]), Mol)"],
                          modifies=['NAME'])},
    canary=[("'{}_{}'.format(self.molname, molecule_id)", "'{}_{}'.format(self.molname, 0)")],
)
CONTRACTS.append(name_without_dedup)


def setup_nmt_run(cx):
    from pyvc.builtins import list_append
    args = setup_dedup(cx)
    CALLS = cx.heap('NAMING', cx.box('NAMING', TSeq(TInt)))           # 1: with deduplication, 0: without
    system = args['system']
    me = args['self']
    me.attrs['deduplicate'] = cx.val('deduplicate', TBool)

    def mk(tag):
        def f(e, s):
            e.oblige(s is system, 'named:the-molecules-of-this-system')
            list_append(e, CALLS, tag)
        return Builtin(f, 'naming')
    me.attrs['_name_with_deduplication'] = mk(1)
    me.attrs['_name_without_deduplication'] = mk(0)
    return args


nmt_run = FunctionContract(
    F, 'NameMolType.run_system', 'C03', setup=setup_nmt_run, spec_env=dict(Mol=Mol),
    requires=["len(old(NAMING)) == 0"],
    ensures=[
        # an empty system is left alone; otherwise the molecules are named once, with or without deduplication as asked
        "implies(len(system.molecules) == 0, len(NAMING) == 0)",
        "implies(len(system.molecules) > 0, len(NAMING) == 1 and NAMING[0] == (1 if self.deduplicate else 0))",
        "result is system",
    ],
    modifies=['NAMING'],
    canary=[("if self.deduplicate:", "if not self.deduplicate:"), ("if not system.molecules:", "if system.molecules:")],
)
CONTRACTS.append(nmt_run)

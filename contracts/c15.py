"""C15 -- elastic-network bonds: the force constant of a pair, verified pointwise (one arbitrary matrix index)."""
from pyvc.api import *

F = 'vermouth/processors/apply_rubber_band.py'


def setup_cfc(cx):
    d = cx.val('d', TReal)
    diag = cx.val('on_diagonal', TBool)
    cx.spec_env['d'] = d
    cx.spec_env['on_diagonal'] = diag
    cx.uf('exp_', [TReal], TReal)
    cx.uf('pow_', [TReal, TReal], TReal)
    return dict(distance_matrix=PArr(d.e, diag.e), lower_bound=cx.val('lower_bound', TReal), upper_bound=cx.val('upper_bound', TReal),
                decay_factor=cx.val('decay_factor', TReal), decay_power=cx.val('decay_power', TReal),
                base_constant=cx.val('base_constant', TReal), minimum_force=cx.val('minimum_force', TReal))


SPEC = {
    # the documented decayed constant: base * exp(-a (d - lower)^p)
    'kd': "lambda: base_constant * exp_(-decay_factor * pow_(d - lower_bound, decay_power))",
}
compute_force_constants = FunctionContract(
    F, 'compute_force_constants', 'C15', setup=setup_cfc, spec_defs=SPEC,
    inline_loops={},
    requires=["base_constant >= 0", "minimum_force >= 0"],
    ensures=[
        # at every index: 0 on the diagonal, beyond the upper cut-off, or when the decayed constant is below the minimum
        # force; otherwise the documented decayed constant capped at the base constant
        "value_of(result) == (0 if (on_diagonal or d > upper_bound or kd() < minimum_force) else "
        "   (kd() if kd() <= base_constant else base_constant))",
    ],
    canary=[("constants[constants > base_constant] = base_constant", "pass"),
            ("constants[distance_matrix > upper_bound] = 0", "constants[distance_matrix >= upper_bound] = 0"),
            ("constants[constants < minimum_force] = 0", "constants[constants <= minimum_force] = 0")],
)
compute_force_constants.spec_env['value_of'] = Builtin(lambda e, a: wrap(TReal, a.e), 'value_of')

CONTRACTS = [compute_force_constants]
LEMMAS = []

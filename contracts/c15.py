"""C15 -- elastic-network bonds: the force constant of a pair, verified pointwise (one arbitrary matrix index)."""
from pyvc.api import *
from pyvc.builtins import _int

F = 'vermouth/processors/apply_rubber_band.py'


def setup_cfc(cx):
    d = cx.val('d', TReal)
    diag = cx.val('on_diagonal', TBool)
    cx.spec_env['d'] = d
    cx.spec_env['on_diagonal'] = diag
    cx.uf('exp_', [TReal], TReal)
    cx.uf('pow_', [TReal, TReal], TReal)
    return dict(distance_matrix=PArr(d.e, diag.e), lower_bound=cx.val('lower_bound', TReal), upper_bound=cx.val('upper_bound', TReal),
                decay_factor=cx.val('decay_factor', TReal), decay_power=cx.val('decay_power', TReal),
                base_constant=cx.val('base_constant', TReal), minimum_force=cx.val('minimum_force', TReal))


SPEC = {
    # the documented decayed constant: base * exp(-a (d - lower)^p)
    'kd': "lambda: base_constant * exp_(-decay_factor * pow_(d - lower_bound, decay_power))",
}
compute_force_constants = FunctionContract(
    F, 'compute_force_constants', 'C15', setup=setup_cfc, spec_defs=SPEC,
    inline_loops={},
    requires=["base_constant >= 0", "minimum_force >= 0"],
    ensures=[
        # at every index: 0 on the diagonal, beyond the upper cut-off, or when the decayed constant is below the minimum
        # force; otherwise the documented decayed constant capped at the base constant
        "value_of(result) == (0 if (on_diagonal or d > upper_bound or kd() < minimum_force) else "
        "   (kd() if kd() <= base_constant else base_constant))",
    ],
    canary=[("constants[constants > base_constant] = base_constant", "pass"),
            ("constants[distance_matrix > upper_bound] = 0", "constants[distance_matrix >= upper_bound] = 0"),
            ("constants[constants < minimum_force] = 0", "constants[constants <= minimum_force] = 0")],
)
compute_force_constants.spec_env['value_of'] = Builtin(lambda e, a: wrap(TReal, a.e), 'value_of')

CONTRACTS = [compute_force_constants]
LEMMAS = []


# ------------------------------------------------------------------ apply_rubber_band: which pairs get a bond, and which bond
NKey, Attr, Pos = TKey('NKey'), TKey('Attr'), TKey('Pos')
NodeRec = TTuple(NKey, Attr)
Bond = TTuple(NKey, NKey, TReal, TReal, TReal, names=['a', 'b', 'ftype', 'length', 'k'])
I_, J_ = z3.Int('I!arb'), z3.Int('J!arb')              # the arbitrary matrix index of the pointwise arrays


def setup_arb(cx):
    eng = cx.eng
    from pyvc.values import IterV
    from pyvc.builtins import _int, list_append, b_any, make_iter
    nodes = cx.val('nodes', TSeq(NodeRec))                 # molecule.nodes.items(), in order
    cx.spec_env['nodes'] = nodes
    nty = TSeq(NodeRec)
    ne = to_z3(nodes)
    sel = cx.uf('sel', [Attr], TBool)                      # selector(attributes)
    pos_of = cx.uf('pos_of', [Attr], TOpt(Pos))            # attributes.get('position')
    any_nan = cx.uf('any_nan', [Pos], TBool)               # some coordinate of the position is NaN
    all_nan = cx.uf('all_nan', [Pos], TBool)               # every coordinate is NaN
    distf = cx.uf('distf', [Pos, Pos], TReal)              # Euclidean distance
    # connx(x, y): the residues of the atoms with matrix indices x and y are within res_min_dist bonds of each other in the residue
    # graph (`close` of build_connectivity_matrix's contract)
    connx = cx.uf('connx', [TInt, TInt], TBool)
    domf = cx.uf('domf', [NKey, NKey], TBool)              # domain_criterion(molecule, a, b)
    cx.uf('exp_', [TReal], TReal)
    cx.uf('pow_', [TReal, TReal], TReal)
    cx.uf('round_', [TReal, TInt], TReal)
    cx.uf('tri_k', [TInt, TInt], TInt)
    cx.uf('kdf', [TReal], TReal)
    p_ = z3.Const('p', Pos.sort())
    cx.assume(z3.ForAll([p_], z3.Implies(all_nan(p_), any_nan(p_))))
    ADDED = cx.heap('ADDED', Box(TSeq(Bond)))              # molecule.add_interaction('bonds', ...) calls, in order
    WARNED = cx.heap('WARNED', Box(TSeq(TStr)))            # LOGGER.warning(..., type=...) calls: their types

    def attr_view(ae):
        o = Obj('attributes')
        o.__dict__['attr_key'] = ae

        def get(e, k, d=None):
            if k == 'position' and d is None:
                return SV(TOpt(Pos), pos_of(ae))
            raise EngineError('attributes.get(%r) is not modelled' % (k,))
        o.attrs['get'] = Builtin(get, 'attributes.get')
        return o
    nview = Obj('NodeView')
    nview.attrs['items'] = Builtin(lambda e: IterV(nty.len(ne), lambda i: (SV(NKey, NodeRec.get(nty.at(ne, _int(i)), 0)),
                                                                            attr_view(NodeRec.get(nty.at(ne, _int(i)), 1)))), 'nodes.items')

    def add_interaction(e, type_=None, atoms=None, parameters=None, meta=None):
        if isinstance(parameters, Box) and isinstance(parameters.ty, TSeq) and z3.is_int_value(z3.simplify(parameters.ty.len(parameters.e))):
            pt = parameters.ty
            parameters = [wrap(pt.t, z3.simplify(pt.at(parameters.e, i))) for i in range(z3.simplify(pt.len(parameters.e)).as_long())]
        if type_ != 'bonds' or not isinstance(atoms, tuple) or len(atoms) != 2 or len(parameters) != 3:
            raise EngineError('add_interaction call of another shape')
        list_append(e, ADDED, (atoms[0], atoms[1]) + tuple(SV(TReal, _real_(e, x)) for x in parameters))
    molecule = cx.obj('Molecule', nodes=nview, moltype=cx.val('moltype', TStr))
    molecule.attrs['add_interaction'] = Builtin(add_interaction, 'molecule.add_interaction')
    selector = Builtin(lambda e, a: wrap(TBool, sel(a.__dict__['attr_key'])), 'selector')
    log = Obj('LOGGER')
    log.attrs['warning'] = Builtin(lambda e, *a, type=None, **k: list_append(e, WARNED, type), 'LOGGER.warning')
    cx.spec_env['LOGGER'] = log
    state = {}

    class Coords:
        pass

    def np_stack(e, lst):
        c = Obj('coords')
        c.__dict__['seq'] = to_z3(lst, TSeq(TOpt(Pos)))
        state['coords'] = c.__dict__['seq']
        return c

    def row_pos(c, i):
        return TOpt(Pos).get(TSeq(TOpt(Pos)).at(c.__dict__['seq'], _int(i)))

    def np_isnan(e, c):
        m = Obj('nanmask')
        m.__dict__['coords'] = c
        return m

    def np_all(e, m, axis=None):
        if 'coords' in m.__dict__ and axis == 1:
            r = Obj('rowall')
            r.__dict__['coords'] = m.__dict__['coords']
            return r
        raise EngineError('numpy.all of this shape is not modelled')

    def np_any(e, m, axis=None):
        c = m.__dict__.get('coords')
        if c is None or axis is not None:
            raise EngineError('numpy.any of this shape is not modelled')
        f = all_nan if m.cls == 'rowall' else any_nan
        n = TSeq(TOpt(Pos)).len(c.__dict__['seq'])
        return b_any(e, IterV(n, lambda i: wrap(TBool, f(row_pos(c, i)))))

    rows_c, cols_c = z3.Const('g_rows', TSeq(TInt).sort()), z3.Const('g_cols', TSeq(TInt).sort())
    cx.spec_env['g_rows'], cx.spec_env['g_cols'] = SV(TSeq(TInt), rows_c), SV(TSeq(TInt), cols_c)

    def triu(e, arr):
        # assumed contract of numpy.triu_indices_from on an n x n matrix: all index pairs a <= b, each exactly once
        n = TSeq(TOpt(Pos)).len(state['coords'])
        rows, cols = rows_c, cols_c
        st = TSeq(TInt)
        tri_k = e.uf('tri_k', [TInt, TInt], TInt)
        k, a, b = z3.Ints('tk ta tb')
        e.assume(st.len(rows) == st.len(cols))
        e.assume(z3.ForAll([k], z3.Implies(z3.And(0 <= k, k < st.len(rows)),
                                           z3.And(0 <= st.at(rows, k), st.at(rows, k) <= st.at(cols, k), st.at(cols, k) < n,
                                                  tri_k(st.at(rows, k), st.at(cols, k)) == k))))
        e.assume(z3.ForAll([a, b], z3.Implies(z3.And(0 <= a, a <= b, b < n),
                                              z3.And(0 <= tri_k(a, b), tri_k(a, b) < st.len(rows),
                                                     st.at(rows, tri_k(a, b)) == a, st.at(cols, tri_k(a, b)) == b))))
        return (SV(st, rows), SV(st, cols))
    np_ = Obj('numpy')
    for n_, f_ in (('stack', np_stack), ('isnan', np_isnan), ('all', np_all), ('any', np_any), ('triu_indices_from', triu)):
        np_.attrs[n_] = Builtin(f_, 'numpy.' + n_)
    cx.spec_env['np'] = np_

    def selpos(i):
        return TOpt(Pos).get(TSeq(TOpt(Pos)).at(state['coords'], i))

    def sdm(e, c):
        # self_distance_matrix: entry (I, J) is the distance between the I-th and the J-th selected atom
        return PArr(distf(selpos(I_), selpos(J_)), I_ == J_, (I_, J_))
    cx.spec_env['self_distance_matrix'] = Builtin(sdm, 'self_distance_matrix')

    def cfc(e, dm, lower_bound, upper_bound, decay_factor, decay_power, base_constant, minimum_force):
        # compute_force_constants by its contract (proved above, pointwise)
        lb, ub, df, dp, bc, mf = [_real_(e, x) for x in (lower_bound, upper_bound, decay_factor, decay_power, base_constant, minimum_force)]
        # kdf(d) names the decayed constant base * exp(-a (d - lower)^p) of that contract (opaque here: only its
        # comparison with the minimum force and the base constant matters)
        kd = e.uf('kdf', [TReal], TReal)(dm.e)
        return dm.like(z3.If(z3.Or(dm.diag, dm.e > ub, kd < mf), z3.RealVal(0), z3.If(kd <= bc, kd, bc)))
    cx.spec_env['compute_force_constants'] = Builtin(cfc, 'compute_force_constants')

    def keysel(sel_list, i):
        st = TSeq(TInt)
        return NodeRec.get(nty.at(ne, st.at(sel_list, i)), 0)

    def bcm(e, mol, res_min_dist, node_to_idx, selected_nodes=None):
        # build_connectivity_matrix by its contract (proved below): it requires node_to_idx to give every atom its matrix index
        # and the selected indices to be in range; entry (a, b) is True exactly for different atoms of residues within the
        # separation
        sl, st = to_z3(selected_nodes, TSeq(TInt)), TSeq(TInt)
        mt = TMap(NKey, TInt)
        me = to_z3(node_to_idx, mt)
        i = z3.Int('bcm_i')
        n = nty.len(ne)
        key_i = NodeRec.get(nty.at(ne, i), 0)
        e.oblige(z3.ForAll([i], z3.Implies(z3.And(0 <= i, i < n), z3.And(mt.has(me, key_i), mt.at(me, key_i) == i))),
                 'pre:build_connectivity_matrix:node_to_idx')
        e.oblige(z3.ForAll([i], z3.Implies(z3.And(0 <= i, i < st.len(sl)), z3.And(0 <= st.at(sl, i), st.at(sl, i) < n))),
                 'pre:build_connectivity_matrix:selected_nodes')
        xi, xj = st.at(sl, I_), st.at(sl, J_)
        return PArr(z3.And(xi != xj, connx(xi, xj)), I_ == J_, (I_, J_))

    def bpm(e, mol, criterion, idx_to_node, selected_nodes=None):
        # build_pair_matrix by its contract (proved below): entry (a, b), a before b, is the criterion's answer for the nodes
        # idx_to_node gives for the a-th and the b-th selected index, asked in that order; symmetric; the diagonal is False
        sl, st = to_z3(selected_nodes, TSeq(TInt)), TSeq(TInt)
        mt = TMap(TInt, NKey)
        me = to_z3(idx_to_node, mt)
        ki, kj = mt.at(me, st.at(sl, I_)), mt.at(me, st.at(sl, J_))
        return PArr(z3.If(I_ == J_, z3.BoolVal(False), z3.If(I_ < J_, domf(ki, kj), domf(kj, ki))), I_ == J_, (I_, J_))
    cx.spec_env['build_connectivity_matrix'] = Builtin(bcm, 'build_connectivity_matrix')
    cx.spec_env['build_pair_matrix'] = Builtin(bpm, 'build_pair_matrix')
    args = dict(molecule=molecule, selector=selector, domain_criterion=Obj('criterion'), res_min_dist=cx.val('res_min_dist', TInt),
                bond_type=cx.val('bond_type', TInt))
    for n_ in ('lower_bound', 'upper_bound', 'decay_factor', 'decay_power', 'base_constant', 'minimum_force'):
        args[n_] = cx.val(n_, TReal)
    return args


def _real_(e, x):
    v = e.num(x)
    return z3.RealVal(v) if isinstance(v, (int, float)) else (z3.ToReal(v) if v.sort() == z3.IntSort() else v)


SPEC_ARB = {
    'key': "lambda i: nodes[i][0]",
    'attr': "lambda i: nodes[i][1]",
    'P': "lambda s, a: pos_of(attr(s[a]))",                                     # position of the a-th selected atom
    'D': "lambda s, a, b: distf(P(s, a), P(s, b))",
    'kd': "lambda d: kdf(d)",
    # the documented force constant of a pair at distance d: 0 beyond the cut-off or below the minimum, capped at the base
    'kdoc': "lambda d: 0 if (d > upper_bound or kd(d) < minimum_force) else (kd(d) if kd(d) <= base_constant else base_constant)",
    # ... of the a-th and b-th selected atoms: 0 unless different atoms of one domain whose residues are far enough apart
    'FC': "lambda s, a, b: kdoc(D(s, a, b)) if (a != b and not connx(s[a], s[b]) and domf(key(s[a]), key(s[b]))) else 0",
    'selected_exactly': "lambda s: forall(lambda p: implies(0 <= p and p < len(s), 0 <= s[p] and s[p] < len(nodes) and sel(attr(s[p])))) and "
                        "forall(lambda p, q: implies(0 <= p and p < q and q < len(s), s[p] < s[q])) and "
                        "forall(lambda i: implies(0 <= i and i < len(nodes) and sel(attr(i)), i in g_rank and 0 <= g_rank[i] and "
                        "g_rank[i] < len(s) and s[g_rank[i]] == i))",
}
L1_INV = [
    "len(selection) == len(coordinates)",
    "forall(lambda p: implies(0 <= p and p < len(selection), 0 <= selection[p] and selection[p] < _i and sel(attr(selection[p])) and "
    "   coordinates[p] == pos_of(attr(selection[p]))))",
    "forall(lambda p, q: implies(0 <= p and p < q and q < len(selection), selection[p] < selection[q]))",
    "forall(lambda i: implies(0 <= i and i < _i and sel(attr(i)), i in g_rank and 0 <= g_rank[i] and g_rank[i] < len(selection) and "
    "   selection[g_rank[i]] == i))",
    "forall(lambda i: implies(0 <= i and i < _i, i in idx_to_node and idx_to_node[i] == key(i)))",
    "forall(lambda i: implies(0 <= i and i < _i, key(i) in node_to_idx and node_to_idx[key(i)] == i))",
    "implies(len(missing) == 0, forall(lambda p: implies(0 <= p and p < len(coordinates), coordinates[p] is not None)))",
    "implies(len(missing) > 0, 0 <= g_miss and g_miss < len(coordinates) and coordinates[g_miss] is None)",
]
BOND_OF = ("ADDED[{p}].a == key(selection[g_rows[{k}]]) and ADDED[{p}].b == key(selection[g_cols[{k}]]) and ADDED[{p}].ftype == bond_type and "
           "ADDED[{p}].length == round_(D(selection, g_rows[{k}], g_cols[{k}]), 5) and ADDED[{p}].k == FC(selection, g_rows[{k}], g_cols[{k}])")
L2_INV = [
    "len(g_src) == len(ADDED)",
    "forall(lambda p: implies(0 <= p and p < len(ADDED), 0 <= g_src[p] and g_src[p] < _i and g_src[p] in g_pos and g_pos[g_src[p]] == p))",
    "forall(lambda p: implies(0 <= p and p < len(ADDED), " + BOND_OF.format(p='p', k='g_src[p]') + "))",
    "forall(lambda p, q: implies(0 <= p and p < q and q < len(ADDED), g_src[p] < g_src[q]))",
    "forall(lambda k: implies(0 <= k and k < _i, (k in g_pos) == (FC(selection, g_rows[k], g_cols[k]) > minimum_force)))",
    "forall(lambda k: implies(k in g_pos, 0 <= k and k < _i and 0 <= g_pos[k] and g_pos[k] < len(ADDED) and g_src[g_pos[k]] == k))",
]
apply_rubber_band = FunctionContract(
    F, 'apply_rubber_band', 'C15', setup=setup_arb, spec_defs=SPEC_ARB,
    spec_env=dict(NKey=NKey, Attr=Attr, Pos=Pos),
    locals=dict(selection=TSeq(TInt), coordinates=TSeq(TOpt(Pos)), missing=TSeq(NKey), node_to_idx=TMap(NKey, TInt),
                idx_to_node=TMap(TInt, NKey), g_rank=TMap(TInt, TInt), g_src=TSeq(TInt), g_pos=TMap(TInt, TInt), g_miss=TInt),
    requires=["forall(lambda i, j: implies(0 <= i and i < j and j < len(nodes), key(i) != key(j)))", "minimum_force >= 0", "base_constant >= 0",
              "len(old(ADDED)) == 0 and len(old(WARNED)) == 0"],
    ghost_at={'entry': "g_rank = {}\ng_miss = 0\ng_src = []\ng_pos = {}"},
    ensures=[
        # the atoms considered are exactly the selected ones, in the molecule's order
        "selected_exactly(selection)",
        # a selected atom with an undefined (NaN) coordinate: no network and a warning instead of a failure
        "implies(exists(lambda p: 0 <= p and p < len(selection) and any_nan(P(selection, p))), len(ADDED) == 0 and len(WARNED) == 1 and "
        "   WARNED[0] == 'unmapped-atom')",
        "implies(not exists(lambda p: 0 <= p and p < len(selection) and any_nan(P(selection, p))), len(WARNED) == 0)",
        # otherwise: the pair (a, b), a <= b, of selected atoms gets a bond exactly when its documented force constant
        # (0 unless different atoms of one domain, residues far enough apart, within the cut-off) exceeds the minimum
        "implies(len(selection) > 0 and len(WARNED) == 0, forall(lambda a, b: implies(0 <= a and a <= b and b < len(selection), "
        "   (tri_k(a, b) in g_pos) == (FC(selection, a, b) > minimum_force))))",
        # ... exactly one bond, between those two atoms, of the requested type, with the distance (5 decimals) as length and
        # that force constant; and there are no other bonds
        "implies(len(selection) > 0 and len(WARNED) == 0, forall(lambda a, b: implies(0 <= a and a <= b and b < len(selection) and "
        "   tri_k(a, b) in g_pos, 0 <= g_pos[tri_k(a, b)] and g_pos[tri_k(a, b)] < len(ADDED) and "
        + BOND_OF.format(p='g_pos[tri_k(a, b)]', k='tri_k(a, b)') + ")))",
        "implies(len(selection) > 0 and len(WARNED) == 0, forall(lambda p: implies(0 <= p and p < len(ADDED), g_src[p] in g_pos and "
        "   g_pos[g_src[p]] == p and 0 <= g_src[p] and g_src[p] < len(g_rows))))",
        "implies(len(selection) == 0, len(ADDED) == 0 and len(WARNED) == 0)",
    ],
    raises={'ValueError': ["exists(lambda p: 0 <= p and p < len(selection) and P(selection, p) is None)", "len(ADDED) == 0"]},
    modifies=['ADDED', 'WARNED'],
    loops={
        'L1': LoopSpec(inv=L1_INV, modifies=['selection', 'coordinates', 'missing', 'node_to_idx', 'idx_to_node', 'g_rank'],
                       locals=dict(g_miss=TInt, g_n0=TInt),
                       ghost_pre="g_n0 = len(selection)",
                       ghost_end="if len(selection) > g_n0:\n    g_rank[_i] = g_n0\n    if coordinates[g_n0] is None:\n        g_miss = g_n0"),
        'L2': LoopSpec(inv=L2_INV, modifies=['ADDED', 'g_src', 'g_pos'], locals=dict(g_a0=TInt),
                       ghost_pre="g_a0 = len(ADDED)",
                       ghost_end="if len(ADDED) > g_a0:\n    g_src.append(_i)\n    g_pos[_i] = g_a0"),
    },
    canary=[("can_be_linked = (~connected) & same_domain", "can_be_linked = connected & same_domain"),
            ("if force_constant > minimum_force:", "if force_constant >= minimum_force:"),
            ("from_key = idx_to_node[selection[from_idx]]", "from_key = idx_to_node[from_idx]"),
            ("if np.any(np.isnan(coordinates)):", "if np.any(np.all(np.isnan(coordinates), axis=1)):")],
)
CONTRACTS.append(apply_rubber_band)


# ------------------------------------------------------------------ build_pair_matrix: the criterion, pair by pair
Pair = TTuple(TInt, TInt)
PairSet = TSet(Pair)


def _pair(a, b):
    return Pair.mk(to_z3(a, TInt), to_z3(b, TInt))


def _matrix_model(cx, M):
    """numpy.zeros for a square boolean matrix, seen as the set M of index pairs that hold True: element reads and writes,
    and matrix[:, cols][rows]."""
    st = TSeq(TInt)

    def zeros(e, shape, dtype=None):
        # a boolean matrix, seen as the set of index pairs that hold True; numpy.zeros: none does
        M.e = PairSet.empty()
        m = Obj('ndarray')

        def getitem(e2, k):
            if isinstance(k, tuple) and len(k) == 2 and isinstance(k[0], slice):
                if k[0] != slice(None, None, None):
                    raise EngineError('matrix[%r, ...]' % (k[0],))
                cols = to_z3(k[1], st)
                return Obj('colview', __getitem__=Builtin(lambda e3, rows: sub(cols, to_z3(rows, st)), 'matrix[:, cols][rows]'))
            if isinstance(k, tuple) and len(k) == 2:
                return wrap(TBool, z3.Select(M.e, _pair(*k)))
            raise EngineError('matrix[%r]' % (k,))

        def sub(cols, rows):
            # matrix[:, cols][rows]: entry (a, b) is the entry (rows[a], cols[b]) of the matrix
            r = e.fresh_val(PairSet, 'submatrix')
            a, b = z3.Ints('sa sb')
            e.assume(z3.ForAll([a, b], z3.Select(r.e, Pair.mk(a, b)) == z3.Select(M.e, Pair.mk(st.at(rows, a), st.at(cols, b))),
                               patterns=[z3.Select(r.e, Pair.mk(a, b))]))
            return r

        def setitem(e2, k, v):
            if not (isinstance(k, tuple) and len(k) == 2):
                raise EngineError('matrix[%r] = ...' % (k,))
            M.e = z3.Store(M.e, _pair(*k), to_z3(v, TBool))
        m.attrs['__getitem__'], m.attrs['__setitem__'] = Builtin(getitem, 'matrix[]'), Builtin(setitem, 'matrix[]=')
        return m
    return zeros


def setup_bpm(cx):
    from pyvc.builtins import _int as _i_
    from pyvc.values import IterV
    st = TSeq(TInt)
    n_nodes = cx.val('n_nodes', TInt)
    sel = cx.val('selected_nodes', st)
    cx.spec_env['n_nodes'], cx.spec_env['SEL'] = n_nodes, sel
    node_of = cx.uf('node_of', [TInt], NKey)
    crit = cx.uf('crit', [NKey, NKey], TBool)                 # what the criterion answers for two node keys (a pure function)
    M = cx.heap('M', Box(PairSet))
    pa, pb, pk = cx.uf('pair_a', [TInt], TInt), cx.uf('pair_b', [TInt], TInt), cx.uf('pair_k', [TInt, TInt], TInt)
    NP = z3.Int('n_pairs')
    cx.spec_env['n_pairs'] = SV(TInt, NP)

    def combinations(e, items, r):
        # assumed contract of itertools.combinations(seq, 2): pairs of positions a < b, every such pair among them
        # (that each comes once is not needed: asking the criterion twice for one pair gives the same answer)
        if r != 2:
            raise EngineError('combinations(_, %r)' % (r,))
        se = to_z3(items, st)
        n = st.len(se)
        p, a, b = z3.Ints('cp ca cb')
        e.assume(NP >= 0)
        e.assume(z3.ForAll([p], z3.Implies(z3.And(0 <= p, p < NP), z3.And(0 <= pa(p), pa(p) < pb(p), pb(p) < n))))
        e.assume(z3.ForAll([a, b], z3.Implies(z3.And(0 <= a, a < b, b < n), z3.And(0 <= pk(a, b), pk(a, b) < NP, pa(pk(a, b)) == a,
                                                                            pb(pk(a, b)) == b)),
                           patterns=[pk(a, b)]))
        return IterV(NP, lambda q: (SV(TInt, st.at(se, pa(_i_(q)))), SV(TInt, st.at(se, pb(_i_(q))))))
    cx.spec_env['itertools'] = Obj('itertools', combinations=Builtin(combinations, 'itertools.combinations'))

    zeros = _matrix_model(cx, M)
    cx.spec_env['np'] = Obj('numpy', zeros=Builtin(zeros, 'numpy.zeros'))
    graph = Obj('graph', nodes=Obj('NodeView', __len__=Builtin(lambda e: n_nodes, 'len(graph.nodes)')))
    idx_to_node = Obj('idx_to_node', __getitem__=Builtin(lambda e, i: SV(NKey, node_of(to_z3(i, TInt))), 'idx_to_node[]'))
    criterion = Builtin(lambda e, g, a, b: wrap(TBool, crit(to_z3(a, NKey), to_z3(b, NKey))), 'criterion')
    return dict(graph=graph, criterion=criterion, idx_to_node=idx_to_node, selected_nodes=sel)


SPEC_BPM = {
    'nd': "lambda a: node_of(SEL[a])",
}
build_pair_matrix = FunctionContract(
    F, 'build_pair_matrix', 'C15', setup=setup_bpm, spec_defs=SPEC_BPM, spec_env=dict(NKey=NKey),
    # the selected indices are different from each other (apply_rubber_band's selection is strictly increasing)
    requires=["forall(lambda a, b: implies(0 <= a and a < b and b < len(SEL), SEL[a] != SEL[b]))"],
    ensures=[
        # entry (a, b) of the result, a before b in the selection, is the criterion's answer for the a-th and the b-th selected
        # node (asked once, in that order); the matrix is symmetric and its diagonal is False
        # (pair_k(a, b) is the position of the pair in the enumeration of itertools.combinations; it is named in the guard so
        # that the solver instantiates the enumeration there, and the first clause says the guard holds for every pair)
        "forall(lambda a, b: implies(0 <= a and a < b and b < len(SEL), 0 <= pair_k(a, b) and pair_k(a, b) < n_pairs))",
        "forall(lambda a, b: implies(0 <= a and a < b and b < len(SEL) and 0 <= pair_k(a, b), ((a, b) in result) == crit(nd(a), nd(b)) and "
        "   ((b, a) in result) == crit(nd(a), nd(b))))",
        "forall(lambda a: implies(0 <= a and a < len(SEL), (a, a) not in result))",
    ],
    modifies=['M'],
    loops={'L1': LoopSpec(inv=[
        "forall(lambda p: implies(0 <= p and p < _i, ((SEL[pair_a(p)], SEL[pair_b(p)]) in M) == crit(nd(pair_a(p)), nd(pair_b(p))) and "
        "   ((SEL[pair_b(p)], SEL[pair_a(p)]) in M) == crit(nd(pair_a(p)), nd(pair_b(p)))))",
        "forall(lambda x: (x, x) not in M)"],
        modifies=['M'])},
    canary=[("share_domain[jdx, kdx] = share_domain[kdx, jdx]", "share_domain[jdx, kdx] = share_domain[jdx, kdx]"),
            ("key_jdx = idx_to_node[jdx]", "key_jdx = idx_to_node[kdx]"),
            ("share_domain[kdx, jdx] = criterion(graph, key_kdx, key_jdx)", "share_domain[kdx, jdx] = criterion(graph, key_jdx, key_kdx)")],
)
CONTRACTS.append(build_pair_matrix)


# ------------------------------------------------------------------ build_connectivity_matrix: residues within the separation
def setup_bcm(cx):
    from pyvc.values import IterV
    st = TSeq(TInt)
    n_nodes, n_res, separation = cx.val('n_nodes', TInt), cx.val('n_res', TInt), cx.val('separation', TInt)
    sel = cx.val('selected_nodes', st)
    cx.spec_env.update(n_nodes=n_nodes, n_res=n_res, SEL=sel)
    N, R = n_nodes.e, n_res.e
    cx.assume(z3.And(N >= 0, R >= 0))
    M = cx.heap('M', Box(PairSet))
    # make_residue_graph by its contract: the atoms are partitioned into residues 0 .. n_res-1; atom(r, k) is the k-th atom of
    # residue r, res_of / slot give the residue and the place of the atom with a given matrix index (node_to_idx = idx_of)
    atom, na = cx.uf('atom', [TInt, TInt], NKey), cx.uf('na', [TInt], TInt)
    idx_of, res_of, slot = cx.uf('idx_of', [NKey], TInt), cx.uf('res_of', [TInt], TInt), cx.uf('slot', [TInt], TInt)
    r, k, x, t = z3.Ints('mr mk mx mt')
    cx.assume(z3.ForAll([r, k], z3.Implies(z3.And(0 <= r, r < R, 0 <= k, k < na(r)),
                                           z3.And(0 <= idx_of(atom(r, k)), idx_of(atom(r, k)) < N, res_of(idx_of(atom(r, k))) == r,
                                                  slot(idx_of(atom(r, k))) == k)), patterns=[atom(r, k)]))
    cx.assume(z3.ForAll([x], z3.Implies(z3.And(0 <= x, x < N), z3.And(0 <= res_of(x), res_of(x) < R, 0 <= slot(x), slot(x) < na(res_of(x)),
                                                                      idx_of(atom(res_of(x), slot(x))) == x)), patterns=[res_of(x)]))
    cx.assume(z3.ForAll([r], na(r) >= 0, patterns=[na(r)]))
    # networkx.all_pairs_shortest_path_length(res_graph, cutoff) by its contract: for every residue r, the residues within
    # `cutoff` bonds of r (near(r, t); r itself included), each once: wat(r, k), k < nw(r), with inverse wpos
    near = cx.uf('near', [TInt, TInt], TBool)
    nw, wat, wpos = cx.uf('nw', [TInt], TInt), cx.uf('wat', [TInt, TInt], TInt), cx.uf('wpos', [TInt, TInt], TInt)
    cx.assume(z3.ForAll([r, k], z3.Implies(z3.And(0 <= r, r < R, 0 <= k, k < nw(r)),
                                           z3.And(0 <= wat(r, k), wat(r, k) < R, near(r, wat(r, k)), wpos(r, wat(r, k)) == k)),
                        patterns=[wat(r, k)]))
    cx.assume(z3.ForAll([r, t], z3.Implies(z3.And(0 <= r, r < R, 0 <= t, t < R, near(r, t)),
                                           z3.And(0 <= wpos(r, t), wpos(r, t) < nw(r), wat(r, wpos(r, t)) == t)), patterns=[near(r, t)]))
    cx.assume(z3.ForAll([r], nw(r) >= 0, patterns=[nw(r)]))

    def atoms_of(ri):
        o = Obj('subgraph')
        o.attrs['nodes'] = Builtin(lambda e: Obj('NodeView', res=ri), 'subgraph.nodes')
        return o
    res_graph = Obj('res_graph', nodes=Obj('NodeView', __getitem__=Builtin(
        lambda e, ri: Obj('resattrs', __getitem__=Builtin(lambda e2, key: atoms_of(to_z3(ri, TInt)) if key == 'graph' else
                                                          (_ for _ in ()).throw(EngineError('residue[%r]' % (key,))), 'residue[]')),
        'res_graph.nodes[]')))
    graph = Obj('graph', number_of_nodes=Builtin(lambda e: n_nodes, 'graph.number_of_nodes'))
    cx.spec_env['make_residue_graph'] = Builtin(
        lambda e, g: res_graph if g is graph else (_ for _ in ()).throw(EngineError('residue graph of another graph')), 'make_residue_graph')

    def apspl(e, g, cutoff=None):
        if g is not res_graph or not isinstance(cutoff, SV) or not z3.eq(cutoff.e, separation.e):
            raise EngineError('all_pairs_shortest_path_length of another graph or cutoff')

        def targets(ri):
            o = Obj('lengths')
            o.__dict__['iter'] = IterV(nw(ri), lambda q: SV(TInt, wat(ri, _int(q))))
            return o
        return IterV(R, lambda q: (SV(TInt, _int(q)), targets(_int(q))))
    cx.spec_env['nx'] = Obj('networkx', all_pairs_shortest_path_length=Builtin(apspl, 'networkx.all_pairs_shortest_path_length'))
    pa, pb = cx.uf('prod_a', [TInt, TInt, TInt], TInt), cx.uf('prod_b', [TInt, TInt, TInt], TInt)
    pk, npq = cx.uf('prod_k', [TInt, TInt, TInt, TInt], TInt), cx.uf('prod_n', [TInt, TInt], TInt)

    def product(e, xs, ys):
        # assumed contract of itertools.product(xs, ys): every pair of a position in xs and a position in ys, exactly once
        ra, rb = xs.attrs['res'], ys.attrs['res']
        p, a, b = z3.Ints('pp pa_ pb_')
        e.assume(npq(ra, rb) >= 0)
        e.assume(z3.ForAll([p], z3.Implies(z3.And(0 <= p, p < npq(ra, rb)),
                                           z3.And(0 <= pa(ra, rb, p), pa(ra, rb, p) < na(ra), 0 <= pb(ra, rb, p), pb(ra, rb, p) < na(rb),
                                                  pk(ra, rb, pa(ra, rb, p), pb(ra, rb, p)) == p)), patterns=[pa(ra, rb, p)]))
        e.assume(z3.ForAll([a, b], z3.Implies(z3.And(0 <= a, a < na(ra), 0 <= b, b < na(rb)),
                                              z3.And(0 <= pk(ra, rb, a, b), pk(ra, rb, a, b) < npq(ra, rb), pa(ra, rb, pk(ra, rb, a, b)) == a,
                                                     pb(ra, rb, pk(ra, rb, a, b)) == b)), patterns=[pk(ra, rb, a, b)]))
        return IterV(npq(ra, rb), lambda q: (SV(NKey, atom(ra, pa(ra, rb, _int(q)))), SV(NKey, atom(rb, pb(ra, rb, _int(q))))))
    cx.spec_env['itertools'] = Obj('itertools', product=Builtin(product, 'itertools.product'))
    zeros = _matrix_model(cx, M)

    def fill_diagonal(e, m, v):
        if m.cls != 'ndarray' or v is not False:
            raise EngineError('numpy.fill_diagonal(%r, %r)' % (m, v))
        old = M.e
        new = e.fresh_val(PairSet, 'undiag').e
        a, b = z3.Ints('fa fb')
        e.assume(z3.ForAll([a, b], z3.Select(new, Pair.mk(a, b)) == z3.And(z3.Select(old, Pair.mk(a, b)), a != b),
                           patterns=[z3.Select(new, Pair.mk(a, b))]))
        M.e = new
    cx.spec_env['np'] = Obj('numpy', zeros=Builtin(zeros, 'numpy.zeros'), fill_diagonal=Builtin(fill_diagonal, 'numpy.fill_diagonal'))
    node_to_idx = Obj('node_to_idx', __getitem__=Builtin(lambda e, key: SV(TInt, idx_of(to_z3(key, NKey))), 'node_to_idx[]'))
    return dict(graph=graph, separation=separation, node_to_idx=node_to_idx, selected_nodes=sel)


SPEC_BCM = {
    'inr': "lambda x, y: 0 <= x and x < n_nodes and 0 <= y and y < n_nodes",
    # the atoms with indices x and y lie in residues within the separation of each other
    'close': "lambda x, y: near(res_of(x), res_of(y))",
    'done_res': "lambda x, y, r: res_of(x) < r and close(x, y)",
    'done_tgt': "lambda x, y, r, j: res_of(x) == r and close(x, y) and wpos(r, res_of(y)) < j",
}
BCM_RANGE = "forall(lambda x, y: implies((x, y) in M, inr(x, y)))"
build_connectivity_matrix = FunctionContract(
    F, 'build_connectivity_matrix', 'C15', setup=setup_bcm, spec_defs=SPEC_BCM, spec_env=dict(NKey=NKey),
    requires=["forall(lambda a: implies(0 <= a and a < len(SEL), 0 <= SEL[a] and SEL[a] < n_nodes))"],
    ensures=[
        # entry (a, b) of the result is True exactly when the a-th and b-th selected atoms are different atoms whose residues are
        # within `separation` bonds of each other in the residue graph
        "forall(lambda a, b: implies(0 <= a and a < len(SEL) and 0 <= b and b < len(SEL), "
        "   ((a, b) in result) == (SEL[a] != SEL[b] and close(SEL[a], SEL[b]))))",
    ],
    modifies=['M'],
    loops={
        'L1': LoopSpec(inv=[BCM_RANGE, "forall(lambda x, y: implies(inr(x, y), ((x, y) in M) == done_res(x, y, _i)))"], modifies=['M']),
        'L1.1': LoopSpec(inv=[BCM_RANGE, "0 <= origin_residue and origin_residue < n_res",
                              "forall(lambda x, y: implies(inr(x, y), ((x, y) in M) == (done_res(x, y, origin_residue) or "
                              "   done_tgt(x, y, origin_residue, _i))))"], modifies=['M']),
        'L1.1.1': LoopSpec(inv=[BCM_RANGE, "0 <= origin_residue and origin_residue < n_res and 0 <= target_residue and target_residue < n_res",
                                "near(origin_residue, target_residue)",
                                "forall(lambda x, y: implies(inr(x, y), ((x, y) in M) == (done_res(x, y, origin_residue) or "
                                "   done_tgt(x, y, origin_residue, wpos(origin_residue, target_residue)) or "
                                "   (res_of(x) == origin_residue and res_of(y) == target_residue and "
                                "    prod_k(origin_residue, target_residue, slot(x), slot(y)) < _i))))"], modifies=['M']),
    },
    canary=[("np.fill_diagonal(connectivity, False)", "pass"),
            ("connectivity[node_to_idx[origin], node_to_idx[target]] = True", "connectivity[node_to_idx[target], node_to_idx[target]] = True"),
            ("target_nodes = res_graph.nodes[target_residue]['graph'].nodes()", "target_nodes = res_graph.nodes[origin_residue]['graph'].nodes()")],
)
CONTRACTS.append(build_connectivity_matrix)

# the grouping of atoms into residues this property rests on (make_residue_graph = collect_residues, then partition_graph, then
# the common attributes of each residue): re-verified here from the current source
from contracts import graph_utils as _gu
CONTRACTS.append(_gu.collect_residues('C15'))
CONTRACTS.append(_gu.partition_graph('C15'))
CONTRACTS.append(_gu.make_residue_graph('C15'))


# ------------------------------------------------------------------ ApplyRubberBand.run_molecule: which parameters reach apply_rubber_band
def setup_arb_run(cx):
    names = ('lower_bound', 'upper_bound', 'decay_factor', 'decay_power', 'base_constant', 'minimum_force')
    vals = {n: cx.val('p_' + n, TReal) for n in names}
    bt, rmd = cx.val('own_bond_type', TOpt(TInt)), cx.val('own_res_min_dist', TOpt(TInt))
    ff_bt, ff_rmd = cx.val('ff_bond_type', TOpt(TInt)), cx.val('ff_res_min_dist', TOpt(TInt))
    cx.spec_env.update(OWN_BT=bt, OWN_RMD=rmd, FF_BT=ff_bt, FF_RMD=ff_rmd)
    cx.spec_env.update({'P_' + n.upper(): v for n, v in vals.items()})
    PASSED = cx.heap('PASSED', Box(TSeq(TTuple(TOpt(TInt), TOpt(TInt)))))       # (bond_type, res_min_dist) of every call
    selector, crit, molecule = Obj('selector'), Obj('domain_criterion'), Obj('Molecule')
    cx.spec_env['MOLECULE'] = molecule

    def variables_get(e, name, default):
        if name == 'the-bond-type-variable':
            return SV(TInt, z3.If(TOpt(TInt).is_none(ff_bt.e), z3.IntVal(default), TOpt(TInt).get(ff_bt.e)))
        if name == 'the-res-min-dist-variable':
            return SV(TInt, z3.If(TOpt(TInt).is_none(ff_rmd.e), z3.IntVal(default), TOpt(TInt).get(ff_rmd.e)))
        raise EngineError('variables.get(%r)' % (name,))
    molecule.attrs['force_field'] = Obj('ForceField', variables=Obj('variables', get=Builtin(variables_get, 'variables.get')))

    def arb(e, mol, sel, **kw):
        from pyvc.builtins import list_append
        ok = mol is molecule and sel is selector and kw.get('domain_criterion') is crit and \
            set(kw) == set(names) | {'bond_type', 'domain_criterion', 'res_min_dist'} and all(kw[n] is vals[n] for n in names)
        e.oblige(ok, 'apply_rubber_band:gets-this-processor-parameters')
        list_append(e, PASSED, (kw['bond_type'], kw['res_min_dist']))
    cx.spec_env['apply_rubber_band'] = Builtin(arb, 'apply_rubber_band')
    cx.spec_env['selectors'] = Obj('selectors', select_backbone=Obj('select_backbone'))     # a default argument of __init__
    self = Obj('ApplyRubberBand', bond_type=bt, res_min_dist=rmd, selector=selector, domain_criterion=crit,
               bond_type_variable='the-bond-type-variable', res_min_dist_variable='the-res-min-dist-variable', **vals)
    return dict(self=self, molecule=molecule)


arb_run_molecule = FunctionContract(
    F, 'ApplyRubberBand.run_molecule', 'C15', setup=setup_arb_run,
    requires=["len(old(PASSED)) == 0"],
    ensures=[
        # apply_rubber_band is called once, on this molecule, with the processor's selector, bounds, decay, constants and domain
        # criterion; bond type and minimum residue distance are the processor's own if given, else the force field's variable, else
        # the defaults 6 and 2
        "result is MOLECULE and len(PASSED) == 1",
        "PASSED[0][0] is not None and payload(PASSED[0][0]) == (payload(OWN_BT) if OWN_BT is not None else (payload(FF_BT) if FF_BT is not None else 6))",
        "PASSED[0][1] is not None and payload(PASSED[0][1]) == (payload(OWN_RMD) if OWN_RMD is not None else (payload(FF_RMD) if FF_RMD is not None else 2))",
    ],
    modifies=['PASSED'],
    canary=[("upper_bound=self.upper_bound,", "upper_bound=self.lower_bound,"),
            ("if self.res_min_dist is None:", "if self.res_min_dist is not None:")],
)
CONTRACTS.append(arb_run_molecule)

"""C12 -- Molecule.add_node and the key / attribute part of Molecule.merge_molecule."""
from pyvc.api import *
from pyvc.builtins import getitem, _minmax

F = 'vermouth/molecule.py'
OKey = TKey('OKey')                       # node keys of the molecule that is merged in (any hashable)
Attrs = TMap(TStr, TInt)                  # node attributes (values as integer codes; resid / charge_group are numbers)
SelfNodes = TMap(TInt, Attrs)             # the receiver's atoms: key -> attributes (keys are ints, as merge requires)
OtherNodes = TMap(OKey, Attrs)

SPEC = {
    # the cached largest key is either unknown or exact
    'maxinv': "lambda mx, nodes: mx is None or (mx in nodes and forall(lambda k: implies(k in nodes, k <= mx)))",
    'same_attrs': "lambda a, b: forall(lambda x: (x in a) == (x in b) and implies(x in a, a[x] == b[x]), TStr)",
    # attributes of a newcomer: copied, resid and charge_group shifted (1 when missing)
    'shifted': "lambda new, src, R, G: forall(lambda x: implies(x != 'resid' and x != 'charge_group', "
               "(x in new) == (x in src) and implies(x in src, new[x] == src[x])), TStr) and "
               "'resid' in new and new['resid'] == (src['resid'] if 'resid' in src else 1) + R and "
               "'charge_group' in new and new['charge_group'] == (src['charge_group'] if 'charge_group' in src else 1) + G",
}


def receiver(cx):
    eng = cx.eng
    SN = cx.heap('SELF_NODES', cx.box('SELF_NODES', SelfNodes))
    nv = Obj('NodeView')
    nv.attrs['__call__'] = Builtin(lambda e: wrap(TBool, SelfNodes.n(SN.e) > 0), 'nodes()')
    nv.attrs['__getitem__'] = Builtin(lambda e, k: getitem(e, SN, k), 'nodes[]')
    o = cx.obj('Molecule', max_node=cx.val('max_node', TOpt(TInt)), nodes=nv, nrexcl=cx.val('nrexcl', TInt))
    return o, SN


# ------------------------------------------------------------------ Molecule.add_node
def setup_add_node(cx):
    o, SN = receiver(cx)

    def nx_add_node(e, key, **attr):
        # assumed contract of networkx.Graph.add_node: create the node or update its attributes
        m = attr.get('**')
        kk = to_z3(key, TInt)
        cur = SN.e
        base = z3.If(SelfNodes.has(cur, kk), SelfNodes.at(cur, kk), Attrs.empty())
        r = e.fresh(Attrs, 'upd')
        x = z3.FreshConst(z3.StringSort(), 'ax')
        me = to_z3(m)
        e.assume(z3.ForAll([x], z3.And(Attrs.has(r, x) == z3.Or(Attrs.has(base, x), Attrs.has(me, x)),
                                       Attrs.at(r, x) == z3.If(Attrs.has(me, x), Attrs.at(me, x), Attrs.at(base, x)))))
        SN.e = SelfNodes.insert(cur, kk, r)
    sup = Obj('super')
    sup.attrs['add_node'] = Builtin(lambda e, *a, **k: nx_add_node(e, a[0], **k), 'Graph.add_node')
    cx.spec_env['super'] = Builtin(lambda e: sup, 'super')
    return dict(self=o, args=(cx.val('key', TInt),), kwargs=cx.val('kwargs', Attrs))


ADD_NODE_ENS = [
    "args[0] in SELF_NODES",
    "forall(lambda x: (x in SELF_NODES[args[0]]) == (x in kwargs or (args[0] in old(SELF_NODES) and x in old(SELF_NODES)[args[0]])) and "
    "   implies(x in SELF_NODES[args[0]], SELF_NODES[args[0]][x] == (kwargs[x] if x in kwargs else old(SELF_NODES)[args[0]][x])), TStr)",
    # no other atom is touched
    "forall(lambda k: implies(k != args[0], (k in SELF_NODES) == (k in old(SELF_NODES)) and "
    "   implies(k in SELF_NODES, same_attrs(SELF_NODES[k], old(SELF_NODES)[k]))))",
    # the cache stays unknown, or stays exact
    "self.max_node == (None if old(self.max_node) is None else max(old(self.max_node), args[0]))",
]
add_node = FunctionContract(
    F, 'Molecule.add_node', 'C12', setup=setup_add_node, spec_defs=SPEC,
    requires=["maxinv(self.max_node, SELF_NODES)"],
    ensures=ADD_NODE_ENS + ["maxinv(self.max_node, SELF_NODES)"],
    modifies=['SELF_NODES', 'self.max_node'],
    canary=[("self.max_node = max(self.max_node, node)", "self.max_node = self.max_node + 1")],
)


# ------------------------------------------------------------------ merge_molecule: keys and attributes of the newcomers
def setup_merge(cx):
    o, SN = receiver(cx)
    order = cx.val('other_order', TSeq(OKey))
    other_nodes = cx.val('other_nodes', OtherNodes)
    onv = Obj('NodeView')
    onv.attrs['__call__'] = Builtin(lambda e: order, 'nodes()')
    onv.attrs['__getitem__'] = Builtin(lambda e, k: getitem(e, other_nodes, k), 'nodes[]')
    other = cx.obj('Molecule', nodes=onv, nrexcl=o.attrs['nrexcl'])
    cx.spec_env['other_order'] = order
    cx.spec_env['other_nodes'] = other_nodes
    cx.uf('opos', [OKey], TInt)

    def my_max(e, *a, **k):
        if len(a) == 1 and a[0] is o:
            # assumed contract of max(graph): the largest node key (ValueError for an empty graph)
            e.maybe_raise(SelfNodes.n(SN.e) > 0, 'ValueError')
            m = e.fresh(TInt, 'maxkey')
            kk = z3.FreshInt('mk')
            e.assume(z3.And(SelfNodes.has(SN.e, m), z3.ForAll([kk], z3.Implies(SelfNodes.has(SN.e, kk), kk <= m))))
            return SV(TInt, m)
        return _minmax(e, True, a, k)
    cx.spec_env['max'] = Builtin(my_max, 'max')
    return dict(self=o, molecule=other)


WORLD = [
    # the newcomer's node order enumerates its atoms without repetition
    "forall(lambda i: implies(0 <= i and i < len(other_order), opos(other_order[i]) == i and other_order[i] in other_nodes))",
    "forall(lambda k: implies(k in other_nodes, 0 <= opos(k) and opos(k) < len(other_order) and other_order[opos(k)] == k), OKey)",
]
OFF = "(g_off)"
merge_keys = FunctionContract(
    F, 'Molecule.merge_molecule', 'C12', short='merge_molecule[atoms]', setup=setup_merge, spec_defs=SPEC,
    spec_env=dict(OKey=OKey),
    region=dict(start="if self.nodes():", end="for name, interactions in molecule.interactions.items():"),
    locals=dict(correspondence=TMap(OKey, TInt)),
    axioms=lambda cx, env: [cx.eng._b(cx.eng.spec_truth(a, env)) for a in WORLD],
    requires=["maxinv(self.max_node, SELF_NODES)"],
    ghost_at={'before:L1': "g_off = offset"},
    ensures=[
        # fresh keys: off + 1, off + 2, ... in the newcomer's atom order, where off is the receiver's largest key (0 if empty)
        "implies(len(old(SELF_NODES)) > 0, g_off in old(SELF_NODES) and forall(lambda k: implies(k in old(SELF_NODES), k <= g_off)))",
        "implies(len(old(SELF_NODES)) == 0, g_off == 0)",
        "forall(lambda i: implies(0 <= i and i < len(other_order), other_order[i] in correspondence and "
        "   correspondence[other_order[i]] == g_off + 1 + i and not (correspondence[other_order[i]] in old(SELF_NODES))))",
        "forall(lambda k: implies(k in correspondence, k in other_nodes), OKey)",
        # nothing overwritten, nothing dropped
        "forall(lambda k: implies(k in old(SELF_NODES), k in SELF_NODES and same_attrs(SELF_NODES[k], old(SELF_NODES)[k])))",
        "forall(lambda k: (k in SELF_NODES) == (k in old(SELF_NODES) or (g_off + 1 <= k and k <= g_off + len(other_order))))",
        # the newcomers carry their attributes, residue numbers and charge groups shifted uniformly by those of the
        # receiver's last (highest-keyed) atom
        "forall(lambda i: implies(0 <= i and i < len(other_order), shifted(SELF_NODES[g_off + 1 + i], other_nodes[other_order[i]], "
        "   residue_offset, offset_charge_group)))",
        "residue_offset == ((old(SELF_NODES)[g_off]['resid'] if 'resid' in old(SELF_NODES)[g_off] else 1) if len(old(SELF_NODES)) > 0 else 0)",
        "offset_charge_group == ((old(SELF_NODES)[g_off]['charge_group'] if 'charge_group' in old(SELF_NODES)[g_off] else 1) if len(old(SELF_NODES)) > 0 else 0)",
        "maxinv(self.max_node, SELF_NODES)",
    ],
    modifies=['SELF_NODES', 'self.max_node'],
    loops={'L1': LoopSpec(
        inv=["forall(lambda i: implies(0 <= i and i < _i, other_order[i] in correspondence and correspondence[other_order[i]] == g_off + 1 + i))",
             "forall(lambda k: implies(k in correspondence, k in other_nodes and opos(k) < _i), OKey)",
             "forall(lambda k: implies(k in old(SELF_NODES), k in SELF_NODES and same_attrs(SELF_NODES[k], old(SELF_NODES)[k])))",
             "forall(lambda k: (k in SELF_NODES) == (k in old(SELF_NODES) or (g_off + 1 <= k and k <= g_off + _i)))",
             "forall(lambda i: implies(0 <= i and i < _i, shifted(SELF_NODES[g_off + 1 + i], other_nodes[other_order[i]], "
             "   residue_offset, offset_charge_group)))",
             "(self.max_node is None and len(old(SELF_NODES)) == 0) or (self.max_node == g_off + _i and len(old(SELF_NODES)) > 0)",
             "forall(lambda k: implies(k in old(SELF_NODES), k <= g_off))", "g_off == offset"],
        modifies=['SELF_NODES', 'correspondence', 'self.max_node'], locals=dict(max_node=TOpt(TInt)),
        ghost_end="prove(shifted(SELF_NODES[idx], other_nodes[node], residue_offset, offset_charge_group), 'new-atom-shifted')\n"
                  "prove(idx == g_off + 1 + _i, 'new-key')")},
    canary=[("start=offset + 1", "start=offset"), ("+ residue_offset", "+ offset_charge_group")],
)

CONTRACTS = [add_node, merge_keys]
LEMMAS = []

"""C12 -- Molecule.add_node and the key / attribute part of Molecule.merge_molecule."""
from pyvc.api import *
from pyvc.builtins import getitem, _minmax

F = 'vermouth/molecule.py'
OKey = TKey('OKey')                       # node keys of the molecule that is merged in (any hashable)
Attrs = TMap(TStr, TInt)                  # node attributes (values as integer codes; resid / charge_group are numbers)
SelfNodes = TMap(TInt, Attrs)             # the receiver's atoms: key -> attributes (keys are ints, as merge requires)
OtherNodes = TMap(OKey, Attrs)

SPEC = {
    # the cached largest key is either unknown or exact
    'maxinv': "lambda mx, nodes: mx is None or (mx in nodes and forall(lambda k: implies(k in nodes, k <= mx)))",
    'same_attrs': "lambda a, b: forall(lambda x: (x in a) == (x in b) and implies(x in a, a[x] == b[x]), TStr)",
    # attributes of a newcomer: copied, resid and charge_group shifted (1 when missing)
    'shifted': "lambda new, src, R, G: forall(lambda x: implies(x != 'resid' and x != 'charge_group', "
               "(x in new) == (x in src) and implies(x in src, new[x] == src[x])), TStr) and "
               "'resid' in new and new['resid'] == (src['resid'] if 'resid' in src else 1) + R and "
               "'charge_group' in new and new['charge_group'] == (src['charge_group'] if 'charge_group' in src else 1) + G",
}


def receiver(cx):
    eng = cx.eng
    SN = cx.heap('SELF_NODES', cx.box('SELF_NODES', SelfNodes))
    nv = Obj('NodeView')
    nv.attrs['__call__'] = Builtin(lambda e: wrap(TBool, SelfNodes.n(SN.e) > 0), 'nodes()')
    nv.attrs['__getitem__'] = Builtin(lambda e, k: getitem(e, SN, k), 'nodes[]')
    # networkx keeps the atoms in Graph._node, a dict in insertion order (key -> attributes): the same table
    o = cx.obj('Molecule', max_node=cx.val('max_node', TOpt(TInt)), nodes=nv, nrexcl=cx.val('nrexcl', TInt), _node=SN)
    return o, SN


# ------------------------------------------------------------------ Molecule.add_node
def setup_add_node(cx):
    o, SN = receiver(cx)

    def nx_add_node(e, key, **attr):
        # assumed contract of networkx.Graph.add_node: create the node or update its attributes
        m = attr.get('**')
        kk = to_z3(key, TInt)
        cur = SN.e
        base = z3.If(SelfNodes.has(cur, kk), SelfNodes.at(cur, kk), Attrs.empty())
        r = e.fresh(Attrs, 'upd')
        x = z3.FreshConst(z3.StringSort(), 'ax')
        me = to_z3(m)
        e.assume(z3.ForAll([x], z3.And(Attrs.has(r, x) == z3.Or(Attrs.has(base, x), Attrs.has(me, x)),
                                       Attrs.at(r, x) == z3.If(Attrs.has(me, x), Attrs.at(me, x), Attrs.at(base, x)))))
        SN.e = SelfNodes.insert(cur, kk, r)
    sup = Obj('super')
    sup.attrs['add_node'] = Builtin(lambda e, *a, **k: nx_add_node(e, a[0], **k), 'Graph.add_node')
    cx.spec_env['super'] = Builtin(lambda e: sup, 'super')
    return dict(self=o, args=(cx.val('key', TInt),), kwargs=cx.val('kwargs', Attrs))


ADD_NODE_ENS = [
    "args[0] in SELF_NODES",
    "forall(lambda x: (x in SELF_NODES[args[0]]) == (x in kwargs or (args[0] in old(SELF_NODES) and x in old(SELF_NODES)[args[0]])) and "
    "   implies(x in SELF_NODES[args[0]], SELF_NODES[args[0]][x] == (kwargs[x] if x in kwargs else old(SELF_NODES)[args[0]][x])), TStr)",
    # no other atom is touched
    "forall(lambda k: implies(k != args[0], (k in SELF_NODES) == (k in old(SELF_NODES)) and "
    "   implies(k in SELF_NODES, same_attrs(SELF_NODES[k], old(SELF_NODES)[k]))))",
    # the cache stays unknown, or stays exact
    "self.max_node == (None if old(self.max_node) is None else max(old(self.max_node), args[0]))",
]
add_node = FunctionContract(
    F, 'Molecule.add_node', 'C12', setup=setup_add_node, spec_defs=SPEC,
    requires=["maxinv(self.max_node, SELF_NODES)"],
    ensures=ADD_NODE_ENS + ["maxinv(self.max_node, SELF_NODES)"],
    modifies=['SELF_NODES', 'self.max_node'],
    canary=[("self.max_node = max(self.max_node, node)", "self.max_node = self.max_node + 1")],
)


# ------------------------------------------------------------------ merge_molecule: keys and attributes of the newcomers
def setup_merge(cx):
    o, SN = receiver(cx)
    order = cx.val('other_order', TSeq(OKey))
    other_nodes = cx.val('other_nodes', OtherNodes)
    onv = Obj('NodeView')
    onv.attrs['__call__'] = Builtin(lambda e: order, 'nodes()')
    onv.attrs['__getitem__'] = Builtin(lambda e, k: getitem(e, other_nodes, k), 'nodes[]')
    other = cx.obj('Molecule', nodes=onv, nrexcl=o.attrs['nrexcl'])
    cx.spec_env['other_order'] = order
    cx.spec_env['other_nodes'] = other_nodes
    cx.uf('opos', [OKey], TInt)

    def my_max(e, *a, **k):
        if len(a) == 1 and a[0] is o:
            # assumed contract of max(graph): the largest node key (ValueError for an empty graph)
            e.maybe_raise(SelfNodes.n(SN.e) > 0, 'ValueError')
            m = e.fresh(TInt, 'maxkey')
            kk = z3.FreshInt('mk')
            e.assume(z3.And(SelfNodes.has(SN.e, m), z3.ForAll([kk], z3.Implies(SelfNodes.has(SN.e, kk), kk <= m))))
            return SV(TInt, m)
        return _minmax(e, True, a, k)
    cx.spec_env['max'] = Builtin(my_max, 'max')
    return dict(self=o, molecule=other)


WORLD = [
    # the newcomer's node order enumerates its atoms without repetition
    "forall(lambda i: implies(0 <= i and i < len(other_order), opos(other_order[i]) == i and other_order[i] in other_nodes))",
    "forall(lambda k: implies(k in other_nodes, 0 <= opos(k) and opos(k) < len(other_order) and other_order[opos(k)] == k), OKey)",
]
OFF = "(g_off)"
merge_keys = FunctionContract(
    F, 'Molecule.merge_molecule', 'C12', short='merge_molecule[atoms]', setup=setup_merge, spec_defs=SPEC,
    spec_env=dict(OKey=OKey),
    region=dict(start="if self.nodes():", end="for name, interactions in molecule.interactions.items():"),
    locals=dict(correspondence=TMap(OKey, TInt)),
    axioms=lambda cx, env: [cx.eng._b(cx.eng.spec_truth(a, env)) for a in WORLD],
    requires=["maxinv(self.max_node, SELF_NODES)"],
    ghost_at={'before:L1': "g_off = offset"},
    ensures=[
        # fresh keys: off + 1, off + 2, ... in the newcomer's atom order, where off is the receiver's largest key (0 if empty)
        "implies(len(old(SELF_NODES)) > 0, g_off in old(SELF_NODES) and forall(lambda k: implies(k in old(SELF_NODES), k <= g_off)))",
        "implies(len(old(SELF_NODES)) == 0, g_off == 0)",
        "forall(lambda i: implies(0 <= i and i < len(other_order), other_order[i] in correspondence and "
        "   correspondence[other_order[i]] == g_off + 1 + i and not (correspondence[other_order[i]] in old(SELF_NODES))))",
        "forall(lambda k: implies(k in correspondence, k in other_nodes), OKey)",
        # nothing overwritten, nothing dropped
        "forall(lambda k: implies(k in old(SELF_NODES), k in SELF_NODES and same_attrs(SELF_NODES[k], old(SELF_NODES)[k])))",
        "forall(lambda k: (k in SELF_NODES) == (k in old(SELF_NODES) or (g_off + 1 <= k and k <= g_off + len(other_order))))",
        # the newcomers carry their attributes, residue numbers and charge groups shifted uniformly by those of the
        # receiver's last (highest-keyed) atom
        "forall(lambda i: implies(0 <= i and i < len(other_order), shifted(SELF_NODES[g_off + 1 + i], other_nodes[other_order[i]], "
        "   residue_offset, offset_charge_group)))",
        "residue_offset == ((old(SELF_NODES)[g_off]['resid'] if 'resid' in old(SELF_NODES)[g_off] else 1) if len(old(SELF_NODES)) > 0 else 0)",
        "offset_charge_group == ((old(SELF_NODES)[g_off]['charge_group'] if 'charge_group' in old(SELF_NODES)[g_off] else 1) if len(old(SELF_NODES)) > 0 else 0)",
        "maxinv(self.max_node, SELF_NODES)",
    ],
    modifies=['SELF_NODES', 'self.max_node'],
    loops={'L1': LoopSpec(
        inv=["forall(lambda i: implies(0 <= i and i < _i, other_order[i] in correspondence and correspondence[other_order[i]] == g_off + 1 + i))",
             "forall(lambda k: implies(k in correspondence, k in other_nodes and opos(k) < _i), OKey)",
             "forall(lambda k: implies(k in old(SELF_NODES), k in SELF_NODES and same_attrs(SELF_NODES[k], old(SELF_NODES)[k])))",
             "forall(lambda k: (k in SELF_NODES) == (k in old(SELF_NODES) or (g_off + 1 <= k and k <= g_off + _i)))",
             "forall(lambda i: implies(0 <= i and i < _i, shifted(SELF_NODES[g_off + 1 + i], other_nodes[other_order[i]], "
             "   residue_offset, offset_charge_group)))",
             "(self.max_node is None and len(old(SELF_NODES)) == 0) or (self.max_node == g_off + _i and len(old(SELF_NODES)) > 0)",
             "forall(lambda k: implies(k in old(SELF_NODES), k <= g_off))", "g_off == offset"],
        modifies=['SELF_NODES', 'correspondence', 'self.max_node'], locals=dict(max_node=TOpt(TInt)),
        ghost_end="prove(shifted(SELF_NODES[idx], other_nodes[node], residue_offset, offset_charge_group), 'new-atom-shifted')\n"
                  "prove(idx == g_off + 1 + _i, 'new-key')")},
    canary=[("start=offset + 1", "start=offset"), ("+ residue_offset", "+ offset_charge_group")],
)

CONTRACTS = [add_node, merge_keys]
LEMMAS = []


# ------------------------------------------------------------------ merge_molecule: the newcomer's interactions and bonds
Params, Meta, EAttr = TKey('Params'), TKey('Meta'), TKey('EAttr')
OIT = TTuple(TSeq(OKey), Params, Meta, names=['atoms', 'parameters', 'meta'])       # an interaction of the newcomer
SIT = TTuple(TSeq(TInt), Params, Meta, names=['atoms', 'parameters', 'meta'])       # ... of the receiver
OEdge = TTuple(OKey, OKey)
SEdge = TTuple(TInt, TInt)


def setup_merge_rest(cx):
    from pyvc.builtins import setitem, contains, list_append
    from pyvc.interp import PyExc
    SN = cx.heap('SELF_NODES', cx.box('SELF_NODES', TSet(TInt)))
    SI = cx.heap('SELF_INTER', cx.box('SELF_INTER', TMap(TStr, TSeq(SIT))))
    SE = cx.heap('SELF_EDGES', cx.box('SELF_EDGES', TSet(SEdge)))
    ointer = cx.val('other_inter', TMap(TStr, TSeq(OIT)))
    oedges = cx.val('other_edges', TSeq(OEdge))
    cx.spec_env['other_inter'], cx.spec_env['other_edges'] = ointer, oedges
    eattr = cx.uf('edge_attrs', [OKey, OKey], EAttr)

    def add_interaction(e, type_, atoms, parameters, meta=None):
        # Molecule.add_interaction by its contract (proved in contracts/c12.py, stated here for integer keys): KeyError unless
        # every atom is an atom of the molecule; otherwise the interaction is appended to the list of its type
        ae = to_z3(atoms, TSeq(TInt))
        q = z3.FreshInt('aq')
        ok = z3.ForAll([q], z3.Implies(z3.And(0 <= q, q < TSeq(TInt).len(ae)), z3.Select(SN.e, TSeq(TInt).at(ae, q))))
        e.maybe_raise(ok, 'KeyError')
        mt = type_of(SI)
        te = to_z3(type_, TStr)
        cur = z3.If(mt.has(SI.e, te), mt.at(SI.e, te), TSeq(SIT).empty())
        rec = SIT.mk(ae, to_z3(parameters, Params), to_z3(meta, Meta))
        new = TSeq(SIT).mk(TSeq(SIT).len(cur) + 1, z3.Store(TSeq(SIT).arr(cur), TSeq(SIT).len(cur), rec))
        SI.e = mt.insert(SI.e, te, new)

    def add_edge(e, a, b, **attrs):
        SE.e = z3.Store(SE.e, SEdge.mk(to_z3(a, TInt), to_z3(b, TInt)), True)
    o = cx.obj('Molecule')
    o.attrs['add_interaction'] = Builtin(add_interaction, 'self.add_interaction')
    o.attrs['add_edge'] = Builtin(add_edge, 'self.add_edge')
    edges = Obj('EdgeView', __getitem__=Builtin(lambda e, k: SV(TMap(TStr, EAttr), e.fresh(TMap(TStr, EAttr), 'eattrs')), 'edges[]'))
    edges.__dict__['iter'] = oedges
    other = Obj('Molecule', interactions=ointer, edges=edges)
    return dict(self=o, molecule=other, correspondence=cx.val('correspondence', TMap(OKey, TInt)))


def _rest_contract(qualname, short, region, setup, corr, n1, n2, canary, guarded=True):
    SPEC_MR = {
        'olen': "lambda t: len(old(SELF_INTER)[t]) if t in old(SELF_INTER) else 0",
        'C': "lambda k: %s[k]" % corr,
        'has_e': "lambda E, a, b: (a, b) in E",
        # the q-th interaction of type t of the newcomer, copied with its atoms renumbered
        'copied': "lambda s, o: len(s.atoms) == len(o.atoms) and forall(lambda j: implies(0 <= j and j < len(o.atoms), s.atoms[j] == C(o.atoms[j]))) "
                  "and s.parameters == o.parameters and s.meta == o.meta",
    }
    SPEC_MR['done'] = ("lambda t: (t in SELF_INTER) == (t in old(SELF_INTER) or len(other_inter[t]) > 0) and "
                       "(len(SELF_INTER[t]) if t in SELF_INTER else 0) == olen(t) + len(other_inter[t]) and "
                       "forall(lambda q: implies(0 <= q and q < olen(t), SELF_INTER[t][q] == old(SELF_INTER)[t][q])) and "
                       "forall(lambda q: implies(0 <= q and q < len(other_inter[t]), copied(SELF_INTER[t][olen(t) + q], other_inter[t][q])))")
    MR_TYPES_DONE = "forall(lambda t: implies(t in other_inter and posof(other_inter, t) < {I}, done(t)), TStr)"
    MR_TYPES_REST = ("forall(lambda t: implies(not (t in other_inter and posof(other_inter, t) < {I}) and {X}, (t in SELF_INTER) == (t in old(SELF_INTER)) and "
                     "implies(t in SELF_INTER, SELF_INTER[t] == old(SELF_INTER)[t])), TStr)")
    return FunctionContract(
        F, qualname, 'C12', short=short, setup=setup, spec_defs=SPEC_MR,
        spec_env=dict(OKey=OKey, Params=Params, Meta=Meta),
        region=region,
        locals=dict(g_w=TMap(SEdge, TInt)),
        requires=[
            # what the atom part establishes (its postcondition): every atom of the newcomer has its new key, which is an atom of
            # the receiver; the newcomer's interactions and bonds refer to its own atoms (its class invariant)
            ("forall(lambda t, q, j: implies(t in other_inter and 0 <= q and q < len(other_inter[t]) and 0 <= j and j < len(other_inter[t][q].atoms), "
             "   other_inter[t][q].atoms[j] in {CORR} and C(other_inter[t][q].atoms[j]) in SELF_NODES), TStr, TInt, TInt)").format(CORR=corr),
            "forall(lambda q: implies(0 <= q and q < len(other_edges), other_edges[q][0] in {CORR} and other_edges[q][1] in {CORR}))".format(CORR=corr),
        ],
        ghost_at={'entry': "g_w = {}"},
        ensures=[
            # every interaction of the newcomer is appended, in order, to the receiver's list of its type, with the atoms
            # renumbered and parameters and meta kept; the receiver's own interactions stay, lists of other types are untouched
            MR_TYPES_DONE.format(I='len(other_inter)'), MR_TYPES_REST.format(I='len(other_inter)', X='True'),
            # every bond of the newcomer (between atoms that get different keys) is a bond between the renumbered atoms; no
            # other bond appears; the receiver's bonds stay
            "forall(lambda q: implies(0 <= q and q < len(other_edges) and C(other_edges[q][0]) != C(other_edges[q][1]), "
            "   (C(other_edges[q][0]), C(other_edges[q][1])) in SELF_EDGES))",
            "forall(lambda a, b: implies((a, b) in SELF_EDGES and not ((a, b) in old(SELF_EDGES)), 0 <= g_w[(a, b)] and g_w[(a, b)] < len(other_edges) and "
            "   a == C(other_edges[g_w[(a, b)]][0]) and b == C(other_edges[g_w[(a, b)]][1])))",
            "forall(lambda a, b: implies((a, b) in old(SELF_EDGES), (a, b) in SELF_EDGES))",
            "SELF_NODES == old(SELF_NODES)",
        ],
        modifies=['SELF_INTER', 'SELF_EDGES'],
        loops={
            'L1': LoopSpec(inv=[MR_TYPES_DONE.format(I='_i'), MR_TYPES_REST.format(I='_i', X='True'), "SELF_EDGES == old(SELF_EDGES)"],
                           modifies=['SELF_INTER'],
                           ghost_end="prove(name in other_inter and posof(other_inter, name) == _i and keyat(other_inter, _i) == name, 'this-type')\n"
                                     "prove(done(name), 'this-type-done')\n"
                                     "prove(forall(lambda t: implies(t in other_inter and posof(other_inter, t) < _i, done(t)), TStr), 'earlier-types')"),
            'L1.1': LoopSpec(inv=[MR_TYPES_DONE.format(I='_iL1'), MR_TYPES_REST.format(I='_iL1', X='t != name'),
                                  "name in other_inter and posof(other_inter, name) == _iL1",
                                  "implies(_i > 0 or name in old(SELF_INTER), name in SELF_INTER) and "
                                  "(len(SELF_INTER[name]) if name in SELF_INTER else 0) == olen(name) + _i",
                                  "forall(lambda q: implies(0 <= q and q < olen(name), SELF_INTER[name][q] == old(SELF_INTER)[name][q]))",
                                  "forall(lambda q: implies(0 <= q and q < _i, copied(SELF_INTER[name][olen(name) + q], other_inter[name][q])))",
                                  "implies(_i == 0 and not (name in old(SELF_INTER)), not (name in SELF_INTER))",
                                  "SELF_EDGES == old(SELF_EDGES)"],
                             modifies=['SELF_INTER']),
            'L2': LoopSpec(inv=["forall(lambda q: implies(0 <= q and q < _i and C(other_edges[q][0]) != C(other_edges[q][1]), "
                                "   (C(other_edges[q][0]), C(other_edges[q][1])) in SELF_EDGES))",
                                "forall(lambda a, b: implies((a, b) in SELF_EDGES and not ((a, b) in old(SELF_EDGES)), 0 <= g_w[(a, b)] and g_w[(a, b)] < _i and "
                                "   a == C(other_edges[g_w[(a, b)]][0]) and b == C(other_edges[g_w[(a, b)]][1])))",
                                "forall(lambda a, b: implies((a, b) in old(SELF_EDGES), (a, b) in SELF_EDGES))"],
                           modifies=['SELF_EDGES', 'g_w'], locals=dict(g_w=TMap(SEdge, TInt)), ghost_pre="g_E = set(SELF_EDGES)",
                           ghost_end=(("if {C}[{A}] != {C}[{B}] and not (({C}[{A}], {C}[{B}]) in g_E):\n" if guarded else
                                               "if not (({C}[{A}], {C}[{B}]) in g_E):\n") +
                                              "    g_w[({C}[{A}], {C}[{B}])] = _i").format(C=corr, A=n1, B=n2)),
        },
        canary=canary,
    )


merge_rest = _rest_contract(
    'Molecule.merge_molecule', 'merge_molecule[interactions and bonds]',
    dict(start="for name, interactions in molecule.interactions.items():", end="self.citations.update(molecule.citations)"),
    setup_merge_rest, 'correspondence', 'node1', 'node2',
    [("atoms = tuple(correspondence[atom] for atom in interaction.atoms)", "atoms = tuple(correspondence[interaction.atoms[0]] for atom in interaction.atoms)"),
     ("self.add_edge(correspondence[node1], correspondence[node2], **attrs)", "self.add_edge(correspondence[node1], correspondence[node1], **attrs)"),
     ("self.add_interaction(name, atoms, interaction.parameters, interaction.meta)", "self.add_interaction(name, atoms, interaction.parameters, {})")])
CONTRACTS.append(merge_rest)


# ------------------------------------------------------------------ Block.to_molecule: the same copy, from a block into a fresh molecule
def setup_to_molecule_rest(cx):
    d = setup_merge_rest(cx)
    receiver, block = d['self'], d['molecule']
    oedges = block.attrs['edges'].__dict__['iter']
    # self.edges(data=True): (a, b, attributes) for every bond of the block
    from pyvc.values import IterV
    from pyvc.builtins import _int
    st = TSeq(OEdge)

    def edges(e, data=False):
        if data is not True:
            raise EngineError('self.edges(data=%r)' % (data,))
        oe = to_z3(oedges, st)
        return IterV(st.len(oe), lambda i: (SV(OKey, OEdge.get(st.at(oe, _int(i)), 0)), SV(OKey, OEdge.get(st.at(oe, _int(i)), 1)),
                                            SV(TMap(TStr, EAttr), e.fresh(TMap(TStr, EAttr), 'eattrs'))))
    block.attrs['edges'] = Builtin(edges, 'block.edges')
    return dict(self=block, mol=receiver, name_to_idx=d['correspondence'])


to_molecule_rest = _rest_contract(
    'Block.to_molecule', 'Block.to_molecule[interactions and bonds]',
    dict(start="for name, interactions in self.interactions.items():", end="try:"),
    setup_to_molecule_rest, 'name_to_idx', 'nodea', 'nodeb',
    [("name_to_idx[atom] for atom in interaction.atoms", "name_to_idx[interaction.atoms[0]] for atom in interaction.atoms"),
     ("mol.add_edge(*(name_to_idx[node] for node in edge), **attrs)", "mol.add_edge(*(name_to_idx[nodea] for node in edge), **attrs)"),
     ("meta=interaction.meta", "meta={}")],
    guarded=False)          # to_molecule copies every bond of the block (merge_molecule skips bonds between atoms that get one key)
CONTRACTS.append(to_molecule_rest)



# ------------------------------------------------------------------ Block.to_molecule: keys and attributes of the atoms
def setup_to_molecule_atoms(cx):
    o, SN = receiver(cx)
    order = cx.val('other_order', TSeq(OKey))
    other_nodes = cx.val('other_nodes', OtherNodes)
    nv = Obj('NodeView', __getitem__=Builtin(lambda e, k: getitem(e, other_nodes, k), 'block.nodes[]'))
    nv.__dict__['iter'] = order
    block = Obj('Block', nodes=nv)
    cx.spec_env['other_order'], cx.spec_env['other_nodes'] = order, other_nodes
    cx.uf('opos', [OKey], TInt)
    defaults = cx.val('default_attributes', Attrs)
    cx.spec_env['DEFAULTS'] = defaults
    return dict(self=block, mol=o, name_to_idx=cx.box('name_to_idx', TMap(OKey, TInt)), default_attributes=defaults,
                atom_offset=cx.val('atom_offset', TInt), offset_resid=cx.val('offset_resid', TInt),
                offset_charge_group=cx.val('offset_charge_group', TInt))


SPEC_TM = dict(SPEC)
SPEC_TM.update({
    # the attributes a block atom gets in the molecule: the defaults, overridden by its own, residue number and charge group
    # shifted (1 when missing)
    'placed': "lambda new, src: forall(lambda x: implies(x != 'resid' and x != 'charge_group', "
              "(x in new) == (x in src or x in DEFAULTS) and implies(x in new, new[x] == (src[x] if x in src else DEFAULTS[x]))), TStr) and "
              "'resid' in new and new['resid'] == (src['resid'] if 'resid' in src else (DEFAULTS['resid'] if 'resid' in DEFAULTS else 1)) + offset_resid and "
              "'charge_group' in new and new['charge_group'] == (src['charge_group'] if 'charge_group' in src else "
              "   (DEFAULTS['charge_group'] if 'charge_group' in DEFAULTS else 1)) + offset_charge_group",
})
TM_INV = [
    "forall(lambda i: implies(0 <= i and i < {I}, other_order[i] in name_to_idx and name_to_idx[other_order[i]] == atom_offset + i))",
    "forall(lambda k: implies(k in name_to_idx, k in other_nodes and opos(k) < {I}), OKey)",
    "forall(lambda k: (k in SELF_NODES) == (atom_offset <= k and k < atom_offset + {I}))",
    "forall(lambda i: implies(0 <= i and i < {I}, placed(SELF_NODES[atom_offset + i], other_nodes[other_order[i]])))",
]
to_molecule_atoms = FunctionContract(
    F, 'Block.to_molecule', 'C12', short='Block.to_molecule[atoms]', setup=setup_to_molecule_atoms, spec_defs=SPEC_TM,
    spec_env=dict(OKey=OKey),
    region=dict(start="for idx, node in enumerate(self.nodes, start=atom_offset):", end="for name, interactions in self.interactions.items():"),
    axioms=lambda cx, env: [cx.eng._b(cx.eng.spec_truth(a, env)) for a in WORLD],
    # a fresh molecule and an empty table
    requires=["len(old(SELF_NODES)) == 0 and maxinv(mol.max_node, SELF_NODES)", "len(old(name_to_idx)) == 0"],
    ensures=[
        # the block's atoms get the keys atom_offset, atom_offset + 1, ... in the block's order - the table the interactions and
        # bonds are renumbered with -, the molecule has exactly those atoms, each with the block atom's attributes on top of the
        # defaults and with residue number and charge group shifted by the given offsets
    ] + [x.format(I='len(other_order)') for x in TM_INV] + ["maxinv(mol.max_node, SELF_NODES)"],
    modifies=['SELF_NODES', 'mol.max_node', 'name_to_idx'],
    loops={'L1': LoopSpec(inv=[x.format(I='_i') for x in TM_INV] + ["maxinv(mol.max_node, SELF_NODES)"],
                          modifies=['SELF_NODES', 'name_to_idx', 'mol.max_node'], locals=dict(max_node=TOpt(TInt)),
                          ghost_end="prove(idx == atom_offset + _i, 'new-key')\n"
                                    "prove(placed(SELF_NODES[idx], other_nodes[node]), 'new-atom-placed')")},
    canary=[("new_atom.update(atom)", "pass"), ("+ offset_resid", "+ offset_charge_group"),
            ("name_to_idx[node] = idx", "name_to_idx[node] = idx + 1")],
)
CONTRACTS.append(to_molecule_atoms)

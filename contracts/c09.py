"""C09 -- a particle sits at the weighted mean of its atoms: the mathematical consequences stated by the property
(bounding box, rigid motion) as lemmas about the weighted mean, by induction over the number of atoms.

wmean(w, x) = SWX(w, x, n) / SW(w, n) per coordinate, where SW / SWX are the prefix sums of the weights and of the
weighted coordinates.  The lemmas are stated on the sums (multiplied out), so no division occurs."""
from pyvc.api import *

F = 'vermouth/processors/average_beads.py'
RS = TSeq(TReal)
RECS = [
    ('SW', [('w', RS), ('i', TInt)], TReal, "0 if i <= 0 else SW(w, i - 1) + w[i - 1]"),
    ('SWX', [('w', RS), ('x', RS), ('i', TInt)], TReal, "0 if i <= 0 else SWX(w, x, i - 1) + w[i - 1] * x[i - 1]"),
]
NONNEG = "forall(lambda k: implies(0 <= k and k < len(w), w[k] >= 0))"

L_swpos = Lemma('L_swpos', [('w', RS), ('i', TInt)], spec_recs=RECS, prop='C09', file=F,
                requires=["i <= len(w)", NONNEG], ensures=["SW(w, i) >= 0"], induction='i')
# non-negative weights: lo * W <= S <= hi * W, i.e. the mean lies in the bounding box of the atoms (per coordinate)
L_box = Lemma('L_box', [('w', RS), ('x', RS), ('lo', TReal), ('hi', TReal), ('i', TInt)], spec_recs=RECS, prop='C09', file=F,
              requires=["i <= len(w) and len(x) == len(w)", NONNEG,
                        "forall(lambda k: implies(0 <= k and k < len(x), lo <= x[k] and x[k] <= hi))"],
              ensures=["lo * SW(w, i) <= SWX(w, x, i)", "SWX(w, x, i) <= hi * SW(w, i)", "SW(w, i) >= 0"], induction='i')
# translation: sum w (x + t) = sum w x + t sum w  => the mean of the translated atoms is the translated mean
L_shift = Lemma('L_shift', [('w', RS), ('x', RS), ('y', RS), ('t', TReal), ('i', TInt)], spec_recs=RECS, prop='C09', file=F,
                requires=["i <= len(w) and len(x) == len(w) and len(y) == len(w)",
                          "forall(lambda k: implies(0 <= k and k < len(x), y[k] == x[k] + t))"],
                ensures=["SWX(w, y, i) == SWX(w, x, i) + t * SW(w, i)"], induction='i')
# linearity (a rotation acts on each output coordinate as a fixed linear combination a x + b y + c z of the input
# coordinates; by L_scale and L_add the weighted sums, hence the mean, transform by the same combination)
L_scale = Lemma('L_scale', [('w', RS), ('x', RS), ('u', RS), ('a', TReal), ('i', TInt)], spec_recs=RECS, prop='C09', file=F,
                requires=["i <= len(w) and len(x) == len(w) and len(u) == len(w)",
                          "forall(lambda k: implies(0 <= k and k < len(w), u[k] == a * x[k]))"],
                ensures=["SWX(w, u, i) == a * SWX(w, x, i)"], induction='i')
L_add = Lemma('L_add', [('w', RS), ('x', RS), ('y', RS), ('u', RS), ('i', TInt)], spec_recs=RECS, prop='C09', file=F,
              requires=["i <= len(w) and len(x) == len(w) and len(y) == len(w) and len(u) == len(w)",
                        "forall(lambda k: implies(0 <= k and k < len(w), u[k] == x[k] + y[k]))"],
              ensures=["SWX(w, u, i) == SWX(w, x, i) + SWX(w, y, i)"], induction='i')
CONTRACTS = []
LEMMAS = [L_swpos, L_box, L_shift, L_scale, L_add]

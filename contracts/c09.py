"""C09 -- a particle sits at the weighted mean of its atoms: the mathematical consequences stated by the property
(bounding box, rigid motion) as lemmas about the weighted mean, by induction over the number of atoms.

wmean(w, x) = SWX(w, x, n) / SW(w, n) per coordinate, where SW / SWX are the prefix sums of the weights and of the
weighted coordinates.  The lemmas are stated on the sums (multiplied out), so no division occurs."""
from pyvc.api import *

F = 'vermouth/processors/average_beads.py'
RS = TSeq(TReal)
RECS = [
    ('SW', [('w', RS), ('i', TInt)], TReal, "0 if i <= 0 else SW(w, i - 1) + w[i - 1]"),
    ('SWX', [('w', RS), ('x', RS), ('i', TInt)], TReal, "0 if i <= 0 else SWX(w, x, i - 1) + w[i - 1] * x[i - 1]"),
]
NONNEG = "forall(lambda k: implies(0 <= k and k < len(w), w[k] >= 0))"

L_swpos = Lemma('L_swpos', [('w', RS), ('i', TInt)], spec_recs=RECS, prop='C09', file=F,
                requires=["i <= len(w)", NONNEG], ensures=["SW(w, i) >= 0"], induction='i')
# non-negative weights: lo * W <= S <= hi * W, i.e. the mean lies in the bounding box of the atoms (per coordinate)
L_box = Lemma('L_box', [('w', RS), ('x', RS), ('lo', TReal), ('hi', TReal), ('i', TInt)], spec_recs=RECS, prop='C09', file=F,
              requires=["i <= len(w) and len(x) == len(w)", NONNEG,
                        "forall(lambda k: implies(0 <= k and k < len(x), lo <= x[k] and x[k] <= hi))"],
              ensures=["lo * SW(w, i) <= SWX(w, x, i)", "SWX(w, x, i) <= hi * SW(w, i)", "SW(w, i) >= 0"], induction='i')
# translation: sum w (x + t) = sum w x + t sum w  => the mean of the translated atoms is the translated mean
L_shift = Lemma('L_shift', [('w', RS), ('x', RS), ('y', RS), ('t', TReal), ('i', TInt)], spec_recs=RECS, prop='C09', file=F,
                requires=["i <= len(w) and len(x) == len(w) and len(y) == len(w)",
                          "forall(lambda k: implies(0 <= k and k < len(x), y[k] == x[k] + t))"],
                ensures=["SWX(w, y, i) == SWX(w, x, i) + t * SW(w, i)"], induction='i')
# linearity (a rotation acts on each output coordinate as a fixed linear combination a x + b y + c z of the input
# coordinates; by L_scale and L_add the weighted sums, hence the mean, transform by the same combination)
L_scale = Lemma('L_scale', [('w', RS), ('x', RS), ('u', RS), ('a', TReal), ('i', TInt)], spec_recs=RECS, prop='C09', file=F,
                requires=["i <= len(w) and len(x) == len(w) and len(u) == len(w)",
                          "forall(lambda k: implies(0 <= k and k < len(w), u[k] == a * x[k]))"],
                ensures=["SWX(w, u, i) == a * SWX(w, x, i)"], induction='i')
L_add = Lemma('L_add', [('w', RS), ('x', RS), ('y', RS), ('u', RS), ('i', TInt)], spec_recs=RECS, prop='C09', file=F,
              requires=["i <= len(w) and len(x) == len(w) and len(y) == len(w) and len(u) == len(w)",
                        "forall(lambda k: implies(0 <= k and k < len(w), u[k] == x[k] + y[k]))"],
              ensures=["SWX(w, u, i) == SWX(w, x, i) + SWX(w, y, i)"], induction='i')
CONTRACTS = []
LEMMAS = [L_swpos, L_box, L_shift, L_scale, L_add]

# ------------------------------------------------------------------ do_average_bead: the averaging loop, on the real source
PNode, Sub, AKey, Vec = TKey('PNode'), TKey('Sub'), TKey('AKey'), TKey('Vec')
Item = TTuple(AKey, Sub)
WOpt = TOpt(TStr)


def setup_dab(cx):
    eng = cx.eng
    from pyvc.values import IterV
    from pyvc.builtins import _int
    pnodes = cx.val('pnodes', TSeq(PNode))                 # molecule.nodes.values(), in order
    cx.spec_env['pnodes'] = pnodes
    has_graph = cx.uf('has_graph', [PNode], TBool)         # 'graph' in node
    subs = cx.uf('subs', [PNode], TSeq(Item))              # node['graph'].nodes.items(): (key, atom) in the graph's order
    pos_of = cx.uf('pos_of', [Sub], TOpt(Vec))             # atom.get('position')
    cw_get = cx.uf('cw_get', [Sub, WOpt], TReal)           # atom.get(weight, 1)
    has_attr = cx.uf('has_attr', [Sub, WOpt], TBool)       # weight in atom
    mw_get = cx.uf('mw_get', [PNode, AKey], TReal)         # node.get('mapping_weights', {}).get(key, 1)
    wmean = cx.uf('wmean', [TSeq(Vec), TSeq(TReal)], Vec)  # numpy.average(positions, axis=0, weights=weights)
    cx.uf('PSEQ', [PNode], TSeq(Vec))
    cx.uf('WSEQ', [PNode], TSeq(TReal))
    cx.uf('pix_ix', [PNode, TInt], TInt)
    cx.uf('pix_rk', [PNode, TInt], TInt)
    cx.uf('pix_len', [PNode], TInt)
    nanvec = z3.Const('NANVEC', Vec.sort())
    cx.spec_env['NANVEC'] = SV(Vec, nanvec)
    POS = cx.heap('POS', cx.box('POS', TMap(PNode, Vec)))  # node['position'] of the particles
    weight = cx.val('weight', WOpt)
    s_ = z3.Const('s', Sub.sort())
    # attribute dictionaries have no None key: atom.get(None, 1) is 1
    cx.assume(z3.ForAll([s_], cw_get(s_, WOpt.none()) == 1))
    n_ = z3.Const('n', PNode.sort())
    cx.assume(z3.ForAll([n_], TSeq(Item).len(subs(n_)) >= 0))

    def sub_view(se):
        o = Obj('atomdict')

        def get(e, k, d=None):
            if k == 'position' and d is None:
                return SV(TOpt(Vec), pos_of(se))
            if d == 1:
                return SV(TReal, cw_get(se, to_z3(k, WOpt)))
            raise EngineError('atom.get(%r, %r) is not modelled' % (k, d))

        def item(e, k):
            if k != 'position':
                raise EngineError('atom[%r] is not modelled' % (k,))
            e.maybe_raise(z3.Not(TOpt(Vec).is_none(pos_of(se))), 'KeyError')
            return SV(Vec, TOpt(Vec).get(pos_of(se)))
        o.attrs['get'] = Builtin(get, 'atom.get')
        o.attrs['__getitem__'] = Builtin(item, 'atom[]')
        o.attrs['__contains__'] = Builtin(lambda e, k: wrap(TBool, has_attr(se, to_z3(k, WOpt))), 'in atom')
        return o

    def node_view(pe):
        o = Obj('particledict')
        o.__dict__['ctx_key'] = SV(PNode, pe)
        items = subs(pe)
        ty = TSeq(Item)

        def it_items(e):
            return IterV(ty.len(items), lambda i: (SV(AKey, Item.get(ty.at(items, _int(i)), 0)),
                                                             sub_view(Item.get(ty.at(items, _int(i)), 1))))

        def it_values(e):
            return IterV(ty.len(items), lambda i: sub_view(Item.get(ty.at(items, _int(i)), 1)))
        nodes = Obj('NodeView')
        nodes.attrs['__call__'] = Builtin(lambda e: nodes, 'nodes()')
        # iterating the node view yields the keys, in the same order as items() / values()
        nodes.__dict__['iter'] = IterV(ty.len(items), lambda i: SV(AKey, Item.get(ty.at(items, _int(i)), 0)))
        nodes.attrs['items'] = Builtin(it_items, 'nodes.items')
        nodes.attrs['values'] = Builtin(it_values, 'nodes.values')
        graph = Obj('graph', nodes=nodes)
        mw = Obj('mapping_weights')
        mw.attrs['get'] = Builtin(lambda e, k, d=None: SV(TReal, mw_get(pe, to_z3(k, AKey))), 'mapping_weights.get')

        def get(e, k, d=None):
            if k == 'mapping_weights':
                return mw
            raise EngineError('particle.get(%r) is not modelled' % (k,))

        def item(e, k):
            if k == 'graph':
                e.maybe_raise(has_graph(pe), 'KeyError')
                return graph
            raise EngineError('particle[%r] is not modelled' % (k,))

        def setitem(e, k, v):
            if k != 'position':
                raise EngineError('particle[%r] = ... is not modelled' % (k,))
            from pyvc.builtins import setitem as _set
            _set(e, POS, SV(PNode, pe), v)
        o.attrs['get'] = Builtin(get, 'particle.get')
        o.attrs['__getitem__'] = Builtin(item, 'particle[]')
        o.attrs['__setitem__'] = Builtin(setitem, 'particle[]=')
        o.attrs['__contains__'] = Builtin(lambda e, k: wrap(TBool, has_graph(pe)) if k == 'graph' else (_ for _ in ()).throw(
            EngineError('%r in particle is not modelled' % (k,))), 'in particle')
        return o
    pty = TSeq(PNode)
    nodes = Obj('NodeView')
    nodes.attrs['values'] = Builtin(lambda e: IterV(pty.len(to_z3(pnodes)),
                                                    lambda i: node_view(pty.at(to_z3(pnodes), _int(i)))), 'molecule.nodes.values')
    molecule = cx.obj('Molecule', nodes=nodes)
    # numpy on this path
    np_ = Obj('numpy')
    nan = Obj('nan')

    def np_array(e, x, dtype=None):
        if isinstance(x, list) and x and all(v is nan for v in x):
            return SV(Vec, nanvec)                         # an all-NaN vector (its length is immaterial)
        return x                                           # an array of the listed rows: the list itself
    np_.attrs['array'] = Builtin(np_array, 'numpy.array')
    np_.attrs['nan'] = nan
    np_.attrs['average'] = Builtin(lambda e, a, axis=None, weights=None: SV(Vec, wmean(to_z3(a, TSeq(Vec)), to_z3(weights, TSeq(TReal)))),
                                   'numpy.average')
    cx.spec_env['np'] = np_

    def shape(e, lst):
        o = Obj('shape')

        def item(e2, k):
            # shape (0,) of an empty array has no second entry; rows have three coordinates (the dimension is immaterial)
            e2.maybe_raise(TSeq(Vec).len(to_z3(lst, TSeq(Vec))) > 0, 'IndexError')
            return 3
        o.attrs['__getitem__'] = Builtin(item, 'shape[]')
        return o
    eng.attr_hooks[('list', 'shape')] = shape
    return dict(molecule=molecule, weight=weight, ignore_missing_graphs=cx.val('ignore_missing_graphs', TBool))


SPEC_DAB = {
    'npos': "lambda n: pix_len(n)",
    # the k-th positioned constituent of particle n: (key, atom)
    'atom_k': "lambda n, k: subs(n)[pix_ix(n, k)]",
    # the rows P and weights W of particle n: one per positioned constituent, in order, the k-th weight being the mapping
    # weight of the k-th positioned atom times its centre weight
    'rows_ok': "lambda n, P, W: len(P) == npos(n) and len(W) == npos(n) and forall(lambda k: implies(0 <= k and k < npos(n), "
               "P[k] == pos_of(atom_k(n, k)[1]) and W[k] == mw_get(n, atom_k(n, k)[0]) * cw_get(atom_k(n, k)[1], weight)))",
    # what the particle's position must be
    'target': "lambda n: NANVEC if abs(SW(WSEQ(n), npos(n))) < 1e-7 else wmean(PSEQ(n), WSEQ(n))",
    # the positioned constituents, in order, are exactly the atoms with coordinates
    'only_positioned': "lambda n: forall(lambda k: implies(0 <= k and k < npos(n), 0 <= pix_ix(n, k) and pix_ix(n, k) < len(subs(n)) and "
                       "pos_of(subs(n)[pix_ix(n, k)][1]) is not None)) and "
                       "forall(lambda i: implies(0 <= i and i < len(subs(n)) and pos_of(subs(n)[i][1]) is not None, "
                       "0 <= pix_rk(n, i) and pix_rk(n, i) < npos(n) and pix_ix(n, pix_rk(n, i)) == i))",
}
# definitions of the specification functions (consistent: such objects exist for every input)
#   pix_*: for every particle n, pix_ix(n, .) is the increasing enumeration of the positions of n's atoms that have coordinates;
#   PSEQ(n), WSEQ(n): the rows and weights of particle n as described by rows_ok
# and the only thing assumed about numpy.average beyond its name: it depends on the listed rows and weights only
DEFS = [
    "forall(lambda n: only_positioned(n) and npos(n) >= 0 and npos(n) <= len(subs(n)), PNode)",
    "forall(lambda n: rows_ok(n, PSEQ(n), WSEQ(n)), PNode)",
    "forall(lambda P, Q, W, V: implies(len(P) == len(Q) and len(W) == len(V) and len(P) == len(W) and "
    "   forall(lambda k: implies(0 <= k and k < len(P), P[k] == Q[k] and W[k] == V[k])), wmean(P, W) == wmean(Q, V)), TVS, TVS, TRS, TRS)",
]
L_sw_ext = Lemma('L_sw_ext', [('w', RS), ('v', RS), ('i', TInt)], spec_recs=RECS[:1], prop='C09', file=F,
                 requires=["i <= len(w) and i <= len(v)", "forall(lambda k: implies(0 <= k and k < len(w) and k < len(v), w[k] == v[k]))"],
                 ensures=["SW(w, i) == SW(v, i)"], induction='i')
LEMMAS.append(L_sw_ext)
PLACED = "forall(lambda i: implies(0 <= i and i < {I} and has_graph(pnodes[i]), pnodes[i] in POS and POS[pnodes[i]] == target(pnodes[i])))"
FRAME = ("forall(lambda n: implies(forall(lambda i: implies(0 <= i and i < {I}, not (pnodes[i] == n and has_graph(n)))), "
         "(n in POS) == (n in old(POS)) and implies(n in POS, POS[n] == old(POS)[n])), PNode)")
average_loop = FunctionContract(
    F, 'do_average_bead', 'C09', short='do_average_bead[averaging]', setup=setup_dab, spec_defs=SPEC_DAB, spec_recs=RECS[:1],
    spec_env=dict(PNode=PNode, Sub=Sub, AKey=AKey, Vec=Vec, TVS=TSeq(Vec), TRS=RS), lemmas=[L_sw_ext],
    region=dict(start="for node in molecule.nodes.values():", nth=2, end="return molecule"),
    filters={"subnode.get('position') is not None": ('pix', 'node')},
    requires=["forall(lambda i, j: implies(0 <= i and i < j and j < len(pnodes), pnodes[i] != pnodes[j]))"],
    axioms=lambda cx, env: [cx.eng._b(cx.eng.spec_truth(d, env)) for d in DEFS],
    ensures=[
        # every particle that represents atoms sits at the weighted mean (numpy.average) of exactly its positioned atoms,
        # the k-th weight being the mapping weight of the k-th positioned atom times its centre weight; its position is
        # undefined (NaN) exactly when those weights sum to zero (below 1e-7 in magnitude)
        PLACED.format(I='len(pnodes)'),
        # nothing else is moved
        FRAME.format(I='len(pnodes)'),
    ],
    modifies=['POS'],
    loops={'L1': LoopSpec(inv=[PLACED.format(I='_i'), FRAME.format(I='_i')], modifies=['POS'],
                          ghost_end="if 'graph' in node:\n"
                                    "    prove(rows_ok(pnodes[_i], positions, weights), 'rows-of-this-particle')\n"
                                    "    use_lemma('L_sw_ext', weights, WSEQ(pnodes[_i]), len(weights))\n"
                                    "    prove(POS[pnodes[_i]] == target(pnodes[_i]), 'position-of-this-particle')")},
    canary=[("if subnode.get('position') is not None\n            ])\n            weights", "])\n            weights"),
            ("if abs(sum(weights)) < 1e-7:", "if sum(weights) < 1e-7:"),
            ("node.get('mapping_weights', {}).get(subnode_key, 1) * subnode.get(weight, 1)", "node.get('mapping_weights', {}).get(subnode_key, 1)")],
)
CONTRACTS.append(average_loop)


# ------------------------------------------------------------------ do_average_bead: what is checked before anything is moved
SPEC_VAL = {
    # particle i represents atoms, and one of them lacks the attribute the average is to be weighted with
    'lacks_weight': "lambda i: has_graph(pnodes[i]) and weight is not None and "
                    "exists(lambda k: 0 <= k and k < len(subs(pnodes[i])) and not has_attr(subs(pnodes[i])[k][1], weight))",
    'no_graph': "lambda i: not has_graph(pnodes[i])",
}
validation = FunctionContract(
    F, 'do_average_bead', 'C09', short='do_average_bead[validation]', setup=setup_dab, spec_defs=SPEC_VAL,
    spec_env=dict(PNode=PNode, Sub=Sub, AKey=AKey, Vec=Vec),
    region=dict(start="missing = []", end="for node in molecule.nodes.values():", end_nth=2),
    locals=dict(missing=TSeq(PNode)),
    ensures=[
        # the averaging starts only if every particle that represents atoms has the weighting attribute on all of them, and
        # - unless missing graphs are to be ignored - every particle represents atoms; nothing has been moved
        "forall(lambda i: implies(0 <= i and i < len(pnodes), not lacks_weight(i)))",
        "implies(not ignore_missing_graphs, forall(lambda i: implies(0 <= i and i < len(pnodes), not no_graph(i))))",
    ],
    raises={
        # KeyError: at the first particle with an atom that lacks the weighting attribute
        'KeyError': ["exists(lambda i: 0 <= i and i < len(pnodes) and lacks_weight(i))"],
        # ValueError: some particle represents no atoms, that is not to be ignored, and no particle lacks a weight
        'ValueError': ["not ignore_missing_graphs and exists(lambda i: 0 <= i and i < len(pnodes) and no_graph(i))",
                       "forall(lambda i: implies(0 <= i and i < len(pnodes), not lacks_weight(i)))"],
    },
    modifies=[],
    loops={'L1': LoopSpec(inv=["forall(lambda i: implies(0 <= i and i < _i, not lacks_weight(i)))",
                               "(len(missing) > 0) == exists(lambda i: 0 <= i and i < _i and no_graph(i))"],
                          modifies=['missing'])},
    canary=[("if missing and not ignore_missing_graphs:", "if missing and ignore_missing_graphs:"),
            ("if not have_all_weights:", "if have_all_weights:"),
            ("if 'graph' not in node:", "if 'graph' in node:")],
)
CONTRACTS.append(validation)


# ------------------------------------------------------------------ do_average_bead as a whole: the two regions composed (block contracts)
SPEC_WHOLE = dict(SPEC_DAB)
SPEC_WHOLE.update(SPEC_VAL)
average_whole = FunctionContract(
    F, 'do_average_bead', 'C09', short='do_average_bead[whole]', setup=setup_dab, spec_defs=SPEC_WHOLE, spec_recs=RECS[:1],
    spec_env=dict(PNode=PNode, Sub=Sub, AKey=AKey, Vec=Vec, TVS=TSeq(Vec), TRS=RS),
    blocks=[BlockSpec.of(validation), BlockSpec.of(average_loop)],
    requires=["forall(lambda i, j: implies(0 <= i and i < j and j < len(pnodes), pnodes[i] != pnodes[j]))"],      # node keys are distinct
    axioms=lambda cx, env: [cx.eng._b(cx.eng.spec_truth(d, env)) for d in DEFS],
    ensures=[
        # the molecule comes back with every particle that represents atoms at the weighted mean of exactly its positioned atoms (NaN when
        # the weights cancel), nothing else moved - and that only after the checks passed
        PLACED.format(I='len(pnodes)'), FRAME.format(I='len(pnodes)'),
        "forall(lambda i: implies(0 <= i and i < len(pnodes), not lacks_weight(i)))",
        "implies(not ignore_missing_graphs, forall(lambda i: implies(0 <= i and i < len(pnodes), not no_graph(i))))",
    ],
    raises={
        # a failed check is an error before anything is moved
        'KeyError': ["exists(lambda i: 0 <= i and i < len(pnodes) and lacks_weight(i))",
                     "forall(lambda n: (n in POS) == (n in old(POS)) and implies(n in POS, POS[n] == old(POS)[n]), PNode)"],
        'ValueError': ["not ignore_missing_graphs and exists(lambda i: 0 <= i and i < len(pnodes) and no_graph(i))",
                       "forall(lambda n: (n in POS) == (n in old(POS)) and implies(n in POS, POS[n] == old(POS)[n]), PNode)"],
    },
    modifies=['POS'],
)
CONTRACTS.append(average_whole)


# ------------------------------------------------------------------ DoAverageBead.run_molecule: which weight is used
def setup_rm(kind):
    def setup(cx):
        eng = cx.eng
        calls = cx.heap('CALLS', Box(TSeq(TTuple(TBool, WOpt))))      # ghost trace of do_average_bead(molecule, ignore, weight=...)
        cw = cx.val('center_weight', WOpt)                               # force_field.variables.get('center_weight', None)
        cx.spec_env['center_weight'] = cw
        variables = Obj('variables')

        def vget(e, k, d=None):
            if k == 'center_weight' and d is None:
                return cw
            raise EngineError('variables.get(%r, %r) is not modelled' % (k, d))
        variables.attrs['get'] = Builtin(vget, 'variables.get')
        molecule = cx.obj('Molecule', force_field=Obj('ForceField', variables=variables))
        from pyvc.builtins import list_append

        def dab(e, mol, ignore=False, weight=None):
            if mol is not molecule:
                raise EngineError('do_average_bead called on another molecule')
            if isinstance(weight, bool):
                weight = '<%s>' % weight          # a boolean passed on as if it were an attribute name
            list_append(e, calls, (ignore, SV(WOpt, to_z3(weight, WOpt))))
            return mol
        cx.spec_env['do_average_bead'] = Builtin(dab, 'do_average_bead')
        w = {'none': None, 'false': False, 'name': cx.val('configured', TStr)}[kind]
        if kind == 'name':
            cx.spec_env['configured'] = w
        self = cx.obj('DoAverageBead', ignore_missing_graphs=cx.val('ignore_missing_graphs', TBool), weight=w)
        return dict(self=self, molecule=molecule)
    return setup


for _kind, _expect in (('none', 'center_weight'), ('false', 'None'), ('name', 'configured')):
    CONTRACTS.append(FunctionContract(
        F, 'DoAverageBead.run_molecule', 'C09', short='run_molecule[weight=%s]' % _kind, setup=setup_rm(_kind),
        ensures=[
            # the beads are averaged exactly once, with the force field's centre weight when none is configured, with no
            # weight when it is switched off (False), and with the configured attribute otherwise
            "len(CALLS) == 1 and CALLS[0][0] == self.ignore_missing_graphs and raw_eq(CALLS[0][1], %s)" % _expect,
            # the processor itself is not changed by a run (the next molecule may belong to another force field)
            {'none': "self.weight is None", 'false': "self.weight is False", 'name': "self.weight == configured"}[_kind],
        ],
        modifies=['CALLS'],
        canary=[("elif self.weight is False:", "elif self.weight is True:")] if _kind == 'false' else
               [("weight = molecule.force_field.variables.get('center_weight', None)", "weight = None")] if _kind == 'none' else
               [("weight = self.weight", "weight = None")],
    ))

"""C06 -- subgraph matching: the partition helper of the symmetry analysis (the search itself is bounded only)."""
from pyvc.api import *

F = 'vermouth/ismags.py'
Item = TKey('Item')
Cells = TSeq(TSet(Item))

SPEC = {}


def setup_mp(cx):
    rel = cx.uf('rel', [Item, Item], TBool)
    x, y, z = [z3.Const(n, Item.sort()) for n in 'xyz']
    # `test` is an equivalence relation (the docstring demands transitivity; the callers pass equalities of colours)
    cx.assume(z3.ForAll([x], rel(x, x)))
    cx.assume(z3.ForAll([x, y], rel(x, y) == rel(y, x)))
    cx.assume(z3.ForAll([x, y, z], z3.Implies(z3.And(rel(x, y), rel(y, z)), rel(x, z))))
    return dict(items=cx.val('items', TSeq(Item)),
                test=Builtin(lambda e, a, b: wrap(TBool, rel(to_z3(a, Item), to_z3(b, Item))), 'test'))


PLACED = "forall(lambda q: implies(0 <= q and q < {I}, items[q] in g_cell and 0 <= g_cell[items[q]] and g_cell[items[q]] < len(partitions) and items[q] in partitions[g_cell[items[q]]]))"
MEMBERS = ("forall(lambda c, x: implies(0 <= c and c < len(partitions) and x in partitions[c], x in g_cell and g_cell[x] == c and "
           "x in g_q and 0 <= g_q[x] and g_q[x] < {I} and items[g_q[x]] == x), TInt, Item)")
RELATED = "forall(lambda c, x, y: implies(0 <= c and c < len(partitions) and x in partitions[c] and y in partitions[c], rel(x, y)), TInt, Item, Item)"
SEPARATE = ("forall(lambda c, d, x, y: implies(0 <= c and c < d and d < len(partitions) and x in partitions[c] and y in partitions[d], "
            "not rel(x, y)), TInt, TInt, Item, Item)")
KEYS = "forall(lambda x: implies(x in g_cell, 0 <= g_cell[x] and g_cell[x] < len(partitions) and x in partitions[g_cell[x]]), Item)"
NONEMPTY = "forall(lambda c: implies(0 <= c and c < len(partitions), c in g_rep and g_rep[c] in partitions[c]))"

make_partitions = FunctionContract(
    F, 'make_partitions', 'C06', setup=setup_mp, spec_defs=SPEC, spec_env=dict(Item=Item),
    locals=dict(partitions=Cells, g_cell=TMap(Item, TInt), g_q=TMap(Item, TInt), g_rep=TMap(TInt, Item)),
    ghost_at={'entry': "g_cell = {}\ng_q = {}\ng_rep = {}"},
    ensures=[
        # the result is the partition of the items into the classes of `test`: every item is in a cell, every member of a
        # cell is an item, cells are disjoint (a member knows its cell), members of one cell are related, members of
        # different cells are not
        PLACED.format(I='len(items)').replace('partitions', 'result'),
        MEMBERS.format(I='len(items)').replace('partitions', 'result'),
        RELATED.replace('partitions', 'result'), SEPARATE.replace('partitions', 'result'),
    ],
    loops={
        'L1': LoopSpec(inv=[PLACED.format(I='_i'), MEMBERS.format(I='_i'), RELATED, SEPARATE, NONEMPTY, KEYS],
                       modifies=['partitions', 'g_cell', 'g_q', 'g_rep'],
                       locals=dict(partitions=Cells, g_cell=TMap(Item, TInt), g_q=TMap(Item, TInt), g_rep=TMap(TInt, Item)),
                       ghost_pre="g_had = item in g_cell\ng_n0 = len(partitions)",
                       ghost_end=("if not g_had:\n"
                                  "    g_q[item] = _i\n"
                                  "    if len(partitions) > g_n0:\n"
                                  "        g_cell[item] = g_n0\n"
                                  "        g_rep[g_n0] = item\n"
                                  "    else:\n"
                                  "        g_cell[item] = g_cur\n")),
        'L1.1': LoopSpec(inv=["forall(lambda c, x: implies(0 <= c and c < _i and x in partitions[c], not rel(item, x)), TInt, Item)"],
                         ghost_init="g_cur = -1", ghost_pre="g_cur = _i"),
    },
    canary=[("if test(item, p_item):", "if not test(item, p_item):"), ("partitions.append(set((item,)))", "partitions.append(set())")],
)
CONTRACTS = [make_partitions]
LEMMAS = []


# ------------------------------------------------------------------ partition_to_color: the colour of an item is its cell
partition_to_color = FunctionContract(
    F, 'partition_to_color', 'C06', spec_env=dict(Item=Item),
    setup=lambda cx: dict(partitions=cx.val('partitions', TSeq(TSeq(Item)))),
    locals=dict(colors=TMap(Item, TInt), g_i=TMap(Item, TInt)), result_ty=TMap(Item, TInt),
    # the cells are disjoint (what make_partitions delivers)
    requires=["forall(lambda c, d, i, j: implies(0 <= c and c < len(partitions) and 0 <= d and d < len(partitions) and 0 <= i and "
              "   i < len(partitions[c]) and 0 <= j and j < len(partitions[d]) and partitions[c][i] == partitions[d][j], c == d))"],
    ensures=[
        "forall(lambda c, i: implies(0 <= c and c < len(partitions) and 0 <= i and i < len(partitions[c]), "
        "   partitions[c][i] in result and result[partitions[c][i]] == c))",
        "forall(lambda x: implies(x in result, 0 <= result[x] and result[x] < len(partitions) and 0 <= g_i[x] and "
        "   g_i[x] < len(partitions[result[x]]) and partitions[result[x]][g_i[x]] == x), Item)",
    ],
    ghost_at={'entry': "g_i = {}"},
    loops={
        'L1': LoopSpec(inv=["forall(lambda c, i: implies(0 <= c and c < _i and 0 <= i and i < len(partitions[c]), "
                            "   partitions[c][i] in colors and colors[partitions[c][i]] == c))",
                            "forall(lambda x: implies(x in colors, 0 <= colors[x] and colors[x] < _i and 0 <= g_i[x] and "
                            "   g_i[x] < len(partitions[colors[x]]) and partitions[colors[x]][g_i[x]] == x), Item)"],
                       modifies=['colors', 'g_i'], locals=dict(colors=TMap(Item, TInt), g_i=TMap(Item, TInt))),
        'L1.1': LoopSpec(inv=["forall(lambda c, i: implies(0 <= c and c < _iL1 and 0 <= i and i < len(partitions[c]), "
                              "   partitions[c][i] in colors and colors[partitions[c][i]] == c))",
                              "forall(lambda i: implies(0 <= i and i < _i, partitions[_iL1][i] in colors and colors[partitions[_iL1][i]] == _iL1))",
                              "forall(lambda x: implies(x in colors, 0 <= colors[x] and colors[x] <= _iL1 and 0 <= g_i[x] and "
                              "   g_i[x] < len(partitions[colors[x]]) and partitions[colors[x]][g_i[x]] == x and "
                              "   implies(colors[x] == _iL1, g_i[x] < _i)), Item)"],
                         modifies=['colors', 'g_i'], locals=dict(colors=TMap(Item, TInt), g_i=TMap(Item, TInt)),
                         ghost_end="g_i[key] = _i"),
    },
    canary=[("colors[key] = color", "colors[key] = 0")],
)
CONTRACTS.append(partition_to_color)


# ------------------------------------------------------------------ ISMAGS._make_constraints: cosets -> ordering constraints
PairI = TTuple(Item, Item)
make_constraints = FunctionContract(
    F, 'ISMAGS._make_constraints', 'C06', spec_env=dict(Item=Item),
    setup=lambda cx: dict(cosets=cx.val('cosets', TMap(Item, TSeq(Item)))),
    locals=dict(constraints=TSet(PairI), g_j=TMap(PairI, TInt)), result_ty=TSet(PairI),
    ensures=[
        # exactly the pairs (i, t) with t in the coset of i and t != i
        "forall(lambda a, b: ((a, b) in result) == (a in cosets and a != b and "
        "   exists(lambda j: 0 <= j and j < len(cosets[a]) and cosets[a][j] == b)), Item, Item)",
    ],
    ghost_at={'entry': "g_j = {}"},
    loops={
        'L1': LoopSpec(inv=["forall(lambda a, b: implies((a, b) in constraints, a in cosets and posof(cosets, a) < _i and a != b and "
                            "   0 <= g_j[(a, b)] and g_j[(a, b)] < len(cosets[a]) and cosets[a][g_j[(a, b)]] == b), Item, Item)",
                            "forall(lambda a, j: implies(a in cosets and posof(cosets, a) < _i and 0 <= j and j < len(cosets[a]) and "
                            "   cosets[a][j] != a, (a, cosets[a][j]) in constraints), Item, TInt)"],
                       modifies=['constraints', 'g_j'], locals=dict(constraints=TSet(PairI), g_j=TMap(PairI, TInt))),
        'L1.1': LoopSpec(inv=["forall(lambda a, b: implies((a, b) in constraints, a in cosets and posof(cosets, a) <= _iL1 and a != b and "
                              "   0 <= g_j[(a, b)] and g_j[(a, b)] < len(cosets[a]) and cosets[a][g_j[(a, b)]] == b and "
                              "   implies(posof(cosets, a) == _iL1, g_j[(a, b)] < _i)), Item, Item)",
                              "forall(lambda a, j: implies(a in cosets and posof(cosets, a) < _iL1 and 0 <= j and j < len(cosets[a]) and "
                              "   cosets[a][j] != a, (a, cosets[a][j]) in constraints), Item, TInt)",
                              "forall(lambda j: implies(0 <= j and j < _i and node_ts[j] != node_i, (node_i, node_ts[j]) in constraints))",
                              "node_i in cosets and posof(cosets, node_i) == _iL1 and keyat(cosets, _iL1) == node_i"],
                         modifies=['constraints', 'g_j'], locals=dict(constraints=TSet(PairI), g_j=TMap(PairI, TInt)),
                         ghost_end="if node_i != node_t:\n    g_j[(node_i, node_t)] = _i"),
    },
    canary=[("if node_i != node_t:", "if True:"), ("constraints.add((node_i, node_t))", "constraints.add((node_t, node_i))")],
)
CONTRACTS.append(make_constraints)


# ------------------------------------------------------------------ ISMAGS._edges_of_same_color
INode, IColor, IEdge = TKey('INode'), TKey('IColor'), TKey('IEdge')
INPair = TTuple(INode, INode)


def setup_esc(cx):
    sge = cx.val('sge_colors', TMap(INPair, IColor))        # colour of every edge of the pattern (one orientation per edge)
    compat = cx.val('edge_compatibility', TMap(IColor, IColor))   # pattern edge colour -> colour of the graph edges it may map to
    parts = cx.val('ge_partitions', TSeq(TSeq(IEdge)))      # graph edges by colour number
    cnum = cx.uf('color_number', [IColor], TInt)            # a colour is a position in the partition list
    cx.spec_env.update(SGE=sge, COMPAT=compat, PARTS=parts)
    pl = Obj('partitions', __getitem__=Builtin(
        lambda e, c: (e.maybe_raise(z3.And(0 <= cnum(to_z3(c, IColor)), cnum(to_z3(c, IColor)) < TSeq(TSeq(IEdge)).len(parts.e)), 'IndexError'),
                      SV(TSeq(IEdge), TSeq(TSeq(IEdge)).at(parts.e, cnum(to_z3(c, IColor)))))[1], 'ge_partitions[]'))
    self = Obj('ISMAGS', _sge_colors=sge, _edge_compatibility=compat, _ge_partitions=pl)
    return dict(self=self, sgn1=cx.val('sgn1', INode), sgn2=cx.val('sgn2', INode))


edges_of_same_color = FunctionContract(
    F, 'ISMAGS._edges_of_same_color', 'C06', setup=setup_esc, spec_env=dict(INode=INode, IColor=IColor), result_ty=TSeq(IEdge),
    spec_defs={'col': "lambda: SGE[(sgn1, sgn2)] if (sgn1, sgn2) in SGE else SGE[(sgn2, sgn1)]"},
    requires=["(sgn1, sgn2) in SGE or (sgn2, sgn1) in SGE",
              "forall(lambda c: implies(c in COMPAT, 0 <= color_number(COMPAT[c]) and color_number(COMPAT[c]) < len(PARTS)), IColor)"],
    ensures=[
        # the graph edges a pattern edge may be mapped to: those of the colour compatible with its own, none if there is no such colour
        "implies(col() in COMPAT, len(result) == len(PARTS[color_number(COMPAT[col()])]) and "
        "   forall(lambda i: implies(0 <= i and i < len(result), result[i] == PARTS[color_number(COMPAT[col()])][i])))",
        "implies(not (col() in COMPAT), len(result) == 0)",
    ],
    canary=[("sge_color = self._sge_colors[sgn2, sgn1]", "sge_color = self._sge_colors[sgn1, sgn1]"),
            ("g_edges = self._ge_partitions[ge_color]", "g_edges = self._ge_partitions[sge_color]")],
)
CONTRACTS.append(edges_of_same_color)


# ------------------------------------------------------------------ ISMAGS._remove_node: which node is dropped under the symmetry constraints
RNode = TKey('RNode')
Constraint = TTuple(RNode, RNode, names=['low', 'high'])


def setup_rn(cx):
    nodes = cx.val('NODES', TSet(RNode))
    cons = cx.val('CONSTRAINTS', TSeq(Constraint))
    node0 = cx.val('node', RNode)
    cx.spec_env.update(NODES=nodes, CONSTRAINTS=cons, NODE0=node0)
    # above(a, b): b can stand in for a - ANY reflexive, transitive relation that contains the usable constraints (low, high) with
    # high still in the set; what holds for every such relation holds for the closure of the constraints
    above = cx.uf('above', [RNode, RNode], TBool)
    a, b, c = [z3.Const(n, RNode.sort()) for n in ('ra', 'rb', 'rc')]
    k = z3.Int('rk')
    st = TSeq(Constraint)
    cx.assume(z3.ForAll([a], above(a, a)))
    cx.assume(z3.ForAll([a, b, c], z3.Implies(z3.And(above(a, b), above(b, c)), above(a, c))))
    cx.assume(z3.ForAll([k], z3.Implies(z3.And(0 <= k, k < st.len(cons.e), z3.Select(nodes.e, Constraint.get(st.at(cons.e, k), 1))),
                                        above(Constraint.get(st.at(cons.e, k), 0), Constraint.get(st.at(cons.e, k), 1)))))
    cx.spec_env['frozenset'] = Builtin(lambda e, s: s, 'frozenset')      # an immutable copy: the same set of elements
    return dict(node=node0, nodes=nodes, constraints=cons)


SPEC_RN = {
    # no usable constraint leads on from x
    'terminal': "lambda x: forall(lambda k: implies(0 <= k and k < len(CONSTRAINTS), not (CONSTRAINTS[k].low == x and CONSTRAINTS[k].high in NODES)))",
}
remove_node_sym = FunctionContract(
    F, 'ISMAGS._remove_node', 'C06', setup=setup_rn, spec_defs=SPEC_RN, spec_env=dict(RNode=RNode),
    ensures=[
        # exactly one node is dropped: one that can stand in for the given node through a chain of usable constraints (the node
        # itself if there is none) and from which no usable constraint leads on; termination is not shown
        "forall(lambda x: (x in result) == (x in NODES and x != node), RNode)",
        "above(NODE0, node) and terminal(node)",
    ],
    loops={'L1': LoopSpec(inv=["above(NODE0, node)"], modifies=[]),
           'L1.1': LoopSpec(inv=["forall(lambda k: implies(0 <= k and k < _i, not (CONSTRAINTS[k].low == node and CONSTRAINTS[k].high in NODES)))",
                                 "above(NODE0, node)"], modifies=[])},
    canary=[("if low == node and high in nodes:", "if low == node:"),
            ("for low, high in constraints:", "for high, low in constraints:"),
            ("return frozenset(nodes - {node})", "return frozenset(nodes)")],
)
CONTRACTS.append(remove_node_sym)


# ------------------------------------------------------------------ ISMAGS._find_permutations
PNode = TKey('PNode')
PPair = TKey('PPair')


def setup_fp(cx):
    top, bot = cx.val('TOP', TSeq(TSet(PNode))), cx.val('BOT', TSeq(TSet(PNode)))
    cx.spec_env.update(TOP=top, BOT=bot)
    cx.assume(TSeq(TSet(PNode)).len(top.e) == TSeq(TSet(PNode)).len(bot.e))
    pair = cx.uf('pair', [PNode, PNode], PPair)             # frozenset((a, b)): the unordered pair
    only = cx.uf('only', [TSet(PNode)], PNode)              # next(iter(s)) of a one-element set: its element
    a, b = z3.Const('pa', PNode.sort()), z3.Const('pb', PNode.sort())
    cx.assume(z3.ForAll([a, b], pair(a, b) == pair(b, a)))

    def frozenset_(e, t):
        if not isinstance(t, tuple) or len(t) != 2:
            raise EngineError('frozenset(%r)' % (t,))
        return SV(PPair, pair(to_z3(t[0], PNode), to_z3(t[1], PNode)))
    cx.spec_env['frozenset'] = Builtin(frozenset_, 'frozenset')

    def next_(e, it):
        src = getattr(it, 'src', None)
        if src is None or not isinstance(type_of(src), TSet):
            raise EngineError('next() of something else')
        se = to_z3(src)
        e.maybe_raise(se != TSet(PNode).empty(), 'StopIteration')
        x = only(se)
        e.assume(z3.Implies(se != TSet(PNode).empty(), z3.Select(se, x)))
        return SV(PNode, x)
    cx.spec_env['next'] = Builtin(next_, 'next')
    cx.spec_env['iter'] = Builtin(lambda e, s: _IterOf(s), 'iter')
    return dict(top_partitions=top, bottom_partitions=bot)


class _IterOf:
    def __init__(self, src):
        self.src = src


SPEC_FP = {
    'moved': "lambda k: not forall(lambda x: (x in TOP[k]) == (x in BOT[k]), PNode)",
}
find_permutations = FunctionContract(
    F, 'ISMAGS._find_permutations', 'C06', setup=setup_fp, spec_defs=SPEC_FP, spec_env=dict(PNode=PNode, PPair=PPair),
    locals=dict(permutations=TSet(PPair)),
    ensures=[
        # the permutation found by a pair of fully refined partitions: for every position where the two cells differ, the pair
        # (element of the top cell, element of the bottom cell) - and nothing else
        "forall(lambda k: implies(0 <= k and k < len(TOP) and moved(k), pair(only(TOP[k]), only(BOT[k])) in result))",
        "forall(lambda p: implies(p in result, exists(lambda k: 0 <= k and k < len(TOP) and moved(k) and p == pair(only(TOP[k]), only(BOT[k])))), PPair)",
    ],
    # a cell with more or fewer than one node: IndexError
    raises={'IndexError': ["exists(lambda k: 0 <= k and k < len(TOP) and (len(TOP[k]) != 1 or len(BOT[k]) != 1))"]},
    loops={'L1': LoopSpec(inv=[
        "forall(lambda k: implies(0 <= k and k < _i and moved(k), pair(only(TOP[k]), only(BOT[k])) in permutations))",
        "forall(lambda p: implies(p in permutations, exists(lambda k: 0 <= k and k < _i and moved(k) and p == pair(only(TOP[k]), only(BOT[k])))), PPair)",
        "forall(lambda k: implies(0 <= k and k < _i, len(TOP[k]) == 1 and len(BOT[k]) == 1))"],
        modifies=['permutations'])},
    canary=[("if top != bot:", "if top == bot:"), ("if len(top) != 1 or len(bot) != 1:", "if len(top) != 1 and len(bot) != 1:")],
)
CONTRACTS.append(find_permutations)


# ------------------------------------------------------------------ ISMAGS._find_neighbor_color_count
CNode, CColor = TKey('CNode'), TKey('CColor')
CKey = TTuple(CColor, CColor)                               # (edge colour, node colour)
CPair = TTuple(CNode, CNode)
RECS_CNT = [('CNT', [('nb', TSeq(CNode)), ('i', TInt), ('ec', CColor), ('nc', CColor)], TInt,
             "0 if i <= 0 else CNT(nb, i - 1, ec, nc) + (1 if (ecol(nb[i - 1]) == ec and ncol(nb[i - 1]) == nc) else 0)")]


def setup_ncc(cx):
    nbrs = cx.val('NEIGHBOURS', TSeq(CNode))                # graph[node], in order
    cx.spec_env['NEIGHBOURS'] = nbrs
    ncol = cx.uf('ncol', [CNode], CColor)                   # node_color[neighbour]
    ecol = cx.uf('ecol', [CNode], CColor)                   # the colour of the edge between `node` and that neighbour
    fwd = cx.uf('stored_forward', [CNode], TBool)           # ... is stored as (node, neighbour) (else as (neighbour, node))
    node = cx.val('node', CNode)

    def edge_contains(e, t):
        if not (isinstance(t, tuple) and len(t) == 2 and t[0] is node):
            raise EngineError('%r in edge_color' % (t,))
        return wrap(TBool, fwd(to_z3(t[1], CNode)))

    def edge_get(e, t):
        if not (isinstance(t, tuple) and len(t) == 2):
            raise EngineError('edge_color[%r]' % (t,))
        if t[0] is node:
            e.maybe_raise(fwd(to_z3(t[1], CNode)), 'KeyError')
            return SV(CColor, ecol(to_z3(t[1], CNode)))
        if t[1] is node:
            e.maybe_raise(z3.Not(fwd(to_z3(t[0], CNode))), 'KeyError')
            return SV(CColor, ecol(to_z3(t[0], CNode)))
        raise EngineError('edge_color of another edge')
    edge_color = Obj('edge_color', __contains__=Builtin(edge_contains, 'in edge_color'), __getitem__=Builtin(edge_get, 'edge_color[]'))
    node_color = Obj('node_color', __getitem__=Builtin(lambda e, n: SV(CColor, ncol(to_z3(n, CNode))), 'node_color[]'))
    graph = Obj('Graph', __getitem__=Builtin(lambda e, n: nbrs if n is node else (_ for _ in ()).throw(EngineError('graph[other]')), 'graph[]'))

    def counter(e):
        b = Box(TMap(CKey, TInt))
        b.counter = True                                    # collections.Counter: a missing key counts 0
        return b
    cx.spec_env['Counter'] = Builtin(counter, 'Counter')
    return dict(graph=graph, node=node, node_color=node_color, edge_color=edge_color)


neighbor_color_count = FunctionContract(
    F, 'ISMAGS._find_neighbor_color_count', 'C06', setup=setup_ncc, spec_recs=RECS_CNT, spec_env=dict(CColor=CColor),
    locals=dict(counts=TMap(CKey, TInt)), result_ty=TMap(CKey, TInt),
    ensures=[
        # for every (edge colour, node colour): the number of neighbours of that node colour joined by an edge of that edge colour
        "forall(lambda ec, nc: (result[(ec, nc)] if (ec, nc) in result else 0) == CNT(NEIGHBOURS, len(NEIGHBOURS), ec, nc), CColor, CColor)",
        # only pairs that occur are recorded
        "forall(lambda ec, nc: implies((ec, nc) in result, result[(ec, nc)] >= 1), CColor, CColor)",
    ],
    loops={'L1': LoopSpec(inv=["forall(lambda ec, nc: (counts[(ec, nc)] if (ec, nc) in counts else 0) == CNT(NEIGHBOURS, _i, ec, nc), CColor, CColor)",
                               "forall(lambda ec, nc: implies((ec, nc) in counts, counts[(ec, nc)] >= 1), CColor, CColor)"],
                          modifies=['counts'])},
    canary=[("counts[e_color, n_color] += 1", "counts[e_color, n_color] = 1"),
            ("n_color = node_color[neighbor]", "n_color = node_color[node]")],
)
CONTRACTS.append(neighbor_color_count)


# ------------------------------------------------------------------ ISMAGS._get_lookahead_candidates: who can take whose place, one edge ahead
GNodeL, SNodeL = TKey('GNodeL'), TKey('SNodeL')
CountMap = TMap(CKey, TInt)
CountMap.counter = True                                     # values of this type are collections.Counter objects: a missing key reads as 0


def setup_lac(cx):
    GN = cx.val('GRAPH_NODES', TSeq(GNodeL))                # the nodes of the graph, in order
    SN = cx.val('PATTERN_NODES', TSeq(SNodeL))              # the nodes of the pattern, in order
    ecompat, ncompat = cx.val('ECOMPAT', TMap(CColor, CColor)), cx.val('NCOMPAT', TMap(CColor, CColor))
    cx.spec_env.update(GRAPH_NODES=GN, PATTERN_NODES=SN, ECOMPAT=ecompat, NCOMPAT=ncompat)
    # _find_neighbor_color_count by its contract (proved above): for every (edge colour, node colour) the number of such
    # neighbours, pairs that do not occur are not recorded
    gcount = cx.uf('gcount', [GNodeL], CountMap)
    scount = cx.uf('scount', [SNodeL], CountMap)
    g_, s_ = z3.Const('lg', GNodeL.sort()), z3.Const('ls', SNodeL.sort())
    k_ = z3.Const('lk', CKey.sort())
    cx.assume(z3.ForAll([g_], CountMap.inv(gcount(g_))))
    cx.assume(z3.ForAll([s_], CountMap.inv(scount(s_))))
    cx.assume(z3.ForAll([g_, k_], z3.Implies(CountMap.has(gcount(g_), k_), CountMap.at(gcount(g_), k_) >= 1)))
    cx.assume(z3.ForAll([s_, k_], z3.Implies(CountMap.has(scount(s_), k_), CountMap.at(scount(s_), k_) >= 1)))
    graph, subgraph = Obj('graph'), Obj('subgraph')
    graph.__dict__['iter'], subgraph.__dict__['iter'] = GN, SN
    gnc, gec, snc, sec = Obj('_gn_colors'), Obj('_ge_colors'), Obj('_sgn_colors'), Obj('_sge_colors')

    def count(e, g, node, ncol, ecol):
        if g is graph and ncol is gnc and ecol is gec:
            b = Box(CountMap, gcount(to_z3(node, GNodeL)))
        elif g is subgraph and ncol is snc and ecol is sec:
            b = Box(CountMap, scount(to_z3(node, SNodeL)))
        else:
            raise EngineError('_find_neighbor_color_count with other colourings')
        b.counter = True
        return b

    def counter(e):
        b = Box(CountMap)
        b.counter = True
        return b
    cx.spec_env['Counter'] = Builtin(counter, 'Counter')
    self = Obj('ISMAGS', graph=graph, subgraph=subgraph, _gn_colors=gnc, _ge_colors=gec, _sgn_colors=snc, _sge_colors=sec,
               _edge_compatibility=ecompat, _node_compatibility=ncompat, _find_neighbor_color_count=Builtin(count, 'self._find_neighbor_color_count'))
    return dict(self=self)


SPEC_LAC = {
    'cnt': "lambda M, k: M[k] if k in M else 0",
    # the graph node has, for every kind of neighbour of the pattern node that has a counterpart in the graph's colours, at least as
    # many neighbours of the counterpart kind
    'fits': "lambda s, g: forall(lambda ec, nc: implies((ec, nc) in scount(s) and ec in ECOMPAT and nc in NCOMPAT, "
            "scount(s)[(ec, nc)] <= cnt(gcount(g), (ECOMPAT[ec], NCOMPAT[nc]))), CColor, CColor)",
    'cand': "lambda C, s, g: s in C and g in C[s]",
}
lookahead = FunctionContract(
    F, 'ISMAGS._get_lookahead_candidates', 'C06', setup=setup_lac, spec_defs=SPEC_LAC,
    spec_env=dict(CColor=CColor, GNodeL=GNodeL, SNodeL=SNodeL, CKey=CKey),
    locals=dict(g_counts=TMap(GNodeL, CountMap), candidates=TMap(SNodeL, TSet(GNodeL)), new_sg_count=CountMap),
    requires=[
        # different nodes, and colour translations that do not merge colours
        "forall(lambda i, j: implies(0 <= i and i < j and j < len(GRAPH_NODES), GRAPH_NODES[i] != GRAPH_NODES[j]))",
        "forall(lambda i, j: implies(0 <= i and i < j and j < len(PATTERN_NODES), PATTERN_NODES[i] != PATTERN_NODES[j]))",
        "forall(lambda a, b: implies(a in ECOMPAT and b in ECOMPAT and a != b, ECOMPAT[a] != ECOMPAT[b]), CColor, CColor)",
        "forall(lambda a, b: implies(a in NCOMPAT and b in NCOMPAT and a != b, NCOMPAT[a] != NCOMPAT[b]), CColor, CColor)",
    ],
    ensures=[
        # a graph node is a candidate for a pattern node exactly when it fits - for every graph node, also one without any edge
        "forall(lambda i, j: implies(0 <= i and i < len(PATTERN_NODES) and 0 <= j and j < len(GRAPH_NODES), "
        "   cand(result, PATTERN_NODES[i], GRAPH_NODES[j]) == fits(PATTERN_NODES[i], GRAPH_NODES[j])))",
    ],
    loops={
        'L1': LoopSpec(inv=["forall(lambda j: implies(0 <= j and j < _i, GRAPH_NODES[j] in g_counts and g_counts[GRAPH_NODES[j]] == gcount(GRAPH_NODES[j])))",
                            "forall(lambda g: implies(g in g_counts, exists(lambda j: 0 <= j and j < _i and GRAPH_NODES[j] == g)), GNodeL)"],
                       modifies=['g_counts']),
        'L2': LoopSpec(inv=["forall(lambda i, j: implies(0 <= i and i < _i and 0 <= j and j < len(GRAPH_NODES), "
                            "   cand(candidates, PATTERN_NODES[i], GRAPH_NODES[j]) == fits(PATTERN_NODES[i], GRAPH_NODES[j])))",
                            "forall(lambda s: implies(s in candidates, exists(lambda i: 0 <= i and i < _i and PATTERN_NODES[i] == s)), SNodeL)"],
                       modifies=['candidates']),
        'L2.1': LoopSpec(inv=[
            # the translated counts of the kinds handled so far
            "forall(lambda ec, nc: implies((ec, nc) in sg_count and posof(sg_count, (ec, nc)) < _i and ec in ECOMPAT and nc in NCOMPAT, "
            "   (ECOMPAT[ec], NCOMPAT[nc]) in new_sg_count and new_sg_count[(ECOMPAT[ec], NCOMPAT[nc])] == sg_count[(ec, nc)]), CColor, CColor)",
            "forall(lambda k: implies(k in new_sg_count, exists(lambda ec, nc: (ec, nc) in sg_count and posof(sg_count, (ec, nc)) < _i and ec in ECOMPAT and "
            "   nc in NCOMPAT and k == (ECOMPAT[ec], NCOMPAT[nc]), CColor, CColor)), CKey)"],
            modifies=['new_sg_count']),
        'L2.2': LoopSpec(inv=[
            "forall(lambda j: implies(0 <= j and j < len(GRAPH_NODES) and posof(g_counts, GRAPH_NODES[j]) < _i, "
            "   cand(candidates, sgn, GRAPH_NODES[j]) == fits(sgn, GRAPH_NODES[j])))",
            "forall(lambda j: implies(0 <= j and j < len(GRAPH_NODES) and posof(g_counts, GRAPH_NODES[j]) >= _i, not cand(candidates, sgn, GRAPH_NODES[j])))",
            "forall(lambda s, g: implies(s != sgn, cand(candidates, s, g) == cand(g_C, s, g)), SNodeL, GNodeL)",
            "forall(lambda s: implies(s in candidates, s == sgn or s in g_C), SNodeL)"],
            modifies=['candidates'],
            # what the translated counts say about an arbitrary graph node (proved once, used for every node of the loop)
            ghost_init="g_C = dict(candidates)\n"
                       "prove(forall(lambda g: forall(lambda k: implies(k in new_sg_count, new_sg_count[k] <= cnt(gcount(g), k)), CKey) == fits(sgn, g), GNodeL), "
                       "      'translated-counts-say-fits')",
            ghost_pre="prove(exists(lambda j: 0 <= j and j < len(GRAPH_NODES) and GRAPH_NODES[j] == gn and posof(g_counts, gn) == _i), 'a-graph-node')\n"
                      "prove(g_count == gcount(gn), 'counts-of-this-node')\n"
                      "prove(forall(lambda k: implies(k in new_sg_count, new_sg_count[k] <= cnt(g_count, k)), CKey) == fits(sgn, gn), 'this-node')\n"
                      "prove(forall(lambda q: implies(0 <= q and q < len(new_sg_count), new_sg_count[keyat(new_sg_count, q)] <= cnt(g_count, keyat(new_sg_count, q)))) == "
                      "      forall(lambda k: implies(k in new_sg_count, new_sg_count[k] <= cnt(g_count, k)), CKey), 'by-position-or-by-key')\n"
                      "g_B = dict(candidates)",
            ghost_end="prove(cand(candidates, sgn, gn) == fits(sgn, gn), 'this-node-decided')\n"
                      "prove(forall(lambda g: implies(g != gn, cand(candidates, sgn, g) == cand(g_B, sgn, g)), GNodeL), 'other-nodes-as-before')\n"
                      "prove(forall(lambda j: implies(0 <= j and j < len(GRAPH_NODES) and GRAPH_NODES[j] != gn, posof(g_counts, GRAPH_NODES[j]) != _i)), 'one-node-per-position')",
            locals=dict(g_C=TMap(SNodeL, TSet(GNodeL)), g_B=TMap(SNodeL, TSet(GNodeL)))),
    },
    canary=[("if all(new_sg_count[x] <= g_count[x] for x in new_sg_count):", "if any(new_sg_count[x] <= g_count[x] for x in new_sg_count):"),
            ("new_sg_count[ge_color, gn_color] = count", "new_sg_count[ge_color, gn_color] = 1")],
)
CONTRACTS.append(lookahead)


# ------------------------------------------------------------------ ISMAGS._update_orbits: merging the orbits of permuted nodes
ONode = TKey('ONode')
OPerm = TTuple(ONode, ONode, names=['a', 'b'])


def setup_uo(cx):
    orbits = cx.box('orbits', TSeq(TSet(ONode)))
    perms = cx.val('PERMS', TSeq(OPerm))                    # the permutations, each an unordered pair (unpacked in some order)
    cx.spec_env['PERMS'] = perms
    return dict(orbits=orbits, permutations=perms)


SPEC_UO = {
    'same': "lambda O, x, y: exists(lambda i: 0 <= i and i < len(O) and x in O[i] and y in O[i])",
    'covered': "lambda O, x: exists(lambda i: 0 <= i and i < len(O) and x in O[i])",
    'disjoint': "lambda O: forall(lambda i, j, x: implies(0 <= i and i < j and j < len(O) and x in O[i], not (x in O[j])), TInt, TInt, ONode)",
}
UO_INV = [
    "disjoint(orbits)",
    "forall(lambda x: covered(orbits, x) == covered(old(orbits), x), ONode)",
    "forall(lambda x, y: implies(same(old(orbits), x, y), same(orbits, x, y)), ONode, ONode)",
    "forall(lambda k: implies(0 <= k and k < {I}, same(orbits, PERMS[k].a, PERMS[k].b)))",
]
update_orbits = FunctionContract(
    F, 'ISMAGS._update_orbits', 'C06', setup=setup_uo, spec_defs=SPEC_UO, spec_env=dict(ONode=ONode),
    locals=dict(first=TOpt(TInt), second=TOpt(TInt), g_O=TSeq(TSet(ONode))),
    requires=["disjoint(orbits)",
              "forall(lambda k: implies(0 <= k and k < len(PERMS), covered(orbits, PERMS[k].a) and covered(orbits, PERMS[k].b)))"],
    ensures=[x.format(I='len(PERMS)') for x in UO_INV],
    modifies=['orbits'],
    loops={
        'L1': LoopSpec(inv=[x.format(I='_i') for x in UO_INV], modifies=['orbits']),
        'L1.1': LoopSpec(inv=[
            "(first is None and forall(lambda k: implies(0 <= k and k < _i, not (node in orbits[k])))) or "
            "(first is not None and 0 <= payload(first) and payload(first) < len(orbits) and node in orbits[payload(first)])",
            "(second is None and forall(lambda k: implies(0 <= k and k < _i, not (node2 in orbits[k])))) or "
            "(second is not None and 0 <= payload(second) and payload(second) < len(orbits) and node2 in orbits[payload(second)])"],
            modifies=[]),
    },
    ghost_at={'before:stmt:if first != second:': "g_O = list(orbits)",
              # the list after the merge, orbit by orbit (named steps for the solver)
              'after:stmt:del orbits[second]':
              "prove(len(orbits) == len(g_O) - 1, 'one-orbit-less')\n"
              "prove(forall(lambda i, x: implies(0 <= i and i < payload(second), (x in orbits[i]) == (x in g_O[i] or (i == payload(first) and x in g_O[payload(second)]))), "
              "      TInt, ONode), 'orbits-before-the-deleted-one')\n"
              "prove(forall(lambda i, x: implies(payload(second) <= i and i < len(orbits), (x in orbits[i]) == (x in g_O[i + 1] or "
              "      (i + 1 == payload(first) and x in g_O[payload(second)]))), TInt, ONode), 'orbits-after-the-deleted-one')\n"
              "prove(forall(lambda i: implies(0 <= i and i < len(g_O) and i != payload(second), forall(lambda x: implies(x in g_O[i], "
              "      x in orbits[i if i < payload(second) else i - 1]), ONode))), 'every-other-orbit-survives')\n"
              "prove(forall(lambda x: implies(x in g_O[payload(second)], x in orbits[payload(first) if payload(first) < payload(second) else payload(first) - 1]), ONode), "
              "      'the-deleted-orbit-is-in-the-merged-one')"},
    canary=[("orbits[first].update(orbits[second])", "orbits[second].update(orbits[first])"),
            ("del orbits[second]", "del orbits[first]")],
)
CONTRACTS.append(update_orbits)


# ------------------------------------------------------------------ intersect: what all sets of a collection have in common
def setup_int(cx):
    from pyvc.builtins import make_iter, _int
    coll = cx.val('SETS', TSeq(TSet(TInt)))
    cx.spec_env['SETS'] = coll
    inter_f = Obj('set.intersection')

    def reduce_(e, f, xs, init):
        # functools.reduce(set.intersection, xs, init) by its contract: the elements of init that are in every set of xs
        e.oblige(f is inter_f, 'folded:with-set-intersection')
        it = make_iter(e, xs)
        st = TSet(TInt)
        r = e.fresh_val(st, 'reduced')
        x, k = z3.Int('rx'), z3.Int('rk')
        ie = to_z3(init, st)
        e.assume(z3.ForAll([x], z3.Select(r.e, x) == z3.And(z3.Select(ie, x), z3.ForAll([k], z3.Implies(z3.And(0 <= k, k < _int(it.n)),
                                                                                                        z3.Select(to_z3(it.get(k), st), x))))))
        return r
    cx.spec_env['reduce'] = Builtin(reduce_, 'reduce')
    cx.spec_env['set'] = Obj('set', intersection=inter_f, __call__=Builtin(lambda e, x=None: x, 'set()'))
    cx.spec_env['type'] = Builtin(lambda e, x: Builtin(lambda e2, y: y, 'type(first)()'), 'type')       # set or frozenset: the same elements
    return dict(collection_of_sets=coll)


intersect_c = FunctionContract(
    F, 'intersect', 'C06', setup=setup_int, result_ty=TSet(TInt),
    ensures=["forall(lambda x: (x in result) == forall(lambda k: implies(0 <= k and k < len(SETS), x in SETS[k])))"],
    raises={'IndexError': ["len(SETS) == 0"]},
    canary=[("out = reduce(set.intersection, collection_of_sets, set(first))", "out = reduce(set.intersection, collection_of_sets[1:], set(first))"),
            ("out = reduce(set.intersection, collection_of_sets, set(first))", "out = set(first)")],
)
CONTRACTS.append(intersect_c)

"""C06 -- subgraph matching: the partition helper of the symmetry analysis (the search itself is bounded only)."""
from pyvc.api import *

F = 'vermouth/ismags.py'
Item = TKey('Item')
Cells = TSeq(TSet(Item))

SPEC = {}


def setup_mp(cx):
    rel = cx.uf('rel', [Item, Item], TBool)
    x, y, z = [z3.Const(n, Item.sort()) for n in 'xyz']
    # `test` is an equivalence relation (the docstring demands transitivity; the callers pass equalities of colours)
    cx.assume(z3.ForAll([x], rel(x, x)))
    cx.assume(z3.ForAll([x, y], rel(x, y) == rel(y, x)))
    cx.assume(z3.ForAll([x, y, z], z3.Implies(z3.And(rel(x, y), rel(y, z)), rel(x, z))))
    return dict(items=cx.val('items', TSeq(Item)),
                test=Builtin(lambda e, a, b: wrap(TBool, rel(to_z3(a, Item), to_z3(b, Item))), 'test'))


PLACED = "forall(lambda q: implies(0 <= q and q < {I}, items[q] in g_cell and 0 <= g_cell[items[q]] and g_cell[items[q]] < len(partitions) and items[q] in partitions[g_cell[items[q]]]))"
MEMBERS = ("forall(lambda c, x: implies(0 <= c and c < len(partitions) and x in partitions[c], x in g_cell and g_cell[x] == c and "
           "x in g_q and 0 <= g_q[x] and g_q[x] < {I} and items[g_q[x]] == x), TInt, Item)")
RELATED = "forall(lambda c, x, y: implies(0 <= c and c < len(partitions) and x in partitions[c] and y in partitions[c], rel(x, y)), TInt, Item, Item)"
SEPARATE = ("forall(lambda c, d, x, y: implies(0 <= c and c < d and d < len(partitions) and x in partitions[c] and y in partitions[d], "
            "not rel(x, y)), TInt, TInt, Item, Item)")
KEYS = "forall(lambda x: implies(x in g_cell, 0 <= g_cell[x] and g_cell[x] < len(partitions) and x in partitions[g_cell[x]]), Item)"
NONEMPTY = "forall(lambda c: implies(0 <= c and c < len(partitions), c in g_rep and g_rep[c] in partitions[c]))"

make_partitions = FunctionContract(
    F, 'make_partitions', 'C06', setup=setup_mp, spec_defs=SPEC, spec_env=dict(Item=Item),
    locals=dict(partitions=Cells, g_cell=TMap(Item, TInt), g_q=TMap(Item, TInt), g_rep=TMap(TInt, Item)),
    ghost_at={'entry': "g_cell = {}\ng_q = {}\ng_rep = {}"},
    ensures=[
        # the result is the partition of the items into the classes of `test`: every item is in a cell, every member of a
        # cell is an item, cells are disjoint (a member knows its cell), members of one cell are related, members of
        # different cells are not
        PLACED.format(I='len(items)').replace('partitions', 'result'),
        MEMBERS.format(I='len(items)').replace('partitions', 'result'),
        RELATED.replace('partitions', 'result'), SEPARATE.replace('partitions', 'result'),
    ],
    loops={
        'L1': LoopSpec(inv=[PLACED.format(I='_i'), MEMBERS.format(I='_i'), RELATED, SEPARATE, NONEMPTY, KEYS],
                       modifies=['partitions', 'g_cell', 'g_q', 'g_rep'],
                       locals=dict(partitions=Cells, g_cell=TMap(Item, TInt), g_q=TMap(Item, TInt), g_rep=TMap(TInt, Item)),
                       ghost_pre="g_had = item in g_cell\ng_n0 = len(partitions)",
                       ghost_end=("if not g_had:\n"
                                  "    g_q[item] = _i\n"
                                  "    if len(partitions) > g_n0:\n"
                                  "        g_cell[item] = g_n0\n"
                                  "        g_rep[g_n0] = item\n"
                                  "    else:\n"
                                  "        g_cell[item] = g_cur\n")),
        'L1.1': LoopSpec(inv=["forall(lambda c, x: implies(0 <= c and c < _i and x in partitions[c], not rel(item, x)), TInt, Item)"],
                         ghost_init="g_cur = -1", ghost_pre="g_cur = _i"),
    },
    canary=[("if test(item, p_item):", "if not test(item, p_item):"), ("partitions.append(set((item,)))", "partitions.append(set())")],
)
CONTRACTS = [make_partitions]
LEMMAS = []

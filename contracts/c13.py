"""C13 -- force-field files load to what they declare: node keys, order prefixes and order attributes."""
from pyvc.api import *

F = 'vermouth/ffinput.py'

SPEC = {
    'pfx': "lambda c: c == '+' or c == '-' or c == '>' or c == '<' or c == '*'",
    # length of the leading run of prefix characters
    'allpfx': "lambda s, n: forall(lambda q: implies(0 <= q and q < n, pfx(s[q])))",
    'same': "lambda s, n: forall(lambda q: implies(0 <= q and q < n, s[q] == s[0]))",
    # the order a (validated, homogeneous) prefix stands for: '' -> 0, '+'*k -> k, '-'*k -> -k, else the prefix itself
    'valid_sym': "lambda s: len(s) >= 1 and same(s, len(s)) and (s[0] == '>' or s[0] == '<' or s[0] == '*')",
}

# ------------------------------------------------------------------ _split_node_key
SPLIT_LOOPS = {'L1': LoopSpec(inv=["allpfx(key, _i)", "prefix_end == (0 if _i == 0 else _i - 1)"])}

split_node_key = FunctionContract(
    F, '_split_node_key', 'C13', setup=lambda cx: dict(key=cx.val('key', TCStr)), spec_defs=SPEC, modular=False,
    loops=SPLIT_LOOPS,
    ensures=[
        # prefix ++ base == key, split at the first non-prefix character; the base is never empty
        "len(result[0]) + len(result[1]) == len(key)",
        "len(result[1]) >= 1 and not pfx(result[1][0])",
        "allpfx(key, len(result[0]))",
        "forall(lambda q: implies(0 <= q and q < len(result[0]), result[0][q] == key[q]))",
        "forall(lambda q: implies(0 <= q and q < len(result[1]), result[1][q] == key[len(result[0]) + q]))",
        # the prefix is homogeneous
        "same(result[0], len(result[0]))",
    ],
    raises={'IOError': ["len(key) == 0 or allpfx(key, len(key)) or "
                        "exists(lambda a, b: 0 <= a and a < b and b < len(key) and pfx(key[a]) and pfx(key[b]) and allpfx(key, b) and key[a] != key[b])"]},
    canary=[("char not in '+-><*'", "char not in '+-><'"), ("len(set(prefix)) > 1", "len(set(prefix)) > 2")],
)

# ------------------------------------------------------------------ _get_order_and_prefix_from_prefix
from_prefix = FunctionContract(
    F, '_get_order_and_prefix_from_prefix', 'C13', setup=lambda cx: dict(prefix=cx.val('prefix', TCStr)), spec_defs=SPEC,
    modular=False,
    requires=["same(prefix, len(prefix))", "allpfx(prefix, len(prefix))"],      # "It is already validated."
    ensures=[
        "(result[0] is None) == (len(prefix) == 0)",
        "implies(len(prefix) == 0, result[1] == 0)",
        "implies(len(prefix) > 0 and prefix[0] == '+', result[1] == len(prefix))",
        "implies(len(prefix) > 0 and prefix[0] == '-', result[1] == -len(prefix))",
        "implies(len(prefix) > 0 and prefix[0] != '-' and prefix[0] != '+', result[1] == prefix and result[0] == prefix)",
    ],
    canary=[("order_from_prefix = -len(prefix)", "order_from_prefix = len(prefix)")],
)


# ------------------------------------------------------------------ _get_order_and_prefix_from_attributes
def attrs(cx, **kw):
    b = Box(None, kind='dict')
    b.cd = dict(kw)
    return b


from_attr_none = FunctionContract(
    F, '_get_order_and_prefix_from_attributes', 'C13', short='from_attributes[no order]', spec_defs=SPEC, modular=False,
    setup=lambda cx: dict(attributes=attrs(cx)),
    ensures=["result[0] == ''", "result[1] is None"])
from_attr_int = FunctionContract(
    F, '_get_order_and_prefix_from_attributes', 'C13', short='from_attributes[int order]', spec_defs=SPEC, modular=False,
    setup=lambda cx: dict(attributes=attrs(cx, order=cx.val('order', TInt))),
    ensures=["result[1] == attributes['order']",
             # an integer order n is written as n '+' (n > 0) or |n| '-' (n < 0); 0 is no prefix
             "len(result[0]) == abs(attributes['order'])",
             "forall(lambda q: implies(0 <= q and q < len(result[0]), result[0][q] == ('+' if attributes['order'] > 0 else '-')))"],
    canary=[("prefix_char * int(abs(order))", "prefix_char * int(order)"), ("prefix_char = '-'", "prefix_char = '+'")])
from_attr_str = FunctionContract(
    F, '_get_order_and_prefix_from_attributes', 'C13', short='from_attributes[str order]', spec_defs=SPEC, modular=False,
    setup=lambda cx: dict(attributes=attrs(cx, order=cx.val('order', TCStr))),
    ensures=["valid_sym(attributes['order'])", "result[0] == attributes['order']", "result[1] == attributes['order']"],
    raises={'IOError': ["not valid_sym(attributes['order'])"]},
    canary=[("order[0] in '><*'", "order[0] in '><*+'")])

# ------------------------------------------------------------------ _treat_atom_prefix
TREAT_INLINE = {'_split_node_key': SPLIT_LOOPS}
# position of the first non-prefix character of the reference (Skolem constant pinned by the axiom)
P_AXIOM = "0 <= p0 and p0 <= len(reference) and allpfx(reference, p0) and (p0 == len(reference) or not pfx(reference[p0]))"
MALFORMED = "len(reference) == 0 or p0 == len(reference) or not same(reference, p0)"


def setup_treat(order_ty):
    def setup(cx):
        p0 = cx.val('p0', TInt)
        cx.spec_env['p0'] = p0
        kw = {}
        if order_ty is not None:
            kw['order'] = cx.val('order', order_ty)
        return dict(reference=cx.val('reference', TCStr), attributes=attrs(cx, **kw))
    return setup


def treat(order_ty, name, ensures, raises, canary=()):
    return FunctionContract(
        F, '_treat_atom_prefix', 'C13', short='_treat_atom_prefix[%s]' % name, spec_defs=SPEC, inline_loops=TREAT_INLINE,
        setup=setup_treat(order_ty),
        axioms=lambda cx, env: [cx.eng._b(cx.eng.spec_truth(P_AXIOM, env))],
        ensures=["not (%s)" % MALFORMED,
                 # the atom name defaults to the base of the key
                 "len(result[1]['atomname']) == len(reference) - p0",
                 "forall(lambda q: implies(0 <= q and q < len(reference) - p0, result[1]['atomname'][q] == reference[p0 + q]))",
                 ] + ensures,
        raises={'IOError': raises}, canary=list(canary))


treat_none = treat(None, 'no order attribute', [
    # the order is what the prefix says: none -> 0, '+'*k -> k, '-'*k -> -k, series of > < * -> that series
    "(p0 > 0 and reference[0] != '+' and reference[0] != '-' and len(result[1]['order']) == p0 and "
    "   forall(lambda q: implies(0 <= q and q < p0, result[1]['order'][q] == reference[q])))"
    " if isinstance(result[1]['order'], str) else "
    "(result[1]['order'] == (0 if p0 == 0 else (p0 if reference[0] == '+' else -p0)) and "
    "   (p0 == 0 or reference[0] == '+' or reference[0] == '-'))",
    # the key is kept as written
    "result[0] == reference",
], [MALFORMED])

treat_int = treat(TInt, 'int order attribute', [
    "result[1]['order'] == attributes['order']",
    # prefix and attribute must say the same thing when both are given
    "implies(p0 > 0, reference[0] == ('+' if attributes['order'] > 0 else '-') and p0 == abs(attributes['order']))"
    "   if attributes['order'] != 0 else p0 == 0 or False",
    # without a prefix, the key gets the prefix that stands for the order
    "implies(p0 > 0, result[0] == reference)",
    "implies(p0 == 0, len(result[0]) == len(reference) + abs(attributes['order']) and "
    "   forall(lambda q: implies(0 <= q and q < abs(attributes['order']), result[0][q] == ('+' if attributes['order'] > 0 else '-'))) and "
    "   forall(lambda q: implies(0 <= q and q < len(reference), result[0][abs(attributes['order']) + q] == reference[q])))",
], ["(%s) or (p0 > 0 and not (reference[0] == ('+' if attributes['order'] > 0 else '-') and p0 == abs(attributes['order']) "
    "and attributes['order'] != 0))" % MALFORMED],
    canary=[("order_from_attributes != order_from_prefix", "order_from_attributes == order_from_prefix"),
            ("order_from_attributes is not None\n            and prefix_from_prefix is not None", "order_from_attributes\n            and prefix_from_prefix")])

CONTRACTS = [split_node_key, from_prefix, from_attr_none, from_attr_int, from_attr_str, treat_none, treat_int]
LEMMAS = []


# ------------------------------------------------------------------ FFDirector.finalize_section: every open block, link and
# modification is stored exactly once and closed
Ctx = TKey('Ctx')


def setup_fin(cx):
    eng = cx.eng
    name_of = cx.uf('name_of', [Ctx], TStr)
    nonempty = cx.uf('nonempty_graph', [Ctx], TBool)
    eng.truth_hooks['Ctx'] = lambda e, v: nonempty(to_z3(v, Ctx))
    noop = Obj('citations')
    noop.attrs['update'] = Builtin(lambda e, x: None, 'update')
    eng.attr_hooks[('Ctx', 'citations')] = lambda e, c: noop
    eng.attr_hooks[('Ctx', 'name')] = lambda e, c: wrap(TStr, name_of(to_z3(c, Ctx)))
    eng.methods[('Ctx', 'make_edges_from_interactions')] = lambda e, c: None
    ff = cx.obj('ForceField', blocks=cx.box('blocks', TMap(TStr, Ctx)), links=cx.box('links', TSeq(Ctx)),
                modifications=cx.box('modifications', TMap(TStr, Ctx)), name='ff')
    nx = Obj('nx')
    nx.attrs['is_connected'] = Builtin(lambda e, g: cx.val('connected', TBool), 'is_connected')
    cx.spec_env['nx'] = nx
    log = Obj('LOGGER')
    log.attrs['error'] = Builtin(lambda e, *a, **k: None, 'error')
    cx.spec_env['LOGGER'] = log
    self = cx.obj('FFDirector', force_field=ff, citations=Obj('set'), current_block=cx.val('current_block', TOpt(Ctx)),
                  current_link=cx.val('current_link', TOpt(Ctx)), current_modification=cx.val('current_modification', TOpt(Ctx)))
    return dict(self=self, previous_section=Obj('sec'), ended_section=Obj('sec'))


SAME_MAP = ("forall(lambda k: implies({cond}, (k in self.force_field.{m}) == (k in old(self.force_field.{m})) and "
            "implies(k in self.force_field.{m}, self.force_field.{m}[k] == old(self.force_field.{m})[k])), TStr)")
finalize_section = FunctionContract(
    F, 'FFDirector.finalize_section', 'C13', setup=setup_fin, spec_env=dict(Ctx=Ctx),
    ensures=[
        # whatever was open is closed: it cannot be stored a second time when the next section ends
        "self.current_block is None and self.current_link is None and self.current_modification is None",
        # an open link is appended exactly once, in file order; the earlier links are kept
        "len(self.force_field.links) == len(old(self.force_field.links)) + (0 if old(self.current_link) is None else 1)",
        "forall(lambda i: implies(0 <= i and i < len(old(self.force_field.links)), self.force_field.links[i] == old(self.force_field.links)[i]))",
        "implies(old(self.current_link) is not None, self.force_field.links[len(self.force_field.links) - 1] == old(self.current_link))",
        # an open block / modification is stored under its name; every other entry is kept
        "implies(old(self.current_block) is not None, name_of(old(self.current_block)) in self.force_field.blocks and "
        "   self.force_field.blocks[name_of(old(self.current_block))] == old(self.current_block))",
        SAME_MAP.format(m='blocks', cond="old(self.current_block) is None or k != name_of(old(self.current_block))"),
        "implies(old(self.current_modification) is not None, name_of(old(self.current_modification)) in self.force_field.modifications and "
        "   self.force_field.modifications[name_of(old(self.current_modification))] == old(self.current_modification))",
        SAME_MAP.format(m='modifications', cond="old(self.current_modification) is None or k != name_of(old(self.current_modification))"),
    ],
    canary=[("self.current_link = None", "pass"), ("self.force_field.links.append(self.current_link)", "pass")],
)
CONTRACTS.append(finalize_section)


# ------------------------------------------------------------------ _get_atoms (+ _some_atoms_left): the atoms of a line
AttrD = TKey('AttrD')
AtomTok = TTuple(TStr, AttrD)


def setup_ga(cx):
    tokens = cx.box('tokens', TSeq(TStr))
    cx.spec_env['T0'] = SV(TSeq(TStr), tokens.e)
    parse = cx.uf('parse_attr', [TStr], AttrD)                       # _parse_atom_attributes(token) (json; may raise ValueError)
    cx.spec_env['_parse_atom_attributes'] = Builtin(lambda e, t: SV(AttrD, parse(to_z3(t, TStr))), '_parse_atom_attributes')
    cx.spec_env['EMPTY'] = SV(AttrD, z3.Const('empty_AttrD', AttrD.sort()))
    return dict(tokens=tokens, natoms=cx.val('natoms', TOpt(TInt)))


SPEC_GA = {
    'brace': "lambda t: t.startswith('{')",
    # where the token after position p starts an attribute dictionary
    'has_attr': "lambda p: p + 1 < len(T0) and brace(T0[p + 1])",
    'width': "lambda p: 2 if has_attr(p) else 1",
    # the position just after the last atom
    'endpos': "lambda r: 0 if len(r) == 0 else g_s[len(r) - 1] + width(g_s[len(r) - 1])",
}
GA_INV = [
    "0 <= g_pos and g_pos <= len(T0) and len(tokens) == len(T0) - g_pos",
    "forall(lambda q: implies(0 <= q and q < len(tokens), tokens[q] == T0[g_pos + q]))",
    "len(g_s) == len(atoms)",
    # atom j starts at token g_s[j]; starts are consecutive (an atom takes one token, or two with its attributes)
    "forall(lambda j: implies(0 <= j and j < len(atoms), 0 <= g_s[j] and g_s[j] < g_pos and T0[g_s[j]] != '--' and not brace(T0[g_s[j]]) and "
    "   atoms[j][0] == T0[g_s[j]] and atoms[j][1] == (parse_attr(T0[g_s[j] + 1]) if has_attr(g_s[j]) else EMPTY)))",
    "implies(len(atoms) > 0, g_s[0] == 0 and g_pos == g_s[len(atoms) - 1] + width(g_s[len(atoms) - 1]))",
    "implies(len(atoms) == 0, g_pos == 0)",
    "forall(lambda j: implies(0 <= j and j + 1 < len(atoms), g_s[j + 1] == g_s[j] + width(g_s[j])))",
    "implies(natoms is not None, len(atoms) <= natoms or len(atoms) == 0)",
]
get_atoms = FunctionContract(
    F, '_get_atoms', 'C13', setup=setup_ga, spec_defs=SPEC_GA, spec_env=dict(AttrD=AttrD), modular=False,
    locals=dict(atoms=TSeq(AtomTok), g_s=TSeq(TInt)), result_ty=TSeq(AtomTok),
    ghost_at={'entry': "g_pos = 0\ng_s = []"},
    ensures=[
        # the atoms are the leading tokens, each with the attribute dictionary that directly follows it (if one does) ...
        "len(g_s) == len(result)",
        "forall(lambda j: implies(0 <= j and j < len(result), result[j][0] == T0[g_s[j]] and T0[g_s[j]] != '--' and "
        "   result[j][1] == (parse_attr(T0[g_s[j] + 1]) if has_attr(g_s[j]) else EMPTY)))",
        "implies(len(result) > 0, g_s[0] == 0)",
        "forall(lambda j: implies(0 <= j and j + 1 < len(result), g_s[j + 1] == g_s[j] + width(g_s[j])))",
        # ... up to the end of the line, the '--' separator (which is consumed, also right after the expected number of
        # atoms), or the expected number of atoms; what follows is left in `tokens`
        "0 <= endpos(result) and endpos(result) <= len(T0)",
        "(endpos(result) == len(T0) and len(tokens) == 0) or "
        "(endpos(result) < len(T0) and T0[endpos(result)] == '--' and len(tokens) == len(T0) - endpos(result) - 1 and "
        "   forall(lambda q: implies(0 <= q and q < len(tokens), tokens[q] == T0[endpos(result) + 1 + q]))) or "
        "(endpos(result) < len(T0) and T0[endpos(result)] != '--' and natoms is not None and len(result) >= natoms and "
        "   len(tokens) == len(T0) - endpos(result) and "
        "   forall(lambda q: implies(0 <= q and q < len(tokens), tokens[q] == T0[endpos(result) + q])))",
        "implies(natoms is not None and natoms >= 1, len(result) <= natoms)",
    ],
    raises={'OSError': ["exists(lambda p: 0 <= p and p < len(T0) and brace(T0[p]))"]},
    modifies=['tokens'],
    loops={'L1': LoopSpec(inv=GA_INV, modifies=['tokens', 'atoms', 'g_s'], locals=dict(atoms=TSeq(AtomTok), g_s=TSeq(TInt), g_pos=TInt, g_p0=TInt),
                          decreases="len(tokens)",
                          ghost_pre="g_p0 = g_pos",
                          ghost_end="g_s.append(g_p0)\ng_pos = len(T0) - len(tokens)")},
    canary=[("if tokens and tokens[0] == '--':", "if tokens and tokens[0] == '---':"),
            ("if next_token.startswith('{'):", "if token.startswith('{'):"),
            ("if natoms is not None and len(atoms) >= natoms:", "if natoms is not None and len(atoms) > natoms:")],
)
CONTRACTS.append(get_atoms)

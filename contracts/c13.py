"""C13 -- force-field files load to what they declare: node keys, order prefixes and order attributes."""
from pyvc.api import *

F = 'vermouth/ffinput.py'

SPEC = {
    'pfx': "lambda c: c == '+' or c == '-' or c == '>' or c == '<' or c == '*'",
    # length of the leading run of prefix characters
    'allpfx': "lambda s, n: forall(lambda q: implies(0 <= q and q < n, pfx(s[q])))",
    'same': "lambda s, n: forall(lambda q: implies(0 <= q and q < n, s[q] == s[0]))",
    # the order a (validated, homogeneous) prefix stands for: '' -> 0, '+'*k -> k, '-'*k -> -k, else the prefix itself
    'valid_sym': "lambda s: len(s) >= 1 and same(s, len(s)) and (s[0] == '>' or s[0] == '<' or s[0] == '*')",
}

# ------------------------------------------------------------------ _split_node_key
SPLIT_LOOPS = {'L1': LoopSpec(inv=["allpfx(key, _i)", "prefix_end == (0 if _i == 0 else _i - 1)"])}

split_node_key = FunctionContract(
    F, '_split_node_key', 'C13', setup=lambda cx: dict(key=cx.val('key', TCStr)), spec_defs=SPEC, modular=False,
    loops=SPLIT_LOOPS,
    ensures=[
        # prefix ++ base == key, split at the first non-prefix character; the base is never empty
        "len(result[0]) + len(result[1]) == len(key)",
        "len(result[1]) >= 1 and not pfx(result[1][0])",
        "allpfx(key, len(result[0]))",
        "forall(lambda q: implies(0 <= q and q < len(result[0]), result[0][q] == key[q]))",
        "forall(lambda q: implies(0 <= q and q < len(result[1]), result[1][q] == key[len(result[0]) + q]))",
        # the prefix is homogeneous
        "same(result[0], len(result[0]))",
    ],
    raises={'IOError': ["len(key) == 0 or allpfx(key, len(key)) or "
                        "exists(lambda a, b: 0 <= a and a < b and b < len(key) and pfx(key[a]) and pfx(key[b]) and allpfx(key, b) and key[a] != key[b])"]},
    canary=[("char not in '+-><*'", "char not in '+-><'"), ("len(set(prefix)) > 1", "len(set(prefix)) > 2")],
)

# ------------------------------------------------------------------ _get_order_and_prefix_from_prefix
from_prefix = FunctionContract(
    F, '_get_order_and_prefix_from_prefix', 'C13', setup=lambda cx: dict(prefix=cx.val('prefix', TCStr)), spec_defs=SPEC,
    modular=False,
    requires=["same(prefix, len(prefix))", "allpfx(prefix, len(prefix))"],      # "It is already validated."
    ensures=[
        "(result[0] is None) == (len(prefix) == 0)",
        "implies(len(prefix) == 0, result[1] == 0)",
        "implies(len(prefix) > 0 and prefix[0] == '+', result[1] == len(prefix))",
        "implies(len(prefix) > 0 and prefix[0] == '-', result[1] == -len(prefix))",
        "implies(len(prefix) > 0 and prefix[0] != '-' and prefix[0] != '+', result[1] == prefix and result[0] == prefix)",
    ],
    canary=[("order_from_prefix = -len(prefix)", "order_from_prefix = len(prefix)")],
)


# ------------------------------------------------------------------ _get_order_and_prefix_from_attributes
def attrs(cx, **kw):
    b = Box(None, kind='dict')
    b.cd = dict(kw)
    return b


from_attr_none = FunctionContract(
    F, '_get_order_and_prefix_from_attributes', 'C13', short='from_attributes[no order]', spec_defs=SPEC, modular=False,
    setup=lambda cx: dict(attributes=attrs(cx)),
    ensures=["result[0] == ''", "result[1] is None"])
from_attr_int = FunctionContract(
    F, '_get_order_and_prefix_from_attributes', 'C13', short='from_attributes[int order]', spec_defs=SPEC, modular=False,
    setup=lambda cx: dict(attributes=attrs(cx, order=cx.val('order', TInt))),
    ensures=["result[1] == attributes['order']",
             # an integer order n is written as n '+' (n > 0) or |n| '-' (n < 0); 0 is no prefix
             "len(result[0]) == abs(attributes['order'])",
             "forall(lambda q: implies(0 <= q and q < len(result[0]), result[0][q] == ('+' if attributes['order'] > 0 else '-')))"],
    canary=[("prefix_char * int(abs(order))", "prefix_char * int(order)"), ("prefix_char = '-'", "prefix_char = '+'")])
from_attr_str = FunctionContract(
    F, '_get_order_and_prefix_from_attributes', 'C13', short='from_attributes[str order]', spec_defs=SPEC, modular=False,
    setup=lambda cx: dict(attributes=attrs(cx, order=cx.val('order', TCStr))),
    ensures=["valid_sym(attributes['order'])", "result[0] == attributes['order']", "result[1] == attributes['order']"],
    raises={'IOError': ["not valid_sym(attributes['order'])"]},
    canary=[("order[0] in '><*'", "order[0] in '><*+'")])

# ------------------------------------------------------------------ _treat_atom_prefix
TREAT_INLINE = {'_split_node_key': SPLIT_LOOPS}
# position of the first non-prefix character of the reference (Skolem constant pinned by the axiom)
P_AXIOM = "0 <= p0 and p0 <= len(reference) and allpfx(reference, p0) and (p0 == len(reference) or not pfx(reference[p0]))"
MALFORMED = "len(reference) == 0 or p0 == len(reference) or not same(reference, p0)"


def setup_treat(order_ty):
    def setup(cx):
        p0 = cx.val('p0', TInt)
        cx.spec_env['p0'] = p0
        kw = {}
        if order_ty is not None:
            kw['order'] = cx.val('order', order_ty)
        return dict(reference=cx.val('reference', TCStr), attributes=attrs(cx, **kw))
    return setup


def treat(order_ty, name, ensures, raises, canary=()):
    return FunctionContract(
        F, '_treat_atom_prefix', 'C13', short='_treat_atom_prefix[%s]' % name, spec_defs=SPEC, inline_loops=TREAT_INLINE,
        setup=setup_treat(order_ty),
        axioms=lambda cx, env: [cx.eng._b(cx.eng.spec_truth(P_AXIOM, env))],
        ensures=["not (%s)" % MALFORMED,
                 # the atom name defaults to the base of the key
                 "len(result[1]['atomname']) == len(reference) - p0",
                 "forall(lambda q: implies(0 <= q and q < len(reference) - p0, result[1]['atomname'][q] == reference[p0 + q]))",
                 ] + ensures,
        raises={'IOError': raises}, canary=list(canary))


treat_none = treat(None, 'no order attribute', [
    # the order is what the prefix says: none -> 0, '+'*k -> k, '-'*k -> -k, series of > < * -> that series
    "(p0 > 0 and reference[0] != '+' and reference[0] != '-' and len(result[1]['order']) == p0 and "
    "   forall(lambda q: implies(0 <= q and q < p0, result[1]['order'][q] == reference[q])))"
    " if isinstance(result[1]['order'], str) else "
    "(result[1]['order'] == (0 if p0 == 0 else (p0 if reference[0] == '+' else -p0)) and "
    "   (p0 == 0 or reference[0] == '+' or reference[0] == '-'))",
    # the key is kept as written
    "result[0] == reference",
], [MALFORMED])

treat_int = treat(TInt, 'int order attribute', [
    "result[1]['order'] == attributes['order']",
    # prefix and attribute must say the same thing when both are given
    "implies(p0 > 0, reference[0] == ('+' if attributes['order'] > 0 else '-') and p0 == abs(attributes['order']))"
    "   if attributes['order'] != 0 else p0 == 0 or False",
    # without a prefix, the key gets the prefix that stands for the order
    "implies(p0 > 0, result[0] == reference)",
    "implies(p0 == 0, len(result[0]) == len(reference) + abs(attributes['order']) and "
    "   forall(lambda q: implies(0 <= q and q < abs(attributes['order']), result[0][q] == ('+' if attributes['order'] > 0 else '-'))) and "
    "   forall(lambda q: implies(0 <= q and q < len(reference), result[0][abs(attributes['order']) + q] == reference[q])))",
], ["(%s) or (p0 > 0 and not (reference[0] == ('+' if attributes['order'] > 0 else '-') and p0 == abs(attributes['order']) "
    "and attributes['order'] != 0))" % MALFORMED],
    canary=[("order_from_attributes != order_from_prefix", "order_from_attributes == order_from_prefix"),
            ("order_from_attributes is not None\n            and prefix_from_prefix is not None", "order_from_attributes\n            and prefix_from_prefix")])

CONTRACTS = [split_node_key, from_prefix, from_attr_none, from_attr_int, from_attr_str, treat_none, treat_int]
LEMMAS = []


# ------------------------------------------------------------------ FFDirector.finalize_section: every open block, link and
# modification is stored exactly once and closed
Ctx = TKey('Ctx')


def setup_fin(cx):
    eng = cx.eng
    name_of = cx.uf('name_of', [Ctx], TStr)
    nonempty = cx.uf('nonempty_graph', [Ctx], TBool)
    eng.truth_hooks['Ctx'] = lambda e, v: nonempty(to_z3(v, Ctx))
    noop = Obj('citations')
    noop.attrs['update'] = Builtin(lambda e, x: None, 'update')
    eng.attr_hooks[('Ctx', 'citations')] = lambda e, c: noop
    eng.attr_hooks[('Ctx', 'name')] = lambda e, c: wrap(TStr, name_of(to_z3(c, Ctx)))
    eng.methods[('Ctx', 'make_edges_from_interactions')] = lambda e, c: None
    ff = cx.obj('ForceField', blocks=cx.box('blocks', TMap(TStr, Ctx)), links=cx.box('links', TSeq(Ctx)),
                modifications=cx.box('modifications', TMap(TStr, Ctx)), name='ff')
    nx = Obj('nx')
    nx.attrs['is_connected'] = Builtin(lambda e, g: cx.val('connected', TBool), 'is_connected')
    cx.spec_env['nx'] = nx
    log = Obj('LOGGER')
    log.attrs['error'] = Builtin(lambda e, *a, **k: None, 'error')
    cx.spec_env['LOGGER'] = log
    self = cx.obj('FFDirector', force_field=ff, citations=Obj('set'), current_block=cx.val('current_block', TOpt(Ctx)),
                  current_link=cx.val('current_link', TOpt(Ctx)), current_modification=cx.val('current_modification', TOpt(Ctx)))
    return dict(self=self, previous_section=Obj('sec'), ended_section=Obj('sec'))


SAME_MAP = ("forall(lambda k: implies({cond}, (k in self.force_field.{m}) == (k in old(self.force_field.{m})) and "
            "implies(k in self.force_field.{m}, self.force_field.{m}[k] == old(self.force_field.{m})[k])), TStr)")
finalize_section = FunctionContract(
    F, 'FFDirector.finalize_section', 'C13', setup=setup_fin, spec_env=dict(Ctx=Ctx),
    ensures=[
        # whatever was open is closed: it cannot be stored a second time when the next section ends
        "self.current_block is None and self.current_link is None and self.current_modification is None",
        # an open link is appended exactly once, in file order; the earlier links are kept
        "len(self.force_field.links) == len(old(self.force_field.links)) + (0 if old(self.current_link) is None else 1)",
        "forall(lambda i: implies(0 <= i and i < len(old(self.force_field.links)), self.force_field.links[i] == old(self.force_field.links)[i]))",
        "implies(old(self.current_link) is not None, self.force_field.links[len(self.force_field.links) - 1] == old(self.current_link))",
        # an open block / modification is stored under its name; every other entry is kept
        "implies(old(self.current_block) is not None, name_of(old(self.current_block)) in self.force_field.blocks and "
        "   self.force_field.blocks[name_of(old(self.current_block))] == old(self.current_block))",
        SAME_MAP.format(m='blocks', cond="old(self.current_block) is None or k != name_of(old(self.current_block))"),
        "implies(old(self.current_modification) is not None, name_of(old(self.current_modification)) in self.force_field.modifications and "
        "   self.force_field.modifications[name_of(old(self.current_modification))] == old(self.current_modification))",
        SAME_MAP.format(m='modifications', cond="old(self.current_modification) is None or k != name_of(old(self.current_modification))"),
    ],
    canary=[("self.current_link = None", "pass"), ("self.force_field.links.append(self.current_link)", "pass")],
)
CONTRACTS.append(finalize_section)


# ------------------------------------------------------------------ _get_atoms (+ _some_atoms_left): the atoms of a line
AttrD = TKey('AttrD')
AtomTok = TTuple(TStr, AttrD)


def ga_world(cx):
    parse = cx.uf('parse_attr', [TStr], AttrD)                       # _parse_atom_attributes(token) (json; may raise ValueError)
    cx.spec_env['_parse_atom_attributes'] = Builtin(lambda e, t: SV(AttrD, parse(to_z3(t, TStr))), '_parse_atom_attributes')
    cx.spec_env['EMPTY'] = SV(AttrD, z3.Const('empty_AttrD', AttrD.sort()))


def setup_ga(cx):
    ga_world(cx)
    tokens = cx.box('tokens', TSeq(TStr))
    cx.spec_env['T0'] = SV(TSeq(TStr), tokens.e)
    return dict(tokens=tokens, natoms=cx.val('natoms', TOpt(TInt)))


SPEC_GA = {
    'brace': "lambda t: t.startswith('{')",
    # where the token after position p of the line T starts an attribute dictionary
    'has_attr': "lambda T, p: p + 1 < len(T) and brace(T[p + 1])",
    'width': "lambda T, p: 2 if has_attr(T, p) else 1",
    # the position just after the n-th atom
    'endpos': "lambda T, n: ST(T, n)",
}
# ST(T, j): the token at which the j-th atom of the line T starts (an atom takes one token, or two with its attributes)
RECS_GA = [('ST', [('T', TSeq(TStr)), ('j', TInt)], TInt,
            "0 if j <= 0 else ST(T, j - 1) + (2 if (ST(T, j - 1) + 1 < len(T) and T[ST(T, j - 1) + 1].startswith('{')) else 1)")]
GA_INV = [
    "0 <= g_pos and g_pos <= len(T0) and len(tokens) == len(T0) - g_pos",
    "forall(lambda q: implies(0 <= q and q < len(tokens), tokens[q] == T0[g_pos + q]))",
    "g_pos == ST(T0, len(atoms))",
    "forall(lambda j: implies(0 <= j and j < len(atoms), 0 <= ST(T0, j) and ST(T0, j) < g_pos and T0[ST(T0, j)] != '--' and "
    "   not brace(T0[ST(T0, j)]) and atoms[j][0] == T0[ST(T0, j)] and "
    "   atoms[j][1] == (parse_attr(T0[ST(T0, j) + 1]) if has_attr(T0, ST(T0, j)) else EMPTY)))",
    "implies(natoms is not None, len(atoms) <= natoms or len(atoms) == 0)",
]
GA_ENS = [
    # the atoms are the leading tokens, each with the attribute dictionary that directly follows it (if one does) ...
    "forall(lambda j: implies(0 <= j and j < len(result), 0 <= ST({T}, j) and ST({T}, j) < len({T}) and result[j][0] == {T}[ST({T}, j)] and "
    "   {T}[ST({T}, j)] != '--' and result[j][1] == (parse_attr({T}[ST({T}, j) + 1]) if has_attr({T}, ST({T}, j)) else EMPTY)))",
    # ... up to the end of the line, the '--' separator (which is consumed, also right after the expected number of
    # atoms), or the expected number of atoms; what follows is left in `tokens`
    "0 <= ST({T}, len(result)) and ST({T}, len(result)) <= len({T})",
    "(ST({T}, len(result)) == len({T}) and len(tokens) == 0) or "
    "(ST({T}, len(result)) < len({T}) and {T}[ST({T}, len(result))] == '--' and len(tokens) == len({T}) - ST({T}, len(result)) - 1 and "
    "   forall(lambda q: implies(0 <= q and q < len(tokens), tokens[q] == {T}[ST({T}, len(result)) + 1 + q]))) or "
    "(ST({T}, len(result)) < len({T}) and {T}[ST({T}, len(result))] != '--' and natoms is not None and len(result) >= natoms and "
    "   len(tokens) == len({T}) - ST({T}, len(result)) and "
    "   forall(lambda q: implies(0 <= q and q < len(tokens), tokens[q] == {T}[ST({T}, len(result)) + q])))",
    "implies(natoms is not None and natoms >= 1, len(result) <= natoms)",
]
get_atoms = FunctionContract(
    F, '_get_atoms', 'C13', setup=setup_ga, spec_defs=SPEC_GA, spec_recs=RECS_GA, spec_env=dict(AttrD=AttrD),
    locals=dict(atoms=TSeq(AtomTok)), result_ty=TSeq(AtomTok),
    ghost_at={'entry': "g_pos = 0"},
    ensures=[e.format(T='old(tokens)') for e in GA_ENS],
    raises={'OSError': ["exists(lambda p: 0 <= p and p < len(old(tokens)) and brace(old(tokens)[p]))"]},
    modifies=['tokens'],
    loops={'L1': LoopSpec(inv=GA_INV, modifies=['tokens', 'atoms'], locals=dict(atoms=TSeq(AtomTok), g_pos=TInt),
                          decreases="len(tokens)",
                          ghost_end="g_pos = len(T0) - len(tokens)")},
    canary=[("if tokens and tokens[0] == '--':", "if tokens and tokens[0] == '---':"),
            ("if next_token.startswith('{'):", "if token.startswith('{'):"),
            ("if natoms is not None and len(atoms) >= natoms:", "if natoms is not None and len(atoms) > natoms:")],
)
CONTRACTS.append(get_atoms)


# ------------------------------------------------------------------ _base_parser: one interaction line of a .ff file
Params, Meta, Refs = TKey('Params'), TKey('Meta'), TKey('Refs')
InterRec = TTuple(Refs, Params, Meta, TBool, names=['atoms', 'parameters', 'meta', 'is_delete'])


def setup_bp(kind):
    def setup(cx):
        eng = cx.eng
        from pyvc.builtins import list_append, getitem, setitem, contains
        ga_world(cx)
        tokens = cx.box('tokens', TSeq(TStr))
        treat = cx.uf('treated', [TSeq(AtomTok), TStr], Refs)           # _treat_{block,link}_interaction_atoms(atoms, context, section)
        params_of = cx.uf('params_of', [TSeq(TStr)], Params)             # _parse_interaction_parameters(tokens)
        meta_of = cx.uf('meta_of', [TStr], Meta)                         # json.loads(token)
        merged = cx.uf('merged', [Meta, TStr], Meta)                     # dict(ChainMap(meta, context._apply_to_all_interactions[section]))
        attrs_of = cx.uf('attrs_of', [TSeq(AtomTok)], Params)
        cx.spec_env['NO_META'] = SV(Meta, z3.Const('empty_Meta', Meta.sort()))
        ADDED = cx.heap('ADDED', cx.box('ADDED', TMap(TStr, TSeq(InterRec))))       # context.interactions
        REMOVED = cx.heap('REMOVED', cx.box('REMOVED', TMap(TStr, TSeq(InterRec)))) # context.removed_interactions
        section = cx.val('section', TStr)

        def treat_fn(e, atoms, context, sec):
            # may raise IOError (unknown atom, bad index, conflicting attributes): not modelled as a failure here
            return SV(Refs, treat(to_z3(atoms, TSeq(AtomTok)), to_z3(sec, TStr)))
        cx.spec_env['_treat_block_interaction_atoms'] = Builtin(treat_fn, '_treat_block_interaction_atoms')
        cx.spec_env['_treat_link_interaction_atoms'] = Builtin(treat_fn, '_treat_link_interaction_atoms')
        cx.spec_env['_parse_interaction_parameters'] = Builtin(lambda e, t: SV(Params, params_of(to_z3(t, TSeq(TStr)))),
                                                               '_parse_interaction_parameters')
        cx.spec_env['json'] = Obj('json', loads=Builtin(lambda e, t: SV(Meta, meta_of(to_z3(t, TStr))), 'json.loads'))
        apply_all = Obj('_apply_to_all_interactions', __getitem__=Builtin(lambda e, k: Obj('defaults', section=k), 'defaults[]'))
        cx.spec_env['collections'] = Obj('collections', ChainMap=Builtin(lambda e, m, d: ('chain', m, d), 'ChainMap'))

        def dict_(e, x=None):
            if isinstance(x, tuple) and x and x[0] == 'chain':
                m = x[1]
                me = z3.Const('empty_Meta', Meta.sort()) if (isinstance(m, Box) and m.ty is None) else to_z3(m, Meta)
                return SV(Meta, merged(me, to_z3(x[2].attrs['section'], TStr)))
            raise EngineError('dict() of this shape')
        cx.spec_env['dict'] = Builtin(dict_, 'dict')

        def mk(is_delete):
            def f(e, atoms=None, parameters=None, meta=None, atom_attrs=None):
                return (atoms, parameters, meta, is_delete)
            return f
        cx.spec_env['Interaction'] = Builtin(mk(False), 'Interaction')
        cx.spec_env['DeleteInteraction'] = Builtin(mk(True), 'DeleteInteraction')

        def table(heap):
            o = Obj('interactions')

            def get(e, k, d=None):
                if e.branch(e._b(contains(e, heap, k))):
                    return getitem(e, heap, k)
                return Box(TSeq(InterRec))
            o.attrs['get'] = Builtin(get, 'interactions.get')
            o.attrs['__setitem__'] = Builtin(lambda e, k, v: setitem(e, heap, k, v), 'interactions[]=')
            return o
        context = Obj('context', interactions=table(ADDED), removed_interactions=table(REMOVED), _apply_to_all_interactions=apply_all)
        return dict(tokens=tokens, context=context, context_type=kind, section=section, natoms=cx.val('natoms', TOpt(TInt)),
                    delete=cx.val('delete', TBool))
    return setup


SPEC_BP = dict(SPEC_GA)
SPEC_BP.update({
    'T0': "lambda: old(tokens)",
    # number of atoms the line states: up to '--', or the expected number
    'n_sep': "lambda: exists(lambda p: 0 <= p and p < len(T0()) and T0()[p] == '--')",
})
BP_NEW = ("len({H}[section]) == (len(old({H})[section]) if section in old({H}) else 0) + 1 and section in {H} and "
          "forall(lambda k: implies(section in old({H}) and 0 <= k and k < len(old({H})[section]), {H}[section][k] == old({H})[section][k])) and "
          "forall(lambda s2: implies(s2 != section, (s2 in {H}) == (s2 in old({H})) and implies(s2 in {H}, {H}[s2] == old({H})[s2])), TStr)")
BP_SAME = "forall(lambda s2: (s2 in {H}) == (s2 in old({H})) and implies(s2 in {H}, {H}[s2] == old({H})[s2]), TStr)"
for _kind in ('block', 'link'):
    CONTRACTS.append(FunctionContract(
        F, '_base_parser', 'C13', short='_base_parser[%s]' % _kind, setup=setup_bp(_kind), spec_defs=SPEC_BP, spec_recs=RECS_GA,
        spec_env=dict(AttrD=AttrD, Params=Params, Meta=Meta, Refs=Refs),
        locals=dict(atoms=TSeq(AtomTok)),
        ensures=[
            # exactly one interaction is recorded: under the section, after the earlier ones; a removal only in a link
            "implies(not delete, " + BP_NEW.format(H='ADDED') + " and " + BP_SAME.format(H='REMOVED') + ")",
            "implies(delete, " + BP_NEW.format(H='REMOVED') + " and " + BP_SAME.format(H='ADDED') + ")",
            "implies(delete, context_type == 'link')",
            # a line with more than one '--', or with a '--' after more atoms than the section takes, is rejected (IOError)
            "forall(lambda p, q: implies(0 <= p and p < q and q < len(old(tokens)), not (old(tokens)[p] == '--' and old(tokens)[q] == '--')))",
            "forall(lambda q: implies(0 <= q and q < g_left, g_rest[q] != '--'))",
            # it states the atoms of the line as _get_atoms delimits them - all of them, and as many as the section takes -,
            "implies(natoms is not None, len(atoms) == natoms)",
            "(ADDED if not delete else REMOVED)[section][len((ADDED if not delete else REMOVED)[section]) - 1].atoms == treated(atoms, section)",
            "(ADDED if not delete else REMOVED)[section][len((ADDED if not delete else REMOVED)[section]) - 1].is_delete == delete",
        ] + [e.format(T='old(tokens)').replace('result', 'atoms').replace('len(tokens)', 'g_left').replace('tokens[q]', 'g_rest[q]')
             for e in GA_ENS[:2]],
        raises={'OSError': []},
        allow_exc=('OSError',),
        modifies=['tokens', 'ADDED', 'REMOVED'],
        ghost_at={'after:stmt:atoms = _get_atoms(tokens, natoms)': "g_left = len(tokens)\ng_rest = list(tokens)"},
        canary=[("if natoms is not None and len(atoms) != natoms:", "if natoms is not None and len(atoms) > natoms:"),
                ("interaction_list = context.interactions.get(section, [])", "interaction_list = []"),
                ("if context_type != 'link' and delete:", "if context_type == 'link' and delete:")],
    ))


# ------------------------------------------------------------------ _parse_block_atom: the columns of a block's [ atoms ] line
BlockAtom = TTuple(TStr, TStr, TStr, TInt, TInt, TOpt(TReal), TOpt(TReal), AttrD,
                   names=['atomname', 'atype', 'resname', 'resid', 'charge_group', 'charge', 'mass', 'extra'])


def setup_pba(cx):
    from pyvc.builtins import list_append, contains
    ga_world(cx)
    tokens = cx.box('tokens', TSeq(TStr))
    ATOMS = cx.heap('ATOMS', cx.box('ATOMS', TSeq(BlockAtom)))          # context.add_atom(...) calls, in order
    names = cx.val('names', TSet(TStr))                                 # `name in context`: the atom names of the block
    cx.spec_env['names'] = names
    to_int = cx.uf('to_int', [TStr], TInt)                              # int(token) (ValueError for a non-number: not modelled)
    to_float = cx.uf('to_float', [TStr], TReal)
    cx.spec_env['int'] = Builtin(lambda e, x: SV(TInt, to_int(to_z3(x, TStr))), 'int')
    cx.spec_env['float'] = Builtin(lambda e, x: SV(TReal, to_float(to_z3(x, TStr))), 'float')
    cx.spec_env['collections'] = Obj('collections', ChainMap=Builtin(lambda e, first, second: ('chain', first, second), 'ChainMap'))

    def dict_(e, x=None):
        if isinstance(x, tuple) and x and x[0] == 'chain':
            return Obj('merged', extra=x[1], base=x[2])
        raise EngineError('dict() of this shape')
    cx.spec_env['dict'] = Builtin(dict_, 'dict')

    def add_atom(e, m):
        base, extra = m.attrs['base'], m.attrs['extra']
        ex = SV(AttrD, z3.Const('empty_AttrD', AttrD.sort())) if (isinstance(extra, Box) and extra.ty is None) else extra
        cd = base.cd
        list_append(e, ATOMS, (cd['atomname'], cd['atype'], cd['resname'], cd['resid'], cd['charge_group'],
                               cd.get('charge'), cd.get('mass'), ex))
    context = Obj('Block', add_atom=Builtin(add_atom, 'context.add_atom'), name=cx.val('block_name', TStr))
    context.attrs['__contains__'] = Builtin(lambda e, n: contains(e, names, n), 'in block')
    return dict(tokens=tokens, context=context)


SPEC_PBA = {
    'T': "lambda: old(tokens)",
    'has_extra': "lambda: T()[len(T()) - 1].startswith('{')",
    'ncol': "lambda: len(T()) - (1 if has_extra() else 0)",
    'new': "lambda: ATOMS[len(old(ATOMS))]",
}
parse_block_atom = FunctionContract(
    F, '_parse_block_atom', 'C13', setup=setup_pba, spec_defs=SPEC_PBA, spec_env=dict(AttrD=AttrD),
    requires=["len(tokens) >= 1"],
    ensures=[
        # exactly one atom is added; its columns are: (index,) type, residue number, residue name, atom name, charge group
        # [, charge [, mass]] and an optional trailing attribute dictionary
        "len(ATOMS) == len(old(ATOMS)) + 1 and ncol() >= 6",
        "new().atype == T()[1] and new().resid == to_int(T()[2]) and new().resname == T()[3] and new().atomname == T()[4] and "
        "new().charge_group == to_int(T()[5])",
        "(new().charge is None) == (ncol() == 6) and implies(ncol() > 6, new().charge == to_float(T()[6]))",
        "(new().mass is None) == (ncol() <= 7) and implies(ncol() > 7, new().mass == to_float(T()[7]))",
        "new().extra == (parse_attr(T()[len(T()) - 1]) if has_extra() else EMPTY)",
        # an atom name that the block already has is rejected
        "not (T()[4] in names)",
        "forall(lambda k: implies(0 <= k and k < len(old(ATOMS)), ATOMS[k] == old(ATOMS)[k]))",
    ],
    raises={'OSError': ["ncol() >= 6 and T()[4] in names", "len(ATOMS) == len(old(ATOMS))"],
            'IndexError': ["ncol() < 6", "len(ATOMS) == len(old(ATOMS))"]},
    modifies=['tokens', 'ATOMS'],
    canary=[("_, atype, resid, resname, name, charge_group = first_six", "_, atype, resid, name, resname, charge_group = first_six"),
            ("atom['mass'] = float(tokens.popleft())", "atom['mass'] = atom['charge']")],
)
CONTRACTS.append(parse_block_atom)


# ------------------------------------------------------------------ _treat_block_interaction_atoms: names and 1-based numbers
Tok = TKey('Tok')                                           # a token of the line / an atom name (abstract: z3 strings are slow)
RefTok = TTuple(Tok, AttrD)


def setup_tbia(cx):
    from pyvc.values import IterV
    from pyvc.builtins import _int
    eng = cx.eng
    ATOMS = cx.heap('ATOMS', cx.box('ATOMS', TSeq(RefTok)))    # the [reference, attributes] pairs of the line (mutable pairs)
    NAMES = cx.val('NAMES', TSeq(Tok))                          # the atom names of the block, in order
    cx.spec_env['NAMES'] = NAMES
    in_block = cx.uf('in_block', [Tok], TBool)                 # the string is the name of an atom of the block
    isnum = cx.uf('isnum', [Tok], TBool)                       # str.isdigit(): non-empty, digits only
    num_of = cx.uf('num_of', [Tok], TInt)                      # int(s) of such a string
    first = cx.uf('first_char', [Tok], TChar)                  # s[0]
    j = z3.Int('nj')
    st, nt = TSeq(RefTok), TSeq(Tok)
    cx.assume(z3.ForAll([j], z3.Implies(z3.And(0 <= j, j < nt.len(NAMES.e)), in_block(nt.at(NAMES.e, j)))))
    eng.methods[('Tok', 'isdigit')] = lambda e, t: wrap(TBool, isnum(to_z3(t, Tok)))
    eng.methods[('Tok', '__getitem__')] = lambda e, t, k: SV(TChar, first(to_z3(t, Tok))) if k == 0 else \
        (_ for _ in ()).throw(EngineError('token[%r]' % (k,)))
    n0 = st.len(ATOMS.e)

    def tok(i):
        i = _int(i)

        def getitem(e, k):
            if k != 0:
                raise EngineError('atom[%r]' % (k,))
            return SV(Tok, RefTok.get(st.at(ATOMS.e, i), 0))

        def setitem(e, k, v):
            if k != 0:
                raise EngineError('atom[%r] = ...' % (k,))
            cur = st.at(ATOMS.e, i)
            ATOMS.e = st.mk(st.len(ATOMS.e), z3.Store(st.arr(ATOMS.e), i, RefTok.mk(to_z3(v, Tok), RefTok.get(cur, 1))))
        return Obj('atomtok', __getitem__=Builtin(getitem, 'atom[]'), __setitem__=Builtin(setitem, 'atom[]='))
    atoms = Obj('atoms')
    atoms.__dict__['iter'] = IterV(n0, tok)
    nodes = Obj('NodeView')
    nodes.__dict__['iter'] = NAMES
    context = Obj('Block', nodes=nodes, name='block', __len__=Builtin(lambda e: SV(TInt, nt.len(NAMES.e)), 'len(block)'),
                  __contains__=Builtin(lambda e, r: wrap(TBool, in_block(to_z3(r, Tok))), 'in block'))

    def int_(e, x):
        # int(s) of a string of ASCII digits (repo inputs are ASCII: isdigit() implies that int() succeeds)
        if isinstance(x, SV) and x.ty == Tok:
            e.maybe_raise(isnum(x.e), 'ValueError')
            return SV(TInt, num_of(x.e))
        raise EngineError('int(%r)' % (x,))
    cx.spec_env['int'] = Builtin(int_, 'int')
    return dict(atoms=atoms, context=context, section='bonds')


SPEC_TBIA = {
    'ref': "lambda k: old(ATOMS)[k][0]",
    # what the k-th reference stands for: a number n is the n-th atom of the block, anything else is an atom name
    'resolved': "lambda k: NAMES[num_of(ref(k)) - 1] if isnum(ref(k)) else ref(k)",
    'bad': "lambda k: (num_of(ref(k)) > len(NAMES)) if isnum(ref(k)) else (not in_block(ref(k)) or first_char(ref(k)) in '+-<>')",
}
treat_block_atoms = FunctionContract(
    F, '_treat_block_interaction_atoms', 'C13', setup=setup_tbia, spec_defs=SPEC_TBIA, spec_env=dict(AttrD=AttrD, Tok=Tok),
    result_ty=TSeq(Tok), locals=dict(all_references=TSeq(Tok), atom_names=TSeq(Tok)),
    requires=[
        # a number is at least 1.  ASSUMED, and not checked by the code: '0' resolves to the last atom (known finding C13
        # read_ff/fault-accepted/undefined-block-atom/index-zero)
        "forall(lambda k: implies(0 <= k and k < len(ATOMS) and isnum(ATOMS[k][0]), num_of(ATOMS[k][0]) >= 1))",
    ],
    ensures=[
        # every reference is resolved to the name of an atom of the block - a number n to the n-th atom, a name to itself -
        # in the returned list and in the pairs themselves; attributes are untouched
        "len(result) == len(old(ATOMS)) and len(ATOMS) == len(old(ATOMS))",
        "forall(lambda k: implies(0 <= k and k < len(result), not bad(k) and result[k] == resolved(k) and ATOMS[k][0] == resolved(k) and "
        "   ATOMS[k][1] == old(ATOMS)[k][1] and in_block(result[k])))",
    ],
    # a number beyond the block's atoms, an unknown name, or a name with an order prefix: IOError
    raises={'OSError': ["exists(lambda k: 0 <= k and k < len(old(ATOMS)) and bad(k))"]},
    modifies=['ATOMS'],
    loops={'L1': LoopSpec(inv=[
        "len(all_references) == _i and len(ATOMS) == len(old(ATOMS))",
        "forall(lambda k: implies(0 <= k and k < _i, not bad(k) and all_references[k] == resolved(k) and ATOMS[k][0] == resolved(k) and "
        "   in_block(all_references[k])))",
        "forall(lambda k: implies(0 <= k and k < len(ATOMS), ATOMS[k][1] == old(ATOMS)[k][1]))",
        "forall(lambda k: implies(_i <= k and k < len(ATOMS), ATOMS[k][0] == old(ATOMS)[k][0]))"],
        modifies=['ATOMS', 'all_references'])},
    canary=[("reference = int(reference) - 1", "reference = int(reference)"),
            ("if reference not in context:", "if reference in context:"),
            ("atom[0] = reference", "pass")],
)
CONTRACTS.append(treat_block_atoms)


# ------------------------------------------------------------------ _treat_link_interaction_atoms: atoms an interaction line defines
LKey2, LVal = TKey('AttrKey'), TKey('AttrVal')
LAttr = TMap(LKey2, LVal)
LinkTok = TTuple(Tok, LAttr)


def setup_tlia(cx):
    from pyvc.builtins import setitem
    eng = cx.eng
    atoms = cx.val('atoms', TSeq(LinkTok))
    cx.spec_env['ATOMS'] = atoms
    LINK = cx.heap('LINK', cx.box('LINK', TMap(Tok, LAttr)))   # the atoms of the link with their attributes
    APPLY = cx.val('APPLY', LAttr)                              # context._apply_to_all_nodes
    cx.spec_env['APPLY'] = APPLY
    # _treat_atom_prefix by its contract (proved above for keys with and without an order attribute): the key the atom gets and
    # its attributes (with atomname and order), as functions of the reference and the attributes written; IOError for a
    # malformed key or a prefix that contradicts the order
    pref = cx.uf('pref', [Tok, LAttr], Tok)
    tattrs = cx.uf('tattrs', [Tok, LAttr], LAttr)
    ok = cx.uf('prefix_ok', [Tok, LAttr], TBool)
    r, a = z3.Const('r', Tok.sort()), z3.Const('a', LAttr.sort())
    cx.assume(z3.ForAll([r, a], LAttr.inv(tattrs(r, a))))

    def tap(e, reference, attributes):
        re_, ae = to_z3(reference, Tok), to_z3(attributes, LAttr)
        e.maybe_raise(ok(re_, ae), 'OSError')
        return (SV(Tok, pref(re_, ae)), Box(LAttr, tattrs(re_, ae)))
    cx.spec_env['_treat_atom_prefix'] = Builtin(tap, '_treat_atom_prefix')

    def add_node(e, key, **kw):
        if list(kw) != ['**']:
            raise EngineError('add_node(%s)' % list(kw))
        e.maybe_raise(True, 'KeyError')
        setitem(e, LINK, key, kw['**'])
    context = Obj('Link', nodes=LINK, _apply_to_all_nodes=Box(LAttr, APPLY.e), add_node=Builtin(add_node, 'link.add_node'),
                  __contains__=Builtin(lambda e, k: wrap(TBool, TMap(Tok, LAttr).has(LINK.e, to_z3(k, Tok))), 'in link'))
    return dict(atoms=atoms, context=context, section='bonds')


SPEC_TLIA = {
    # what is written for the k-th atom, on top of the attributes the link gives all its atoms
    'merged_is': "lambda M, k: forall(lambda key: (key in M) == (key in APPLY or key in ATOMS[k][1]), AttrKey) and "
                 "forall(lambda key: implies(key in M, M[key] == (ATOMS[k][1][key] if key in ATOMS[k][1] else APPLY[key])), AttrKey)",
}
TLIA_INV = [
    "len(g_M) == {I} and len(all_references) == {I}",
    "forall(lambda k: implies(0 <= k and k < {I}, merged_is(g_M[k], k) and all_references[k] == pref(ATOMS[k][0], g_M[k])))",
    # every atom named so far is an atom of the link with (at least) the attributes the line gives it
    "forall(lambda k, key: implies(0 <= k and k < {I} and key in tattrs(ATOMS[k][0], g_M[k]), all_references[k] in LINK and "
    "   key in LINK[all_references[k]] and LINK[all_references[k]][key] == tattrs(ATOMS[k][0], g_M[k])[key]), TInt, AttrKey)",
    "forall(lambda k: implies(0 <= k and k < {I}, all_references[k] in LINK))",
    # what the link already said about its atoms stays
    "forall(lambda p, key: implies(p in old(LINK) and key in old(LINK)[p], p in LINK and key in LINK[p] and "
    "   LINK[p][key] == old(LINK)[p][key]), Tok, AttrKey)",
]
treat_link_atoms = FunctionContract(
    F, '_treat_link_interaction_atoms', 'C13', setup=setup_tlia, spec_defs=SPEC_TLIA, spec_env=dict(Tok=Tok, AttrKey=LKey2, AttrVal=LVal),
    result_ty=TSeq(Tok), locals=dict(all_references=TSeq(Tok), g_M=TSeq(LAttr), intermediate=LAttr, g_bad_prefix=TBool, g_conflict=TBool),
    ghost_at={'entry': "g_M = []\ng_bad_prefix = False\ng_conflict = False",
              'after:stmt:attributes = intermediate': "g_M.append(dict(intermediate))\ng_bad_prefix = not prefix_ok(reference, intermediate)",
              # the conflict that is reported: the line gives an attribute the link's atom already has with another value
              'before:stmt:raise IOError(msg.format(key, reference':
                  "g_conflict = True\n"
                  "prove(prefixed_reference in LINK and key in attributes and key in LINK[prefixed_reference] and "
                  "      LINK[prefixed_reference][key] != attributes[key], 'reported-conflict-is-real')"},
    ensures=[x.format(I='len(ATOMS)').replace('all_references', 'result') for x in TLIA_INV],
    # IOError: the key is malformed / contradicts its order, or an attribute conflicts with what the link already says about
    # that atom
    raises={'OSError': ["g_bad_prefix or g_conflict"]},
    modifies=['LINK'],
    loops={
        'L1': LoopSpec(inv=[x.format(I='_i') for x in TLIA_INV], modifies=['LINK', 'all_references', 'g_M']),
        'L1.1': LoopSpec(inv=["forall(lambda key: implies(key in attributes and posof(attributes, key) < _i and key in context_atom, "
                              "   context_atom[key] == attributes[key]), AttrKey)"]),
    },
    canary=[("if key in context_atom and value != context_atom[key]:", "if key in context_atom and value == context_atom[key]:"),
            ("context_atom.update(attributes)", "pass"),
            ("intermediate.update(attributes)", "pass")],
)
CONTRACTS.append(treat_link_atoms)


# ------------------------------------------------------------------ SectionLineParser.parse_header: where a new header lands
SecName = TKey('SecName')
FP = 'vermouth/parser_utils.py'


def setup_ph(cx):
    from pyvc.builtins import list_append
    old = cx.val('OLD', TSeq(SecName))                      # self.section before the header
    new = cx.val('NEW', SecName)                            # the name in the header (stripped of brackets, case-folded)
    cx.spec_env.update(OLD=old, NEW=new)
    known_at = cx.uf('known_at', [TInt], TBool)             # OLD[:k] + [NEW] is a section the parser has a method for
    FIN = cx.heap('FINALIZED', cx.box('FINALIZED', TSeq(TTuple(TSeq(SecName), TSeq(SecName)))))   # calls of finalize_section
    st = TSeq(SecName)

    def contains(e, t):
        # tuple(section) in METH_DICT: the contract answers for stacks of the shape OLD[:k] + [NEW] only, and obliges the shape
        te = to_z3(t, st)
        j = z3.FreshInt('sj')
        n = st.len(te)
        e.oblige(z3.And(n >= 1, n - 1 <= st.len(old.e), st.at(te, n - 1) == new.e,
                        z3.ForAll([j], z3.Implies(z3.And(0 <= j, j < n - 1), st.at(te, j) == st.at(old.e, j)))), 'stack-shape-at-lookup')
        return wrap(TBool, known_at(n - 1))
    cx.spec_env['tuple'] = Builtin(lambda e, x: x, 'tuple')
    self = Obj('Parser', section=Box(st, old.e), METH_DICT=Obj('METH_DICT', __contains__=Builtin(contains, 'in METH_DICT')),
               finalize_section=Builtin(lambda e, prev, ended: list_append(e, FIN, (prev, ended)), 'self.finalize_section'))
    line = Obj('line', strip=Builtin(lambda e, chars: Obj('stripped', casefold=Builtin(lambda e2: new, 'casefold'))
                                     if chars == '[ ]' else (_ for _ in ()).throw(EngineError('strip(%r)' % (chars,))), 'line.strip'))
    return dict(self=self, line=line, lineno=0)


SPEC_PH = {
    # how much of the old stack survives: the longest prefix under which the new name is a known section (nothing if there is none)
    'keeps': "lambda k: 0 <= k and k <= len(OLD) and (k == 0 or known_at(k)) and forall(lambda m: implies(k < m and m <= len(OLD), not known_at(m)))",
}
parse_header = FunctionContract(
    FP, 'SectionLineParser.parse_header', 'C13', setup=setup_ph, spec_defs=SPEC_PH, spec_env=dict(SecName=SecName),
    locals=dict(section=TSeq(SecName), ended=TSeq(SecName), prev_section=TSeq(SecName)),
    requires=["len(old(FINALIZED)) == 0"],
    ensures=[
        # the new section stack is the longest prefix of the old one under which the header's name is a known section, followed by
        # that name; the sections that are left (innermost first) are reported to finalize_section together with the old stack,
        # once, and only when there was an old stack
        "len(self.section) >= 1 and keeps(len(self.section) - 1) and self.section[len(self.section) - 1] == NEW",
        "forall(lambda j: implies(0 <= j and j < len(self.section) - 1, self.section[j] == OLD[j]))",
        "len(FINALIZED) == (1 if len(OLD) > 0 else 0)",
        "implies(len(OLD) > 0, len(FINALIZED[0][0]) == len(OLD) and forall(lambda j: implies(0 <= j and j < len(OLD), FINALIZED[0][0][j] == OLD[j])) and "
        "   len(FINALIZED[0][1]) == len(OLD) - (len(self.section) - 1) and "
        "   forall(lambda q: implies(0 <= q and q < len(FINALIZED[0][1]), FINALIZED[0][1][q] == OLD[len(OLD) - 1 - q])))",
    ],
    modifies=['self.section', 'FINALIZED'],
    loops={'L1': LoopSpec(inv=[
        "len(section) >= 1 and len(section) - 1 <= len(OLD) and section[len(section) - 1] == NEW",
        "forall(lambda j: implies(0 <= j and j < len(section) - 1, section[j] == OLD[j]))",
        "forall(lambda m: implies(len(section) - 1 < m and m <= len(OLD), not known_at(m)))",
        "len(ended) == len(OLD) - (len(section) - 1) and forall(lambda q: implies(0 <= q and q < len(ended), ended[q] == OLD[len(OLD) - 1 - q]))",
        "len(FINALIZED) == 0"],
        modifies=['section', 'ended'], decreases="len(section)")},
    canary=[("ended.append(section.pop(-2))", "ended.append(section.pop(0))"),
            ("while tuple(section) not in self.METH_DICT and len(section) > 1:", "while tuple(section) not in self.METH_DICT and len(section) > 2:"),
            ("if prev_section:", "if ended:")],
)
CONTRACTS.append(parse_header)


# ------------------------------------------------------------------ SectionLineParser.finalize / dispatch
def setup_fin2(cx):
    from pyvc.builtins import list_append
    old = cx.val('OLD', TSeq(SecName))
    cx.spec_env['OLD'] = old
    FIN = cx.heap('FINALIZED', cx.box('FINALIZED', TSeq(TTuple(TSeq(SecName), TSeq(SecName)))))
    res = cx.val('fin_result', TInt)
    cx.spec_env['FIN_RESULT'] = res

    def fin(e, prev, ended):
        list_append(e, FIN, (prev, ended))
        return res
    self = Obj('Parser', section=Box(TSeq(SecName), old.e), macros=Obj('macros'), finalize_section=Builtin(fin, 'self.finalize_section'))
    return dict(self=self, lineno=0)


finalize_parser = FunctionContract(
    FP, 'SectionLineParser.finalize', 'C13', setup=setup_fin2, spec_env=dict(SecName=SecName),
    requires=["len(old(FINALIZED)) == 0"],
    ensures=[
        # at the end of the file every section that is still open is reported as ended, exactly once, and the parser is reset
        "len(FINALIZED) == 1 and len(FINALIZED[0][0]) == len(OLD) and len(FINALIZED[0][1]) == len(OLD)",
        "forall(lambda j: implies(0 <= j and j < len(OLD), FINALIZED[0][0][j] == OLD[j] and FINALIZED[0][1][j] == OLD[j]))",
        "self.section is None and result == FIN_RESULT",
    ],
    modifies=['FINALIZED', 'self.section', 'self.macros'],
    canary=[("result = self.finalize_section(prev_section, prev_section)", "result = self.finalize_section(self.section, self.section)")],
)
CONTRACTS.append(finalize_parser)


def setup_dispatch(cx):
    is_header = cx.val('is_header', TBool)
    cx.spec_env['IS_HEADER'] = is_header
    ph, ps = Obj('parse_header'), Obj('parse_section')
    cx.spec_env.update(PARSE_HEADER=ph, PARSE_SECTION=ps)
    self = Obj('Parser', parse_header=ph, parse_section=ps, is_section_header=Builtin(lambda e, line: is_header, 'self.is_section_header'))
    return dict(self=self, line=Obj('line'))


dispatch_parser = FunctionContract(
    FP, 'SectionLineParser.dispatch', 'C13', setup=setup_dispatch,
    ensures=["(result is PARSE_HEADER) == IS_HEADER", "(result is PARSE_SECTION) == (not IS_HEADER)"],
    canary=[("return self.parse_header\n        else:\n            return self.parse_section", "return self.parse_section\n        else:\n            return self.parse_header")],
)
CONTRACTS.append(dispatch_parser)


# ------------------------------------------------------------------ ITPDirector.parse_pragma: the #ifdef state of an .itp file
FI = 'vermouth/gmx/itp_read.py'
PMeta = TTuple(TStr, TStr, names=['tag', 'condition'])


def setup_pp(cx):
    cur = cx.val('CUR', TOpt(PMeta))
    cx.spec_env['CUR'] = cur
    return dict(self=Obj('ITPDirector', current_meta=cur), line=cx.val('line', TStr), lineno=0)


SPEC_PP = {
    'is_endif': "lambda: line == '#endif'",
    'is_else': "lambda: line != '#endif' and line.startswith('#else')",
    'is_open': "lambda: line != '#endif' and not line.startswith('#else') and (line.startswith('#ifdef') or line.startswith('#ifndef'))",
    'is_define': "lambda: line != '#endif' and not line.startswith('#else') and not line.startswith('#ifdef') and "
                 "not line.startswith('#ifndef') and line.startswith('#define')",
    'flipped': "lambda c: 'ifndef' if c == 'ifdef' else 'ifdef'",
}
parse_pragma = FunctionContract(
    FI, 'ITPDirector.parse_pragma', 'C13', setup=setup_pp, spec_defs=SPEC_PP, attr_types={'self.current_meta': TOpt(PMeta)},
    locals=dict(g_cond=TStr, g_tag=TStr), ghost_at={'entry': "g_cond = ''\ng_tag = ''",
                                                    'after:stmt:condition, tag = line.split()': "g_cond = condition\ng_tag = tag"},
    # an open guard is an #ifdef or an #ifndef (the only conditions this method ever stores)
    requires=["implies(CUR is not None, payload(CUR).condition == 'ifdef' or payload(CUR).condition == 'ifndef')"],
    allow_exc=('ValueError',),          # '#ifdef' without a macro name, or with more than one word after it: line.split() does not unpack
    ensures=[
        # #endif closes the open guard; #else turns it into the opposite condition on the same macro; #ifdef / #ifndef opens one
        # (only when none is open) with the macro and the condition written; #define changes nothing
        "implies(is_endif(), CUR is not None and self.current_meta is None)",
        "implies(is_else(), CUR is not None and self.current_meta is not None and payload(self.current_meta).tag == payload(CUR).tag and "
        "   payload(self.current_meta).condition == flipped(payload(CUR).condition).replace('#', ''))",
        "implies(is_open(), CUR is None and self.current_meta is not None and payload(self.current_meta).tag == g_tag and "
        "   payload(self.current_meta).condition == g_cond.replace('#', ''))",
        "implies(is_define(), self.current_meta == CUR)",
        "is_endif() or is_else() or is_open() or is_define()",
    ],
    # IOError: #endif or #else without an open guard, a guard opened inside another, or an unknown pragma
    raises={'OSError': ["(is_endif() and CUR is None) or (is_else() and CUR is None) or (is_open() and CUR is not None) or "
                        "not (is_endif() or is_else() or is_open() or is_define())", "self.current_meta == CUR"]},
    modifies=['self.current_meta'],
    canary=[("inverse = {\"ifdef\": \"ifndef\", \"ifndef\": \"ifdef\"}", "inverse = {\"ifdef\": \"ifdef\", \"ifndef\": \"ifndef\"}"),
            ("if self.current_meta is not None:\n                self.current_meta = None", "if self.current_meta is not None:\n                pass"),
            ("self.current_meta = {'tag': tag, 'condition': condition.replace(\"#\", \"\")}\n            elif self.current_meta is not None:",
             "self.current_meta = {'tag': condition, 'condition': condition.replace(\"#\", \"\")}\n            elif self.current_meta is not None:")],
)
CONTRACTS.append(parse_pragma)


# ------------------------------------------------------------------ map_input._compute_weights: the weights of one mapping line add up to one
FW = 'vermouth/map_input.py'
RECS_W = [
    # the number of times the k-th distinct target particle of line i is written (without '!'), and the row total
    ('RS', [('i', TInt), ('n', TInt)], TReal, "0 if n <= 0 else RS(i, n - 1) + COUNT(i, n - 1)"),
]
_W_UFS = [('COUNT', [TInt, TInt], TReal), ('ncols', [TInt], TInt)]
L_row_pos = Lemma('L_row_pos', [('i', TInt), ('n', TInt)], spec_recs=RECS_W, prop='C13', file=FW, ufs=_W_UFS,
                  requires=["forall(lambda a, b: COUNT(a, b) >= 1)", "n >= 1"], ensures=["RS(i, n) >= 1"], induction='n')


def setup_cw(cx):
    from pyvc.values import IterV
    from pyvc.builtins import _int
    eng = cx.eng
    COUNT = cx.uf('COUNT', [TInt, TInt], TReal)             # dict(Counter([...])): how often line i names its k-th distinct target particle
    ncols = cx.uf('ncols', [TInt], TInt)
    nrows = cx.val('nrows', TInt)
    cx.spec_env['nrows'] = nrows
    a_, b_ = z3.Int('a'), z3.Int('b')
    cx.assume(z3.ForAll([a_, b_], COUNT(a_, b_) >= 1))
    cx.assume(z3.ForAll([a_], ncols(a_) >= 0))
    cx.assume(nrows.e >= 0)
    wt = TMap(TTuple(TInt, TInt), TReal)
    W = cx.heap('W', cx.box('W', wt))                        # pre_weights, by (line, position of the particle): the dictionaries are shared objects

    def row(i):
        from pyvc.builtins import getitem, setitem
        ie = _int(i)
        o = Obj('atom_weights')

        def values(e):
            it = IterV(ncols(ie), lambda k: getitem(e, W, (SV(TInt, ie), SV(TInt, _int(k)))))
            it.row = ie
            return it
        o.attrs.update(values=Builtin(values, 'atom_weights.values'), __len__=Builtin(lambda e: SV(TInt, ncols(ie)), 'len(atom_weights)'),
                       __getitem__=Builtin(lambda e, k: getitem(e, W, (SV(TInt, ie), k)), 'atom_weights[]'),
                       __setitem__=Builtin(lambda e, k, v: setitem(e, W, (SV(TInt, ie), k), v), 'atom_weights[]='))
        o.__dict__['iter'] = IterV(ncols(ie), lambda k: SV(TInt, _int(k)))     # its keys, in the dictionary's order
        return o

    def sum_(e, it, start=0):
        # sum(d.values()) by its contract: the row total RS(i, len(d)) - of the values as they are now, which have to be the counts
        ie = getattr(it, 'row', None)
        if ie is None:
            raise EngineError('sum of something else')
        k = z3.FreshInt('sk')
        key = wt.k.mk(ie, k) if hasattr(wt.k, 'mk') else None
        e.oblige(z3.ForAll([k], z3.Implies(z3.And(0 <= k, k < ncols(ie)), wt.at(W.e, key) == COUNT(ie, k))),
                 'total:of-the-counts-of-this-line')
        return e.call(e.spec_fallback.lookup('RS'), [SV(TInt, ie), SV(TInt, ncols(ie))], {})
    cx.spec_env['sum'] = Builtin(sum_, 'sum')
    return dict(pre_weights=Obj('pre_weights', values=Builtin(lambda e: IterV(nrows.e, row), 'pre_weights.values')))


compute_weights_norm = FunctionContract(
    FW, '_compute_weights', 'C13', short='_compute_weights[normalisation]', setup=setup_cw, spec_recs=RECS_W, lemmas=[L_row_pos],
    region=dict(start="for atom_weights in pre_weights.values():", end="weights = collections.defaultdict(dict)"),
    requires=["forall(lambda i, k: implies(0 <= i and i < nrows and 0 <= k and k < ncols(i), (i, k) in W and W[(i, k)] == COUNT(i, k)))"],
    ensures=[
        # every weight of a line is the number of times the particle is written divided by the number of (weighted) particles
        # written on that line; the lines do not influence each other
        "forall(lambda i, k: implies(0 <= i and i < nrows and 0 <= k and k < ncols(i), W[(i, k)] == COUNT(i, k) / RS(i, ncols(i))))",
    ],
    modifies=['W'],
    loops={
        'L1': LoopSpec(inv=["forall(lambda i, k: implies(0 <= i and i < _i and 0 <= k and k < ncols(i), W[(i, k)] == COUNT(i, k) / RS(i, ncols(i))))",
                            "forall(lambda i, k: implies(_i <= i and i < nrows and 0 <= k and k < ncols(i), (i, k) in W and W[(i, k)] == COUNT(i, k)))"],
                       modifies=['W']),
        'L1.1': LoopSpec(inv=["total == RS(_iL1, ncols(_iL1)) and implies(ncols(_iL1) >= 1, total >= 1)",
                              "forall(lambda k: implies(0 <= k and k < _i, W[(_iL1, k)] == COUNT(_iL1, k) / total))",
                              "forall(lambda k: implies(_i <= k and k < ncols(_iL1), (_iL1, k) in W and W[(_iL1, k)] == COUNT(_iL1, k)))",
                              "forall(lambda i, k: implies(0 <= i and i < _iL1 and 0 <= k and k < ncols(i), W[(i, k)] == COUNT(i, k) / RS(i, ncols(i))))",
                              "forall(lambda i, k: implies(_iL1 < i and i < nrows and 0 <= k and k < ncols(i), (i, k) in W and W[(i, k)] == COUNT(i, k)))"],
                         modifies=['W'], ghost_init="if ncols(_iL1) >= 1:\n    use_lemma('L_row_pos', _iL1, ncols(_iL1))"),
    },
    locals=dict(total=TReal),
    canary=[("atom_weights[to_atom] /= total", "atom_weights[to_atom] /= len(atom_weights)"),
            ("atom_weights[to_atom] /= total", "atom_weights[to_atom] = total")],
)
CONTRACTS.append(compute_weights_norm)
LEMMAS.append(L_row_pos)


# ------------------------------------------------------------------ _parse_interaction_parameters: the parameters of an interaction line
ParamT = TKey('ParamT')                                     # a parameter as stored: the token itself, or a parameter effector object


def setup_pip(cx):
    from pyvc.values import COERCIONS
    eng = cx.eng
    tokens = cx.val('tokens', TSeq(TStr))
    plain = cx.uf('plain', [TStr], ParamT)                   # a token stored as it is
    COERCIONS[('Str', 'ParamT')] = lambda e: plain(e)
    known = cx.uf('known_effector', [TStr], TBool)           # name in PARAMETER_EFFECTORS
    made = cx.uf('effector', [TStr, TSeq(TStr), TOpt(TStr)], ParamT)

    def lookup(e, name):
        ne = to_z3(name, TStr)
        e.maybe_raise(known(ne), 'KeyError')

        def construct(e2, params, format_spec=None):
            return SV(ParamT, made(ne, to_z3(params, TSeq(TStr)), to_z3(format_spec, TOpt(TStr))))
        return Builtin(construct, 'effector class')
    cx.spec_env['PARAMETER_EFFECTORS'] = Obj('PARAMETER_EFFECTORS', __getitem__=Builtin(lookup, 'PARAMETER_EFFECTORS[]'))
    return dict(tokens=tokens)


SPEC_PIP = {
    'is_eff': "lambda t: '(' in t and not t.startswith('(') and t.endswith(')')",
}
parse_parameters = FunctionContract(
    F, '_parse_interaction_parameters', 'C13', setup=setup_pip, spec_defs=SPEC_PIP, spec_env=dict(ParamT=ParamT),
    locals=dict(parameters=TSeq(ParamT)), result_ty=TSeq(ParamT),
    allow_exc=('ValueError',),           # a parameter effector written with more than one '|': the two-way unpacking fails
    ensures=[
        # one parameter per token, in order; a token that is not written as a parameter effector - name(...) - is stored unchanged
        "len(result) == len(tokens)",
        "forall(lambda j: implies(0 <= j and j < len(tokens) and not is_eff(tokens[j]), result[j] == plain(tokens[j])))",
    ],
    # an effector name that is not known: IOError
    raises={'OSError': ["exists(lambda j: 0 <= j and j < len(tokens) and is_eff(tokens[j]))"]},
    loops={'L1': LoopSpec(inv=["len(parameters) == _i",
                               "forall(lambda j: implies(0 <= j and j < _i and not is_eff(tokens[j]), parameters[j] == plain(tokens[j])))"],
                          modifies=['parameters'])},
    canary=[("            parameter = token\n", "            parameter = token.strip('0')\n"), ("for token in tokens:", "for token in tokens[1:]:")],
)
CONTRACTS.append(parse_parameters)

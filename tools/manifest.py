#!/usr/bin/env python3
"""regenerate MANIFEST.json checks / not_applicable from checks/registry.json (single source of truth)."""
import json, os
R = os.path.dirname(os.path.dirname(os.path.abspath(__file__)))
man = json.load(open(os.path.join(R, 'MANIFEST.json')))
reg = json.load(open(os.path.join(R, 'checks', 'registry.json')))
props = [json.loads(l)['id'] for l in open(os.path.join(R, 'properties.jsonl'))]
checks, na = [], []
for p in props:
    e = reg.get(p)
    if e is None or e.get('not_applicable'):
        na.append(dict(property_id=p, reason=(e or {}).get('not_applicable', 'check not built yet (work in progress); nothing is claimed')))
        continue
    checks.append(dict(property_id=p, quick_cmd='./check %s --tier quick' % p, thorough_cmd='./check %s --tier thorough' % p,
                       evidence_file='evidence/%s.json' % p, replay_cmd_template='cat {path}', engine='pyvc',
                       level_claimed=dict(category=e['level'], text=e['text'], design_ref=e.get('design_ref', 'DESIGN.md section 4, ' + p)),
                       level_note=e['note'], technique=e['technique']))
man['checks'], man['not_applicable'] = checks, na
man['engines'][0]['serves_properties'] = [c['property_id'] for c in checks]
json.dump(man, open(os.path.join(R, 'MANIFEST.json'), 'w'), indent=1)
print(len(checks), 'checks;', len(na), 'not applicable')

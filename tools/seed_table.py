#!/usr/bin/env python3
"""tools/seed_table.py <seed_matrix log>... : markdown table 'seeded change -> what catches it' for DESIGN.md section 9"""
import json
import os
import re
import sys

rows = {}
for fn in sys.argv[1:]:
    for line in open(fn):
        m = re.match(r'(C\d\d-m\d) rc=(\d+) (.*?) \| DEDUCTIVE\[(.*?)\] KEYS\[(.*)\]\s*$', line)
        if m:
            rows[m.group(1)] = m.groups()
print('| seed | change (function) | rc | deductive layer (failed obligation / undecided) | bounded layer (first keys) |')
print('|---|---|---|---|---|')
for sid in sorted(rows):
    _, rc, _, ded, keys = rows[sid]
    meta = {}
    try:
        patch = open(os.path.join(os.path.dirname(__file__), '..', 'seeded', sid, 'patch.diff')).read()
        fns = sorted(set(re.findall(r'^@@.*?@@ (?:def|class) (\w+)', patch, re.M)))
        files = sorted(set(re.findall(r'^\+\+\+ b/(\S+)', patch, re.M)))
        where = '%s (%s)' % (', '.join(fns) or '?', ', '.join(os.path.basename(f) for f in files))
    except OSError:
        where = '?'
    d = '; '.join(x.split(':', 1)[1] if ':' in x else x for x in ded.split('; ') if x)[:90] or '-'
    fnames = sorted(set(x.split(':', 1)[0] for x in ded.split('; ') if x))
    if fnames:
        d = '%s: %s' % (', '.join(fnames)[:60], d)
    k = '; '.join(keys.split('; ')[:2])[:110] or '-'
    print('| %s | %s | %s | %s | %s |' % (sid, where, rc, d.replace('|', '/'), k.replace('|', '/')))

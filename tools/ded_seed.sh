#!/bin/sh
# tools/ded_seed.sh <seed-id> <contracts module> [short names...] : deductive layer only, on a scratch worktree with the seed applied
cd "$(dirname "$0")/.." || exit 3
sid=$1; mod=$2; shift 2
wt=/tmp/sm/ded-$sid; rm -rf $wt; mkdir -p /tmp/sm
git -C /repo worktree add -q --detach $wt HEAD || exit 3
git -C $wt apply /verif/seeded/$sid/patch.diff || { echo "patch does not apply"; git -C /repo worktree remove --force $wt; exit 9; }
VERIF_REPO=$wt .venv/bin/python -W ignore tools/verify_contracts.py $mod "$@" 2>&1 | cut -c1-400
git -C /repo worktree remove --force $wt

#!/bin/sh
# tools/seed_matrix_par.sh [P] : the whole seed matrix, P seeds at a time (default 3); one line per seed, then "finished"
cd "$(dirname "$0")/.." || exit 3
P=${1:-3}
ls seeded | grep -E "^C[0-9]+-m[0-9]+$" | xargs -P "$P" -I{} sh -c 'tools/seed_matrix.sh {}'
echo finished

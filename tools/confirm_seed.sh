#!/bin/sh
# tools/confirm_seed.sh <dir with patch.diff demo.py> <name>
# confirms in a scratch worktree: demo passes without the change, fails with it, the test-suite still passes with it.
D="$1"; N="$2"; WT=/tmp/seedchk/$N
mkdir -p /tmp/seedchk; rm -rf "$WT"
git -C /repo worktree add -q --detach "$WT" HEAD || exit 9
cd "$WT"
PYTHONPATH=$WT /venv/bin/python "$D/demo.py" >/tmp/seedchk/$N.clean.log 2>&1; c=$?
git apply "$D/patch.diff" || { echo "$N: patch does not apply"; git -C /repo worktree remove --force "$WT"; exit 9; }
PYTHONPATH=$WT /venv/bin/python "$D/demo.py" >/tmp/seedchk/$N.mut.log 2>&1; m=$?
PYTHONPATH=$WT /venv/bin/python -m pytest -q -p no:cacheprovider --timeout=900 --continue-on-collection-errors vermouth >/tmp/seedchk/$N.tests.log 2>&1
t=$(tail -1 /tmp/seedchk/$N.tests.log)
cd /; git -C /repo worktree remove --force "$WT"
echo "$N demo_clean_rc=$c demo_mut_rc=$m tests: $t"

import sys; sys.path.insert(0, __import__('os').path.dirname(__import__('os').path.dirname(__import__('os').path.abspath(__file__))))
import importlib
from pyvc.verify import verify, verify_lemma
c = importlib.import_module('contracts.'+sys.argv[1])
sel = [a for a in sys.argv[2:] if a != '-v']
for l in c.LEMMAS:
    if sel and l.name not in sel: continue
    r = verify_lemma(l); print(r.as_dict())
    for o in r.obligations: print('  ', {k:v for k,v in o.items() if k in('name','status','instances','ms','detail')})
for ct in c.CONTRACTS:
    if sel and ct.short not in sel: continue
    r = verify(ct, c.CONTRACTS)
    d = r.as_dict(); print(ct.short, {k: d[k] for k in ('paths','paths_reaching_post','obligations','discharged','wall_s','pre_sat','error')})
    for o in r.obligations:
        if o['status']!='unsat' or '-v' in sys.argv: print('  ', {k:v for k,v in o.items() if k in('name','status','instances','ms','detail','model')})

#!/bin/sh
# tools/try_seed.sh <patch.diff> <Cxx> [tier] : apply a seeded change to /repo, run the check, undo it.
P="$1"; ID="$2"; TIER="${3:-quick}"
git -C /repo apply "$P" || { echo "patch does not apply"; exit 9; }
cd /verif && ./check "$ID" --tier "$TIER"; rc=$?
git -C /repo checkout -- . 
echo "seed $P on $ID -> rc=$rc"

#!/bin/sh
# tools/run_some.sh <tier> <property>... : like run_all.sh for the listed properties
TIER="$1"; shift
cd "$(dirname "$0")/.." || exit 3
for p in "$@"; do
  out=$(./check $p --tier $TIER 2>&1); rc=$?
  echo "$p rc=$rc $(echo "$out" | grep -E 'tier=' | cut -c1-160)"
  echo "$out" | grep -E '^VIOLATION|UNDECIDED|CRASH|canar' | head -8
done

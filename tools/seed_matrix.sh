#!/bin/sh
# tools/seed_matrix.sh [ids...] : run each seeded change against its property's check on a scratch worktree
# (VERIF_REPO), never touching /repo or the committed evidence.  Prints "<seed> rc=<rc> <violation keys>".
cd "$(dirname "$0")/.." || exit 3
IDS="$*"; [ -z "$IDS" ] && IDS=$(ls seeded)
run_one() {
  sid=$1; prop=${sid%%-*}; wt=/tmp/sm/$sid
  rm -rf $wt /tmp/sm/out-$sid; mkdir -p /tmp/sm
  git -C /repo worktree add -q --detach $wt HEAD || return
  git -C $wt apply /verif/seeded/$sid/patch.diff || { echo "$sid patch does not apply"; git -C /repo worktree remove --force $wt; return; }
  out=$(VERIF_REPO=$wt VERIF_SCRATCH=/tmp/sm/out-$sid ./check $prop 2>&1); rc=$?
  keys=$(python3 - <<PY
import json,glob
ks=[]
for f in sorted(glob.glob('/tmp/sm/out-$sid/replays/*.json')):
    r=json.load(open(f)); ks.append(r['key'] + ('' if r.get('failing_input') else ' [no-failing-input-found]'))
ded=[]
try:
    ev=json.load(open('/tmp/sm/out-$sid/evidence/$prop.json'))
    for fn in ev['coverage']['functions_under_contract']:
        for o in (fn.get('failed') or []) + (fn.get('undecided') or []):
            ded.append(fn['function'].split('::')[-1] + ':' + o)
        if fn.get('error'):
            ded.append(fn['function'].split('::')[-1] + ':(' + fn['error'].split(':')[0] + ')')
except Exception as ex:
    ded.append('?%s' % ex)
print('DEDUCTIVE[' + '; '.join(ded)[:400] + '] KEYS[' + '; '.join(ks)[:500] + ']')
PY
)
  git -C /repo worktree remove --force $wt; rm -rf /tmp/sm/out-$sid
  echo "$sid rc=$rc $(echo "$out" | grep -E 'tier=' | sed 's/.*: //' | cut -c1-70) | $keys"
}
for s in $IDS; do run_one $s; done

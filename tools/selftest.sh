#!/bin/sh
# engine self-test: known verdicts (true contracts proved, false postconditions refuted) + differential test vs CPython
cd "$(dirname "$0")/.." && ./setup.sh >/dev/null 2>&1 && exec .venv/bin/python -W ignore -m pyvc.selftest.run

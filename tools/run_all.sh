#!/bin/sh
# run every registered check (quick tier by default) and print one line per property
TIER="${1:-quick}"
cd "$(dirname "$0")/.." || exit 3
for p in $(python3 -c "
import json
print(' '.join(c['property_id'] for c in json.load(open('MANIFEST.json'))['checks']))"); do
  out=$(./check $p --tier $TIER 2>&1); rc=$?
  echo "$p rc=$rc $(echo "$out" | grep -E 'tier=' | cut -c1-160)"
  echo "$out" | grep -E '^VIOLATION|UNDECIDED|CRASH' | head -5
done

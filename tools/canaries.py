import sys, importlib, copy; sys.path.insert(0, __import__('os').path.dirname(__import__('os').path.dirname(__import__('os').path.abspath(__file__))))
from pyvc.verify import verify
mod = importlib.import_module('contracts.'+sys.argv[1])
for ct in mod.CONTRACTS:
    if len(sys.argv)>2 and ct.short not in sys.argv[2:]: continue
    for old,new in ct.canary:
        r = verify(ct, mod.CONTRACTS, mutate=(old,new), timeout_ms=4000)
        bad=[o['name'] for o in r.obligations if o['status']!='unsat']
        print(ct.short, '|', old[:40].replace('\n',' '), '->', new[:30].replace('\n',' '), '| caught by', bad[:3], r.error, round(r.wall_s,1))
    c2 = copy.copy(ct); c2.ensures = list(ct.ensures)+["1 == 0"]
    r = verify(c2, mod.CONTRACTS, timeout_ms=4000)
    print(ct.short, '| false post:', [o['status'] for o in r.obligations if o['name']=='post:%d'%len(ct.ensures)], r.error)
